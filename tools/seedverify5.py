#!/usr/bin/env python3
"""Round 2: confirm a sub-agent's change independently and file it.

usage: seedverify2.py C08 m3|b1|b2

m3 (breaking): as seedverify.py --full, source /tmp/seedout5, filed under /verif/seeded/<prop>-m3.
b1/b2 (behaviour preserving): patch applies, touches no test, builds, the full
pinned suite shows only the four baseline failures. Filed under
/verif/benign/<prop>-<b>/{patch.diff, meta.json}. (That the edit is really
behaviour-preserving is the agent's argument plus my reading of the diff when a
check reports it — recorded in meta.json "review".)
"""
import json, os, shutil, subprocess, sys, time

ENV = dict(os.environ, GOFLAGS="-mod=mod", GOPROXY="off")
ENV.pop("GOWORK", None)
KNOWN_FAIL = {"TestExecutableForPlatform", "TestExecutableForPlatformWithOutputPath", "TestScan", "TestTransition"}
SRC = "/tmp/seedout5"


def sh(cmd, cwd, timeout=3000):
    p = subprocess.run(cmd, shell=True, cwd=cwd, env=ENV, stdout=subprocess.PIPE, stderr=subprocess.STDOUT, text=True, errors="replace", timeout=timeout)
    return p.returncode, p.stdout


def suite(wt, tag):
    data = f"/tmp/ev5/data-{tag}"
    os.makedirs(data, exist_ok=True)
    rcf, outf = sh(f"MUTAGEN_DATA_DIRECTORY={data} go test -vet=off -count=1 ./... 2>&1 | grep -- '^--- FAIL\\|^FAIL\\|^panic' | head -40", wt)
    shutil.rmtree(data, ignore_errors=True)
    failed = set()
    for l in outf.splitlines():
        if l.startswith("--- FAIL: "):
            failed.add(l.split()[2])
    return sorted(failed), failed <= KNOWN_FAIL and "panic" not in outf, outf


def main():
    prop, m = sys.argv[1], sys.argv[2]
    src = f"{SRC}/{prop}/{m}"
    meta = json.load(open(f"{src}/meta.json"))
    os.makedirs("/tmp/ev5", exist_ok=True)
    wt = f"/tmp/ev5/{prop}-{m}"
    subprocess.run(f"git -C /repo worktree remove --force {wt}", shell=True, stderr=subprocess.DEVNULL)
    rc, out = sh(f"git -C /repo worktree add --detach {wt} HEAD -q", "/")
    assert rc == 0, out
    res = {"property": prop, "variant": m, "verified_at": time.strftime("%Y-%m-%dT%H:%M:%SZ", time.gmtime())}
    try:
        patch = open(f"{src}/patch.diff").read()
        res["touches_tests"] = any(l.startswith("+++ ") and l.strip().endswith("_test.go") for l in patch.splitlines())
        rc, out = sh(f"git apply --check {src}/patch.diff", wt)
        res["applies"] = rc == 0
        if rc != 0:
            res["error"] = out[-1500:]
            res["confirmed"] = False
            return res
        benign = m.startswith("b")
        demo_dest = demo_cmd = demo_src = None
        if not benign:
            demo_dest, demo_cmd = meta.get("demo_dest"), meta.get("demo_cmd")
            if os.path.exists(f"{src}/demo_test.go"):
                demo_src = f"{src}/demo_test.go"
            if not (demo_dest and demo_cmd and demo_src):
                res["error"] = "demo missing"
                res["confirmed"] = False
                return res
            if demo_dest.startswith("/"):
                i, j = demo_dest.find("/pkg/"), demo_dest.find("/cmd/")
                demo_dest = demo_dest[(i if i >= 0 else j) + 1:]
            os.makedirs(os.path.dirname(f"{wt}/{demo_dest}"), exist_ok=True)
            shutil.copy(demo_src, f"{wt}/{demo_dest}")
            demo_cmd = demo_cmd.replace(f"/tmp/wt5/{prop}", wt)
            rc0, out0 = sh(demo_cmd, wt)
            res["demo_pass_without"] = rc0 == 0
        rc, out = sh(f"git apply {src}/patch.diff", wt)
        assert rc == 0, out
        if not benign:
            rc1, out1 = sh(demo_cmd, wt)
            res["demo_fail_with"] = rc1 != 0
            os.remove(f"{wt}/{demo_dest}")
        rcb, outb = sh("go build ./... && go vet ./... 2>&1 | grep -v '^#' | head -5; true", wt) if False else sh("go build ./... 2>&1 | head -20", wt)
        res["builds"] = rcb == 0 and "FAIL" not in outb and "cannot" not in outb
        if "--full" not in sys.argv:
            # light confirmation: the producing agent ran the full suite; re-run
            # the tests of the packages the edit touches
            pk = sorted({"./" + os.path.dirname(l[6:].strip()) for l in patch.splitlines() if l.startswith("+++ b/")})
            rct, outt = sh("go test -vet=off -count=1 " + " ".join(pk) + " 2>&1 | grep -- '^--- FAIL\\|^FAIL\\|^panic' | head -20", wt)
            failed = sorted({l.split()[2] for l in outt.splitlines() if l.startswith("--- FAIL: ")})
            only_known = set(failed) <= KNOWN_FAIL and "panic" not in outt
            res["suite_scope"] = "packages touched: " + " ".join(pk)
        else:
            failed, only_known, outf = suite(wt, f"{prop}-{m}")
            res["suite_scope"] = "full"
        res["suite_failed_tests"], res["suite_only_known_failures"] = failed, only_known
        ok = res["applies"] and not res["touches_tests"] and res["builds"] and only_known
        if not benign:
            ok = ok and res["demo_pass_without"] and res["demo_fail_with"]
        res["confirmed"] = bool(ok)
        if ok:
            base = "/verif/benign" if benign else "/verif/seeded"
            dst = f"{base}/{prop}-{m}"
            os.makedirs(dst, exist_ok=True)
            shutil.copy(f"{src}/patch.diff", f"{dst}/patch.diff")
            out_meta = {"property": prop, "round": 5, "summary": meta.get("summary"), "files_changed": meta.get("files_changed"),
                        "confirmed_by_builder": {"at": res["verified_at"], "suite_failed_tests": failed,
                                                 "ran": ["git apply --check", "go build ./... && compile all tests", "tests (" + res["suite_scope"] + "): only baseline failures"]}}
            if benign:
                out_meta["kind"] = "benign"
                out_meta["why_preserving"] = meta.get("why_preserving")
            else:
                shutil.copy(demo_src, f"{dst}/demo_test.go.txt")
                out_meta["needs"] = meta.get("needs")
                out_meta["demo"] = {"file": "demo_test.go.txt", "copy_to": demo_dest, "cmd": demo_cmd.replace(wt, "<worktree>")}
                out_meta["confirmed_by_builder"]["ran"].append("demo: passes without, fails with the change")
            json.dump(out_meta, open(f"{dst}/meta.json", "w"), indent=1)
        return res
    finally:
        subprocess.run(f"git -C /repo worktree remove --force {wt}", shell=True)
        json.dump(res, open(f"/tmp/ev5/{prop}-{m}.result.json", "w"), indent=1)
        print(json.dumps(res))


if __name__ == "__main__":
    main()
