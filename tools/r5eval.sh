#!/bin/bash
# usage: r5eval.sh C14 m6|b5   — first-run result of the owning property's quick check on a round-5 change
P=$1; V=$2; SRC=/tmp/seedout5/$P/$V/patch.diff
[ -f "$SRC" ] || { echo "$P-$V: no patch"; exit 0; }
out=$(/verif/bin/verif-sa check -prop $P -tier quick -patch $SRC 2>&1)
f=$(echo "$out" | grep -c '^  FAIL'); u=$(echo "$out" | grep -c 'UNDECIDED'); pass=$(echo "$out" | grep -c '^PASS')
first=$(echo "$out" | grep -m1 '^  FAIL\|UNDECIDED' | cut -c1-220)
echo "$P-$V fail=$f undecided=$u pass=$pass :: $first" | tee -a /verif/seeded/round5-first-run.txt
