#!/usr/bin/env python3
"""Round-5 sub-agent prompt (m6 + b5); derived from the round-4 prompt. Round-2 sub-agent prompt for one property: one more breaking change (m3) at a
site the first round did not use, and two behaviour-PRESERVING edits (b1, b2) of
the anchored code, used to measure false alarms. Only the property text, the
sites already used, and scratch paths are given — nothing from /verif's checks."""
import json, os, sys
pid = sys.argv[1]
for l in open('/verif/properties.jsonl'):
    p = json.loads(l)
    if p['id'] == pid:
        break
else:
    sys.exit("no such property")
used = []
for m in ("m1", "m2", "m3", "m4", "m5"):
    f = f"/verif/seeded/{pid}-{m}/meta.json"
    if os.path.exists(f):
        meta = json.load(open(f))
        s = (meta.get("summary") or "")
        used.append(f"- {m}: " + " ".join(s.split())[:300])

bused = []
for b in ("b1", "b2", "b3", "b4"):
    f = f"/verif/benign/{pid}-{b}/meta.json"
    if os.path.exists(f):
        meta = json.load(open(f))
        bused.append(f"- {b}: " + " ".join((meta.get("summary") or "").split())[:260])
wt = f"/tmp/wt5/{pid}"
out = f"/tmp/seedout5/{pid}"
print(f"""You are helping to evaluate a verification effort for the Go project mutagen-io/mutagen (file synchronization / forwarding tool). The verifiers claim their checks (a) notice source changes that break a semantic property and (b) stay silent on source changes that keep it. You produce test material for the first claim, for ONE property. You do not see the checks.

## The property

{json.dumps(p, indent=1)}

## Your deliverable

Work ONLY in the scratch git worktree {wt} (detached checkout of the current HEAD). Never touch /repo or /verif (do not read /verif). Never use `git stash`, `git commit`, `git branch` or anything that writes refs. Leave the worktree clean when done (`git -C {wt} checkout -- .`, remove untracked files). Results go under {out}/ (create it).

### m6 — one property-BREAKING change
A realistic source change that breaks the property above while the project still compiles and its existing tests still pass, and that needs something specific to manifest (particular interleaving, fault point, multi-step sequence, unusual input, two cooperating sites) — the kind of regression a plausible refactor, optimisation, feature addition or cleanup introduces. Five such changes already exist; yours must attack a DIFFERENT function / mechanism than these, and should be of a different KIND (if they weakened a guard, you might reorder effects, mis-wire an argument, break an invariant between two functions, mishandle an error path, introduce state that goes stale, add a cache or fast path, change a data structure, batch or coalesce work, move work to another goroutine, etc.). Prefer a change where two sites that each look fine alone cooperate to break the property, or where a particular interleaving / fault point / multi-step history is needed:
{chr(10).join(used) if used else "- (none recorded)"}
Deliver in {out}/m6/: patch.diff (`git diff` of non-test source only, applies with `git apply` on a clean checkout), demo_test.go (a Go test that FAILS with the change and PASSES without; white-box in-package is fine), meta.json = {{"property": "{pid}", "summary": "...", "needs": "...", "demo_dest": "pkg/.../zz_seed_demo_test.go", "demo_cmd": "export GOFLAGS=-mod=mod GOPROXY=off; unset GOWORK; go test -vet=off -count=1 -run '^TestName$' ./pkg/...", "files_changed": [...]}}.

### b5 — one property-PRESERVING edit
One realistic edit to the code the property is anchored in (the functions named under "anchors" and their immediate helpers) that a maintainer might make and that do NOT change whether the property holds: the observable behaviour relevant to the property is identical for every input, schedule and fault. Aim for edits that genuinely touch the logic a checker would look at, not comments only. Such edits already exist (below); make yours of a DIFFERENT kind and at a different place. Kinds to choose from: rename locals/parameters/unexported functions or fields (updating all uses); reorder two independent statements or two independent struct-literal fields; if/else-if chain <-> switch; invert a condition and swap branches; De Morgan rewrites; early-return <-> nested form; hoist a repeated sub-expression into a local or inline a single-use local; replace a hand-written loop by an equivalent standard-library call (or the reverse); `for i := range` <-> index loop; named results <-> explicit returns; defer <-> explicit cleanup on every path (only if truly equivalent); add a debug log line / metrics counter; change an error MESSAGE text; add a redundant-but-harmless defensive check; split a function's long condition into named booleans; move a constant into a named const. AVOID merely extracting a block into a new helper function (already covered). 5-40 changed lines; it must compile and the full existing test suite must pass.
{chr(10).join(bused) if bused else "- (none recorded)"}
Deliver in {out}/b5/: patch.diff and meta.json = {{"property": "{pid}", "kind": "benign", "summary": "what was edited", "why_preserving": "one-paragraph argument that behaviour relevant to the property is unchanged for all inputs/schedules", "files_changed": [...]}}.

## Requirements
1. `go build ./... && go test -count=1 -run '^$' ./...` succeed with the change.
2. `go test -vet=off -count=1 ./pkg/... ./cmd/...` with the change: FOUR tests fail already on the unchanged tree and may be ignored (pkg/agent TestExecutableForPlatform, TestExecutableForPlatformWithOutputPath; pkg/synchronization/core TestScan, TestTransition). Nothing else may fail.
3. No test files in patch.diff, no build tags, no new dependencies.
4. For m6 verify yourself: demo fails with the change, passes without. For b5: re-read your diff and make sure it is truly behaviour-preserving (no changed constant, bound, order of side effects, lock scope, error/return value, or condition strength).

## Environment
Offline sandbox. Before go commands: `export GOFLAGS=-mod=mod GOPROXY=off; unset GOWORK` (do NOT set GOSUMDB=off or GOTOOLCHAIN=local). Linux/amd64, 16 cores; other agents run concurrently, so prefer package-level test runs while iterating and one full run per change at the end.

Reply with a short summary of m6 and b5 (files, what breaks, what it needs, verification done).""")
