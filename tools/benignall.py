#!/usr/bin/env python3
"""Apply every kept behaviour-preserving edit in /verif/benign to /repo in turn,
run the owning property's quick check (plus every other property whose packages
the edit touches, with --wide), undo, and record whether the checks stayed silent.

usage: benignall.py [--wide] [name-prefix ...]   writes /verif/benign/RESULTS.json
"""
import json, os, re, subprocess, sys

BASE = "/verif/benign"


def sh(cmd):
    return subprocess.run(cmd, shell=True, capture_output=True, text=True, errors="replace")


def main():
    args = [a for a in sys.argv[1:] if not a.startswith("--")]
    wide = "--wide" in sys.argv
    if sh("git -C /repo status --porcelain").stdout.strip():
        print("repo dirty")
        return 2
    path = os.path.join(BASE, "RESULTS.json")
    results = json.load(open(path)) if (args and os.path.exists(path)) else {}
    for name in sorted(os.listdir(BASE)):
        d = os.path.join(BASE, name)
        patch = os.path.join(d, "patch.diff")
        if not os.path.isfile(patch):
            continue
        if args and not any(name.startswith(a) for a in args):
            continue
        prop = re.match(r"(C\d\d)", name).group(1)
        props = "all" if wide else prop
        # the edit is applied in memory (overlay); /repo is not modified
        r = sh(f"/verif/bin/verif-sa check -prop {props} -tier quick -patch {patch}")
        if r.returncode == 2:
            results[name] = {"property": prop, "applies": False}
            print(name, "DOES NOT APPLY")
            continue
        fails = re.findall(r"^  FAIL (\S+) (\S+) \[([^\]]+)\]", r.stdout, re.M)
        undec = re.findall(r"^  UNDECIDED (.*)$", r.stdout, re.M)
        viol = re.findall(r"^VIOLATION property=(\S+)", r.stdout, re.M)
        silent = r.returncode == 0 and not viol
        results[name] = {"property": prop, "checked_with": props, "silent": silent, "alarmed": viol,
                         "rules": sorted({f"{a}:{c}" for a, b, c in fails}), "undecided": undec[:5]}
        print(name, "silent" if silent else "ALARM " + ",".join(viol) + " " + "; ".join(results[name]["rules"])[:220] + " " + "; ".join(undec)[:200])
    json.dump(results, open(path, "w"), indent=1, sort_keys=True)
    print("alarms:", [n for n, r in results.items() if r.get("applies", True) and not r["silent"]])
    return 0


if __name__ == "__main__":
    sys.exit(main())
