#!/usr/bin/env python3
"""Round-2 sub-agent prompt for one property: one more breaking change (m3) at a
site the first round did not use, and two behaviour-PRESERVING edits (b1, b2) of
the anchored code, used to measure false alarms. Only the property text, the
sites already used, and scratch paths are given — nothing from /verif's checks."""
import json, os, sys
pid = sys.argv[1]
for l in open('/verif/properties.jsonl'):
    p = json.loads(l)
    if p['id'] == pid:
        break
else:
    sys.exit("no such property")
used = []
for m in ("m1", "m2", "m3"):
    f = f"/verif/seeded/{pid}-{m}/meta.json"
    if os.path.exists(f):
        meta = json.load(open(f))
        s = (meta.get("summary") or "")
        used.append(f"- {m}: " + " ".join(s.split())[:300])
wt = f"/tmp/wt3/{pid}"
out = f"/tmp/seedout3/{pid}"
print(f"""You are helping to evaluate a verification effort for the Go project mutagen-io/mutagen (file synchronization / forwarding tool). The verifiers claim their checks (a) notice source changes that break a semantic property and (b) stay silent on source changes that keep it. You produce test material for the first claim, for ONE property. You do not see the checks.

## The property

{json.dumps(p, indent=1)}

## Your deliverable

Work ONLY in the scratch git worktree {wt} (detached checkout of the current HEAD). Never touch /repo or /verif (do not read /verif). Never use `git stash`, `git commit`, `git branch` or anything that writes refs. Leave the worktree clean when done (`git -C {wt} checkout -- .`, remove untracked files). Results go under {out}/ (create it).

### m4 — one property-BREAKING change
A realistic source change that breaks the property above while the project still compiles and its existing tests still pass, and that needs something specific to manifest (particular interleaving, fault point, multi-step sequence, unusual input, two cooperating sites) — the kind of regression a plausible refactor, optimisation, feature addition or cleanup introduces. Three such changes already exist; yours must attack a DIFFERENT function / mechanism than these, and should be of a different KIND (if they weakened a guard, you might reorder effects, mis-wire an argument, break an invariant between two functions, mishandle an error path, introduce state that goes stale, etc.):
{chr(10).join(used) if used else "- (none recorded)"}
Deliver in {out}/m4/: patch.diff (`git diff` of non-test source only, applies with `git apply` on a clean checkout), demo_test.go (a Go test that FAILS with the change and PASSES without; white-box in-package is fine), meta.json = {{"property": "{pid}", "summary": "...", "needs": "...", "demo_dest": "pkg/.../zz_seed_demo_test.go", "demo_cmd": "export GOFLAGS=-mod=mod GOPROXY=off; unset GOWORK; go test -vet=off -count=1 -run '^TestName$' ./pkg/...", "files_changed": [...]}}.

## Requirements
1. `go build ./... && go test -count=1 -run '^$' ./...` succeed with the change.
2. `go test -vet=off -count=1 ./pkg/... ./cmd/...` with the change: FOUR tests fail already on the unchanged tree and may be ignored (pkg/agent TestExecutableForPlatform, TestExecutableForPlatformWithOutputPath; pkg/synchronization/core TestScan, TestTransition). Nothing else may fail.
3. No test files in patch.diff, no build tags, no new dependencies.
4. Verify yourself: demo fails with the change, passes without.

## Environment
Offline sandbox. Before go commands: `export GOFLAGS=-mod=mod GOPROXY=off; unset GOWORK` (do NOT set GOSUMDB=off or GOTOOLCHAIN=local). Linux/amd64, 16 cores; other agents run concurrently, so prefer package-level test runs while iterating and one full run per change at the end.

Reply with a short summary of m4 (files, what breaks, what it needs, verification done).""")
