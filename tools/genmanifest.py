#!/usr/bin/env python3
"""Regenerate /verif/MANIFEST.json from the checker's registry (verif-sa list -json)
and /verif/not_applicable.json (reasons for unclaimed properties)."""
import json, subprocess, sys

reg = json.loads(subprocess.check_output(["/verif/bin/verif-sa", "list", "-json"], text=True))
props = [json.loads(l) for l in open("/verif/properties.jsonl")]
try:
    na = json.load(open("/verif/not_applicable.json"))
except FileNotFoundError:
    na = {}

claimed = {r["id"]: r for r in reg}
checks = []
not_app = []
for p in props:
    pid = p["id"]
    if pid in claimed:
        r = claimed[pid]
        checks.append({
            "property_id": pid,
            "quick_cmd": f"/verif/check {pid} quick",
            "thorough_cmd": f"/verif/check {pid} thorough",
            "evidence_file": f"/verif/evidence/{pid}.json",
            "replay_cmd_template": f"/verif/check {pid} quick  # re-decides the property on /repo; {{path}} lists the violating constructs",
            "engine": "verif-sa",
            "level_claimed": {
                "category": "other",
                "text": "Static analysis of /repo's current source (type-checked, lowered to SSA on every run): structural necessary conditions of the property decided on every control-flow path / call site of the anchored functions. " + r["explanation"],
                "design_ref": "DESIGN.md section 4, " + pid,
            },
            "level_note": "Trusted base: go/types, go/ssa (x/tools v0.29.0), the rule tables in /verif/sa/rules, and the leaf semantics stated as assumptions: " + "; ".join(r["assumptions"] or ["none beyond the Go language semantics"]),
            "technique": r.get("technique") or "static analysis: SSA dominating-guard / path-enumeration / effect rules specific to this repository",
        })
    else:
        reason = na.get(pid, "static check not built yet (work in progress; DESIGN.md section 4 describes the planned rule)")
        not_app.append({"property_id": pid, "reason": reason})

m = {
    "version": 1,
    "setup_cmd": "cd /verif/sa && GOFLAGS=-mod=mod GOPROXY=off go build -o /verif/bin/verif-sa ./cmd/verif-sa",
    "hooks": {
        "guard": "verif",
        "enable": "no hooks: the checks analyse /repo's source as it is (default build tags); nothing in /repo is built with a verification tag",
        "baseline_off_cmd": "cd /repo && GOFLAGS=-mod=mod GOPROXY=off go test -json -vet=off -count=1 -timeout 25m ./...",
        "source_commits": [],
        "add_only": True,
    },
    "engines": [{
        "name": "verif-sa",
        "path": "/verif/sa",
        "serves_properties": sorted(claimed),
        "kind_free_text": "repository-specific static analyser over go/packages + go/ssa: dominating guards (must-analysis), bounded path enumeration, effects/who-may-write, value provenance, table extraction",
    }],
    "checks": checks,
    "not_applicable": not_app,
    "notes": "Every check is static analysis only; see DESIGN.md. Known findings: /verif/known_findings.json.",
}
json.dump(m, open("/verif/MANIFEST.json", "w"), indent=1)
print(f"claimed={len(checks)} not_applicable={len(not_app)}")
