#!/usr/bin/env python3
import json,sys
for l in open('/verif/properties.jsonl'):
    p=json.loads(l)
    if p['id'] in sys.argv[1:]:
        print(p['id'],p['title']); print(' S:',p['statement']); print(' Q:',p['quantifier']['text']); 
        for m in p['anchors']['mechanism']: print(' M:',m['name'],'@',m['where'])
        for m in p['anchors'].get('state',[]): print(' St:',m)
