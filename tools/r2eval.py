#!/usr/bin/env python3
"""Evaluate round-2 deliverables (unverified or verified) with the in-memory
-patch mode: /repo is never touched, so this can run while agents work.

usage: r2eval.py [-j N] [--src DIR] [name ...]     name = C07/b1, C07, ...
Prints one line per deliverable and writes /tmp/r2eval.json.
"""
import json, os, re, subprocess, sys
from concurrent.futures import ThreadPoolExecutor

SRC = "/tmp/seedout2"
J = 4
args = sys.argv[1:]
names = []
while args:
    a = args.pop(0)
    if a == "-j":
        J = int(args.pop(0))
    elif a == "--src":
        SRC = args.pop(0)
    else:
        names.append(a)


def run(item):
    prop, var = item
    d = f"{SRC}/{prop}/{var}"
    r = subprocess.run(f"/verif/bin/verif-sa check -prop {prop} -tier quick -patch {d}/patch.diff", shell=True, capture_output=True, text=True, errors="replace")
    fails = re.findall(r"^  FAIL (\S+) \S+ \[([^\]]+)\]", r.stdout, re.M)
    undec = re.findall(r"^  UNDECIDED (.*)$", r.stdout, re.M)
    viol = "VIOLATION" in r.stdout
    err = r.stderr.strip()[-200:] if r.returncode == 2 else ""
    return prop, var, viol, sorted({f"{a}:{b}" for a, b in fails}), undec, err


items = []
for prop in sorted(os.listdir(SRC)):
    for var in sorted(os.listdir(f"{SRC}/{prop}")):
        d = f"{SRC}/{prop}/{var}"
        if not (os.path.exists(f"{d}/patch.diff") and os.path.exists(f"{d}/meta.json")):
            continue
        if names and not any(n == prop or n == f"{prop}/{var}" for n in names):
            continue
        items.append((prop, var))
out = {}
if os.path.exists("/tmp/r2eval.json"):
    out = json.load(open("/tmp/r2eval.json"))
with ThreadPoolExecutor(J) as ex:
    for prop, var, viol, rules, undec, err in ex.map(run, items):
        kind = "benign" if var.startswith("b") else "breaking"
        good = (not viol) if kind == "benign" else viol
        out[f"{prop}/{var}"] = {"kind": kind, "reported": viol, "as_wanted": good and not err, "rules": rules, "undecided": undec[:3], "error": err}
        tag = "ok  " if good and not err else ("FALSE-ALARM" if kind == "benign" else "MISSED")
        print(f"{prop}/{var:3} {kind:8} {tag} {'; '.join(rules)[:160]} {'; '.join(undec)[:120]} {err}", flush=True)
json.dump(out, open("/tmp/r2eval.json", "w"), indent=1, sort_keys=True)
b = [v for v in out.values() if v["kind"] == "benign"]
m = [v for v in out.values() if v["kind"] == "breaking"]
print(f"benign silent {sum(v['as_wanted'] for v in b)}/{len(b)}; breaking reported {sum(v['as_wanted'] for v in m)}/{len(m)}")
