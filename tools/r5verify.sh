#!/bin/bash
mkdir -p /tmp/ev5
printf '%s\n' "$@" | xargs -P 8 -I{} sh -c 'python3 /verif/tools/seedverify5.py {} m6 > /tmp/ev5/{}-m6.log 2>&1; python3 /verif/tools/seedverify5.py {} b5 > /tmp/ev5/{}-b5.log 2>&1'
