#!/bin/bash
# usage: r5verify.sh C01 C02 ...   — confirm m6 (full suite) and b5 (light) for the given properties, 4 at a time
mkdir -p /tmp/ev5
printf '%s\n' "$@" | xargs -P 4 -I{} sh -c 'python3 /verif/tools/seedverify5.py {} m6 > /tmp/ev5/{}-m6.log 2>&1; python3 /verif/tools/seedverify5.py {} b5 > /tmp/ev5/{}-b5.log 2>&1'
