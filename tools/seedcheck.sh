#!/bin/bash
# usage: seedcheck.sh <patch.diff> <prop[,prop]>  — apply a seeded change to /repo, run the checks, undo.
set -u
P="$1"; ID="$2"
cd /repo || exit 2
if [ -n "$(git status --porcelain)" ]; then echo "repo dirty"; exit 2; fi
git apply "$P" || { echo "patch does not apply"; exit 2; }
/verif/check "$ID" quick > /tmp/seedcheck.out 2>&1; rc=$?
git checkout -- . ; git clean -fdq
grep -v "^   rule" /tmp/seedcheck.out | grep "FAIL\|UNDECIDED\|PASS\|VIOLATION" | cut -c1-${COLS:-260}
exit $rc
