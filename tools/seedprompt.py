#!/usr/bin/env python3
"""Print the sub-agent prompt for one property (only the property text + scratch paths)."""
import json, sys
pid = sys.argv[1]
for l in open('/verif/properties.jsonl'):
    p = json.loads(l)
    if p['id'] == pid:
        break
else:
    sys.exit("no such property")
wt = f"/tmp/wt/{pid}"
out = f"/tmp/seedout/{pid}"
print(f"""You are helping to evaluate a verification effort for the Go project mutagen-io/mutagen (file synchronization / forwarding tool). Your job: craft TWO independent, realistic source changes ("seeded bugs") to the project, each of which BREAKS the semantic property below while the project still compiles and its existing test suite still passes, and for each one a demonstration (a Go test or small program) that FAILS with the change applied and PASSES without it.

## The property

{json.dumps(p, indent=1)}

## Where to work

- A scratch git worktree of the repository is at {wt} (branch-less checkout of the current HEAD). Work ONLY there. Never touch /repo or /verif (do not even read /verif).
- Put your results in {out}/m1/ and {out}/m2/ (create them): 
  - patch.diff   : `git -C {wt} diff` of ONLY the change to non-test source files (the seeded bug), applicable with `git apply` on a clean checkout.
  - demo_test.go (or a directory demo/ with a main package) : the demonstration. State in meta.json the package directory it must be copied into (e.g. pkg/synchronization/core/zz_seed_demo_test.go) and the exact `go test -run ... ./pkg/...` command.
  - meta.json    : {{"property": "{pid}", "summary": "...what the change does...", "needs": "...what specific circumstance is needed for the breakage to manifest...", "demo_dest": "...", "demo_cmd": "...", "files_changed": [...]}}
- Never use `git stash`, `git commit`, `git branch` or anything else that writes refs (the ref store is shared).
- Leave the worktree clean when done (git -C {wt} checkout -- . ; remove untracked demo files), results live only under {out}.

## Requirements for each change

1. It must compile (`go build ./...` and `go vet` are not required to be clean, but `go build ./... && go test -count=1 -run '^$' ./...` must succeed).
2. The existing tests must still pass: run `go test -vet=off -count=1 ./pkg/... ./cmd/...` in the worktree with the change applied. FOUR tests fail already on the unchanged tree in this sandbox and may be ignored: pkg/agent TestExecutableForPlatform, TestExecutableForPlatformWithOutputPath, pkg/synchronization/core TestScan, TestTransition. Nothing else may fail. (If your change touches code those two core tests cover, compare their failure output before/after to be sure you add no new failures.)
3. It must genuinely break the stated property (observable behaviour), not just an internal detail.
4. It must need something SPECIFIC to manifest — a particular interleaving, a crash or fault at a particular point, a multi-step sequence of operations, an unusual input, or two cooperating sites that each look fine alone — NOT something ordinary use would expose at once. Think of the kind of regression a plausible refactor, optimisation or "cleanup" would introduce: a dropped check on one branch, a guard weakened, an off-by-one at a boundary, an error swallowed on a rare path, a lock released early, a field not copied, validation reordered after use, a wrong constant, swapped arguments of the same type, and so on.
5. The two changes (m1, m2) must attack DIFFERENT mechanisms/sites of the property (different functions where possible).
6. Keep each change small (a few lines). Do not change test files in patch.diff. Do not add build tags.
7. The demonstration must fail (non-zero exit) with the change and pass on the unchanged tree; verify both yourself and record the commands in meta.json. The demo may be a white-box test inside the package.

## Environment

- Offline sandbox. Use exactly: `export GOFLAGS=-mod=mod GOPROXY=off; unset GOWORK` before go commands (do NOT set GOSUMDB=off or GOTOOLCHAIN=local — the repo needs the go1.25 toolchain via the default auto switch). Nothing can be downloaded.
- Linux/amd64, 16 cores. Be economical: read the anchored files, pick the sites, make the change, run the relevant package tests first, then the full `./pkg/... ./cmd/...` run once per change.

When finished, reply with a short summary: for m1 and m2, the files changed, what breaks and what it needs to manifest, and confirmation that you verified (a) build, (b) existing tests pass, (c) demo fails with / passes without.""")
