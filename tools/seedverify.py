#!/usr/bin/env python3
"""Confirm a sub-agent's seeded change independently and file it under /verif/seeded.

usage: seedverify.py C08 m1 [--full]

Steps (all in a scratch worktree under /tmp/ev, removed afterwards):
  1. patch applies to HEAD, touches no test file
  2. go build ./... and compile all tests (-run '^$') with the patch
  3. demo fails with the patch, passes without it
  4. (--full) the whole existing suite with the patch: only the 4 known-failing tests fail
Result: /verif/seeded/<prop>-<m>/{patch.diff, demo file, meta.json}
"""
import json, os, shutil, subprocess, sys, time

ENV = dict(os.environ, GOFLAGS="-mod=mod", GOPROXY="off")
ENV.pop("GOWORK", None)
KNOWN_FAIL = {"TestExecutableForPlatform", "TestExecutableForPlatformWithOutputPath", "TestScan", "TestTransition"}


def sh(cmd, cwd, timeout=1800):
    p = subprocess.run(cmd, shell=True, cwd=cwd, env=ENV, stdout=subprocess.PIPE, stderr=subprocess.STDOUT, text=True, timeout=timeout)
    return p.returncode, p.stdout


def main():
    prop, m = sys.argv[1], sys.argv[2]
    full = "--full" in sys.argv
    src = f"/tmp/seedout/{prop}/{m}"
    meta = json.load(open(f"{src}/meta.json"))
    wt = f"/tmp/ev/{prop}-{m}"
    os.makedirs("/tmp/ev", exist_ok=True)
    subprocess.run(f"git -C /repo worktree remove --force {wt}", shell=True, stderr=subprocess.DEVNULL)
    rc, out = sh(f"git -C /repo worktree add --detach {wt} HEAD -q", "/")
    assert rc == 0, out
    res = {"property": prop, "variant": m, "agent_meta": meta, "verified_at": time.strftime("%Y-%m-%dT%H:%M:%SZ", time.gmtime())}
    try:
        patch = open(f"{src}/patch.diff").read()
        res["touches_tests"] = any(l.startswith("+++ ") and l.strip().endswith("_test.go") for l in patch.splitlines())
        rc, out = sh(f"git apply --check {src}/patch.diff", wt)
        res["applies"] = rc == 0
        if rc != 0:
            res["error"] = out[-2000:]
            return res
        demo_dest = meta.get("demo_dest")
        demo_cmd = meta.get("demo_cmd")
        demo_src = None
        for cand in ("demo_test.go",):
            if os.path.exists(f"{src}/{cand}"):
                demo_src = f"{src}/{cand}"
        if not (demo_dest and demo_cmd and demo_src):
            res["error"] = "demo missing in meta"
            return res
        if demo_dest.startswith("/"):
            # agents sometimes give an absolute path inside their worktree
            i = demo_dest.find("/pkg/")
            j = demo_dest.find("/cmd/")
            k = i if i >= 0 else j
            demo_dest = demo_dest[k + 1:]
        os.makedirs(os.path.dirname(f"{wt}/{demo_dest}"), exist_ok=True)
        shutil.copy(demo_src, f"{wt}/{demo_dest}")
        demo_cmd = demo_cmd.replace(f"/tmp/wt/{prop}", wt)
        # without the patch
        rc0, out0 = sh(demo_cmd, wt)
        res["demo_pass_without"] = rc0 == 0
        res["demo_skipped_without"] = "SKIP" in out0 and "--- SKIP" in out0
        # with the patch
        rc, out = sh(f"git apply {src}/patch.diff", wt)
        assert rc == 0, out
        rc1, out1 = sh(demo_cmd, wt)
        res["demo_fail_with"] = rc1 != 0
        res["demo_output_with"] = out1[-1500:]
        rcb, outb = sh("go build ./... && go test -vet=off -count=1 -run '^$' ./... 2>&1 | grep -v '^ok\\|no test files' | head -20", wt)
        res["builds"] = rcb == 0 and "FAIL" not in outb and "cannot" not in outb
        if not res["builds"]:
            res["build_output"] = outb[-1500:]
        if full:
            os.remove(f"{wt}/{demo_dest}")
            data = f"/tmp/ev/data-{prop}-{m}"
            os.makedirs(data, exist_ok=True)
            rcf, outf = sh(f"MUTAGEN_DATA_DIRECTORY={data} go test -vet=off -count=1 ./... 2>&1 | grep -- '^--- FAIL\\|^FAIL\\|^panic' | head -40", wt, timeout=3000)
            shutil.rmtree(data, ignore_errors=True)
            failed = set()
            for l in outf.splitlines():
                if l.startswith("--- FAIL: "):
                    failed.add(l.split()[2])
            res["suite_failed_tests"] = sorted(failed)
            res["suite_only_known_failures"] = failed <= KNOWN_FAIL and "panic" not in outf
        res["demo_dest"] = demo_dest
        res["demo_cmd"] = demo_cmd.replace(wt, "<worktree>")
        ok = res["applies"] and not res["touches_tests"] and res["builds"] and res["demo_pass_without"] and res["demo_fail_with"] and (not full or res["suite_only_known_failures"])
        res["confirmed"] = bool(ok)
        if ok:
            dst = f"/verif/seeded/{prop}-{m}"
            os.makedirs(dst, exist_ok=True)
            shutil.copy(f"{src}/patch.diff", f"{dst}/patch.diff")
            shutil.copy(demo_src, f"{dst}/demo_test.go.txt")
            out_meta = {
                "property": prop,
                "summary": meta.get("summary"),
                "needs": meta.get("needs"),
                "files_changed": meta.get("files_changed"),
                "demo": {"file": "demo_test.go.txt", "copy_to": demo_dest, "cmd": res["demo_cmd"]},
                "confirmed_by_builder": {
                    "at": res["verified_at"],
                    "ran": [
                        "git apply --check patch.diff (scratch worktree of /repo HEAD)",
                        "go build ./... && go test -vet=off -count=1 -run '^$' ./...  (with patch)",
                        "demo cmd without patch: exit 0; with patch: exit != 0",
                    ] + (["go test -vet=off -count=1 ./... with patch: only the 4 baseline-excluded tests fail"] if full else []),
                    "suite_failed_tests": res.get("suite_failed_tests"),
                },
            }
            json.dump(out_meta, open(f"{dst}/meta.json", "w"), indent=1)
        return res
    finally:
        subprocess.run(f"git -C /repo worktree remove --force {wt}", shell=True)
        json.dump(res, open(f"/tmp/ev/{prop}-{m}.result.json", "w"), indent=1)
        print(json.dumps({k: v for k, v in res.items() if k not in ("agent_meta", "demo_output_with")}, indent=None))


if __name__ == "__main__":
    main()
