package eng

import (
	"golang.org/x/tools/go/ssa"
)

// SliceLitElems returns the elements of a slice built from a fixed-size backing
// array cell (the form go/ssa uses for variadic arguments and slice literals):
// v is `slice (alloc [N]T) [:]` and each element is stored once through
// IndexAddr(alloc, const i). Returns nil if v does not have that shape.
func SliceLitElems(v ssa.Value) []ssa.Value {
	v = Unwrap(v)
	sl, ok := v.(*ssa.Slice)
	if !ok {
		return nil
	}
	al, ok := sl.X.(*ssa.Alloc)
	if !ok {
		return nil
	}
	elems := map[int64]ssa.Value{}
	max := int64(-1)
	for _, ref := range *al.Referrers() {
		ia, ok := ref.(*ssa.IndexAddr)
		if !ok {
			continue
		}
		idx, ok := ConstInt64(ia.Index)
		if !ok {
			return nil
		}
		for _, r2 := range *ia.Referrers() {
			if st, ok := r2.(*ssa.Store); ok && st.Addr == ssa.Value(ia) {
				if _, dup := elems[idx]; dup {
					return nil
				}
				elems[idx] = st.Val
				if idx > max {
					max = idx
				}
			}
		}
	}
	out := make([]ssa.Value, max+1)
	for i := range out {
		out[i] = elems[int64(i)]
	}
	return out
}

// AppendElems returns the elements appended by a call to the append builtin
// with explicit elements (append(s, a, b)); nil for append(s, t...).
func AppendElems(call *ssa.Call) []ssa.Value {
	if b, ok := call.Call.Value.(*ssa.Builtin); !ok || b.Name() != "append" || len(call.Call.Args) != 2 {
		return nil
	}
	return SliceLitElems(call.Call.Args[1])
}

// VarargElems returns the variadic elements of a call (the last argument).
func VarargElems(cc *ssa.CallCommon) []ssa.Value {
	if len(cc.Args) == 0 {
		return nil
	}
	return SliceLitElems(cc.Args[len(cc.Args)-1])
}

// ReachesThroughPhis reports whether value `from` can flow into `to` through
// phi edges and append base arguments only (i.e. `to` is `from` possibly
// extended by appends and merged by phis).
func ReachesThroughPhis(from, to ssa.Value) bool {
	seen := map[ssa.Value]bool{}
	var walk func(v ssa.Value) bool
	walk = func(v ssa.Value) bool {
		v = Unwrap(v)
		if v == from {
			return true
		}
		if seen[v] {
			return false
		}
		seen[v] = true
		switch x := v.(type) {
		case *ssa.Phi:
			for _, e := range x.Edges {
				if walk(e) {
					return true
				}
			}
		case *ssa.Call:
			if b, ok := x.Call.Value.(*ssa.Builtin); ok && b.Name() == "append" {
				return walk(x.Call.Args[0])
			}
		}
		return false
	}
	return walk(to)
}
