package eng

import (
	"go/token"
	"go/types"

	"golang.org/x/tools/go/ssa"
)

// EachInstr calls f for every instruction of fn (not descending into closures).
func EachInstr(fn *ssa.Function, f func(ssa.Instruction)) {
	for _, b := range fn.Blocks {
		for _, i := range b.Instrs {
			f(i)
		}
	}
}

// WithClosures returns fn and all anonymous functions nested in it.
func WithClosures(fn *ssa.Function) []*ssa.Function {
	out := []*ssa.Function{fn}
	for _, a := range fn.AnonFuncs {
		out = append(out, WithClosures(a)...)
	}
	return out
}

// Calls returns the call instructions (call, go, defer) in fn.
func Calls(fn *ssa.Function) []ssa.CallInstruction {
	var out []ssa.CallInstruction
	EachInstr(fn, func(i ssa.Instruction) {
		if c, ok := i.(ssa.CallInstruction); ok {
			out = append(out, c)
		}
	})
	return out
}

// CallsTo returns the call instructions in fn whose static callee is target.
func CallsTo(fn *ssa.Function, target *ssa.Function) []ssa.CallInstruction {
	var out []ssa.CallInstruction
	for _, c := range Calls(fn) {
		if Callee(c) == target {
			out = append(out, c)
		}
	}
	return out
}

// CallsNamed returns call instructions in fn whose CalleeName equals name.
func CallsNamed(fn *ssa.Function, name string) []ssa.CallInstruction {
	var out []ssa.CallInstruction
	for _, c := range Calls(fn) {
		if CalleeName(c) == name {
			out = append(out, c)
		}
	}
	return out
}

// InvokesOf returns interface method invocations of the given method name in fn.
func InvokesOf(fn *ssa.Function, method string) []ssa.CallInstruction {
	var out []ssa.CallInstruction
	for _, c := range Calls(fn) {
		if cc := c.Common(); cc.IsInvoke() && cc.Method.Name() == method {
			out = append(out, c)
		}
	}
	return out
}

// FieldStore describes a store to a struct field.
type FieldStore struct {
	Fn    *ssa.Function
	Store *ssa.Store
	Addr  *ssa.FieldAddr
}

// StoresToField returns all stores whose address is directly a FieldAddr of
// field in the given functions.
func StoresToField(fns []*ssa.Function, field *types.Var) []FieldStore {
	var out []FieldStore
	for _, fn := range fns {
		EachInstr(fn, func(i ssa.Instruction) {
			st, ok := i.(*ssa.Store)
			if !ok {
				return
			}
			fa, ok := st.Addr.(*ssa.FieldAddr)
			if !ok {
				return
			}
			if structField(fa.X.Type(), fa.Field) == field {
				out = append(out, FieldStore{fn, st, fa})
			}
		})
	}
	return out
}

// FieldAddrsOf returns every FieldAddr/Field instruction selecting field.
func FieldAddrsOf(fns []*ssa.Function, field *types.Var) []ssa.Instruction {
	var out []ssa.Instruction
	for _, fn := range fns {
		EachInstr(fn, func(i ssa.Instruction) {
			if v, ok := i.(ssa.Value); ok && FieldOf(v) == field {
				out = append(out, i)
			}
		})
	}
	return out
}

// InstrPos returns the best source position for an instruction.
func InstrPos(i ssa.Instruction) token.Pos {
	if p := i.Pos(); p.IsValid() {
		return p
	}
	if c, ok := i.(ssa.CallInstruction); ok {
		if p := c.Common().Pos(); p.IsValid() {
			return p
		}
	}
	// Fall back to any positioned instruction in the same block.
	for _, j := range i.Block().Instrs {
		if p := j.Pos(); p.IsValid() {
			return p
		}
	}
	return i.Parent().Pos()
}

// Reachable returns the set of blocks reachable from start (inclusive),
// optionally not passing through blocks for which stop returns true (the stop
// block itself is included but not expanded).
func Reachable(start *ssa.BasicBlock, stop func(*ssa.BasicBlock) bool) map[*ssa.BasicBlock]bool {
	seen := map[*ssa.BasicBlock]bool{}
	var visit func(b *ssa.BasicBlock)
	visit = func(b *ssa.BasicBlock) {
		if seen[b] {
			return
		}
		seen[b] = true
		if stop != nil && stop(b) {
			return
		}
		for _, s := range b.Succs {
			visit(s)
		}
	}
	visit(start)
	return seen
}

// InstrIndex returns the index of i within its block.
func InstrIndex(i ssa.Instruction) int {
	for k, j := range i.Block().Instrs {
		if j == i {
			return k
		}
	}
	return -1
}

// RetResults returns the values a Return yields, looking through go/ssa's
// spilling of results in functions that contain defers (there each result is
// `*cell` with the cell stored immediately before, in the same block).
func RetResults(r *ssa.Return) []ssa.Value {
	out := make([]ssa.Value, len(r.Results))
	for i, v := range r.Results {
		out[i] = v
		u, ok := v.(*ssa.UnOp)
		if !ok || u.Op != token.MUL {
			continue
		}
		al, ok := u.X.(*ssa.Alloc)
		if !ok {
			continue
		}
		instrs := r.Block().Instrs
		for k := len(instrs) - 1; k >= 0; k-- {
			if st, ok := instrs[k].(*ssa.Store); ok && st.Addr == ssa.Value(al) {
				out[i] = st.Val
				break
			}
		}
	}
	return out
}

// Returns lists the Return instructions of fn.
func Returns(fn *ssa.Function) []*ssa.Return {
	var out []*ssa.Return
	for _, b := range fn.Blocks {
		if len(b.Instrs) == 0 || b == fn.Recover {
			continue // the recover block's return is synthetic
		}
		if r, ok := b.Instrs[len(b.Instrs)-1].(*ssa.Return); ok {
			out = append(out, r)
		}
	}
	return out
}
