package eng

import (
	"golang.org/x/tools/go/ssa"
)

// DependsOnAll reports whether value v is computed from target on EVERY way it
// can be produced: at a φ all incoming values must depend on target; any other
// instruction depends on target if one of its operands does (data dependence;
// a load depends on its address, a local array or struct on what was stored
// into it). Values that merely read other state (fields of other objects,
// globals, constants, results of calls without a dependent argument) do not.
func DependsOnAll(v, target ssa.Value) bool {
	return dependsOnAll(v, target, map[ssa.Value]bool{}, 0)
}

func dependsOnAll(v, target ssa.Value, seen map[ssa.Value]bool, depth int) bool {
	if v == nil || depth > 40 {
		return false
	}
	if v == target {
		return true
	}
	if seen[v] {
		return false
	}
	seen[v] = true
	defer delete(seen, v)
	switch x := v.(type) {
	case *ssa.Const, *ssa.Global, *ssa.Parameter, *ssa.FreeVar, *ssa.Function, *ssa.Builtin:
		return false
	case *ssa.Phi:
		for _, e := range x.Edges {
			if e == ssa.Value(x) {
				continue
			}
			if !dependsOnAll(e, target, seen, depth+1) {
				return false
			}
		}
		return len(x.Edges) > 0
	case *ssa.Alloc:
		// a local cell/array/struct: what is stored into it (directly or through element/field addresses)
		found := false
		var scan func(addr ssa.Value)
		scan = func(addr ssa.Value) {
			refs := addr.Referrers()
			if refs == nil {
				return
			}
			for _, r := range *refs {
				switch u := r.(type) {
				case *ssa.Store:
					if u.Addr == addr && dependsOnAll(u.Val, target, seen, depth+1) {
						found = true
					}
				case *ssa.IndexAddr:
					if u.X == addr {
						scan(u)
					}
				case *ssa.FieldAddr:
					if u.X == addr {
						scan(u)
					}
				}
			}
		}
		scan(x)
		return found
	}
	in, ok := v.(ssa.Instruction)
	if !ok {
		return false
	}
	for _, op := range in.Operands(nil) {
		if op == nil || *op == nil {
			continue
		}
		if dependsOnAll(*op, target, seen, depth+1) {
			return true
		}
	}
	return false
}

// MayDependOn reports whether v may be computed from a value satisfying src on
// SOME way it can be produced (data dependence through operands, φ edges, local
// cells and their element/field stores).
func MayDependOn(v ssa.Value, src func(ssa.Value) bool) bool {
	return mayDependOn(v, src, map[ssa.Value]bool{}, 0)
}

func mayDependOn(v ssa.Value, src func(ssa.Value) bool, seen map[ssa.Value]bool, depth int) bool {
	if v == nil || depth > 60 || seen[v] {
		return false
	}
	seen[v] = true
	if src(v) {
		return true
	}
	switch x := v.(type) {
	case *ssa.Const, *ssa.Global, *ssa.Parameter, *ssa.FreeVar, *ssa.Function, *ssa.Builtin:
		return false
	case *ssa.Phi:
		for _, e := range x.Edges {
			if mayDependOn(e, src, seen, depth+1) {
				return true
			}
		}
		return false
	case *ssa.Alloc:
		found := false
		var scan func(addr ssa.Value)
		scan = func(addr ssa.Value) {
			refs := addr.Referrers()
			if refs == nil {
				return
			}
			for _, r := range *refs {
				switch u := r.(type) {
				case *ssa.Store:
					if u.Addr == addr && mayDependOn(u.Val, src, seen, depth+1) {
						found = true
					}
				case *ssa.IndexAddr:
					if u.X == addr {
						scan(u)
					}
				case *ssa.FieldAddr:
					if u.X == addr {
						scan(u)
					}
				}
			}
		}
		scan(x)
		return found
	}
	in, ok := v.(ssa.Instruction)
	if !ok {
		return false
	}
	for _, op := range in.Operands(nil) {
		if op != nil && *op != nil && mayDependOn(*op, src, seen, depth+1) {
			return true
		}
	}
	return false
}
