package eng

// RunSelfTests is replaced in selftest_run.go once the mutation corpus exists.
func RunSelfTests(repo, verif, id string) *SelfTestResult { return runSelfTests(repo, verif, id) }

var runSelfTests = func(repo, verif, id string) *SelfTestResult { return nil }
