package eng

import (
	"encoding/json"
	"fmt"
	"os"
	"path/filepath"
	"regexp"
	"runtime/debug"
	"sort"
)

// Failing lists what a finished context would report: failed obligations
// ("rule:key"), undecided problems and vacuity-floor failures.
func (c *Ctx) Failing() []string {
	var out []string
	seen := map[string]bool{}
	counts := map[string]int{}
	for _, ob := range c.Obls {
		counts[ob.Rule]++
		if !ob.OK {
			k := ob.Rule + ":" + ob.Key
			if !seen[k] {
				seen[k] = true
				out = append(out, k)
			}
		}
	}
	for _, p := range c.problems {
		out = append(out, "undecided:"+p)
	}
	for r, min := range c.floors {
		if counts[r] < min {
			out = append(out, fmt.Sprintf("floor:%s(%d<%d)", r, counts[r], min))
		}
	}
	sort.Strings(out)
	return out
}

var seededName = regexp.MustCompile(`^(?:revert-)?(C\d\d)(?:-|$)`)

// RunSelfTests re-analyses the property under every kept seeded change of
// /verif/seeded that belongs to it: the change is applied in memory (an
// overlay over repo's current files — the disk is not touched), the packages
// of the property are reloaded and its rules run; the rules must report
// something. A change that no longer applies to the current tree is skipped.
// The result is evidence about the checker, not about the tree: a miss never
// turns into a violation.
func RunSelfTests(repo, verif, id string, run func(*Ctx)) *SelfTestResult {
	prop := Lookup(id)
	res := &SelfTestResult{}
	dir := filepath.Join(verif, "seeded")
	ents, err := os.ReadDir(dir)
	if err != nil {
		return res
	}
	for _, e := range ents {
		if !e.IsDir() {
			continue
		}
		m := seededName.FindStringSubmatch(e.Name())
		if m == nil {
			continue
		}
		owner := m[1]
		var meta struct {
			CheckWith string `json:"check_with"`
		}
		if b, err := os.ReadFile(filepath.Join(dir, e.Name(), "meta.json")); err == nil {
			json.Unmarshal(b, &meta)
		}
		if owner != id && meta.CheckWith != id {
			continue
		}
		diff, err := os.ReadFile(filepath.Join(dir, e.Name(), "patch.diff"))
		if err != nil {
			continue
		}
		overlay, err := ApplyUnifiedDiff(repo, diff)
		if err != nil {
			res.Skipped = append(res.Skipped, e.Name()+": "+err.Error())
			continue
		}
		var patterns []string
		for _, p := range prop.Packages {
			patterns = append(patterns, "./"+p)
		}
		prog, err := Load(LoadOptions{Dir: repo, Patterns: patterns, Overlay: overlay})
		res.Ran++
		if err != nil {
			// a change that stops the tree from loading is reported by the check itself
			res.Caught++
			res.CaughtBy = append(res.CaughtBy, e.Name()+": load error")
			continue
		}
		c := NewCtx(prog, prop, "selftest", "seeded:"+e.Name())
		run(c)
		f := c.Failing()
		if len(f) == 0 {
			res.Missed = append(res.Missed, e.Name())
		} else {
			res.Caught++
			if len(f) > 3 {
				f = append(f[:3], fmt.Sprintf("… (%d more)", len(f)-3))
			}
			res.CaughtBy = append(res.CaughtBy, fmt.Sprintf("%s: %v", e.Name(), f))
		}
		prog = nil
		ResetCaches()
		debug.FreeOSMemory()
	}
	return res
}
