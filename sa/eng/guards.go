package eng

import (
	"go/token"
	"regexp"
	"sort"
	"strings"

	"golang.org/x/tools/go/ssa"
)

// Atom is a normalised branch condition: Expr (canonical rendering) holds iff
// Pos. Normalisation strips "!" and turns "!=" into "==" with flipped polarity,
// so `err != nil` on the false edge and `err == nil` on the true edge are the
// same atom {"(… == nil)", true}.
type Atom struct {
	Expr string
	Pos  bool
	V    ssa.Value // the un-negated condition value
	// For equality tests against a constant: the other operand and the constant.
	EqLHS, EqConst string
}

func (a Atom) String() string {
	if a.Pos {
		return a.Expr
	}
	return "NOT " + a.Expr
}

// MkAtom normalises (cond, polarity).
func MkAtom(cond ssa.Value, pol bool) Atom {
	for {
		if u, ok := cond.(*ssa.UnOp); ok && u.Op == token.NOT {
			cond = u.X
			pol = !pol
			continue
		}
		break
	}
	if b, ok := cond.(*ssa.BinOp); ok && (b.Op == token.NEQ || b.Op == token.EQL) {
		a := Atom{Expr: "(" + Render(b.X) + " == " + Render(b.Y) + ")", Pos: pol, V: cond}
		if b.Op == token.NEQ {
			a.Pos = !pol
		}
		if _, isC := Unwrap(b.Y).(*ssa.Const); isC {
			a.EqLHS, a.EqConst = Render(b.X), Render(b.Y)
		} else if _, isC := Unwrap(b.X).(*ssa.Const); isC {
			a.EqLHS, a.EqConst = Render(b.Y), Render(b.X)
		}
		return a
	}
	return Atom{Expr: Render(cond), Pos: pol, V: cond}
}

// Contradicts reports whether two atoms cannot hold together when compared by
// their rendered expressions (sound only if the memory the expressions read is
// not written between the two tests — callers establish that).
func (a Atom) Contradicts(b Atom) bool {
	if a.Expr == b.Expr && a.Pos != b.Pos {
		return true
	}
	if a.EqLHS != "" && a.EqLHS == b.EqLHS && a.EqConst != b.EqConst && a.Pos && b.Pos {
		return true
	}
	// (E == 0) versus (E > 0): both true, or both false for unsigned/len E.
	za, zb := zeroTest(a), zeroTest(b)
	if za.e != "" && za.e == zb.e {
		// za.isZero: the atom (with its polarity) states E == 0.
		if za.known && zb.known && za.isZero != zb.isZero {
			return true
		}
	}
	return false
}

type zt struct {
	e      string
	isZero bool
	known  bool
}

// zeroTest recognises atoms of the forms (len(X) == 0) and (len(X) > 0) and
// reports what they state about len(X) being zero.
func zeroTest(a Atom) zt {
	if !strings.HasPrefix(a.Expr, "(len(") {
		return zt{}
	}
	switch {
	case strings.HasSuffix(a.Expr, " == 0)"):
		return zt{e: strings.TrimSuffix(a.Expr, " == 0)"), isZero: a.Pos, known: true}
	case strings.HasSuffix(a.Expr, " > 0)"):
		return zt{e: strings.TrimSuffix(a.Expr, " > 0)"), isZero: !a.Pos, known: true}
	}
	return zt{}
}

// edgeAtom returns the atom established by travelling from block b to its
// successor index si, if b ends in an If with a non-constant condition.
func edgeAtom(b *ssa.BasicBlock, si int) (Atom, bool) {
	if len(b.Instrs) == 0 {
		return Atom{}, false
	}
	iff, ok := b.Instrs[len(b.Instrs)-1].(*ssa.If)
	if !ok {
		return Atom{}, false
	}
	if b.Succs[0] == b.Succs[1] {
		return Atom{}, false
	}
	if _, isConst := ConstBool(iff.Cond); isConst {
		return Atom{}, false
	}
	return MkAtom(iff.Cond, si == 0), true
}

// BlockGuards returns the atoms that necessarily hold whenever block b
// executes: for every dominator D ending in If whose successor S dominates b
// and is entered only from D, the atom of edge D→S.
func BlockGuards(b *ssa.BasicBlock) []Atom {
	var out []Atom
	seen := map[string]bool{}
	for d := b.Idom(); d != nil; d = d.Idom() {
		for si, s := range d.Succs {
			if len(s.Preds) != 1 || !s.Dominates(b) {
				continue
			}
			if a, ok := edgeAtom(d, si); ok {
				k := a.String()
				if !seen[k] {
					seen[k] = true
					out = append(out, a)
				}
			}
		}
	}
	return out
}

// ReachableBlocks returns the blocks reachable from the entry when branches on
// constant conditions (e.g. runtime.GOOS comparisons folded by go/ssa) are
// resolved.
func ReachableBlocks(fn *ssa.Function) map[*ssa.BasicBlock]bool {
	seen := map[*ssa.BasicBlock]bool{}
	var visit func(b *ssa.BasicBlock)
	visit = func(b *ssa.BasicBlock) {
		if seen[b] {
			return
		}
		seen[b] = true
		for _, si := range feasibleSuccs(b) {
			visit(b.Succs[si])
		}
	}
	if len(fn.Blocks) > 0 {
		visit(fn.Blocks[0])
	}
	return seen
}

var mustCache = map[*ssa.Function]map[*ssa.BasicBlock][]Atom{}

// Guards returns the atoms holding whenever an instruction executes (must
// analysis over all paths from the function entry).
func Guards(i ssa.Instruction) []Atom { return GuardsOfBlock(i.Block()) }

// GuardsOfBlock returns the atoms holding on entry to a block.
func GuardsOfBlock(b *ssa.BasicBlock) []Atom {
	fn := b.Parent()
	m, ok := mustCache[fn]
	if !ok {
		m = MustAtoms(fn)
		mustCache[fn] = m
	}
	return m[b]
}

// HasAtom reports whether an atom with the given polarity matches the regexp.
func HasAtom(as []Atom, re string, pol bool) bool {
	rx := regexp.MustCompile(re)
	for _, a := range as {
		if a.Pos == pol && rx.MatchString(a.Expr) {
			return true
		}
	}
	return false
}

// FindAtom returns the first atom matching (re, pol).
func FindAtom(as []Atom, re string, pol bool) (Atom, bool) {
	rx := regexp.MustCompile(re)
	for _, a := range as {
		if a.Pos == pol && rx.MatchString(a.Expr) {
			return a, true
		}
	}
	return Atom{}, false
}

// AtomStrings renders atoms sorted, for evidence.
func AtomStrings(as []Atom) []string {
	var out []string
	for _, a := range as {
		out = append(out, a.String())
	}
	sort.Strings(out)
	return out
}

// AtomsText joins atoms for messages.
func AtomsText(as []Atom) string { return strings.Join(AtomStrings(as), " ∧ ") }

// Q quotes a literal for use inside a regexp.
func Q(s string) string { return regexp.QuoteMeta(s) }

type atomKey struct {
	v   ssa.Value
	pos bool
}

// MustAtoms computes, for every block of fn, the set of atoms that hold on
// every path from the entry to the start of the block (forward must-analysis:
// in(b) = ∩ over predecessors p of out(p) ∪ atom(p→b)). Atoms are facts about
// SSA values, which are immutable, so no kill set is needed. This subsumes
// BlockGuards and additionally keeps an atom across a join when every incoming
// path established it.
func MustAtoms(fn *ssa.Function) map[*ssa.BasicBlock][]Atom {
	n := len(fn.Blocks)
	in := make([]map[atomKey]Atom, n)
	var top map[atomKey]Atom // nil = ⊤ (unvisited)
	for i := range in {
		in[i] = top
	}
	if n == 0 {
		return nil
	}
	in[0] = map[atomKey]Atom{}
	changed := true
	for changed {
		changed = false
		for _, b := range fn.Blocks {
			if b.Index == 0 {
				continue
			}
			var acc map[atomKey]Atom
			first := true
			for _, p := range b.Preds {
				if in[p.Index] == nil {
					continue // ⊤: unreached predecessor contributes nothing
				}
				// Skip edges ruled out by a constant condition (go/ssa folds
				// e.g. runtime.GOOS == "windows").
				feasible := false
				for _, si := range feasibleSuccs(p) {
					if p.Succs[si] == b {
						feasible = true
					}
				}
				if !feasible {
					continue
				}
				cur := map[atomKey]Atom{}
				for k, a := range in[p.Index] {
					cur[k] = a
				}
				for si, s := range p.Succs {
					if s != b {
						continue
					}
					// If both successor edges go to b, no atom.
					if len(p.Succs) == 2 && p.Succs[0] == p.Succs[1] {
						continue
					}
					if a, ok := edgeAtom(p, si); ok {
						cur[atomKey{a.V, a.Pos}] = a
					}
				}
				if first {
					acc = cur
					first = false
				} else {
					for k := range acc {
						if _, ok := cur[k]; !ok {
							delete(acc, k)
						}
					}
				}
			}
			if first {
				continue
			}
			if in[b.Index] == nil || len(in[b.Index]) != len(acc) {
				in[b.Index] = acc
				changed = true
			} else {
				for k := range acc {
					if _, ok := in[b.Index][k]; !ok {
						in[b.Index] = acc
						changed = true
						break
					}
				}
			}
		}
	}
	out := map[*ssa.BasicBlock][]Atom{}
	for _, b := range fn.Blocks {
		var as []Atom
		for _, a := range in[b.Index] {
			as = append(as, a)
		}
		sort.Slice(as, func(i, j int) bool { return as[i].String() < as[j].String() })
		out[b] = as
	}
	return out
}
