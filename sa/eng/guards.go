package eng

import (
	"go/token"
	"regexp"
	"sort"
	"strings"

	"golang.org/x/tools/go/ssa"
)

// Atom is a normalised branch condition: Expr (canonical rendering) holds iff
// Pos. Normalisation strips "!" and turns "!=" into "==" with flipped polarity,
// so `err != nil` on the false edge and `err == nil` on the true edge are the
// same atom {"(… == nil)", true}.
type Atom struct {
	Expr string
	Pos  bool
	V    ssa.Value // the un-negated condition value
	// For equality tests against a constant: the other operand and the constant.
	EqLHS, EqConst string
	// Via is non-empty for a fact imported from a callee's summary: the test
	// `helper(x) == nil` (or a boolean helper) establishes the facts that hold
	// at every return of the helper with that outcome, rewritten in terms of
	// the caller's arguments. V then belongs to the callee.
	Via string
}

func (a Atom) String() string {
	if a.Pos {
		return a.Expr
	}
	return "NOT " + a.Expr
}

// MkAtom normalises (cond, polarity).
func MkAtom(cond ssa.Value, pol bool) Atom {
	for {
		if u, ok := cond.(*ssa.UnOp); ok && u.Op == token.NOT {
			cond = u.X
			pol = !pol
			continue
		}
		break
	}
	if b, ok := cond.(*ssa.BinOp); ok && (b.Op == token.NEQ || b.Op == token.EQL) {
		a := Atom{Expr: "(" + Render(b.X) + " == " + Render(b.Y) + ")", Pos: pol, V: cond}
		if b.Op == token.NEQ {
			a.Pos = !pol
		}
		if _, isC := Unwrap(b.Y).(*ssa.Const); isC {
			a.EqLHS, a.EqConst = Render(b.X), Render(b.Y)
		} else if _, isC := Unwrap(b.X).(*ssa.Const); isC {
			a.EqLHS, a.EqConst = Render(b.Y), Render(b.X)
		}
		return a
	}
	return Atom{Expr: Render(cond), Pos: pol, V: cond}
}

// Contradicts reports whether two atoms cannot hold together when compared by
// their rendered expressions (sound only if the memory the expressions read is
// not written between the two tests — callers establish that).
func (a Atom) Contradicts(b Atom) bool {
	if a.Expr == b.Expr && a.Pos != b.Pos {
		return true
	}
	if a.EqLHS != "" && a.EqLHS == b.EqLHS && a.EqConst != b.EqConst && a.Pos && b.Pos {
		return true
	}
	// (E == 0) versus (E > 0): both true, or both false for unsigned/len E.
	za, zb := zeroTest(a), zeroTest(b)
	if za.e != "" && za.e == zb.e {
		// za.isZero: the atom (with its polarity) states E == 0.
		if za.known && zb.known && za.isZero != zb.isZero {
			return true
		}
	}
	return false
}

type zt struct {
	e      string
	isZero bool
	known  bool
}

// zeroTest recognises atoms of the forms (len(X) == 0) and (len(X) > 0) and
// reports what they state about len(X) being zero.
func zeroTest(a Atom) zt {
	if !strings.HasPrefix(a.Expr, "(len(") {
		return zt{}
	}
	switch {
	case strings.HasSuffix(a.Expr, " == 0)"):
		return zt{e: strings.TrimSuffix(a.Expr, " == 0)"), isZero: a.Pos, known: true}
	case strings.HasSuffix(a.Expr, " > 0)"):
		return zt{e: strings.TrimSuffix(a.Expr, " > 0)"), isZero: !a.Pos, known: true}
	}
	return zt{}
}

// edgeAtom returns the atom established by travelling from block b to its
// successor index si, if b ends in an If with a non-constant condition.
func edgeAtom(b *ssa.BasicBlock, si int) (Atom, bool) {
	if len(b.Instrs) == 0 {
		return Atom{}, false
	}
	iff, ok := b.Instrs[len(b.Instrs)-1].(*ssa.If)
	if !ok {
		return Atom{}, false
	}
	if b.Succs[0] == b.Succs[1] {
		return Atom{}, false
	}
	if _, isConst := ConstBool(iff.Cond); isConst {
		return Atom{}, false
	}
	return MkAtom(iff.Cond, si == 0), true
}

// BlockGuards returns the atoms that necessarily hold whenever block b
// executes: for every dominator D ending in If whose successor S dominates b
// and is entered only from D, the atom of edge D→S.
func BlockGuards(b *ssa.BasicBlock) []Atom {
	var out []Atom
	seen := map[string]bool{}
	for d := b.Idom(); d != nil; d = d.Idom() {
		for si, s := range d.Succs {
			if len(s.Preds) != 1 || !s.Dominates(b) {
				continue
			}
			if a, ok := edgeAtom(d, si); ok {
				k := a.String()
				if !seen[k] {
					seen[k] = true
					out = append(out, a)
				}
			}
		}
	}
	return out
}

// ReachableBlocks returns the blocks reachable from the entry when branches on
// constant conditions (e.g. runtime.GOOS comparisons folded by go/ssa) are
// resolved.
func ReachableBlocks(fn *ssa.Function) map[*ssa.BasicBlock]bool {
	seen := map[*ssa.BasicBlock]bool{}
	var visit func(b *ssa.BasicBlock)
	visit = func(b *ssa.BasicBlock) {
		if seen[b] {
			return
		}
		seen[b] = true
		for _, si := range feasibleSuccs(b) {
			visit(b.Succs[si])
		}
	}
	if len(fn.Blocks) > 0 {
		visit(fn.Blocks[0])
	}
	return seen
}

var mustCache = map[*ssa.Function]map[*ssa.BasicBlock][]Atom{}

// Guards returns the atoms holding whenever an instruction executes (must
// analysis over all paths from the function entry).
func Guards(i ssa.Instruction) []Atom { return GuardsOfBlock(i.Block()) }

// GuardsOfBlock returns the atoms holding on entry to a block.
func GuardsOfBlock(b *ssa.BasicBlock) []Atom {
	fn := b.Parent()
	m, ok := mustCache[fn]
	if !ok {
		m = MustAtoms(fn)
		mustCache[fn] = m
	}
	return m[b]
}

// HasAtom reports whether an atom with the given polarity matches the regexp.
func HasAtom(as []Atom, re string, pol bool) bool {
	rx := regexp.MustCompile(re)
	for _, a := range as {
		if a.Pos == pol && (rx.MatchString(a.Expr) || rx.MatchString(a.Mirrored())) {
			return true
		}
	}
	return false
}

// Mirrored returns the other spelling of an ordering atom — `(b > a)` for
// `(a < b)`, `(b >= a)` for `(a <= b)` and vice versa — or "" when the atom is not
// an ordering comparison. Rules written against one spelling accept both.
func (a Atom) Mirrored() string {
	b, ok := a.V.(*ssa.BinOp)
	if !ok {
		return ""
	}
	var op string
	switch b.Op {
	case token.LSS:
		op = ">"
	case token.GTR:
		op = "<"
	case token.LEQ:
		op = ">="
	case token.GEQ:
		op = "<="
	case token.EQL, token.NEQ:
		op = "==" // MkAtom renders both as an equality with the polarity adjusted
	default:
		return ""
	}
	return "(" + Render(b.Y) + " " + op + " " + Render(b.X) + ")"
}

// FindAtom returns the first atom matching (re, pol).
func FindAtom(as []Atom, re string, pol bool) (Atom, bool) {
	rx := regexp.MustCompile(re)
	for _, a := range as {
		if a.Pos == pol && rx.MatchString(a.Expr) {
			return a, true
		}
	}
	return Atom{}, false
}

// AtomStrings renders atoms sorted, for evidence.
func AtomStrings(as []Atom) []string {
	var out []string
	for _, a := range as {
		out = append(out, a.String())
	}
	sort.Strings(out)
	return out
}

// AtomsText joins atoms for messages.
func AtomsText(as []Atom) string { return strings.Join(AtomStrings(as), " ∧ ") }

// Q quotes a literal for use inside a regexp.
func Q(s string) string { return regexp.QuoteMeta(s) }

type atomKey struct {
	v   ssa.Value
	pos bool
	x   string // rendered text for facts imported from a callee (their V is the callee's value, shared by every call site)
}

func keyOf(a Atom) atomKey {
	if a.Via != "" {
		return atomKey{a.V, a.Pos, a.Expr}
	}
	return atomKey{a.V, a.Pos, ""}
}

// MustAtoms computes, for every block of fn, the set of atoms that hold on
// every path from the entry to the start of the block (forward must-analysis:
// in(b) = ∩ over predecessors p of out(p) ∪ atom(p→b)). Atoms are facts about
// SSA values, which are immutable, so no kill set is needed. This subsumes
// BlockGuards and additionally keeps an atom across a join when every incoming
// path established it.
func MustAtoms(fn *ssa.Function) map[*ssa.BasicBlock][]Atom {
	n := len(fn.Blocks)
	in := make([]map[atomKey]Atom, n)
	var top map[atomKey]Atom // nil = ⊤ (unvisited)
	for i := range in {
		in[i] = top
	}
	if n == 0 {
		return nil
	}
	in[0] = map[atomKey]Atom{}
	changed := true
	for changed {
		changed = false
		for _, b := range fn.Blocks {
			if b.Index == 0 {
				continue
			}
			var acc map[atomKey]Atom
			first := true
			for _, p := range b.Preds {
				if in[p.Index] == nil {
					continue // ⊤: unreached predecessor contributes nothing
				}
				// Skip edges ruled out by a constant condition (go/ssa folds
				// e.g. runtime.GOOS == "windows").
				feasible := false
				for _, si := range feasibleSuccs(p) {
					if p.Succs[si] == b {
						feasible = true
					}
				}
				if !feasible {
					continue
				}
				cur := map[atomKey]Atom{}
				for k, a := range in[p.Index] {
					cur[k] = a
				}
				for si, s := range p.Succs {
					if s != b {
						continue
					}
					// If both successor edges go to b, no atom.
					if len(p.Succs) == 2 && p.Succs[0] == p.Succs[1] {
						continue
					}
					if a, ok := edgeAtom(p, si); ok {
						cur[keyOf(a)] = a
						for _, ia := range impliedAtoms(a.V, a.Pos, 0) {
							cur[keyOf(ia)] = ia
						}
						for _, ia := range summaryAtoms(a) {
							cur[keyOf(ia)] = ia
						}
					}
				}
				if first {
					acc = cur
					first = false
				} else {
					for k := range acc {
						if _, ok := cur[k]; !ok {
							delete(acc, k)
						}
					}
				}
			}
			if first {
				continue
			}
			if in[b.Index] == nil || len(in[b.Index]) != len(acc) {
				in[b.Index] = acc
				changed = true
			} else {
				for k := range acc {
					if _, ok := in[b.Index][k]; !ok {
						in[b.Index] = acc
						changed = true
						break
					}
				}
			}
		}
	}
	out := map[*ssa.BasicBlock][]Atom{}
	for _, b := range fn.Blocks {
		var as []Atom
		for _, a := range in[b.Index] {
			as = append(as, a)
		}
		sort.Slice(as, func(i, j int) bool { return as[i].String() < as[j].String() })
		out[b] = as
	}
	return out
}

var impliedCache = map[atomKey][]Atom{}

// impliedAtoms returns the atoms that necessarily hold when the boolean value
// cond evaluates to pol, beyond the atom on cond itself. go/ssa lowers `a && b`
// and `a || b` in value position (a hoisted `ok := a && b`, a condition passed
// through a local) to a φ of constants and the last operand; branching on that
// φ must establish the same facts as branching on the operands directly. The
// facts are computed as the intersection, over every path from the φ block's
// immediate dominator on which the φ takes a value compatible with pol, of the
// branch atoms of that path (plus the atom of the non-constant value taken).
func impliedAtoms(cond ssa.Value, pol bool, depth int) []Atom {
	if depth > 4 {
		return nil
	}
	if depth == 0 {
		k := atomKey{cond, pol, ""}
		if r, ok := impliedCache[k]; ok {
			return r
		}
		r := impliedAtoms(cond, pol, 1)
		impliedCache[k] = r
		return r
	}
	for {
		if u, ok := cond.(*ssa.UnOp); ok && u.Op == token.NOT {
			cond, pol = u.X, !pol
			continue
		}
		break
	}
	phi, ok := cond.(*ssa.Phi)
	if !ok {
		return nil
	}
	blk := phi.Block()
	dom := blk.Idom()
	if dom == nil {
		return nil
	}
	for _, p := range blk.Preds {
		if blk.Dominates(p) {
			return nil // loop-carried flag
		}
	}
	paths, complete := EnumPaths(dom, func(b *ssa.BasicBlock) bool { return b == blk }, 512)
	if !complete {
		return nil
	}
	var acc map[atomKey]Atom
	first := true
	for _, p := range paths {
		if p.Last() != blk {
			continue
		}
		val := p.PhiOn(phi)
		if val == nil {
			return nil
		}
		val = p.Resolve(val)
		cur := map[atomKey]Atom{}
		if c, isC := ConstBool(val); isC {
			if c != pol {
				continue // on this path the φ has the other value
			}
		} else {
			a := MkAtom(val, pol)
			cur[keyOf(a)] = a
			for _, ia := range impliedAtoms(val, pol, depth+1) {
				cur[keyOf(ia)] = ia
			}
		}
		for _, a := range p.Atoms {
			cur[keyOf(a)] = a
			for _, ia := range impliedAtoms(a.V, a.Pos, depth+1) {
				cur[keyOf(ia)] = ia
			}
		}
		if first {
			acc, first = cur, false
		} else {
			for k := range acc {
				if _, ok := cur[k]; !ok {
					delete(acc, k)
				}
			}
		}
	}
	var out []Atom
	for _, a := range acc {
		out = append(out, a)
	}
	return out
}

// ImpliedAtoms exposes impliedAtoms: the facts established by cond == pol
// beyond the atom on cond itself.
func ImpliedAtoms(cond ssa.Value, pol bool) []Atom { return impliedAtoms(cond, pol, 0) }

// WithoutImplied removes from as every atom that is implied by another atom of
// as (so that "no further condition" rules count independent conditions only).
func WithoutImplied(as []Atom) []Atom {
	implied := map[atomKey]bool{}
	for _, a := range as {
		for _, ia := range impliedAtoms(a.V, a.Pos, 0) {
			implied[keyOf(ia)] = true
		}
	}
	var out []Atom
	for _, a := range as {
		if !implied[keyOf(a)] && a.Via == "" {
			out = append(out, a)
		}
	}
	return out
}

var summaryCache = map[atomKey][]Atom{}
var paramToken = regexp.MustCompile(`\bp(\d+)\b`)

// summaryAtoms: one-level guard summaries. If atom a says that a call to a
// module function with a body returned a nil error (a = `call#k == nil`, true)
// or a given boolean, the facts that hold at EVERY return of the callee which
// can produce that outcome also hold in the caller, with the callee's
// parameters replaced by the call's arguments. This makes a guard that was
// extracted into a small helper (`if err := e.ensureWritable(); err != nil`)
// equivalent to the inline test. Facts are matched by their rendered text; the
// callee must not be recursive and its conditions must be over its parameters
// (anything else is still imported but will simply not match a caller-side rule).
func summaryAtoms(a Atom) []Atom {
	k := keyOf(a)
	if r, ok := summaryCache[k]; ok {
		return r
	}
	var out []Atom
	defer func() { summaryCache[k] = out }()
	var call *ssa.Call
	idx := 0
	wantNil, wantBool := false, false
	switch v := a.V.(type) {
	case *ssa.Call:
		call, wantBool = v, true
	case *ssa.BinOp:
		if v.Op != token.EQL && v.Op != token.NEQ {
			return nil
		}
		x, y := v.X, v.Y
		if IsNilConst(x) {
			x, y = y, x
		}
		if !IsNilConst(y) {
			return nil
		}
		switch e := x.(type) {
		case *ssa.Call:
			call = e
		case *ssa.Extract:
			c, ok := e.Tuple.(*ssa.Call)
			if !ok {
				return nil
			}
			call, idx = c, e.Index
		default:
			return nil
		}
		wantNil = true
	default:
		return nil
	}
	callee := call.Call.StaticCallee()
	if callee == nil || callee.Blocks == nil || !IsModuleFunc(callee) || callee == call.Parent() {
		return nil
	}
	res := callee.Signature.Results()
	if idx >= res.Len() {
		return nil
	}
	if wantBool && TypeShort(res.At(idx).Type()) != "bool" {
		return nil
	}
	if wantBool && res.Len() != 1 {
		return nil
	}
	var acc map[string]Atom
	first := true
	for _, r := range Returns(callee) {
		rv := RetResults(r)
		if idx >= len(rv) {
			return nil
		}
		v := rv[idx]
		if wantNil {
			if a.Pos && provablyNonNil(v) {
				continue // this return cannot produce nil
			}
			if !a.Pos && IsNilConst(v) {
				continue // this return cannot produce a non-nil error
			}
		} else {
			if c, isC := ConstBool(v); isC && c != a.Pos {
				continue
			}
		}
		cur := map[string]Atom{}
		for _, g := range GuardsOfBlock(r.Block()) {
			if g.Via != "" {
				continue
			}
			cur[g.String()] = g
		}
		if wantBool {
			if _, isC := ConstBool(v); !isC {
				g := MkAtom(v, a.Pos)
				cur[g.String()] = g
				for _, ia := range impliedAtoms(v, a.Pos, 0) {
					cur[ia.String()] = ia
				}
			}
		}
		if first {
			acc, first = cur, false
		} else {
			for s := range acc {
				if _, ok := cur[s]; !ok {
					delete(acc, s)
				}
			}
		}
	}
	args := call.Call.Args
	subst := func(s string) string {
		return paramToken.ReplaceAllStringFunc(s, func(m string) string {
			var n int
			for _, ch := range m[1:] {
				n = n*10 + int(ch-'0')
			}
			if n < len(args) {
				return Render(args[n])
			}
			return m
		})
	}
	for _, g := range acc {
		out = append(out, Atom{Expr: subst(g.Expr), Pos: g.Pos, V: g.V, EqLHS: subst(g.EqLHS), EqConst: g.EqConst, Via: FuncName(callee)})
	}
	return out
}

// provablyNonNil: an error value that is the result of errors.New / fmt.Errorf
// or a package-level sentinel.
func provablyNonNil(v ssa.Value) bool {
	switch x := Unwrap(v).(type) {
	case *ssa.Call:
		n := CalleeName(x)
		return n == "errors.New" || n == "fmt.Errorf"
	case *ssa.UnOp:
		if g, ok := x.X.(*ssa.Global); ok {
			return strings.HasPrefix(strings.ToLower(g.Name()), "err")
		}
	}
	return false
}

// PureHelper reports whether fn only computes a verdict: no stores except to
// its own locals, no map updates, sends, goroutines or defers, and calls only
// to error constructors and builtins. A call to such a helper placed in front
// of a guard is part of the guard, not an operation the guard must protect.
func PureHelper(fn *ssa.Function) bool {
	if fn == nil || fn.Blocks == nil {
		return false
	}
	pure := true
	EachInstr(fn, func(i ssa.Instruction) {
		switch x := i.(type) {
		case *ssa.Store:
			if _, local := x.Addr.(*ssa.Alloc); !local {
				if ia, ok := x.Addr.(*ssa.IndexAddr); ok {
					if _, l2 := ia.X.(*ssa.Alloc); l2 {
						return
					}
				}
				pure = false
			}
		case *ssa.MapUpdate, *ssa.Send, *ssa.Go, *ssa.Defer:
			pure = false
		case *ssa.Call:
			n := CalleeName(x)
			if n != "errors.New" && n != "fmt.Errorf" && !strings.HasPrefix(n, "builtin:") {
				pure = false
			}
		}
	})
	return pure
}

// ExpandConjunctions replaces every atom «φ is true» whose φ is a pure
// conjunction of literals (`ok := a && !b && c`, hoisted into a named boolean)
// by those literals: branching on the name establishes exactly the facts that
// branching on the operands would. Rules that count independent conditions
// («under no further condition») call this before WithoutImplied so that a
// named conjunction is neither an extra condition nor hides its operands.
func ExpandConjunctions(as []Atom) []Atom {
	var out []Atom
	for _, a := range as {
		phi, ok := a.V.(*ssa.Phi)
		if !ok || !a.Pos {
			out = append(out, a)
			continue
		}
		be, err := BoolExprOf(phi)
		if err != nil {
			out = append(out, a)
			continue
		}
		names := be.AtomNames()
		if len(names) == 0 || len(names) > 8 {
			out = append(out, a)
			continue
		}
		sat := 0
		for m := 0; m < 1<<len(names); m++ {
			env := map[string]bool{}
			for i, n := range names {
				env[n] = m&(1<<i) != 0
			}
			if be.Eval(env) {
				sat++
			}
		}
		var lits []Atom
		for _, ia := range impliedAtoms(phi, true, 0) {
			if _, isPhi := ia.V.(*ssa.Phi); isPhi || ia.Via != "" {
				continue
			}
			lits = append(lits, ia)
		}
		if sat != 1 || len(lits) != len(names) {
			out = append(out, a) // not a conjunction of literals: keep the φ atom
			continue
		}
		out = append(out, lits...)
	}
	// de-duplicate
	seen := map[atomKey]bool{}
	var uniq []Atom
	for _, a := range out {
		k := keyOf(a)
		if !seen[k] {
			seen[k] = true
			uniq = append(uniq, a)
		}
	}
	return uniq
}

// ResetCaches drops every memo keyed by SSA objects. The memos pin the whole
// program they were computed on; a process that analyses many programs in turn
// (the self-tests load one per seeded change) must drop them between programs.
func ResetCaches() {
	mustCache = map[*ssa.Function]map[*ssa.BasicBlock][]Atom{}
	impliedCache = map[atomKey][]Atom{}
	summaryCache = map[atomKey][]Atom{}
	singleAssignCache = map[*ssa.Alloc]ssa.Value{}
	singleAssignDone = map[*ssa.Alloc]bool{}
}
