package eng

import (
	"encoding/json"
	"fmt"
	"go/token"
	"os"
	"path/filepath"
	"sort"
	"strings"
	"time"
	"unicode/utf8"

	"golang.org/x/tools/go/ssa"
)

// Obligation is one decided rule instance.
type Obligation struct {
	Rule   string `json:"rule"`
	Key    string `json:"key"` // stable: function + construct, never a line number
	Site   string `json:"site"`
	Desc   string `json:"desc"`
	OK     bool   `json:"ok"`
	Detail string `json:"detail,omitempty"`
	Config string `json:"config,omitempty"`
}

// Property is a registered property checker.
type Property struct {
	ID          string
	Title       string
	Packages    []string // module-relative packages the rules need (quick tier)
	Explanation string   // what is decided and what is not
	Assumptions []string
	Technique   string // a few words naming the deciding method (MANIFEST "technique")
	Run         func(c *Ctx)
	// ThoroughGOOS lists extra GOOS values under which the rules are re-run in
	// the thorough tier (rules must be platform independent for those).
	ThoroughGOOS []string
}

var registry = map[string]*Property{}

// Register adds a property checker.
func Register(p *Property) {
	if _, dup := registry[p.ID]; dup {
		panic("duplicate property " + p.ID)
	}
	registry[p.ID] = p
}

// Lookup returns a registered property.
func Lookup(id string) *Property { return registry[id] }

// IDs lists registered property ids, sorted.
func IDs() []string {
	var out []string
	for id := range registry {
		out = append(out, id)
	}
	sort.Strings(out)
	return out
}

// Ctx is the per-property analysis context.
type Ctx struct {
	P      *Program
	Prop   *Property
	Tier   string
	Config string // e.g. "linux" or "windows", "linux/whole-module"

	Obls     []Obligation
	floors   map[string]int
	problems []string // undecided / unresolved: each fails the check
	funcs    map[string]bool
	notes    []string
}

// NewCtx creates a context.
func NewCtx(p *Program, prop *Property, tier, config string) *Ctx {
	return &Ctx{P: p, Prop: prop, Tier: tier, Config: config, floors: map[string]int{}, funcs: map[string]bool{}}
}

// Note records a free-text remark for the evidence.
func (c *Ctx) Note(format string, a ...any) { c.notes = append(c.notes, fmt.Sprintf(format, a...)) }

// Analysed records that a function was inspected by a rule.
func (c *Ctx) Analysed(fns ...*ssa.Function) {
	for _, f := range fns {
		if f != nil {
			c.funcs[FuncName(f)] = true
		}
	}
}

// Check records an obligation.
func (c *Ctx) Check(rule, key string, pos token.Pos, ok bool, desc string, detail ...string) bool {
	o := Obligation{Rule: rule, Key: key, Site: c.P.Pos(pos), Desc: desc, OK: ok, Config: c.Config}
	if len(detail) > 0 {
		o.Detail = strings.Join(detail, "; ")
	}
	c.Obls = append(c.Obls, o)
	return ok
}

// Problem records an undecided / unresolved condition; it fails the check.
func (c *Ctx) Problem(rule, format string, a ...any) {
	c.problems = append(c.problems, rule+": "+fmt.Sprintf(format, a...))
}

// Floor demands that rule matched at least min instances.
func (c *Ctx) Floor(rule string, min int) { c.floors[rule] = min }

// MustFunc resolves a function or records a problem.
func (c *Ctx) MustFunc(rule, rel, name string) *ssa.Function {
	f, err := c.P.Func(rel, name)
	if err != nil {
		c.Problem(rule, "unresolved anchor: %v", err)
		return nil
	}
	c.Analysed(f)
	return f
}

// Finding is an entry of the committed known-findings file.
type Finding struct {
	Status   string `json:"status"` // "known" or "fixed"
	Property string `json:"property"`
	Rule     string `json:"rule"`
	Key      string `json:"key"`
	Commit   string `json:"commit,omitempty"`
	What     string `json:"what"`
}

// LoadFindings reads the known-findings file.
func LoadFindings(path string) ([]Finding, error) {
	b, err := os.ReadFile(path)
	if err != nil {
		if os.IsNotExist(err) {
			return nil, nil
		}
		return nil, err
	}
	var fs []Finding
	if err := json.Unmarshal(b, &fs); err != nil {
		return nil, err
	}
	return fs, nil
}

// Outcome is the result of running a property in one or more configurations.
type Outcome struct {
	Prop       *Property
	Tier       string
	Obls       []Obligation
	Problems   []string
	Funcs      map[string]bool
	Notes      []string
	Packages   int
	Configs    []string
	SelfTest   *SelfTestResult
	Wall       time.Duration
	floorFails []string
	ruleCounts map[string]int
}

// SelfTestResult summarises mutation self-tests of a property's rules.
type SelfTestResult struct {
	Ran      int      `json:"ran"`
	Caught   int      `json:"caught"`
	Missed   []string `json:"missed,omitempty"`
	Skipped  []string `json:"skipped,omitempty"`
	CaughtBy []string `json:"caught_by,omitempty"`
}

// Merge adds a context's results to the outcome.
func (o *Outcome) Merge(c *Ctx) {
	o.Obls = append(o.Obls, c.Obls...)
	for _, p := range c.problems {
		o.Problems = append(o.Problems, "["+c.Config+"] "+p)
	}
	if o.Funcs == nil {
		o.Funcs = map[string]bool{}
	}
	for f := range c.funcs {
		o.Funcs[f] = true
	}
	o.Notes = append(o.Notes, c.notes...)
	o.Configs = append(o.Configs, c.Config)
	counts := map[string]int{}
	for _, ob := range c.Obls {
		counts[ob.Rule]++
	}
	if o.ruleCounts == nil {
		o.ruleCounts = map[string]int{}
	}
	for r, n := range counts {
		if n > o.ruleCounts[r] {
			o.ruleCounts[r] = n
		}
	}
	for r, min := range c.floors {
		if counts[r] < min {
			o.floorFails = append(o.floorFails, fmt.Sprintf("[%s] rule %s matched %d instance(s), floor is %d (vacuity guard)", c.Config, r, counts[r], min))
		}
	}
}

// Finish prints the report, writes evidence and replay files and returns the
// process exit code.
func (o *Outcome) Finish(verifDir string, seed int64) int {
	id := o.Prop.ID
	findings, ferr := LoadFindings(filepath.Join(verifDir, "known_findings.json"))
	if ferr != nil {
		o.Problems = append(o.Problems, "known_findings.json unreadable: "+ferr.Error())
	}
	known := map[string]Finding{}
	for _, f := range findings {
		if f.Status == "known" && f.Property == id {
			known[f.Rule+"|"+f.Key] = f
		}
	}
	var viol []Obligation
	var knownHit []Obligation
	okCount := 0
	distinct := map[string]bool{}
	for _, ob := range o.Obls {
		distinct[ob.Rule+"|"+ob.Key] = true
		if ob.OK {
			okCount++
			continue
		}
		if _, isKnown := known[ob.Rule+"|"+ob.Key]; isKnown {
			knownHit = append(knownHit, ob)
		} else {
			viol = append(viol, ob)
		}
	}
	hard := append([]string{}, o.Problems...)
	hard = append(hard, o.floorFails...)

	fmt.Printf("== %s %s [%s] configs=%v packages=%d functions=%d obligations=%d discharged=%d\n",
		id, o.Prop.Title, o.Tier, o.Configs, o.Packages, len(o.Funcs), len(o.Obls), okCount)
	rules := make([]string, 0, len(o.ruleCounts))
	for r := range o.ruleCounts {
		rules = append(rules, r)
	}
	sort.Strings(rules)
	for _, r := range rules {
		fmt.Printf("   rule %-4s instances=%d\n", r, o.ruleCounts[r])
	}
	seenKF := map[string]bool{}
	for _, ob := range knownHit {
		k := ob.Rule + "|" + ob.Key
		if seenKF[k] {
			continue
		}
		seenKF[k] = true
		fmt.Printf("KNOWN-FINDING: property=%s rule=%s %s at %s: %s\n", id, ob.Rule, ob.Key, ob.Site, known[k].What)
	}
	for _, ob := range viol {
		d := ob.Detail
		if len(d) > 300 {
			cut := 300
			for cut > 0 && !utf8.RuneStart(d[cut]) {
				cut--
			}
			d = d[:cut] + "… (full text in the replay file)"
		}
		fmt.Printf("  FAIL %s %s [%s] %s — %s %s\n", ob.Rule, ob.Site, ob.Key, ob.Desc, d, cfgTag(ob.Config))
	}
	for _, p := range hard {
		fmt.Printf("  UNDECIDED %s\n", p)
	}
	if o.SelfTest != nil {
		fmt.Printf("   self-test: %d mutant(s) run, %d caught, %d missed, %d skipped\n", o.SelfTest.Ran, o.SelfTest.Caught, len(o.SelfTest.Missed), len(o.SelfTest.Skipped))
		for _, m := range o.SelfTest.Missed {
			fmt.Printf("   self-test MISS (checker weakness, not a violation of the tree): %s\n", m)
		}
	}

	exit := 0
	replay := ""
	if len(viol) > 0 || len(hard) > 0 {
		exit = 1
		outDir := filepath.Join(writeRoot(verifDir), "out")
		os.MkdirAll(outDir, 0o755)
		replay = filepath.Join(outDir, fmt.Sprintf("%s.%s.replay.json", id, o.Tier))
		rb, _ := json.MarshalIndent(map[string]any{
			"property":   id,
			"tier":       o.Tier,
			"violations": viol,
			"undecided":  hard,
			"how":        fmt.Sprintf("/verif/check %s %s  (re-runs the rules on /repo's current tree; each violation names rule, function/construct key and file:line)", id, o.Tier),
		}, "", " ")
		os.WriteFile(replay, rb, 0o644)
	}

	// Evidence.
	samples := []any{}
	perRule := map[string]int{}
	for _, ob := range o.Obls {
		if perRule[ob.Rule] < 2 || !ob.OK {
			perRule[ob.Rule]++
			samples = append(samples, ob)
		}
		if len(samples) >= 60 {
			break
		}
	}
	var funcs []string
	for f := range o.Funcs {
		funcs = append(funcs, f)
	}
	sort.Strings(funcs)
	cov := map[string]any{
		"explanation":         o.Prop.Explanation,
		"obligations":         len(o.Obls),
		"discharged":          okCount,
		"evaluations":         len(o.Obls),
		"distinct_nontrivial": len(distinct),
		"rule":                "one obligation per (rule, construct) instance matched in /repo's current SSA; distinct = distinct (rule, function/construct key) pairs; an instance is non-trivial because it is bound to a real instruction of the analysed tree (floors fail the check if a rule matches fewer sites than confirmed by hand)",
		"samples":             samples,
		"packages_loaded":     o.Packages,
		"configs":             o.Configs,
		"functions_analysed":  funcs,
		"rule_instances":      o.ruleCounts,
		"undecided":           hard,
		"known_findings_hit":  len(seenKF),
		"checker_cmd":         fmt.Sprintf("/verif/check %s %s", id, o.Tier),
		"notes":               o.Notes,
	}
	if o.SelfTest != nil {
		cov["self_test"] = o.SelfTest
	}
	ev := map[string]any{
		"property_id": id,
		"tier":        o.Tier,
		"seed":        seed,
		"level":       "other",
		"coverage":    cov,
		"assumptions": o.Prop.Assumptions,
		"wall_s":      o.Wall.Seconds(),
		"violations":  len(viol) + len(hard),
	}
	os.MkdirAll(filepath.Join(writeRoot(verifDir), "evidence"), 0o755)
	eb, _ := json.MarshalIndent(ev, "", " ")
	if err := os.WriteFile(filepath.Join(writeRoot(verifDir), "evidence", id+".json"), eb, 0o644); err != nil {
		fmt.Printf("  cannot write evidence: %v\n", err)
		exit = 1
	}
	if exit != 0 {
		fmt.Printf("VIOLATION property=%s replay=%s\n", id, replay)
	} else {
		fmt.Printf("PASS %s (%d obligations, %.1fs)\n", id, len(o.Obls), o.Wall.Seconds())
	}
	return exit
}

func cfgTag(c string) string {
	if c == "" {
		return ""
	}
	return "(" + c + ")"
}

// WriteRoot, when non-empty, redirects the evidence and replay files (used when
// a change is analysed in memory with -patch, so that the committed evidence of
// the real tree is not overwritten).
var WriteRoot string

func writeRoot(verifDir string) string {
	if WriteRoot != "" {
		return WriteRoot
	}
	return verifDir
}
