package eng

import (
	"fmt"
	"go/constant"
	"go/token"
	"go/types"
	"sort"
	"strings"

	"golang.org/x/tools/go/ssa"
)

// Render produces a canonical, source-name-independent textual form of an SSA
// value: an expression over parameters (p0,p1,… in signature order, receiver
// first), free variables (fv:name), field access paths, constants and calls
// (callee short names). Conversions that do not change the value's identity
// (ChangeType, ChangeInterface, MakeInterface) are transparent. The rendering
// is what rules compare guards and arguments against; it does not depend on
// local variable names, statement order or the if/switch form of a test.
func Render(v ssa.Value) string {
	r := renderer{seen: map[ssa.Value]bool{}}
	return r.render(v, 0)
}

const maxRenderDepth = 12

type renderer struct {
	seen map[ssa.Value]bool
}

func (r *renderer) render(v ssa.Value, d int) string {
	if v == nil {
		return "<nil>"
	}
	if d > maxRenderDepth {
		return "…"
	}
	switch x := v.(type) {
	case *ssa.Const:
		return renderConst(x)
	case *ssa.Parameter:
		fn := x.Parent()
		for i, p := range fn.Params {
			if p == x {
				return fmt.Sprintf("p%d", i)
			}
		}
		return "p?"
	case *ssa.FreeVar:
		return "fv:" + x.Name()
	case *ssa.Global:
		return globalName(x)
	case *ssa.Function:
		return "func:" + FuncName(x)
	case *ssa.Builtin:
		return "builtin:" + x.Name()
	case *ssa.Alloc:
		if x.Comment != "" {
			return "&local:" + x.Comment
		}
		return "&new"
	case *ssa.UnOp:
		switch x.Op {
		case token.MUL:
			if al, ok := x.X.(*ssa.Alloc); ok {
				if sv := SingleAssign(al); sv != nil {
					return r.render(sv, d+1)
				}
			}
			in := r.render(x.X, d+1)
			if strings.HasPrefix(in, "&") {
				return in[1:]
			}
			return "*" + in
		case token.NOT:
			return "!" + r.render(x.X, d+1)
		case token.ARROW:
			if x.CommaOk {
				return "recvok(" + r.render(x.X, d+1) + ")"
			}
			return "recv(" + r.render(x.X, d+1) + ")"
		default:
			return x.Op.String() + r.render(x.X, d+1)
		}
	case *ssa.BinOp:
		return "(" + r.render(x.X, d+1) + " " + x.Op.String() + " " + r.render(x.Y, d+1) + ")"
	case *ssa.FieldAddr:
		f := structField(x.X.Type(), x.Field)
		base := r.render(x.X, d+1)
		base = strings.TrimPrefix(base, "&")
		return "&" + base + "." + f.Name()
	case *ssa.Field:
		f := structField(x.X.Type(), x.Field)
		return r.render(x.X, d+1) + "." + f.Name()
	case *ssa.IndexAddr:
		base := strings.TrimPrefix(r.render(x.X, d+1), "&")
		return "&" + base + "[" + r.render(x.Index, d+1) + "]"
	case *ssa.Index:
		return r.render(x.X, d+1) + "[" + r.render(x.Index, d+1) + "]"
	case *ssa.Lookup:
		if x.CommaOk {
			return "lookupok(" + r.render(x.X, d+1) + "," + r.render(x.Index, d+1) + ")"
		}
		return r.render(x.X, d+1) + "[" + r.render(x.Index, d+1) + "]"
	case *ssa.Extract:
		return r.render(x.Tuple, d+1) + "#" + fmt.Sprint(x.Index)
	case *ssa.Call:
		return r.renderCall(x.Common(), d)
	case *ssa.Phi:
		if r.seen[x] {
			return "phi@" + x.Comment
		}
		r.seen[x] = true
		defer delete(r.seen, x)
		var parts []string
		dedup := map[string]bool{}
		for _, e := range x.Edges {
			s := r.render(e, d+1)
			if !dedup[s] {
				dedup[s] = true
				parts = append(parts, s)
			}
		}
		sort.Strings(parts)
		if len(parts) == 1 {
			return parts[0]
		}
		return "phi(" + strings.Join(parts, "|") + ")"
	case *ssa.ChangeType:
		return r.render(x.X, d+1)
	case *ssa.ChangeInterface:
		return r.render(x.X, d+1)
	case *ssa.MakeInterface:
		return r.render(x.X, d+1)
	case *ssa.Convert:
		return "conv:" + typeShort(x.Type()) + "(" + r.render(x.X, d+1) + ")"
	case *ssa.MultiConvert:
		return "conv:" + typeShort(x.Type()) + "(" + r.render(x.X, d+1) + ")"
	case *ssa.SliceToArrayPointer:
		return r.render(x.X, d+1)
	case *ssa.Slice:
		s := r.render(x.X, d+1) + "["
		if x.Low != nil {
			s += r.render(x.Low, d+1)
		}
		s += ":"
		if x.High != nil {
			s += r.render(x.High, d+1)
		}
		if x.Max != nil {
			s += ":" + r.render(x.Max, d+1)
		}
		return s + "]"
	case *ssa.TypeAssert:
		if x.CommaOk {
			return "assertok(" + r.render(x.X, d+1) + "," + typeShort(x.AssertedType) + ")"
		}
		return "assert(" + r.render(x.X, d+1) + "," + typeShort(x.AssertedType) + ")"
	case *ssa.MakeClosure:
		return "closure:" + FuncName(x.Fn.(*ssa.Function))
	case *ssa.MakeMap:
		return "makemap:" + typeShort(x.Type())
	case *ssa.MakeSlice:
		return "makeslice:" + typeShort(x.Type()) + "(" + r.render(x.Len, d+1) + ")"
	case *ssa.MakeChan:
		return "makechan(" + r.render(x.Size, d+1) + ")"
	case *ssa.Range:
		return "range(" + r.render(x.X, d+1) + ")"
	case *ssa.Next:
		return "next(" + r.render(x.Iter, d+1) + ")"
	case *ssa.Select:
		var parts []string
		for _, st := range x.States {
			dir := "recv"
			if st.Dir == types.SendOnly {
				dir = "send"
			}
			parts = append(parts, dir+":"+r.render(st.Chan, d+1))
		}
		b := "select"
		if !x.Blocking {
			b = "selectnb"
		}
		return b + "(" + strings.Join(parts, ",") + ")"
	}
	return "?" + fmt.Sprintf("%T", v)
}

func (r *renderer) renderCall(cc *ssa.CallCommon, d int) string {
	var name string
	var args []string
	if cc.IsInvoke() {
		name = "invoke:" + cc.Method.Name()
		args = append(args, r.render(cc.Value, d+1))
	} else if b, ok := cc.Value.(*ssa.Builtin); ok {
		name = b.Name()
	} else if f := cc.StaticCallee(); f != nil {
		name = FuncName(f)
		if mc, ok := cc.Value.(*ssa.MakeClosure); ok {
			_ = mc
		}
	} else {
		name = "dyn:" + r.render(cc.Value, d+1)
	}
	for _, a := range cc.Args {
		args = append(args, r.render(a, d+1))
	}
	return name + "(" + strings.Join(args, ", ") + ")"
}

func renderConst(c *ssa.Const) string {
	if c.Value == nil {
		return "nil"
	}
	s := c.Value.ExactString()
	if c.Value.Kind() == constant.String {
		s = c.Value.ExactString()
	}
	if n, ok := c.Type().(*types.Named); ok {
		return s + ":" + n.Obj().Name()
	}
	return s
}

func globalName(g *ssa.Global) string {
	if g.Pkg != nil && g.Pkg.Pkg != nil {
		p := strings.TrimPrefix(strings.TrimPrefix(g.Pkg.Pkg.Path(), ModulePath+"/pkg/"), ModulePath+"/")
		return "&" + p + "." + g.Name()
	}
	return "&" + g.Name()
}

// Unwrap strips value-preserving conversions.
func Unwrap(v ssa.Value) ssa.Value {
	for {
		switch x := v.(type) {
		case *ssa.ChangeType:
			v = x.X
		case *ssa.ChangeInterface:
			v = x.X
		case *ssa.MakeInterface:
			v = x.X
		default:
			return v
		}
	}
}

// IsNilConst reports whether v is the nil constant.
func IsNilConst(v ssa.Value) bool {
	c, ok := v.(*ssa.Const)
	return ok && c.Value == nil
}

// ConstInt64 returns the integer value of a constant SSA value.
func ConstInt64(v ssa.Value) (int64, bool) {
	c, ok := Unwrap(v).(*ssa.Const)
	if !ok || c.Value == nil {
		return 0, false
	}
	if c.Value.Kind() != constant.Int {
		return 0, false
	}
	return constant.Int64Val(c.Value)
}

// ConstString returns the string value of a constant SSA value.
func ConstString(v ssa.Value) (string, bool) {
	c, ok := Unwrap(v).(*ssa.Const)
	if !ok || c.Value == nil || c.Value.Kind() != constant.String {
		return "", false
	}
	return constant.StringVal(c.Value), true
}

// ConstBool returns the boolean value of a constant SSA value.
func ConstBool(v ssa.Value) (bool, bool) {
	c, ok := Unwrap(v).(*ssa.Const)
	if !ok || c.Value == nil || c.Value.Kind() != constant.Bool {
		return false, false
	}
	return constant.BoolVal(c.Value), true
}

// RenderCall renders a call in canonical form.
func RenderCall(cc *ssa.CallCommon) string {
	r := renderer{seen: map[ssa.Value]bool{}}
	return r.renderCall(cc, 0)
}
