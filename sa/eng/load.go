// Package eng holds the shared static-analysis engines: loading, resolution,
// canonical rendering of SSA values, dominating guards, path enumeration,
// effects scanning and reporting.
package eng

import (
	"fmt"
	"go/token"
	"go/types"
	"os"
	"sort"
	"strings"

	"golang.org/x/tools/go/callgraph"
	"golang.org/x/tools/go/callgraph/cha"
	"golang.org/x/tools/go/callgraph/vta"
	"golang.org/x/tools/go/packages"
	"golang.org/x/tools/go/ssa"
	"golang.org/x/tools/go/ssa/ssautil"
)

// ModulePath is the import path prefix of the analysed module.
const ModulePath = "github.com/mutagen-io/mutagen"

// Program is a loaded, type-checked and SSA-lowered view of /repo.
type Program struct {
	Dir      string
	Fset     *token.FileSet
	Pkgs     []*packages.Package // root packages (as matched by the patterns)
	AllPkgs  map[string]*packages.Package
	Prog     *ssa.Program
	SSAPkgs  map[string]*ssa.Package // by import path, module packages only
	GOOS     string
	cg       *callgraph.Graph
	allFuncs map[*ssa.Function]bool
}

// LoadOptions configures a load.
type LoadOptions struct {
	Dir      string
	Patterns []string
	GOOS     string            // "" = host
	Overlay  map[string][]byte // absolute path -> content
}

// Load loads the given patterns (relative to Dir) with full syntax and builds
// SSA for the whole dependency closure.
func Load(o LoadOptions) (*Program, error) {
	if o.Dir == "" {
		o.Dir = "/repo"
	}
	env := os.Environ()
	env = append(env, "GOFLAGS=-mod=mod", "GOPROXY=off", "GOWORK=off")
	if o.GOOS != "" {
		env = append(env, "GOOS="+o.GOOS, "CGO_ENABLED=0")
	}
	cfg := &packages.Config{
		Mode:    packages.LoadAllSyntax,
		Dir:     o.Dir,
		Env:     env,
		Overlay: o.Overlay,
		Tests:   false,
	}
	pkgs, err := packages.Load(cfg, o.Patterns...)
	if err != nil {
		return nil, fmt.Errorf("load: %w", err)
	}
	if len(pkgs) == 0 {
		return nil, fmt.Errorf("load: no packages matched %v", o.Patterns)
	}
	var errs []string
	all := map[string]*packages.Package{}
	packages.Visit(pkgs, nil, func(p *packages.Package) {
		all[p.PkgPath] = p
		if strings.HasPrefix(p.PkgPath, ModulePath) {
			for _, e := range p.Errors {
				errs = append(errs, e.Error())
			}
		}
	})
	if len(errs) > 0 {
		sort.Strings(errs)
		if len(errs) > 10 {
			errs = errs[:10]
		}
		return nil, fmt.Errorf("type-check/parse errors in module packages:\n  %s", strings.Join(errs, "\n  "))
	}
	prog, _ := ssautil.AllPackages(pkgs, ssa.InstantiateGenerics)
	prog.Build()
	p := &Program{
		Dir:     o.Dir,
		Fset:    prog.Fset,
		Pkgs:    pkgs,
		AllPkgs: all,
		Prog:    prog,
		SSAPkgs: map[string]*ssa.Package{},
		GOOS:    o.GOOS,
	}
	for _, sp := range prog.AllPackages() {
		if sp.Pkg != nil && strings.HasPrefix(sp.Pkg.Path(), ModulePath) {
			p.SSAPkgs[sp.Pkg.Path()] = sp
		}
	}
	return p, nil
}

// Pkg returns the SSA package for a module-relative path such as
// "pkg/synchronization/core", or nil.
func (p *Program) Pkg(rel string) *ssa.Package {
	return p.SSAPkgs[ModulePath+"/"+rel]
}

// TypesPkg returns the go/types package for a module-relative path.
func (p *Program) TypesPkg(rel string) *types.Package {
	if sp := p.Pkg(rel); sp != nil {
		return sp.Pkg
	}
	return nil
}

// ModuleFuncs returns every function (incl. methods and anonymous functions)
// whose package lies in the module, optionally restricted to the given
// module-relative package paths.
func (p *Program) ModuleFuncs(rels ...string) []*ssa.Function {
	if p.allFuncs == nil {
		p.allFuncs = ssautil.AllFunctions(p.Prog)
	}
	want := map[string]bool{}
	for _, r := range rels {
		want[ModulePath+"/"+r] = true
	}
	var out []*ssa.Function
	for f := range p.allFuncs {
		pk := funcPkg(f)
		if pk == nil || !strings.HasPrefix(pk.Path(), ModulePath) {
			continue
		}
		if len(want) > 0 && !want[pk.Path()] {
			continue
		}
		if f.Blocks == nil {
			continue
		}
		out = append(out, f)
	}
	sort.Slice(out, func(i, j int) bool {
		if a, b := out[i].String(), out[j].String(); a != b {
			return a < b
		}
		return out[i].Pos() < out[j].Pos()
	})
	return out
}

func funcPkg(f *ssa.Function) *types.Package {
	for f.Parent() != nil {
		f = f.Parent()
	}
	if f.Pkg != nil {
		return f.Pkg.Pkg
	}
	if o := f.Object(); o != nil {
		return o.Pkg()
	}
	if f.Origin() != nil {
		return funcPkg(f.Origin())
	}
	return nil
}

// FuncPkgRel returns the module-relative package path of f ("" if outside).
func FuncPkgRel(f *ssa.Function) string {
	pk := funcPkg(f)
	if pk == nil {
		return ""
	}
	return strings.TrimPrefix(strings.TrimPrefix(pk.Path(), ModulePath), "/")
}

// IsModuleFunc reports whether f is defined in a package of the analysed module.
func IsModuleFunc(f *ssa.Function) bool {
	pk := funcPkg(f)
	return pk != nil && (pk.Path() == ModulePath || strings.HasPrefix(pk.Path(), ModulePath+"/"))
}

// CallGraph returns the VTA call graph (built lazily over all functions).
func (p *Program) CallGraph() *callgraph.Graph {
	if p.cg == nil {
		if p.allFuncs == nil {
			p.allFuncs = ssautil.AllFunctions(p.Prog)
		}
		p.cg = vta.CallGraph(p.allFuncs, cha.CallGraph(p.Prog))
	}
	return p.cg
}

// Pos renders a position relative to the repo directory.
func (p *Program) Pos(pos token.Pos) string {
	if !pos.IsValid() {
		return "?"
	}
	ps := p.Fset.Position(pos)
	f := strings.TrimPrefix(ps.Filename, p.Dir+"/")
	return fmt.Sprintf("%s:%d", f, ps.Line)
}
