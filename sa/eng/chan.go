package eng

import (
	"go/token"
	"go/types"

	"golang.org/x/tools/go/ssa"
)

// ChanOp is a channel send or receive, standalone or as a select case.
type ChanOp struct {
	Instr    ssa.Instruction // *ssa.Send, *ssa.UnOp(<-) or *ssa.Select
	Chan     ssa.Value
	Send     bool
	Val      ssa.Value   // value sent (nil for receives)
	Select   *ssa.Select // non-nil if part of a select
	Index    int         // case index within the select
	Blocking bool        // false for select with default
}

// ChanOps lists the channel operations of fn.
func ChanOps(fn *ssa.Function) []ChanOp {
	var out []ChanOp
	EachInstr(fn, func(i ssa.Instruction) {
		switch x := i.(type) {
		case *ssa.Send:
			out = append(out, ChanOp{Instr: x, Chan: x.Chan, Send: true, Val: x.X, Blocking: true})
		case *ssa.UnOp:
			if x.Op == token.ARROW {
				out = append(out, ChanOp{Instr: x, Chan: x.X, Blocking: true})
			}
		case *ssa.Select:
			for k, st := range x.States {
				out = append(out, ChanOp{Instr: x, Chan: st.Chan, Send: st.Dir == types.SendOnly, Val: st.Send, Select: x, Index: k, Blocking: x.Blocking})
			}
		}
	})
	return out
}

// ChanField returns the struct field a channel value was loaded from (the
// value is `*(&x.f)`), or nil.
func ChanField(v ssa.Value) *types.Var {
	v = Unwrap(v)
	if u, ok := v.(*ssa.UnOp); ok && u.Op == token.MUL {
		return FieldOf(u.X)
	}
	if f, ok := v.(*ssa.Field); ok {
		return FieldOf(f)
	}
	return nil
}

// LitFields returns the values stored into the fields of a composite literal
// cell (an Alloc initialised field by field). Fields stored more than once
// map to nil.
func LitFields(a *ssa.Alloc) map[string]ssa.Value {
	out := map[string]ssa.Value{}
	cnt := map[string]int{}
	for _, ref := range *a.Referrers() {
		fa, ok := ref.(*ssa.FieldAddr)
		if !ok {
			continue
		}
		f := FieldOf(fa)
		for _, r2 := range *fa.Referrers() {
			if st, ok := r2.(*ssa.Store); ok && st.Addr == ssa.Value(fa) {
				cnt[f.Name()]++
				out[f.Name()] = st.Val
			}
		}
	}
	for n, c := range cnt {
		if c > 1 {
			out[n] = nil
		}
	}
	return out
}

// LitOf returns the composite-literal cell behind a value: v is either the
// Alloc itself (pointer literal &T{…}) or a load of it (value literal T{…}).
func LitOf(v ssa.Value) *ssa.Alloc {
	v = Unwrap(v)
	if a, ok := v.(*ssa.Alloc); ok {
		return a
	}
	if u, ok := v.(*ssa.UnOp); ok && u.Op == token.MUL {
		if a, ok := u.X.(*ssa.Alloc); ok {
			return a
		}
	}
	return nil
}

// SelectCaseBlock returns the block executed when case idx of a select fires
// (following the chain of `select.next` comparisons on the select's index), or
// nil if not found.
func SelectCaseBlock(sel *ssa.Select, idx int) *ssa.BasicBlock {
	var index ssa.Value
	for _, ref := range *sel.Referrers() {
		if ex, ok := ref.(*ssa.Extract); ok && ex.Index == 0 {
			index = ex
		}
	}
	if index == nil {
		return nil
	}
	for _, ref := range *index.Referrers() {
		b, ok := ref.(*ssa.BinOp)
		if !ok || b.Op != token.EQL {
			continue
		}
		if c, ok := ConstInt64(b.Y); ok && int(c) == idx {
			for _, r2 := range *b.Referrers() {
				if iff, ok := r2.(*ssa.If); ok {
					return iff.Block().Succs[0]
				}
			}
		}
	}
	return nil
}
