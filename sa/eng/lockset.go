package eng

import (
	"sort"
	"strings"

	"golang.org/x/tools/go/ssa"
)

// Lockset analysis (engine L): a forward must-analysis computing, before every
// instruction of a function, the set of locks that are held on every path from
// the entry. Locks are identified by the canonical rendering of the receiver
// the Lock/Unlock method is called on ("p0.streamLock"). Deferred unlocks do
// not release (the lock stays held until the function returns).

// LockOps configures which callees acquire and release.
type LockOps struct {
	Acquire func(call ssa.CallInstruction) (lock string, ok bool)
	Release func(call ssa.CallInstruction) (lock string, ok bool)
}

// DefaultLockOps recognises sync.Mutex/RWMutex and any method named Lock,
// RLock, Unlock, RUnlock or UnlockWithoutNotify (state.TrackingLock).
func DefaultLockOps() LockOps {
	recv := func(call ssa.CallInstruction) string {
		cc := call.Common()
		if cc.IsInvoke() {
			return strings.TrimPrefix(Render(cc.Value), "&")
		}
		if len(cc.Args) == 0 {
			return ""
		}
		return strings.TrimPrefix(Render(cc.Args[0]), "&")
	}
	name := func(call ssa.CallInstruction) string {
		cc := call.Common()
		if cc.IsInvoke() {
			return cc.Method.Name()
		}
		if f := cc.StaticCallee(); f != nil {
			return f.Name()
		}
		return ""
	}
	return LockOps{
		Acquire: func(call ssa.CallInstruction) (string, bool) {
			switch name(call) {
			case "Lock", "RLock":
				return recv(call), true
			}
			return "", false
		},
		Release: func(call ssa.CallInstruction) (string, bool) {
			switch name(call) {
			case "Unlock", "RUnlock", "UnlockWithoutNotify":
				return recv(call), true
			}
			return "", false
		},
	}
}

// HeldLocks returns, for every instruction of fn, the locks held on all paths
// reaching it. entry lists locks the caller is assumed to hold.
func HeldLocks(fn *ssa.Function, ops LockOps, entry []string) map[ssa.Instruction]map[string]bool {
	n := len(fn.Blocks)
	in := make([]map[string]bool, n)
	visited := make([]bool, n)
	start := map[string]bool{}
	for _, e := range entry {
		start[e] = true
	}
	in[0] = start
	visited[0] = true
	transfer := func(b *ssa.BasicBlock, s map[string]bool, record map[ssa.Instruction]map[string]bool) map[string]bool {
		cur := map[string]bool{}
		for k := range s {
			cur[k] = true
		}
		for _, i := range b.Instrs {
			if record != nil {
				snap := map[string]bool{}
				for k := range cur {
					snap[k] = true
				}
				record[i] = snap
			}
			call, ok := i.(ssa.CallInstruction)
			if !ok {
				continue
			}
			if _, isDefer := i.(*ssa.Defer); isDefer {
				continue
			}
			if _, isGo := i.(*ssa.Go); isGo {
				continue
			}
			if l, ok := ops.Acquire(call); ok && l != "" {
				cur[l] = true
			}
			if l, ok := ops.Release(call); ok && l != "" {
				delete(cur, l)
			}
		}
		return cur
	}
	changed := true
	for changed {
		changed = false
		for _, b := range fn.Blocks {
			if !visited[b.Index] {
				continue
			}
			out := transfer(b, in[b.Index], nil)
			for _, si := range feasibleSuccs(b) {
				s := b.Succs[si]
				if !visited[s.Index] {
					visited[s.Index] = true
					cp := map[string]bool{}
					for k := range out {
						cp[k] = true
					}
					in[s.Index] = cp
					changed = true
					continue
				}
				for k := range in[s.Index] {
					if !out[k] {
						delete(in[s.Index], k)
						changed = true
					}
				}
			}
		}
	}
	res := map[ssa.Instruction]map[string]bool{}
	for _, b := range fn.Blocks {
		if visited[b.Index] {
			transfer(b, in[b.Index], res)
		}
	}
	return res
}

// LockNames renders a lock set.
func LockNames(s map[string]bool) string {
	var out []string
	for k := range s {
		out = append(out, k)
	}
	sort.Strings(out)
	return strings.Join(out, ",")
}
