package eng

import (
	"fmt"
	"regexp/syntax"
	"unicode"

	"golang.org/x/tools/go/ssa"
)

// RuneSet is a set of runes as sorted, inclusive [lo,hi] pairs.
type RuneSet []rune

// Covers reports whether every rune of b is in a.
func (a RuneSet) Covers(b RuneSet) bool {
	for i := 0; i+1 < len(b); i += 2 {
		lo, hi := b[i], b[i+1]
		// every rune in [lo,hi] must be in a; a's ranges are sorted and may be adjacent
		cur := lo
		for cur <= hi {
			found := false
			for j := 0; j+1 < len(a); j += 2 {
				if a[j] <= cur && cur <= a[j+1] {
					cur = a[j+1] + 1
					found = true
					break
				}
			}
			if !found {
				return false
			}
		}
	}
	return true
}

// RuneSetOf returns the set of the runes of s.
func RuneSetOf(s string) RuneSet {
	var out RuneSet
	for _, r := range s {
		out = append(out, r, r)
	}
	return out
}

// FixedRegex decomposes a regular expression that matches strings of one
// fixed length into the set of runes allowed at each position. anchored is
// true if the expression begins with ^ (or \A) and ends with $ (or \z). An
// expression of any other shape is an error (the caller reports it undecided).
func FixedRegex(pattern string) (pos []RuneSet, anchored bool, err error) {
	re, err := syntax.Parse(pattern, syntax.Perl)
	if err != nil {
		return nil, false, err
	}
	begin, end := false, false
	var walk func(r *syntax.Regexp) error
	walk = func(r *syntax.Regexp) error {
		if r.Flags&syntax.FoldCase != 0 {
			return fmt.Errorf("case folding not supported")
		}
		switch r.Op {
		case syntax.OpEmptyMatch:
			return nil
		case syntax.OpBeginText:
			if len(pos) != 0 {
				return fmt.Errorf("^ not at the start")
			}
			begin = true
			return nil
		case syntax.OpEndText:
			end = true
			return nil
		case syntax.OpLiteral:
			if end {
				return fmt.Errorf("text after $")
			}
			for _, c := range r.Rune {
				pos = append(pos, RuneSet{c, c})
			}
			return nil
		case syntax.OpCharClass:
			if end {
				return fmt.Errorf("text after $")
			}
			pos = append(pos, RuneSet(append([]rune(nil), r.Rune...)))
			return nil
		case syntax.OpCapture:
			return walk(r.Sub[0])
		case syntax.OpConcat:
			for _, s := range r.Sub {
				if err := walk(s); err != nil {
					return err
				}
			}
			return nil
		case syntax.OpRepeat:
			if r.Min != r.Max {
				return fmt.Errorf("variable repetition {%d,%d}", r.Min, r.Max)
			}
			for i := 0; i < r.Min; i++ {
				if err := walk(r.Sub[0]); err != nil {
					return err
				}
			}
			return nil
		}
		return fmt.Errorf("unsupported operator %v", r.Op)
	}
	if err := walk(re); err != nil {
		return nil, false, err
	}
	return pos, begin && end, nil
}

// GlobalRegexPattern returns the constant pattern with which the package
// initializer compiles the regexp stored in the named package-level variable.
func (p *Program) GlobalRegexPattern(rel, global string) (string, bool) {
	pkg := p.Pkg(rel)
	if pkg == nil {
		return "", false
	}
	initFn := pkg.Func("init")
	if initFn == nil {
		return "", false
	}
	pat, found := "", false
	EachInstr(initFn, func(i ssa.Instruction) {
		st, ok := i.(*ssa.Store)
		if !ok {
			return
		}
		g, ok := st.Addr.(*ssa.Global)
		if !ok || g.Name() != global {
			return
		}
		call, ok := st.Val.(*ssa.Call)
		if !ok {
			return
		}
		if n := CalleeName(call); n != "regexp.MustCompile" {
			return
		}
		if s, ok := ConstString(call.Call.Args[0]); ok {
			pat, found = s, true
		}
	})
	return pat, found
}

// RegexAlphabet returns the set of runes that can occur in any string the
// expression matches, provided the expression is anchored at both ends (so a
// match is the whole string) and uses only literals, classes, grouping,
// alternation and repetition. Any-character operators are an error.
func RegexAlphabet(pattern string) (RuneSet, bool, error) {
	re, err := syntax.Parse(pattern, syntax.Perl)
	if err != nil {
		return nil, false, err
	}
	var out RuneSet
	var walk func(r *syntax.Regexp) error
	walk = func(r *syntax.Regexp) error {
		switch r.Op {
		case syntax.OpEmptyMatch, syntax.OpBeginText, syntax.OpEndText:
			return nil
		case syntax.OpLiteral:
			for _, c := range r.Rune {
				out = append(out, c, c)
				if r.Flags&syntax.FoldCase != 0 {
					for f := unicodeSimpleFold(c); f != c; f = unicodeSimpleFold(f) {
						out = append(out, f, f)
					}
				}
			}
			return nil
		case syntax.OpCharClass:
			out = append(out, r.Rune...)
			return nil
		case syntax.OpCapture, syntax.OpPlus, syntax.OpStar, syntax.OpQuest, syntax.OpRepeat, syntax.OpConcat, syntax.OpAlternate:
			for _, s := range r.Sub {
				if err := walk(s); err != nil {
					return err
				}
			}
			return nil
		}
		return fmt.Errorf("unsupported operator %v", r.Op)
	}
	if err := walk(re); err != nil {
		return nil, false, err
	}
	anchored := false
	if re.Op == syntax.OpConcat && len(re.Sub) >= 2 {
		anchored = re.Sub[0].Op == syntax.OpBeginText && re.Sub[len(re.Sub)-1].Op == syntax.OpEndText
	}
	return out, anchored, nil
}

func unicodeSimpleFold(r rune) rune { return unicode.SimpleFold(r) }
