package eng

import (
	"go/token"

	"golang.org/x/tools/go/ssa"
)

var singleAssignCache = map[*ssa.Alloc]ssa.Value{}
var singleAssignDone = map[*ssa.Alloc]bool{}

// SingleAssign returns the unique value ever stored into a local cell (an
// Alloc that go/ssa spilled because the variable is captured by a closure or
// has its address taken), or nil if the cell is stored more than once, is
// stored through an alias, or escapes in a way the analysis cannot follow.
// Allowed referrers: loads, the one store, and capture by closures that only
// load the variable.
func SingleAssign(a *ssa.Alloc) ssa.Value {
	if singleAssignDone[a] {
		return singleAssignCache[a]
	}
	singleAssignDone[a] = true
	var stored ssa.Value
	n := 0
	ok := true
	var visitRefs func(refs []ssa.Instruction)
	visitRefs = func(refs []ssa.Instruction) {
		for _, ref := range refs {
			switch x := ref.(type) {
			case *ssa.UnOp:
				if x.Op != token.MUL {
					ok = false
				}
			case *ssa.Store:
				if x.Addr == ssa.Value(a) {
					stored = x.Val
					n++
				} else if _, isFV := x.Addr.(*ssa.FreeVar); isFV {
					n += 2
				} else {
					ok = false // the address itself is stored somewhere
				}
			case *ssa.MakeClosure:
				fn := x.Fn.(*ssa.Function)
				for i, b := range x.Bindings {
					if b == ssa.Value(a) {
						fv := fn.FreeVars[i]
						if !freeVarOnlyLoaded(fv, 0) {
							ok = false
						}
					}
				}
			case *ssa.DebugRef:
			default:
				ok = false
			}
		}
	}
	visitRefs(*a.Referrers())
	if ok && n == 1 {
		singleAssignCache[a] = stored
		return stored
	}
	return nil
}

func freeVarOnlyLoaded(fv *ssa.FreeVar, depth int) bool {
	if depth > 4 {
		return false
	}
	for _, ref := range *fv.Referrers() {
		switch x := ref.(type) {
		case *ssa.UnOp:
			if x.Op != token.MUL {
				return false
			}
		case *ssa.MakeClosure:
			fn := x.Fn.(*ssa.Function)
			for i, b := range x.Bindings {
				if b == ssa.Value(fv) {
					if !freeVarOnlyLoaded(fn.FreeVars[i], depth+1) {
						return false
					}
				}
			}
		case *ssa.DebugRef:
		default:
			return false
		}
	}
	return true
}

// ReachingStore returns the value most recently stored into the local cell
// read by `load` when that is decidable without merging: it scans backwards in
// the load's block and then along the chain of unique predecessors until a
// store to the same cell is found. Calls in between are ignored only if the
// cell is not captured by a closure that writes it. Returns nil if undecided.
func ReachingStore(load ssa.Value) ssa.Value {
	u, ok := Unwrap(load).(*ssa.UnOp)
	if !ok || u.Op != token.MUL {
		return nil
	}
	al, ok := u.X.(*ssa.Alloc)
	if !ok {
		return nil
	}
	// refuse cells written from closures
	for _, ref := range *al.Referrers() {
		if mc, ok := ref.(*ssa.MakeClosure); ok {
			fn := mc.Fn.(*ssa.Function)
			for i, b := range mc.Bindings {
				if b == ssa.Value(al) && !freeVarOnlyLoaded(fn.FreeVars[i], 0) {
					return nil
				}
			}
		}
	}
	b := u.Block()
	idx := InstrIndex(u)
	for hops := 0; hops < 32; hops++ {
		for k := idx - 1; k >= 0; k-- {
			if st, ok := b.Instrs[k].(*ssa.Store); ok && st.Addr == ssa.Value(al) {
				return st.Val
			}
		}
		if len(b.Preds) != 1 {
			return nil
		}
		b = b.Preds[0]
		idx = len(b.Instrs)
	}
	return nil
}

// FreeVarBinding returns, for a free variable of an anonymous function, the
// value bound to it at the (unique) MakeClosure site in the parent.
func FreeVarBinding(fv *ssa.FreeVar) ssa.Value {
	fn := fv.Parent()
	par := fn.Parent()
	if par == nil {
		return nil
	}
	idx := -1
	for i, f := range fn.FreeVars {
		if f == fv {
			idx = i
		}
	}
	var out ssa.Value
	n := 0
	EachInstr(par, func(i ssa.Instruction) {
		if mc, ok := i.(*ssa.MakeClosure); ok && mc.Fn == ssa.Value(fn) {
			out = mc.Bindings[idx]
			n++
		}
	})
	if n == 1 {
		return out
	}
	return nil
}
