package eng

import (
	"fmt"
	"go/constant"
	"go/types"
	"strings"

	"golang.org/x/tools/go/ssa"
)

// Func resolves a function or method in a module-relative package. name is
// "Func", "Type.Method" (pointer or value receiver, whichever exists) or
// either followed by "$N" for the N-th anonymous function.
func (p *Program) Func(rel, name string) (*ssa.Function, error) {
	sp := p.Pkg(rel)
	if sp == nil {
		return nil, fmt.Errorf("package %s not loaded", rel)
	}
	base := name
	var anon []string
	if i := strings.Index(name, "$"); i >= 0 {
		base = name[:i]
		anon = strings.Split(name[i+1:], "$")
	}
	var fn *ssa.Function
	if i := strings.Index(base, "."); i >= 0 {
		tn, mn := base[:i], base[i+1:]
		obj := sp.Pkg.Scope().Lookup(tn)
		if obj == nil {
			return nil, fmt.Errorf("type %s.%s not found", rel, tn)
		}
		named, ok := obj.Type().(*types.Named)
		if !ok {
			return nil, fmt.Errorf("%s.%s is not a named type", rel, tn)
		}
		for _, t := range []types.Type{types.NewPointer(named), named} {
			ms := p.Prog.MethodSets.MethodSet(t)
			for i := 0; i < ms.Len(); i++ {
				sel := ms.At(i)
				if sel.Obj().Name() == mn && sel.Obj().Pkg() == sp.Pkg {
					if f := p.Prog.MethodValue(sel); f != nil && f.Synthetic == "" {
						fn = f
					} else if f != nil && fn == nil {
						// wrapper for a value method reached via pointer
						if fo, ok := sel.Obj().(*types.Func); ok {
							fn = p.Prog.FuncValue(fo)
						}
					}
				}
			}
			if fn != nil {
				break
			}
		}
		if fn == nil {
			// methods of a generic type: the (uninstantiated) generic body
			for i := 0; i < named.NumMethods(); i++ {
				if m := named.Method(i); m.Name() == mn {
					fn = p.Prog.FuncValue(m)
				}
			}
		}
		if fn == nil {
			return nil, fmt.Errorf("method %s.%s not found", rel, base)
		}
	} else {
		fn = sp.Func(base)
		if fn == nil {
			return nil, fmt.Errorf("function %s.%s not found", rel, base)
		}
	}
	for _, a := range anon {
		var idx int
		fmt.Sscanf(a, "%d", &idx)
		if idx < 1 || idx > len(fn.AnonFuncs) {
			return nil, fmt.Errorf("anonymous function %s.%s not found", rel, name)
		}
		fn = fn.AnonFuncs[idx-1]
	}
	if fn.Blocks == nil {
		return nil, fmt.Errorf("function %s.%s has no body", rel, name)
	}
	return fn, nil
}

// Named resolves a named type.
func (p *Program) Named(rel, name string) (*types.Named, error) {
	tp := p.TypesPkg(rel)
	if tp == nil {
		return nil, fmt.Errorf("package %s not loaded", rel)
	}
	obj := tp.Scope().Lookup(name)
	if obj == nil {
		return nil, fmt.Errorf("type %s.%s not found", rel, name)
	}
	n, ok := obj.Type().(*types.Named)
	if !ok {
		return nil, fmt.Errorf("%s.%s is not a named type", rel, name)
	}
	return n, nil
}

// Field resolves a struct field of a named struct type.
func (p *Program) Field(rel, typ, field string) (*types.Var, error) {
	n, err := p.Named(rel, typ)
	if err != nil {
		return nil, err
	}
	st, ok := n.Underlying().(*types.Struct)
	if !ok {
		return nil, fmt.Errorf("%s.%s is not a struct", rel, typ)
	}
	for i := 0; i < st.NumFields(); i++ {
		if st.Field(i).Name() == field {
			return st.Field(i), nil
		}
	}
	return nil, fmt.Errorf("field %s.%s.%s not found", rel, typ, field)
}

// Const resolves a package-level constant and returns its value.
func (p *Program) Const(rel, name string) (constant.Value, *types.Const, error) {
	tp := p.TypesPkg(rel)
	if tp == nil {
		return nil, nil, fmt.Errorf("package %s not loaded", rel)
	}
	c, ok := tp.Scope().Lookup(name).(*types.Const)
	if !ok {
		return nil, nil, fmt.Errorf("constant %s.%s not found", rel, name)
	}
	return c.Val(), c, nil
}

// ConstInt returns an integer constant's value.
func (p *Program) ConstInt(rel, name string) (int64, error) {
	v, _, err := p.Const(rel, name)
	if err != nil {
		return 0, err
	}
	i, ok := constant.Int64Val(constant.ToInt(v))
	if !ok {
		return 0, fmt.Errorf("constant %s.%s is not an int64", rel, name)
	}
	return i, nil
}

// ConstsOfType lists the package-level constants of a named type, name->value.
func (p *Program) ConstsOfType(rel, typ string) (map[string]int64, error) {
	n, err := p.Named(rel, typ)
	if err != nil {
		return nil, err
	}
	out := map[string]int64{}
	sc := n.Obj().Pkg().Scope()
	for _, nm := range sc.Names() {
		if c, ok := sc.Lookup(nm).(*types.Const); ok && types.Identical(c.Type(), n) {
			if i, ok := constant.Int64Val(constant.ToInt(c.Val())); ok {
				out[nm] = i
			}
		}
	}
	return out, nil
}

// FieldOf returns the struct field addressed/read by v if v is a FieldAddr or
// Field instruction.
func FieldOf(v ssa.Value) *types.Var {
	switch x := v.(type) {
	case *ssa.FieldAddr:
		return structField(x.X.Type(), x.Field)
	case *ssa.Field:
		return structField(x.X.Type(), x.Field)
	}
	return nil
}

func structField(t types.Type, i int) *types.Var {
	t = t.Underlying()
	if p, ok := t.(*types.Pointer); ok {
		t = p.Elem().Underlying()
	}
	if st, ok := t.(*types.Struct); ok && i < st.NumFields() {
		return st.Field(i)
	}
	return nil
}

// Callee returns the statically known callee of a call instruction (function,
// method or closure literal), or nil.
func Callee(c ssa.CallInstruction) *ssa.Function {
	return c.Common().StaticCallee()
}

// CalleeName returns a short stable name for a call's target: for static
// calls "pkgrel.Func" or "pkgrel.(*T).M"/"pkgrel.(T).M"; for interface invokes
// "iface:Method"; for builtins "builtin:name"; for dynamic calls "dyn".
func CalleeName(c ssa.CallInstruction) string {
	cc := c.Common()
	if cc.IsInvoke() {
		return "iface:" + typeShort(cc.Value.Type()) + "." + cc.Method.Name()
	}
	if b, ok := cc.Value.(*ssa.Builtin); ok {
		return "builtin:" + b.Name()
	}
	if f := cc.StaticCallee(); f != nil {
		return FuncName(f)
	}
	return "dyn"
}

// FuncName is the short stable name of a function.
func FuncName(f *ssa.Function) string {
	if f == nil {
		return "<nil>"
	}
	s := f.String()
	s = strings.ReplaceAll(s, ModulePath+"/pkg/", "")
	s = strings.ReplaceAll(s, ModulePath+"/", "")
	return s
}

func typeShort(t types.Type) string {
	s := types.TypeString(t, func(p *types.Package) string {
		return strings.TrimPrefix(strings.TrimPrefix(p.Path(), ModulePath+"/pkg/"), ModulePath+"/")
	})
	return s
}

// TypeShort renders a type with module-relative package qualifiers.
func TypeShort(t types.Type) string { return typeShort(t) }
