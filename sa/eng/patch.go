package eng

import (
	"fmt"
	"os"
	"path/filepath"
	"strconv"
	"strings"
)

// ApplyUnifiedDiff applies a git-style unified diff to the files below root
// without touching the disk and returns the new contents keyed by absolute
// path (suitable as a go/packages overlay). Every hunk's context and removed
// lines must match the current file exactly at the stated position or within
// a small offset; otherwise an error is returned (the change does not apply to
// this tree). File deletions and renames are not supported.
func ApplyUnifiedDiff(root string, diff []byte) (map[string][]byte, error) {
	out := map[string][]byte{}
	lines := strings.Split(string(diff), "\n")
	i := 0
	for i < len(lines) {
		if !strings.HasPrefix(lines[i], "--- ") {
			i++
			continue
		}
		if i+1 >= len(lines) || !strings.HasPrefix(lines[i+1], "+++ ") {
			return nil, fmt.Errorf("malformed diff at line %d", i+1)
		}
		oldName := strings.TrimSpace(strings.TrimPrefix(lines[i], "--- "))
		newName := strings.TrimSpace(strings.TrimPrefix(lines[i+1], "+++ "))
		i += 2
		if newName == "/dev/null" {
			return nil, fmt.Errorf("file deletion not supported (%s)", oldName)
		}
		rel := strings.TrimPrefix(newName, "b/")
		if t := strings.IndexByte(rel, '\t'); t >= 0 {
			rel = rel[:t]
		}
		abs := filepath.Join(root, rel)
		var src []string
		if oldName != "/dev/null" {
			var data []byte
			if d, ok := out[abs]; ok {
				data = d
			} else {
				d, err := os.ReadFile(abs)
				if err != nil {
					return nil, err
				}
				data = d
			}
			src = strings.Split(string(data), "\n")
		}
		var dst []string
		pos := 0 // next unread line of src
		for i < len(lines) && strings.HasPrefix(lines[i], "@@") {
			var os_, ol, ns, nl int
			hdr := lines[i]
			if _, err := parseHunkHeader(hdr, &os_, &ol, &ns, &nl); err != nil {
				return nil, err
			}
			i++
			var hunk []string
			for i < len(lines) && !strings.HasPrefix(lines[i], "@@") && !strings.HasPrefix(lines[i], "diff --git") && !strings.HasPrefix(lines[i], "--- ") {
				if lines[i] == `\ No newline at end of file` {
					i++
					continue
				}
				hunk = append(hunk, lines[i])
				i++
			}
			// drop a trailing empty string produced by the final newline of the diff
			for len(hunk) > 0 && hunk[len(hunk)-1] == "" && countOld(hunk) > ol {
				hunk = hunk[:len(hunk)-1]
			}
			var oldLines []string
			for _, h := range hunk {
				if h == "" {
					oldLines = append(oldLines, "")
					continue
				}
				switch h[0] {
				case ' ', '-':
					oldLines = append(oldLines, h[1:])
				}
			}
			start := os_ - 1
			if ol == 0 {
				start = os_
			}
			at := -1
			for _, off := range []int{0, -1, 1, -2, 2, -3, 3, -5, 5, -10, 10, -20, 20} {
				s := start + off
				if s < pos || s+len(oldLines) > len(src) {
					continue
				}
				match := true
				for k, l := range oldLines {
					if src[s+k] != l {
						match = false
						break
					}
				}
				if match {
					at = s
					break
				}
			}
			if at < 0 {
				return nil, fmt.Errorf("%s: hunk %q does not apply", rel, hdr)
			}
			dst = append(dst, src[pos:at]...)
			for _, h := range hunk {
				if h == "" {
					dst = append(dst, "")
					continue
				}
				switch h[0] {
				case ' ', '+':
					dst = append(dst, h[1:])
				}
			}
			pos = at + len(oldLines)
		}
		dst = append(dst, src[pos:]...)
		out[abs] = []byte(strings.Join(dst, "\n"))
	}
	if len(out) == 0 {
		return nil, fmt.Errorf("no file changes found in diff")
	}
	return out, nil
}

func countOld(hunk []string) int {
	n := 0
	for _, h := range hunk {
		if h == "" || h[0] == ' ' || h[0] == '-' {
			n++
		}
	}
	return n
}

func parseHunkHeader(h string, os_, ol, ns, nl *int) (bool, error) {
	// @@ -a,b +c,d @@
	parts := strings.Fields(h)
	if len(parts) < 3 {
		return false, fmt.Errorf("bad hunk header %q", h)
	}
	parse := func(s string, a, b *int) error {
		s = s[1:]
		*b = 1
		if c := strings.IndexByte(s, ','); c >= 0 {
			v, err := strconv.Atoi(s[c+1:])
			if err != nil {
				return err
			}
			*b = v
			s = s[:c]
		}
		v, err := strconv.Atoi(s)
		if err != nil {
			return err
		}
		*a = v
		return nil
	}
	if err := parse(parts[1], os_, ol); err != nil {
		return false, fmt.Errorf("bad hunk header %q", h)
	}
	if err := parse(parts[2], ns, nl); err != nil {
		return false, fmt.Errorf("bad hunk header %q", h)
	}
	return true, nil
}
