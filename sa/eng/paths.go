package eng

import (
	"go/token"

	"golang.org/x/tools/go/ssa"
)

// Path is an acyclic walk through a function's blocks together with the atoms
// established by the branch edges taken.
type Path struct {
	Blocks []*ssa.BasicBlock
	Atoms  []Atom
}

// Last returns the final block of the path.
func (p Path) Last() *ssa.BasicBlock { return p.Blocks[len(p.Blocks)-1] }

// Contains reports whether the path visits b.
func (p Path) Contains(b *ssa.BasicBlock) bool {
	for _, x := range p.Blocks {
		if x == b {
			return true
		}
	}
	return false
}

// PredOf returns the block preceding b on the path (nil if b is first/absent).
func (p Path) PredOf(b *ssa.BasicBlock) *ssa.BasicBlock {
	for i, x := range p.Blocks {
		if x == b && i > 0 {
			return p.Blocks[i-1]
		}
	}
	return nil
}

// PhiOn resolves a phi on this path: the edge value for the predecessor
// through which the path entered the phi's block. Returns nil if the phi's
// block is not on the path (or is its first block).
func (p Path) PhiOn(phi *ssa.Phi) ssa.Value {
	b := phi.Block()
	pred := p.PredOf(b)
	if pred == nil {
		return nil
	}
	for i, q := range b.Preds {
		if q == pred {
			return phi.Edges[i]
		}
	}
	return nil
}

// Resolve follows phis (by path predecessor) and value-preserving conversions
// until a non-phi value is reached.
func (p Path) Resolve(v ssa.Value) ssa.Value {
	for k := 0; k < 64; k++ {
		v = Unwrap(v)
		phi, ok := v.(*ssa.Phi)
		if !ok {
			return v
		}
		nv := p.PhiOn(phi)
		if nv == nil {
			return v
		}
		v = nv
	}
	return v
}

// ExpandedAtoms returns the path's atoms plus, for every atom whose condition
// is a phi (a bool computed by `a && b` in value position, then branched on),
// the atom of the value the phi takes on this path. Constant resolutions are
// dropped.
func (p Path) ExpandedAtoms() []Atom {
	out := append([]Atom(nil), p.Atoms...)
	for _, a := range p.Atoms {
		if phi, ok := a.V.(*ssa.Phi); ok {
			rv := p.Resolve(phi)
			if rv == ssa.Value(phi) {
				continue
			}
			if _, isC := ConstBool(rv); isC {
				continue
			}
			out = append(out, MkAtom(rv, a.Pos))
		}
	}
	return out
}

// HasAtomOn reports whether the path carries an atom on exactly value v with
// polarity pol.
func (p Path) HasAtomOn(v ssa.Value, pol bool) bool {
	for _, a := range p.Atoms {
		if a.V == v && a.Pos == pol {
			return true
		}
	}
	return false
}

// feasibleSuccs returns the successor indices that a constant condition
// allows (all of them for non-constant conditions).
func feasibleSuccs(b *ssa.BasicBlock) []int {
	if len(b.Succs) == 2 {
		if iff, ok := b.Instrs[len(b.Instrs)-1].(*ssa.If); ok {
			if c, ok := ConstBool(iff.Cond); ok {
				if c {
					return []int{0}
				}
				return []int{1}
			}
		}
	}
	out := make([]int, len(b.Succs))
	for i := range out {
		out[i] = i
	}
	return out
}

// EnumPaths enumerates acyclic paths starting at from. A path ends at a block
// for which stop returns true (the block is included), or at a block without
// successors. Edges excluded by a constant condition are not followed and paths
// whose atoms contradict each other (same value, both polarities) are pruned.
// If more than limit paths exist the enumeration stops and complete is false.
func EnumPaths(from *ssa.BasicBlock, stop func(*ssa.BasicBlock) bool, limit int) (paths []Path, complete bool) {
	return EnumPathsOpt(from, stop, limit, false)
}

// EnumPathsOpt is EnumPaths with optional pruning of paths whose atoms
// contradict each other by rendered expression (same expression with both
// polarities, or one expression equal to two different constants). byExpr is
// sound only for functions that do not write the memory their conditions read;
// use NoFieldStores to establish that.
func EnumPathsOpt(from *ssa.BasicBlock, stop func(*ssa.BasicBlock) bool, limit int, byExpr bool) (paths []Path, complete bool) {
	complete = true
	var blocks []*ssa.BasicBlock
	var atoms []Atom
	on := map[*ssa.BasicBlock]bool{}
	var walk func(b *ssa.BasicBlock)
	walk = func(b *ssa.BasicBlock) {
		if !complete {
			return
		}
		blocks = append(blocks, b)
		on[b] = true
		defer func() {
			blocks = blocks[:len(blocks)-1]
			delete(on, b)
		}()
		if (stop != nil && stop(b) && len(blocks) > 1) || len(b.Succs) == 0 {
			if len(paths) >= limit {
				complete = false
				return
			}
			paths = append(paths, Path{Blocks: append([]*ssa.BasicBlock(nil), blocks...), Atoms: append([]Atom(nil), atoms...)})
			return
		}
		succs := feasibleSuccs(b)
		// A branch on a boolean phi whose value is a constant along the
		// current path (short-circuit evaluation in value position) has only
		// one feasible edge.
		if len(b.Succs) == 2 {
			if iff, ok := b.Instrs[len(b.Instrs)-1].(*ssa.If); ok {
				cond, neg := iff.Cond, false
				for {
					u, ok := cond.(*ssa.UnOp)
					if !ok || u.Op != token.NOT {
						break
					}
					cond, neg = u.X, !neg
				}
				if phi, ok := cond.(*ssa.Phi); ok {
					cur := Path{Blocks: blocks}
					if cv, ok := ConstBool(cur.Resolve(phi)); ok {
						if cv != neg {
							succs = []int{0}
						} else {
							succs = []int{1}
						}
					}
				}
			}
		}
		for _, si := range succs {
			s := b.Succs[si]
			if on[s] {
				// A cycle that is not cut by stop: end the path at the repeated
				// block so that callers can see the back edge.
				if len(paths) >= limit {
					complete = false
					return
				}
				pb := append(append([]*ssa.BasicBlock(nil), blocks...), s)
				paths = append(paths, Path{Blocks: pb, Atoms: append([]Atom(nil), atoms...)})
				continue
			}
			a, has := edgeAtom(b, si)
			if has {
				contra := false
				for _, x := range atoms {
					if x.V == a.V && x.Pos != a.Pos {
						contra = true
						break
					}
					if byExpr && x.Contradicts(a) {
						contra = true
						break
					}
				}
				if contra {
					continue
				}
				atoms = append(atoms, a)
			}
			// A branch on a boolean φ (a hoisted `ok := a && b`) whose value
			// along this path is the non-constant operand w establishes the
			// same fact about w.
			mark := len(atoms)
			if has {
				if phi, ok := a.V.(*ssa.Phi); ok {
					rv := (Path{Blocks: blocks}).Resolve(phi)
					if _, isC := ConstBool(rv); !isC && rv != ssa.Value(phi) {
						e := MkAtom(rv, a.Pos)
						contra := false
						for _, x := range atoms {
							if (x.V == e.V && x.Pos != e.Pos) || (byExpr && x.Contradicts(e)) {
								contra = true
							}
						}
						if contra {
							atoms = atoms[:mark-1]
							continue
						}
						atoms = append(atoms, e)
					}
				}
				// facts imported from a helper whose verdict this branch tests
				for _, x := range atoms[mark-1:] {
					atoms = append(atoms, summaryAtoms(x)...)
				}
			}
			walk(s)
			if has {
				atoms = atoms[:mark-1]
			}
		}
	}
	walk(from)
	return paths, complete
}

// LoopOf describes a natural loop by its header.
type LoopOf struct {
	Header *ssa.BasicBlock
	Body   map[*ssa.BasicBlock]bool // includes header
	Latch  []*ssa.BasicBlock        // blocks with an edge back to the header
}

// FindLoop computes the natural loop of header (blocks that can reach a back
// edge to header without leaving through it).
func FindLoop(header *ssa.BasicBlock) *LoopOf {
	l := &LoopOf{Header: header, Body: map[*ssa.BasicBlock]bool{header: true}}
	var work []*ssa.BasicBlock
	for _, p := range header.Preds {
		if header.Dominates(p) {
			l.Latch = append(l.Latch, p)
			if !l.Body[p] {
				l.Body[p] = true
				work = append(work, p)
			}
		}
	}
	for len(work) > 0 {
		b := work[len(work)-1]
		work = work[:len(work)-1]
		for _, p := range b.Preds {
			if !l.Body[p] {
				l.Body[p] = true
				work = append(work, p)
			}
		}
	}
	if len(l.Latch) == 0 {
		return nil
	}
	return l
}

// IntDelta evaluates v as base + constant along a path, resolving phis by
// predecessor: it returns (delta, true) when v reduces to base through
// additions/subtractions of integer constants.
func (p Path) IntDelta(v, base ssa.Value) (int64, bool) {
	var d int64
	for k := 0; k < 64; k++ {
		v = Unwrap(v)
		if v == base {
			return d, true
		}
		switch x := v.(type) {
		case *ssa.Phi:
			nv := p.PhiOn(x)
			if nv == nil {
				return 0, false
			}
			v = nv
		case *ssa.BinOp:
			if c, ok := ConstInt64(x.Y); ok && (x.Op == token.ADD || x.Op == token.SUB) {
				if x.Op == token.ADD {
					d += c
				} else {
					d -= c
				}
				v = x.X
			} else if c, ok := ConstInt64(x.X); ok && x.Op == token.ADD {
				d += c
				v = x.Y
			} else {
				return 0, false
			}
		default:
			return 0, false
		}
	}
	return 0, false
}

// NoFieldStores reports whether fn (without its closures) contains no store
// through a field address, index address or free variable — i.e. it writes
// only its own local cells. Conditions over parameter fields are then stable
// across the function as far as fn itself is concerned.
func NoFieldStores(fn *ssa.Function) bool {
	ok := true
	EachInstr(fn, func(i ssa.Instruction) {
		switch x := i.(type) {
		case *ssa.Store:
			switch a := x.Addr.(type) {
			case *ssa.Alloc:
			case *ssa.FieldAddr:
				if _, isAlloc := a.X.(*ssa.Alloc); !isAlloc {
					ok = false
				}
			case *ssa.IndexAddr:
				if _, isAlloc := a.X.(*ssa.Alloc); !isAlloc {
					ok = false
				}
			default:
				ok = false
			}
		case *ssa.MapUpdate:
			ok = false
		}
	})
	return ok
}
