package eng

import (
	"fmt"
	"go/token"
	"sort"

	"golang.org/x/tools/go/ssa"
)

// BExpr is a boolean expression over named atoms, extracted from the SSA form
// of a bool value (engine B). go/ssa lowers `a && b` / `a || b` in value
// position to a phi of constants and the last operand; BoolExprOf rebuilds the
// boolean function by enumerating the (acyclic) region between the phi block's
// immediate dominator and the phi.
type BExpr struct {
	Op   string // "const", "atom", "not", "and", "or"
	Val  bool
	Atom string
	Args []*BExpr
}

func bConst(v bool) *BExpr { return &BExpr{Op: "const", Val: v} }
func bNot(x *BExpr) *BExpr {
	if x.Op == "const" {
		return bConst(!x.Val)
	}
	if x.Op == "not" {
		return x.Args[0]
	}
	return &BExpr{Op: "not", Args: []*BExpr{x}}
}
func bAnd(xs ...*BExpr) *BExpr {
	var out []*BExpr
	for _, x := range xs {
		if x.Op == "const" {
			if !x.Val {
				return bConst(false)
			}
			continue
		}
		out = append(out, x)
	}
	if len(out) == 0 {
		return bConst(true)
	}
	if len(out) == 1 {
		return out[0]
	}
	return &BExpr{Op: "and", Args: out}
}
func bOr(xs ...*BExpr) *BExpr {
	var out []*BExpr
	for _, x := range xs {
		if x.Op == "const" {
			if x.Val {
				return bConst(true)
			}
			continue
		}
		out = append(out, x)
	}
	if len(out) == 0 {
		return bConst(false)
	}
	if len(out) == 1 {
		return out[0]
	}
	return &BExpr{Op: "or", Args: out}
}

// Eval evaluates the expression under an assignment of atoms.
func (e *BExpr) Eval(env map[string]bool) bool {
	switch e.Op {
	case "const":
		return e.Val
	case "atom":
		return env[e.Atom]
	case "not":
		return !e.Args[0].Eval(env)
	case "and":
		for _, a := range e.Args {
			if !a.Eval(env) {
				return false
			}
		}
		return true
	case "or":
		for _, a := range e.Args {
			if a.Eval(env) {
				return true
			}
		}
		return false
	}
	panic("bad BExpr")
}

// AtomNames lists the atoms of the expression, sorted.
func (e *BExpr) AtomNames() []string {
	set := map[string]bool{}
	var walk func(x *BExpr)
	walk = func(x *BExpr) {
		if x.Op == "atom" {
			set[x.Atom] = true
		}
		for _, a := range x.Args {
			walk(a)
		}
	}
	walk(e)
	var out []string
	for a := range set {
		out = append(out, a)
	}
	sort.Strings(out)
	return out
}

func (e *BExpr) String() string {
	switch e.Op {
	case "const":
		return fmt.Sprint(e.Val)
	case "atom":
		return e.Atom
	case "not":
		return "¬" + e.Args[0].String()
	}
	sep := " ∧ "
	if e.Op == "or" {
		sep = " ∨ "
	}
	s := "("
	for i, a := range e.Args {
		if i > 0 {
			s += sep
		}
		s += a.String()
	}
	return s + ")"
}

// BoolExprOf extracts the boolean function computed by v.
func BoolExprOf(v ssa.Value) (*BExpr, error) {
	return boolExpr(v, 0)
}

func boolExpr(v ssa.Value, depth int) (*BExpr, error) {
	if depth > 12 {
		return nil, fmt.Errorf("boolean expression too deep")
	}
	v = Unwrap(v)
	if c, ok := ConstBool(v); ok {
		return bConst(c), nil
	}
	switch x := v.(type) {
	case *ssa.UnOp:
		if x.Op == token.NOT {
			in, err := boolExpr(x.X, depth+1)
			if err != nil {
				return nil, err
			}
			return bNot(in), nil
		}
	case *ssa.Phi:
		return phiBoolExpr(x, depth)
	case *ssa.BinOp:
		if x.Op == token.NEQ {
			return bNot(&BExpr{Op: "atom", Atom: "(" + Render(x.X) + " == " + Render(x.Y) + ")"}), nil
		}
		if x.Op == token.EQL {
			return &BExpr{Op: "atom", Atom: "(" + Render(x.X) + " == " + Render(x.Y) + ")"}, nil
		}
	}
	return &BExpr{Op: "atom", Atom: Render(v)}, nil
}

func phiBoolExpr(phi *ssa.Phi, depth int) (*BExpr, error) {
	blk := phi.Block()
	dom := blk.Idom()
	if dom == nil {
		return nil, fmt.Errorf("phi in entry block")
	}
	// The region must be acyclic: refuse loop-header phis.
	for _, p := range blk.Preds {
		if blk.Dominates(p) {
			// loop-carried flag: opaque atom
			return &BExpr{Op: "atom", Atom: Render(phi)}, nil
		}
	}
	paths, complete := EnumPaths(dom, func(b *ssa.BasicBlock) bool { return b == blk }, 4096)
	if !complete {
		return nil, fmt.Errorf("too many paths into boolean phi")
	}
	var terms []*BExpr
	for _, p := range paths {
		if p.Last() != blk {
			continue // leaves the function without reaching the phi
		}
		val := p.PhiOn(phi)
		if val == nil {
			return nil, fmt.Errorf("cannot resolve phi edge")
		}
		// resolve nested phis inside the region by path
		val = p.Resolve(val)
		ve, err := boolExpr(val, depth+1)
		if err != nil {
			return nil, err
		}
		conj := []*BExpr{}
		for _, a := range p.Atoms {
			ce, err := boolExpr(a.V, depth+1)
			if err != nil {
				return nil, err
			}
			// a.V is the un-negated condition; MkAtom flipped polarity for !=.
			if b, ok := a.V.(*ssa.BinOp); ok && b.Op == token.NEQ {
				// boolExpr(NEQ) = not(atom ==); atom polarity a.Pos refers to "==".
				ce = &BExpr{Op: "atom", Atom: a.Expr}
			}
			if !a.Pos {
				ce = bNot(ce)
			}
			conj = append(conj, ce)
		}
		conj = append(conj, ve)
		terms = append(terms, bAnd(conj...))
	}
	return bOr(terms...), nil
}

// FuncBoolExpr extracts the boolean function computed by a loop-free function
// with a single bool result: the disjunction over all entry→return paths of
// (branch atoms ∧ returned value).
func FuncBoolExpr(fn *ssa.Function) (*BExpr, error) {
	paths, complete := EnumPaths(fn.Blocks[0], nil, 8192)
	if !complete {
		return nil, fmt.Errorf("too many paths in %s", FuncName(fn))
	}
	var terms []*BExpr
	for _, p := range paths {
		last := p.Last()
		if last == fn.Recover {
			continue
		}
		ret, ok := last.Instrs[len(last.Instrs)-1].(*ssa.Return)
		if !ok {
			if len(last.Succs) == 0 {
				continue // panic exit
			}
			return nil, fmt.Errorf("%s contains a loop", FuncName(fn))
		}
		res := RetResults(ret)
		if len(res) != 1 {
			return nil, fmt.Errorf("%s does not return a single value", FuncName(fn))
		}
		ve, err := boolExpr(p.Resolve(res[0]), 0)
		if err != nil {
			return nil, err
		}
		conj := []*BExpr{}
		for _, a := range p.Atoms {
			var ce *BExpr
			if b, ok := a.V.(*ssa.BinOp); ok && (b.Op == token.NEQ || b.Op == token.EQL) {
				ce = &BExpr{Op: "atom", Atom: a.Expr}
			} else {
				ce, err = boolExpr(p.Resolve(a.V), 1)
				if err != nil {
					return nil, err
				}
			}
			if !a.Pos {
				ce = bNot(ce)
			}
			conj = append(conj, ce)
		}
		conj = append(conj, ve)
		terms = append(terms, bAnd(conj...))
	}
	return bOr(terms...), nil
}

// Deref looks through a load of a local cell that is assigned exactly once.
func Deref(v ssa.Value) ssa.Value {
	v = Unwrap(v)
	if u, ok := v.(*ssa.UnOp); ok && u.Op == token.MUL {
		if al, ok := u.X.(*ssa.Alloc); ok {
			if sv := SingleAssign(al); sv != nil {
				return Unwrap(sv)
			}
		}
	}
	return v
}

// TruthTableEqual compares e with spec over all assignments of the union of
// e's atoms and specAtoms; it returns a counterexample assignment on mismatch.
func TruthTableEqual(e *BExpr, specAtoms []string, spec func(env map[string]bool) bool) (bool, map[string]bool, error) {
	set := map[string]bool{}
	for _, a := range e.AtomNames() {
		set[a] = true
	}
	for _, a := range specAtoms {
		set[a] = true
	}
	var atoms []string
	for a := range set {
		atoms = append(atoms, a)
	}
	sort.Strings(atoms)
	if len(atoms) > 16 {
		return false, nil, fmt.Errorf("too many atoms (%d)", len(atoms))
	}
	for m := 0; m < 1<<len(atoms); m++ {
		env := map[string]bool{}
		for i, a := range atoms {
			env[a] = m&(1<<i) != 0
		}
		if e.Eval(env) != spec(env) {
			return false, env, nil
		}
	}
	return true, nil, nil
}
