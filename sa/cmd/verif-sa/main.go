// Command verif-sa decides the given Mutagen properties by static analysis of
// /repo's current source (go/packages + go/ssa). See /verif/DESIGN.md.
package main

import (
	"encoding/json"
	"flag"
	"fmt"
	"os"
	"runtime/debug"
	"sort"
	"strconv"
	"strings"
	"time"

	"golang.org/x/tools/go/ssa"

	"verif/sa/eng"
	_ "verif/sa/rules"
)

func main() {
	if len(os.Args) < 2 {
		usage()
	}
	switch os.Args[1] {
	case "check":
		os.Exit(cmdCheck(os.Args[2:]))
	case "list":
		if len(os.Args) > 2 && os.Args[2] == "-json" {
			var out []map[string]any
			for _, id := range eng.IDs() {
				p := eng.Lookup(id)
				out = append(out, map[string]any{"id": id, "title": p.Title, "explanation": p.Explanation, "assumptions": p.Assumptions, "packages": p.Packages, "technique": p.Technique})
			}
			b, _ := json.MarshalIndent(out, "", " ")
			fmt.Println(string(b))
			return
		}
		for _, id := range eng.IDs() {
			p := eng.Lookup(id)
			fmt.Printf("%s\t%s\t%s\n", id, p.Title, strings.Join(p.Packages, ","))
		}
	case "dump":
		os.Exit(cmdDump(os.Args[2:]))
	default:
		usage()
	}
}

func usage() {
	fmt.Fprintln(os.Stderr, "usage: verif-sa check -prop ID[,ID…]|all [-tier quick|thorough] [-repo /repo] [-verif /verif]\n       verif-sa dump -pkg rel -func name\n       verif-sa list")
	os.Exit(2)
}

func cmdCheck(args []string) int {
	fs := flag.NewFlagSet("check", flag.ExitOnError)
	prop := fs.String("prop", "", "property id(s), comma separated, or 'all'")
	tier := fs.String("tier", "quick", "quick or thorough")
	repo := fs.String("repo", "/repo", "repository directory")
	verif := fs.String("verif", "/verif", "verification directory")
	noSelf := fs.Bool("no-selftest", false, "skip mutation self-tests in thorough tier")
	patch := fs.String("patch", "", "analyse the tree with this unified diff applied in memory (overlay; /repo is not modified; evidence goes to a scratch directory)")
	fs.Parse(args)
	if t := os.Getenv("VERIF_TIER"); t != "" && !isFlagSet(fs, "tier") {
		*tier = t
	}
	var seed int64
	if s := os.Getenv("VERIF_SEED"); s != "" {
		seed, _ = strconv.ParseInt(s, 10, 64)
	}
	var ids []string
	if *prop == "all" {
		ids = eng.IDs()
	} else {
		ids = strings.Split(*prop, ",")
	}
	for _, id := range ids {
		if eng.Lookup(id) == nil {
			fmt.Fprintf(os.Stderr, "unknown property %q\n", id)
			return 2
		}
	}
	var overlay map[string][]byte
	if *patch != "" {
		diff, err := os.ReadFile(*patch)
		if err != nil {
			fmt.Fprintln(os.Stderr, err)
			return 2
		}
		overlay, err = eng.ApplyUnifiedDiff(*repo, diff)
		if err != nil {
			fmt.Fprintln(os.Stderr, "patch does not apply:", err)
			return 2
		}
		eng.WriteRoot, _ = os.MkdirTemp("", "verif-patch-")
		defer os.RemoveAll(eng.WriteRoot)
		*noSelf = true
	}
	exit := 0
	// Group: one load per configuration for all requested properties.
	type cfgKey struct{ goos string }
	start := time.Now()
	outcomes := map[string]*eng.Outcome{}
	for _, id := range ids {
		outcomes[id] = &eng.Outcome{Prop: eng.Lookup(id), Tier: *tier}
	}
	runConfig := func(goos string, whole bool, sel []string) {
		if len(sel) == 0 {
			return
		}
		pats := map[string]bool{}
		if whole {
			pats["./..."] = true
		} else {
			for _, id := range sel {
				for _, p := range eng.Lookup(id).Packages {
					pats["./"+p] = true
				}
			}
		}
		var patterns []string
		for p := range pats {
			patterns = append(patterns, p)
		}
		sort.Strings(patterns)
		cfgName := goos
		if cfgName == "" {
			cfgName = "linux"
		}
		if whole {
			cfgName += "/whole-module"
		}
		prog, err := eng.Load(eng.LoadOptions{Dir: *repo, Patterns: patterns, GOOS: goos, Overlay: overlay})
		if err != nil {
			for _, id := range sel {
				outcomes[id].Problems = append(outcomes[id].Problems, fmt.Sprintf("[%s] %v", cfgName, err))
				outcomes[id].Configs = append(outcomes[id].Configs, cfgName+"(not analysed)")
			}
			return
		}
		for _, id := range sel {
			o := outcomes[id]
			if n := len(prog.SSAPkgs); n > o.Packages {
				o.Packages = n
			}
			c := eng.NewCtx(prog, o.Prop, *tier, cfgName)
			runSafely(c)
			o.Merge(c)
		}
	}
	if *tier == "thorough" {
		runConfig("", true, ids)
		for _, goos := range []string{"darwin", "windows"} {
			var sel []string
			for _, id := range ids {
				for _, g := range eng.Lookup(id).ThoroughGOOS {
					if g == goos {
						sel = append(sel, id)
					}
				}
			}
			runConfig(goos, false, sel)
		}
		if !*noSelf {
			for _, id := range ids {
				outcomes[id].SelfTest = eng.RunSelfTests(*repo, *verif, id, runSafely)
			}
		}
	} else {
		runConfig("", false, ids)
	}
	for _, id := range ids {
		o := outcomes[id]
		o.Wall = time.Since(start)
		if o.Finish(*verif, seed) != 0 {
			exit = 1
		}
	}
	return exit
}

func isFlagSet(fs *flag.FlagSet, name string) bool {
	set := false
	fs.Visit(func(f *flag.Flag) {
		if f.Name == name {
			set = true
		}
	})
	return set
}

func runSafely(c *eng.Ctx) {
	defer func() {
		if r := recover(); r != nil {
			c.Problem("checker", "panic in rule code: %v\n%s", r, debug.Stack())
		}
	}()
	c.Prop.Run(c)
}

func cmdDump(args []string) int {
	fs := flag.NewFlagSet("dump", flag.ExitOnError)
	pkg := fs.String("pkg", "", "module-relative package")
	fn := fs.String("func", "", "function name (Type.Method, Func, Func$1)")
	repo := fs.String("repo", "/repo", "repository directory")
	goos := fs.String("goos", "", "GOOS")
	fs.Parse(args)
	prog, err := eng.Load(eng.LoadOptions{Dir: *repo, Patterns: []string{"./" + *pkg}, GOOS: *goos})
	if err != nil {
		fmt.Fprintln(os.Stderr, err)
		return 1
	}
	f, err := prog.Func(*pkg, *fn)
	if err != nil {
		fmt.Fprintln(os.Stderr, err)
		return 1
	}
	for _, g := range eng.WithClosures(f) {
		dumpFunc(prog, g)
	}
	return 0
}

func dumpFunc(prog *eng.Program, f *ssa.Function) {
	fmt.Printf("=== %s  (%s)\n", eng.FuncName(f), prog.Pos(f.Pos()))
	for i, p := range f.Params {
		fmt.Printf("  p%d = %s %s\n", i, p.Name(), eng.TypeShort(p.Type()))
	}
	for _, fv := range f.FreeVars {
		fmt.Printf("  fv:%s %s\n", fv.Name(), eng.TypeShort(fv.Type()))
	}
	for _, b := range f.Blocks {
		var preds, succs []string
		for _, p := range b.Preds {
			preds = append(preds, fmt.Sprint(p.Index))
		}
		for _, s := range b.Succs {
			succs = append(succs, fmt.Sprint(s.Index))
		}
		fmt.Printf(" b%d (%s) preds=%v succs=%v\n", b.Index, b.Comment, preds, succs)
		fmt.Printf("    guards: %s\n", eng.AtomsText(eng.GuardsOfBlock(b)))
		for _, in := range b.Instrs {
			line := prog.Pos(eng.InstrPos(in))
			if i := strings.LastIndex(line, ":"); i >= 0 {
				line = line[i+1:]
			}
			switch x := in.(type) {
			case *ssa.Store:
				fmt.Printf("    L%-5s store %s <- %s\n", line, eng.Render(x.Addr), eng.Render(x.Val))
			case *ssa.If:
				fmt.Printf("    L%-5s if %s\n", line, eng.Render(x.Cond))
			case *ssa.Return:
				var rs []string
				for _, r := range x.Results {
					rs = append(rs, eng.Render(r))
				}
				fmt.Printf("    L%-5s return %s\n", line, strings.Join(rs, ", "))
			case *ssa.MapUpdate:
				fmt.Printf("    L%-5s mapupdate %s[%s] <- %s\n", line, eng.Render(x.Map), eng.Render(x.Key), eng.Render(x.Value))
			case *ssa.Send:
				fmt.Printf("    L%-5s send %s <- %s\n", line, eng.Render(x.Chan), eng.Render(x.X))
			case *ssa.Go:
				fmt.Printf("    L%-5s go %s\n", line, eng.RenderCall(x.Common()))
			case *ssa.Defer:
				fmt.Printf("    L%-5s defer %s\n", line, eng.RenderCall(x.Common()))
			case *ssa.Jump:
			case ssa.Value:
				if len(*x.Referrers()) == 0 || isInteresting(x) {
					fmt.Printf("    L%-5s %s = %s\n", line, x.Name(), eng.Render(x))
				}
			default:
				fmt.Printf("    L%-5s %s\n", line, in.String())
			}
		}
	}
}

func isInteresting(v ssa.Value) bool {
	switch v.(type) {
	case *ssa.Call, *ssa.Phi, *ssa.Select, *ssa.Alloc, *ssa.MakeClosure:
		return true
	}
	return false
}
