package main

import (
	"fmt"
	"os"
	"time"

	"golang.org/x/tools/go/packages"
	"golang.org/x/tools/go/ssa"
	"golang.org/x/tools/go/ssa/ssautil"
)

func main() {
	t0 := time.Now()
	cfg := &packages.Config{Mode: packages.LoadAllSyntax, Dir: "/repo"}
	pkgs, err := packages.Load(cfg, os.Args[1:]...)
	if err != nil {
		panic(err)
	}
	fmt.Println(len(pkgs), time.Since(t0))
	prog, _ := ssautil.AllPackages(pkgs, ssa.InstantiateGenerics)
	prog.Build()
	fmt.Println(time.Since(t0))
}
