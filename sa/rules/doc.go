// Package rules holds the per-property rule tables and deciders.
package rules
