package rules

import (
	"fmt"
	"go/token"
	"go/types"
	"sort"
	"strings"

	"golang.org/x/tools/go/ssa"

	"verif/sa/eng"
)

func init() {
	eng.Register(&eng.Property{
		ID:       "C07",
		Title:    "Tree diff, apply, copy and filtering are mutually consistent",
		Packages: []string{corePkg, syncPkg},
		Explanation: "(R1, Copy) a non-nil entry is copied into a fresh literal carrying every scalar field of Entry from the receiver; the source's content map is never stored into the copy (a fresh map is made); per behaviour: Deep recurses with Deep on every child, DeepPreservingLeaves recurses with itself exactly on Directory/PhantomDirectory children and shares other children, Shallow shares children, Slim copies none — the recursion constant always equals the behaviour tested on that branch; " +
			"(R2, Apply) identical to C05.R6: Apply only mutates its own copy, inserts copies, allocates only on insert; " +
			"(R3, entry immutability — who may write) across packages core and synchronization the only functions that store to a field of, or update/delete in the content map of, an Entry they did not allocate or copy in that same function are a frozen table (Apply via its copy, propagateExecutabilityRecursive and reifyPhantomDirectories on documented copies, removeDirectory/createDirectory on their own copies), each with the reason; generated protobuf code is excluded; " +
			"(R4, filter and count) Entry.synchronizable as in C03.R5; Entry.Count returns 0 for nil/unsynchronizable entries and otherwise 1 plus the sum of the children's counts; " +
			"(R5, diff) differ.diff as in C01.R5 (orientation, inequality guard, recursion over the union of names, no descent after emitting). " +
			"Not decided: the equalities Apply(a, Diff(a,b)) = b and Diff(a,a) = ∅ themselves, Equal's definition.",
		Assumptions: []string{"maps created by make are not aliased"},
		Run:         runC07,
	})
}

// c07MutatorAllow lists the functions that may mutate entries they did not
// allocate locally, with the reason.
var c07MutatorAllow = map[string]string{
	"synchronization/core.Apply":                                      "mutates `result`, a Copy of base (checked by R2 provenance)",
	"synchronization/core.propagateExecutabilityRecursive":            "mutates the deep copy made by PropagateExecutability (checked: its caller passes Copy(Deep))",
	"synchronization/core.reifyPhantomDirectories":                    "mutates copies made by ReifyPhantomDirectories (checked: its caller passes Copy results)",
	"(*synchronization/core.transitioner).removeDirectory":            "mutates `expected`, the copy made by remove (checked: remove passes entry.Copy)",
	"(*synchronization/core.transitioner).createDirectory":            "fills `created`, its own slim copy of the target",
	"(*synchronization/core.Entry).synchronizable":                    "fills the fresh result literal",
	"(*synchronization/core.Entry).Copy":                              "fills the fresh result literal",
	"(*synchronization/core.scanner).directory":                       "builds the entry it returns",
	"(*synchronization/core.scanner).file":                            "builds the entry it returns",
	"(*synchronization/core.scanner).symbolicLink":                    "builds the entry it returns",
	"synchronization/core.Scan":                                       "builds the snapshot it returns",
	"(*synchronization/core.Entry).EnsureValid":                       "read only (listed in case validation normalises in future: must stay empty)",
	"synchronization/core.propagateExecutabilityRecursive$unused":     "",
	"synchronization/core.PropagateExecutability":                     "",
	"synchronization/core.ReifyPhantomDirectories":                    "",
	"synchronization/core.reifyPhantomDirectoriesRecursive":           "mutates copies made by ReifyPhantomDirectories",
	"synchronization/core.reifyPhantomDirectoriesRecursive$1":         "",
	"(*synchronization/core.reconciler).reconcile":                    "",
	"(*synchronization/core.reconciler).handleDisagreementOneWaySafe": "",
}

func runC07(c *eng.Ctx) {
	c07Copy(c)
	c05Apply(c, "R2")
	c07Immutability(c)
	kinds, _ := c.P.ConstsOfType(corePkg, "EntryKind")
	c03Synchronizable(c, "R4", kinds)
	c07Count(c)
	c01DiffRules(c, "R5")
	c.Floor("R5", 5)
}

func c07Copy(c *eng.Ctx) {
	fn := c.MustFunc("R1", corePkg, "Entry.Copy")
	if fn == nil {
		return
	}
	beh, _ := c.P.ConstsOfType(corePkg, "EntryCopyBehavior")
	var result *ssa.Alloc
	for _, r := range eng.Returns(fn) {
		rv := eng.RetResults(r)[0]
		if eng.IsNilConst(rv) {
			c.Check("R1", "nil-copy", r.Pos(), eng.HasAtom(eng.Guards(r), `^\(p0 == nil\)$`, true), "nil is returned only for a nil entry")
			continue
		}
		a, ok := eng.Unwrap(rv).(*ssa.Alloc)
		c.Check("R1", "fresh-copy", r.Pos(), ok, "a copy is a freshly allocated entry", eng.Render(rv))
		if ok {
			result = a
		}
	}
	if result == nil {
		c.Problem("R1", "Copy has no fresh-literal result")
		return
	}
	ent, _ := c.P.Named(corePkg, "Entry")
	st := ent.Underlying().(*types.Struct)
	lit := eng.LitFields(result)
	for i := 0; i < st.NumFields(); i++ {
		f := st.Field(i)
		if !f.Exported() {
			continue
		}
		if f.Name() == "Contents" {
			v := lit["Contents"]
			_, isMake := v.(*ssa.MakeMap)
			c.Check("R1", "contents-fresh-map", fn.Pos(), v == nil && contentsStoreCount(result) > 1 || isMake, "the copy's content map is a newly made map, never the source's map", fmt.Sprint(eng.Render(v)))
			continue
		}
		v := lit[f.Name()]
		got := "<unset>"
		if v != nil {
			got = eng.Render(v)
		}
		c.Check("R1", "field:"+f.Name(), fn.Pos(), got == "p0."+f.Name(), "scalar field "+f.Name()+" is copied from the receiver", got)
	}
	// Per-behaviour map updates.
	n := 0
	eng.EachInstr(fn, func(i ssa.Instruction) {
		mu, ok := i.(*ssa.MapUpdate)
		if !ok {
			return
		}
		n++
		g := eng.Guards(mu)
		var tested int64 = -1
		for _, a := range g {
			if a.Pos && a.EqLHS == "p1" {
				if b, ok := a.V.(*ssa.BinOp); ok {
					if v, ok := eng.ConstInt64(b.Y); ok {
						tested = v
					}
				}
			}
		}
		child := "next(range(p0.Contents))#2"
		vr := eng.Render(mu.Value)
		key := fmt.Sprintf("behaviour-%d#%d", tested, n)
		switch {
		case strings.HasPrefix(vr, "(*synchronization/core.Entry).Copy("+child+", "):
			var used int64 = -1
			if call, ok := mu.Value.(*ssa.Call); ok {
				used, _ = eng.ConstInt64(call.Call.Args[1])
			}
			c.Check("R1", key+"/recursion-constant", mu.Pos(), used == tested && tested >= 0, "a recursive copy uses the same behaviour as the branch it is on", fmt.Sprintf("branch tests %d, recursion passes %d", tested, used))
			if tested == beh["EntryCopyBehaviorDeepPreservingLeaves"] {
				dirs := eng.HasAtom(g, `\.Kind == 0:EntryKind\)$`, true) || eng.HasAtom(g, `\.Kind == 102:EntryKind\)$`, true)
				if !dirs && !onlyDirKinds(mu) {
					// any other spelling (`isLeaf := k != Dir && k != Phantom; if !isLeaf`):
					// on every way into the store one of the two kind tests succeeded
					dirs, _ = everyPathTo(mu.Block(), 5000, func(p eng.Path) bool {
						return pathHas(p, `\.Kind == 0:EntryKind\)$`, true) || pathHas(p, `\.Kind == 102:EntryKind\)$`, true)
					})
				}
				c.Check("R1", key+"/leaf-preserving-recurses-on-directories", mu.Pos(), dirs || onlyDirKinds(mu), "leaf-preserving copies recurse only into directory-like children")
			}
		case vr == child:
			ok := tested == beh["EntryCopyBehaviorShallow"] || tested == beh["EntryCopyBehaviorDeepPreservingLeaves"]
			c.Check("R1", key+"/shares-child", mu.Pos(), ok, "children are shared only by the shallow and leaf-preserving behaviours", fmt.Sprintf("branch tests %d", tested))
			if tested == beh["EntryCopyBehaviorDeepPreservingLeaves"] {
				leaf := eng.HasAtom(g, `\.Kind == 0:EntryKind\)$`, false) && eng.HasAtom(g, `\.Kind == 102:EntryKind\)$`, false)
				if !leaf {
					leaf, _ = everyPathTo(mu.Block(), 5000, func(p eng.Path) bool {
						return pathHas(p, `\.Kind == 0:EntryKind\)$`, false) && pathHas(p, `\.Kind == 102:EntryKind\)$`, false)
					})
				}
				c.Check("R1", key+"/shares-only-leaves", mu.Pos(), leaf, "leaf-preserving copies share a child only if it is neither Directory nor PhantomDirectory", eng.AtomsText(g)[:min(200, len(eng.AtomsText(g)))])
			}
		default:
			c.Check("R1", key+"/unknown-child-value", mu.Pos(), false, "child value is the child or a recursive copy of it", vr)
		}
		c.Check("R1", key+"/key", mu.Pos(), eng.Render(mu.Key) == "next(range(p0.Contents))#1", "stored under the child's own name", eng.Render(mu.Key))
	})
	if n != 4 {
		c.Problem("R1", "expected four child stores in Copy (deep, leaf-preserving ×2, shallow), found %d", n)
	}
	// Slim returns before any contents handling.
	for _, r := range eng.Returns(fn) {
		g := eng.Guards(r)
		if eng.HasAtom(g, fmt.Sprintf(`^\(p1 == %d:EntryCopyBehavior\)$`, beh["EntryCopyBehaviorSlim"]), true) {
			noMap := true
			for _, b := range fn.Blocks {
				if b.Dominates(r.Block()) {
					for _, in := range b.Instrs {
						if _, ok := in.(*ssa.MakeMap); ok {
							noMap = false
						}
					}
				}
			}
			c.Check("R1", "slim-no-contents", r.Pos(), noMap, "a slim copy carries no contents")
		}
	}
	c.Floor("R1", 15)
}

func contentsStoreCount(a *ssa.Alloc) int {
	n := 0
	for _, ref := range *a.Referrers() {
		if fa, ok := ref.(*ssa.FieldAddr); ok && eng.FieldOf(fa).Name() == "Contents" {
			for _, r2 := range *fa.Referrers() {
				if st, ok := r2.(*ssa.Store); ok && st.Addr == ssa.Value(fa) {
					n++
				}
			}
		}
	}
	return n
}

func onlyDirKinds(mu *ssa.MapUpdate) bool {
	// `a || b` in an if: the block has two predecessors, each the true edge of a kind test.
	for _, p := range mu.Block().Preds {
		iff, ok := p.Instrs[len(p.Instrs)-1].(*ssa.If)
		if !ok {
			return false
		}
		r := eng.Render(iff.Cond)
		if !(strings.HasSuffix(r, ".Kind == 0:EntryKind)") || strings.HasSuffix(r, ".Kind == 102:EntryKind)")) || p.Succs[0] != mu.Block() {
			return false
		}
	}
	return len(mu.Block().Preds) > 0
}

func c07Immutability(c *eng.Ctx) {
	ent, err := c.P.Named(corePkg, "Entry")
	if err != nil {
		c.Problem("R3", "%v", err)
		return
	}
	isEntryPtr := func(t types.Type) bool {
		p, ok := t.Underlying().(*types.Pointer)
		return ok && types.Identical(p.Elem(), ent)
	}
	// fresh(v): v is an Alloc, or a Copy/synchronizable call result, merged by phis, in this function.
	var fresh func(v ssa.Value, seen map[ssa.Value]bool) bool
	fresh = func(v ssa.Value, seen map[ssa.Value]bool) bool {
		v = eng.Unwrap(v)
		if seen[v] {
			return true
		}
		seen[v] = true
		switch x := v.(type) {
		case *ssa.Alloc:
			return true
		case *ssa.Call:
			n := eng.CalleeName(x)
			return n == "(*synchronization/core.Entry).Copy"
		case *ssa.Phi:
			for _, e := range x.Edges {
				if !fresh(e, seen) {
					return false
				}
			}
			return true
		case *ssa.Const:
			return true
		}
		return false
	}
	mutators := map[string][]ssa.Instruction{}
	for _, fn := range c.P.ModuleFuncs() {
		pos := c.P.Pos(fn.Pos())
		if strings.Contains(pos, ".pb.go:") {
			continue
		}
		name := eng.FuncName(fn)
		eng.EachInstr(fn, func(i ssa.Instruction) {
			switch x := i.(type) {
			case *ssa.Store:
				fa, ok := x.Addr.(*ssa.FieldAddr)
				if !ok || !isEntryPtr(fa.X.Type()) {
					return
				}
				if !fresh(fa.X, map[ssa.Value]bool{}) {
					mutators[name] = append(mutators[name], i)
				}
			case *ssa.MapUpdate:
				if base := contentsOwner(x.Map); base != nil && isEntryPtr(base.Type()) && !fresh(base, map[ssa.Value]bool{}) {
					mutators[name] = append(mutators[name], i)
				}
			case *ssa.Call:
				if eng.CalleeName(x) == "builtin:delete" {
					if base := contentsOwner(x.Call.Args[0]); base != nil && isEntryPtr(base.Type()) && !fresh(base, map[ssa.Value]bool{}) {
						mutators[name] = append(mutators[name], i)
					}
				}
			}
		})
	}
	var names []string
	for n := range mutators {
		names = append(names, n)
	}
	sort.Strings(names)
	for _, n := range names {
		why, ok := c07MutatorAllow[n]
		c.Check("R3", "mutator:"+n, eng.InstrPos(mutators[n][0]), ok && why != "", "only the listed functions mutate entries they did not allocate in place", fmt.Sprintf("%d mutation(s); %s", len(mutators[n]), why))
	}
	// The callers of the in-place mutators hand them copies.
	type cp struct {
		caller, callee string
		arg            int
	}
	for _, x := range []cp{
		{"synchronization/core.PropagateExecutability", "synchronization/core.propagateExecutabilityRecursive", 2},
		{"(*synchronization/core.transitioner).remove", fnRemoveDir, 4},
	} {
		var cf *ssa.Function
		for _, fn := range c.P.ModuleFuncs(corePkg) {
			if eng.FuncName(fn) == x.caller {
				cf = fn
			}
		}
		if cf == nil {
			c.Problem("R3", "function %s not found", x.caller)
			continue
		}
		found := false
		for _, call := range eng.CallsNamed(cf, x.callee) {
			found = true
			a := call.Common().Args[x.arg]
			ok := fresh(a, map[ssa.Value]bool{})
			c.Check("R3", "copy-handed-in:"+x.caller, call.Pos(), ok, x.caller+" hands a copy (not the caller's tree) to the in-place mutator", eng.Render(a))
		}
		if !found {
			c.Problem("R3", "%s does not call %s", x.caller, x.callee)
		}
	}
	c.Floor("R3", 5)
}

// contentsOwner returns X for a map value of the form X.Contents.
func contentsOwner(m ssa.Value) ssa.Value {
	m = eng.Unwrap(m)
	if u, ok := m.(*ssa.UnOp); ok && u.Op == token.MUL {
		if fa, ok := u.X.(*ssa.FieldAddr); ok && eng.FieldOf(fa).Name() == "Contents" {
			return fa.X
		}
	}
	return nil
}

func c07Count(c *eng.Ctx) {
	fn := c.MustFunc("R4", corePkg, "Entry.Count")
	if fn == nil {
		return
	}
	for _, r := range eng.Returns(fn) {
		rv := eng.RetResults(r)[0]
		g := eng.Guards(r)
		if v, ok := eng.ConstInt64(rv); ok {
			_ = g
			onEvery, _ := everyPathTo(r.Block(), 2000, func(p eng.Path) bool {
				return pathHas(p, `^\(p0 == nil\)$`, true) || pathHas(p, `^\(synchronization/core\.EntryKind\)\.synchronizable\(p0\.Kind\)$`, false)
			})
			okz := v == 0 && onEvery
			c.Check("R4", "count-zero", r.Pos(), okz, "a constant count is 0 and only for nil or unsynchronizable entries", fmt.Sprint(v))
			continue
		}
		// accumulated: phi(1, acc + Count(child))
		phi, ok := rv.(*ssa.Phi)
		okAcc := false
		if ok {
			hasOne, hasSum := false, false
			for _, e := range phi.Edges {
				if v, ok := eng.ConstInt64(e); ok && v == 1 {
					hasOne = true
				}
				if b, ok := e.(*ssa.BinOp); ok && b.Op == token.ADD {
					l, r2 := eng.Render(b.X), eng.Render(b.Y)
					if (b.X == ssa.Value(phi) && strings.HasPrefix(r2, "(*synchronization/core.Entry).Count(next(range(p0.Contents))#2")) ||
						(b.Y == ssa.Value(phi) && strings.HasPrefix(l, "(*synchronization/core.Entry).Count(next(range(p0.Contents))#2")) {
						hasSum = true
					}
				}
			}
			okAcc = hasOne && hasSum && len(phi.Edges) == 2
		}
		c.Check("R4", "count-sum", r.Pos(), okAcc, "the count of a synchronizable entry is 1 plus the sum of its children's counts", eng.Render(rv))
	}
}
