package rules

import (
	"fmt"
	"go/token"
	"strings"

	"golang.org/x/tools/go/ssa"

	"verif/sa/eng"
)

const lruPkg = "pkg/container/lru"

func init() {
	eng.Register(&eng.Property{
		ID:       "C45",
		Title:    "The LRU cache matches its model",
		Packages: []string{lruPkg},
		Explanation: "Decided on the generic method bodies of lru.Cache: the maintenance of its representation invariant (index[k]=e ⇔ e is in the list and e's entry has key k; list order = recency, front = most recent) and the placement of eviction. " +
			"(R1, lockstep) the list is touched only through PushFront/MoveToFront/Remove/Back/Len, the index only through lookup, one insertion and one delete; the single PushFront is immediately followed by index[key]=element for the same key the pushed entry carries; the single list Remove is followed in the same block by delete(index, that element's key); " +
			"(R2, recency) Add on a hit and Get on a hit call MoveToFront on the looked-up element under no condition other than the hit, Add updates that element's value, Get returns it; a miss in Get touches nothing; " +
			"(R3, eviction) Add evicts only after inserting a NEW key, under exactly «maxEntries ≠ 0 ∧ Len() > maxEntries» with Len read after the insertion; eviction removes list.Back() (the end opposite to PushFront/MoveToFront) when it exists; " +
			"(R4, callback once) the eviction callback has one call site, in removeElement, straight-line after the removal, guarded only by its own nil test, with the removed entry's key and value; removeElement is reached only from Remove (for the looked-up element, on a hit) and removeOldest; " +
			"(R5) Len is the list length; New stores the capacity, the callback, a fresh list and a fresh map. " +
			"Not decided: container/list itself; the model equivalence for all operation sequences follows from R1–R4 by induction on the sequence (argued in DESIGN.md), it is not executed.",
		Assumptions: []string{"container/list.List implements a doubly linked list"},
		Run:         runC45,
	})
}

func runC45(c *eng.Ctx) {
	names := []string{"Add", "Get", "Remove", "Len", "removeOldest", "removeElement"}
	fns := map[string]*ssa.Function{}
	for _, n := range names {
		if f := c.MustFunc("R1", lruPkg, "Cache."+n); f != nil {
			fns[n] = f
		}
	}
	nw := c.MustFunc("R5", lruPkg, "New")
	if len(fns) != len(names) || nw == nil {
		return
	}
	// the method set is exactly what is analysed
	if named, err := c.P.Named(lruPkg, "Cache"); err == nil {
		c.Check("R1", "all-methods-analysed", token.NoPos, named.NumMethods() == len(names), "every method of Cache is covered by the rules", fmt.Sprint(named.NumMethods()))
	} else {
		c.Problem("R1", "%v", err)
	}
	isField := func(v ssa.Value, field string) bool { // load of p0.<field>
		u, ok := v.(*ssa.UnOp)
		if !ok || u.Op != token.MUL {
			return false
		}
		fa, ok := u.X.(*ssa.FieldAddr)
		return ok && eng.FieldOf(fa).Name() == field && eng.Render(fa.X) == "p0"
	}
	// ---- R1 ----
	allowedList := map[string]bool{"PushFront": true, "MoveToFront": true, "Remove": true, "Back": true, "Len": true}
	var push, lrem *ssa.Call
	var upd *ssa.MapUpdate
	var del *ssa.Call
	nPush, nRem, nUpd, nDel := 0, 0, 0, 0
	for _, n := range names {
		fn := fns[n]
		eng.EachInstr(fn, func(i ssa.Instruction) {
			switch x := i.(type) {
			case *ssa.Call:
				cn := eng.CalleeName(x)
				if strings.HasPrefix(cn, "(*container/list.List).") {
					m := strings.TrimPrefix(cn, "(*container/list.List).")
					c.Check("R1", "list-op:"+m+"@"+n, x.Pos(), allowedList[m] && isField(x.Call.Args[0], "entries"), "the recency list is manipulated only through PushFront, MoveToFront, Remove, Back and Len")
					switch m {
					case "PushFront":
						push = x
						nPush++
					case "Remove":
						lrem = x
						nRem++
					}
				}
				if cn == "builtin:delete" {
					del = x
					nDel++
				}
			case *ssa.MapUpdate:
				upd = x
				nUpd++
			case *ssa.Store:
				if fa, ok := x.Addr.(*ssa.FieldAddr); ok && eng.Render(fa.X) == "p0" {
					c.Check("R1", "no-field-reassignment@"+n, x.Pos(), false, "no method replaces the list, the index, the capacity or the callback", eng.FieldOf(fa).Name())
				}
			}
		})
	}
	c.Check("R1", "single-mutation-sites", token.NoPos, nPush == 1 && nRem == 1 && nUpd == 1 && nDel == 1, "one insertion into the list, one removal from it, one index insertion, one index deletion", fmt.Sprintf("push=%d remove=%d update=%d delete=%d", nPush, nRem, nUpd, nDel))
	if push == nil || lrem == nil || upd == nil || del == nil {
		return
	}
	// push + index insertion
	okPush := push.Parent() == fns["Add"] && upd.Block() == push.Block() && eng.InstrIndex(push) < eng.InstrIndex(upd) &&
		isField(upd.Map, "index") && upd.Value == ssa.Value(push) && eng.Render(upd.Key) == "p1"
	var lit *ssa.Alloc
	if okPush {
		lit = eng.LitOf(push.Call.Args[1])
		if lit == nil {
			okPush = false
		} else {
			f := eng.LitFields(lit)
			okPush = f["key"] != nil && eng.Render(f["key"]) == "p1" && f["value"] != nil && eng.Render(f["value"]) == "p2"
		}
	}
	c.Check("R1", "insert-keeps-index-and-list-in-step", push.Pos(), okPush, "a new entry {key, value} is pushed to the front and index[key] is set to that very element")
	// list removal + index deletion
	// (the two steps are independent — container/list keeps the removed element's
	// Value — so either order within the one block is the same removal)
	okRem := lrem.Parent() == fns["removeElement"] && del.Block() == lrem.Block() &&
		eng.Render(lrem.Call.Args[1]) == "p1" && isField(del.Call.Args[0], "index") &&
		strings.HasPrefix(eng.Render(del.Call.Args[1]), "assert(p1.Value,") && strings.HasSuffix(eng.Render(del.Call.Args[1]), ".key")
	c.Check("R1", "removal-keeps-index-and-list-in-step", lrem.Pos(), okRem && len(eng.Guards(lrem)) == 0 && len(eng.Guards(del)) == 0, "removing an element from the list also deletes index[element.key], unconditionally")

	// ---- R2 ----
	for _, n := range []string{"Add", "Get"} {
		fn := fns[n]
		var mtf *ssa.Call
		for _, ci := range eng.CallsNamed(fn, "(*container/list.List).MoveToFront") {
			mtf, _ = ci.(*ssa.Call)
		}
		if mtf == nil {
			c.Check("R2", n+"/hit-moves-to-front", fn.Pos(), false, "a hit makes the entry the most recently used")
			continue
		}
		g := eng.Guards(mtf)
		okHit := len(g) == 1 && g[0].Pos && g[0].Expr == "lookupok(p0.index,p1)#1" && eng.Render(mtf.Call.Args[1]) == "lookupok(p0.index,p1)#0"
		c.Check("R2", n+"/hit-moves-to-front", mtf.Pos(), okHit, "a hit moves the looked-up element to the front — under no further condition", atomsShort(g))
		// every hit path passes through it: its block is the hit successor of the entry block
		c.Check("R2", n+"/hit-always-moves", mtf.Pos(), mtf.Block() == fn.Blocks[0].Succs[0] && len(fn.Blocks[0].Succs) == 2, "every hit passes through the move")
	}
	// Add hit: value updated, no insertion, no eviction
	{
		fn := fns["Add"]
		hit := fn.Blocks[0].Succs[0]
		okVal, ret := false, false
		for _, in := range hit.Instrs {
			if st, ok := in.(*ssa.Store); ok {
				r := eng.Render(st.Addr)
				if strings.HasPrefix(r, "&assert(lookupok(p0.index,p1)#0.Value,") && strings.HasSuffix(r, ".value") && eng.Render(st.Val) == "p2" {
					okVal = true
				}
			}
			if _, ok := in.(*ssa.Return); ok {
				ret = true
			}
		}
		c.Check("R2", "Add/hit-updates-value-and-returns", fn.Pos(), okVal && ret && len(hit.Succs) == 0, "updating an existing key replaces its value and neither inserts nor evicts")
	}
	// Get
	{
		fn := fns["Get"]
		for _, r := range eng.Returns(fn) {
			res := eng.RetResults(r)
			found, _ := eng.ConstBool(res[1])
			if found {
				rv := eng.Render(res[0])
				c.Check("R2", "Get/hit-returns-stored-value", r.Pos(), strings.HasPrefix(rv, "assert(lookupok(p0.index,p1)#0.Value,") && strings.HasSuffix(rv, ".value"), "a hit returns the stored value", rv)
			} else {
				g := eng.Guards(r)
				touched := false
				for _, in := range r.Block().Instrs {
					if _, ok := in.(*ssa.Call); ok {
						touched = true
					}
				}
				c.Check("R2", "Get/miss-touches-nothing", r.Pos(), eng.HasAtom(g, `^lookupok\(p0\.index,p1\)#1$`, false) && !touched, "a miss changes nothing")
			}
		}
	}

	// ---- R3 ----
	{
		fn := fns["Add"]
		var ev *ssa.Call
		n := 0
		for _, ci := range eng.Calls(fn) {
			if strings.Contains(eng.CalleeName(ci), ".removeOldest") {
				ev, _ = ci.(*ssa.Call)
				n++
			}
		}
		if ev == nil || n != 1 {
			c.Check("R3", "Add/evicts-when-over-capacity", fn.Pos(), false, "Add evicts when the capacity is exceeded", fmt.Sprint(n))
		} else {
			g := eng.Guards(ev)
			miss, limited, over, extra := false, false, false, ""
			for _, a := range g {
				switch {
				case a.Expr == "lookupok(p0.index,p1)#1" && !a.Pos:
					miss = true
				case a.Expr == "(p0.maxEntries == 0)" && !a.Pos:
					limited = true
				default:
					b, ok := a.V.(*ssa.BinOp)
					if ok && a.Pos && b.Op == token.GTR && isField(b.Y, "maxEntries") {
						if ln, ok := b.X.(*ssa.Call); ok && eng.CalleeName(ln) == "(*container/list.List).Len" && isField(ln.Call.Args[0], "entries") {
							// Len is read after the insertion
							if push.Block().Dominates(ln.Block()) && (push.Block() != ln.Block() || eng.InstrIndex(push) < eng.InstrIndex(ln)) {
								over = true
								continue
							}
						}
					}
					extra = a.String()
				}
			}
			c.Check("R3", "Add/evicts-when-over-capacity", ev.Pos(), miss && limited && over && extra == "", "eviction happens after inserting a new key, exactly when maxEntries ≠ 0 and the length (read after the insertion) exceeds maxEntries", atomsShort(g))
			c.Check("R3", "Add/eviction-follows-insertion", ev.Pos(), upd.Block().Dominates(ev.Block()), "the new entry is in place before the oldest one is evicted")
		}
		ro := fns["removeOldest"]
		okRO := false
		for _, ci := range eng.Calls(ro) {
			if strings.Contains(eng.CalleeName(ci), ".removeElement") {
				arg, ok := ci.Common().Args[1].(*ssa.Call)
				g := eng.Guards(ci)
				if ok && eng.CalleeName(arg) == "(*container/list.List).Back" && isField(arg.Call.Args[0], "entries") && len(g) == 1 && !g[0].Pos && strings.HasSuffix(g[0].Expr, "== nil)") {
					okRO = true
				}
			}
		}
		c.Check("R3", "evicts-least-recently-used", ro.Pos(), okRO, "eviction removes the element at the back of the list (the least recently used) whenever there is one")
	}

	// ---- R4 ----
	{
		re := fns["removeElement"]
		nCb := 0
		for _, n := range names {
			for _, ci := range eng.Calls(fns[n]) {
				cc := ci.Common()
				if cc.IsInvoke() || cc.StaticCallee() != nil {
					continue
				}
				if _, isB := cc.Value.(*ssa.Builtin); isB {
					continue
				}
				nCb++
				g := eng.Guards(ci)
				okCb := fns[n] == re && isField(cc.Value, "onEvicted") && len(g) == 1 && g[0].Expr == "(p0.onEvicted == nil)" && !g[0].Pos &&
					lrem.Block().Dominates(ci.Block()) && len(cc.Args) == 2 &&
					strings.HasPrefix(eng.Render(cc.Args[0]), "assert(p1.Value,") && strings.HasSuffix(eng.Render(cc.Args[0]), ".key") &&
					strings.HasPrefix(eng.Render(cc.Args[1]), "assert(p1.Value,") && strings.HasSuffix(eng.Render(cc.Args[1]), ".value")
				c.Check("R4", "callback-site@"+n, ci.Pos(), okCb, "the callback is invoked after the removal with the removed entry's key and value, guarded only by its own nil test", atomsShort(g))
			}
		}
		c.Check("R4", "single-callback-site", re.Pos(), nCb == 1, "there is exactly one callback invocation site", fmt.Sprint(nCb))
		// no loops in removeElement
		loop := false
		for _, b := range re.Blocks {
			for _, s := range b.Succs {
				if s.Dominates(b) {
					loop = true
				}
			}
		}
		c.Check("R4", "callback-not-in-a-loop", re.Pos(), !loop, "removeElement is straight-line: one removal, one callback")
		// callers
		callers := map[string]bool{}
		for _, n := range names {
			for _, ci := range eng.Calls(fns[n]) {
				if strings.Contains(eng.CalleeName(ci), ".removeElement") {
					callers[n] = true
					if n == "Remove" {
						g := eng.Guards(ci)
						// the hit test, plus at most the two defensive tests that can only
						// be false when there is nothing to remove (an empty index holds no
						// key; the index never holds a nil element)
						hit, other := false, false
						for _, a := range g {
							switch {
							case a.Pos && a.Expr == "lookupok(p0.index,p1)#1":
								hit = true
							case !a.Pos && a.Expr == "(len(p0.index) == 0)":
							case !a.Pos && a.Expr == "(lookupok(p0.index,p1)#0 == nil)":
							default:
								other = true
							}
						}
						c.Check("R4", "Remove/removes-looked-up-element", ci.Pos(), hit && !other && eng.Render(ci.Common().Args[1]) == "lookupok(p0.index,p1)#0", "Remove removes exactly the element the index holds for the key, when there is one", atomsShort(g))
					}
				}
			}
		}
		c.Check("R4", "removal-entry-points", re.Pos(), len(callers) == 2 && callers["Remove"] && callers["removeOldest"], "entries leave the cache only through Remove and eviction", fmt.Sprint(keys(callers)))
	}

	// ---- R5 ----
	{
		ln := fns["Len"]
		okL := false
		for _, r := range eng.Returns(ln) {
			if call, ok := eng.RetResults(r)[0].(*ssa.Call); ok && eng.CalleeName(call) == "(*container/list.List).Len" && isField(call.Call.Args[0], "entries") {
				okL = true
			}
		}
		c.Check("R5", "len-is-list-length", ln.Pos(), okL, "Len reports the number of list elements")
		var lit *ssa.Alloc
		for _, r := range eng.Returns(nw) {
			lit = eng.LitOf(eng.RetResults(r)[0])
		}
		okN := false
		if lit != nil {
			f := eng.LitFields(lit)
			_, isMk := f["index"].(*ssa.MakeMap)
			lc, isCall := f["entries"].(*ssa.Call)
			okN = f["maxEntries"] != nil && eng.Render(f["maxEntries"]) == "p0" && f["onEvicted"] != nil && eng.Render(f["onEvicted"]) == "p1" && isMk && isCall && eng.CalleeName(lc) == "container/list.New"
		}
		c.Check("R5", "new-initialises-empty-cache", nw.Pos(), okN, "New stores the capacity and the callback and starts with an empty list and an empty index")
	}
}
