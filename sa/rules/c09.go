package rules

import (
	"fmt"
	"go/token"
	"strings"

	"golang.org/x/tools/go/ssa"

	"verif/sa/eng"
)

func init() {
	eng.Register(&eng.Property{
		ID:       "C09",
		Title:    "Transition results describe the disk exactly under any fault",
		Packages: []string{corePkg},
		Explanation: "Result accounting decided on every control-flow path (every fault point is a branch edge): " +
			"(R1) each iteration of Transition's loop appends exactly one result; (R4) that result is t.Old when cancellation was observed or swapFile failed, t.New when swapFile succeeded, the remainder returned by remove when non-nil, otherwise create's result; " +
			"(R2) createDirectory records a child in the created entry only on the success edge of that child's creation (file/symlink: err==nil and the planned child; directory: the non-nil partial result) and removeDirectory deletes a child from the expected entry only after its removal succeeded and clears the contents wholesale only when not cancelled and nothing failed (see C03.R3 classes); " +
			"(R3) in create/createDirectory/remove/removeDirectory/Transition every observed filesystem error or cancellation is followed by recordProblem before the function continues or returns; " +
			"(R5) in findAndMoveStagedFileIntoPlace: after the temporary was created every error exit removes it; the final rename is dominated by the copy's error being nil; permissions on the staged file and on the intermediate copy use the same computed mode; the copy reads the staged file into the temporary. " +
			"(R9, shared with C18.R4) every permission-setting call made while a file is placed or swapped uses φ(defaultFileMode | markExecutableForReaders(defaultFileMode)) chosen on the entry's Executable bit — so the reported entry's executability is what is on disk (a base that may already carry executable bits could never be cleared); " +
			"Not decided: that the reported entry equals a subsequent scan under injected faults (needs execution); rename/unlink atomicity.",
		Assumptions: []string{"a failed filesystem call leaves the named child as it was (no partial effects of single syscalls)"},
		Run:         runC09,
	})
}

func runC09(c *eng.Ctx) {
	// R9 (shared with C18.R4): the mode a placed or swapped file ends up with is
	// the one the reported entry says — chosen on Executable over the default
	// file mode as base.
	c18AppliedMode(c, "R9")
	c09TransitionLoop(c)
	c09CreateDirectory(c)
	trRemoveDirectoryFlags(c, "R2")
	c09ProblemsRecorded(c)
	c09CrossDevice(c, "R5")
}

func c09TransitionLoop(c *eng.Ctx) {
	fn := c.MustFunc("R1", corePkg, "Transition")
	if fn == nil {
		return
	}
	// results: a loop-header phi of slice type whose back edges are appends.
	var results *ssa.Phi
	for _, b := range fn.Blocks {
		for _, in := range b.Instrs {
			phi, ok := in.(*ssa.Phi)
			if !ok {
				break
			}
			if strings.HasSuffix(eng.TypeShort(phi.Type()), "[]*synchronization/core.Entry") && eng.FindLoop(b) != nil {
				results = phi
			}
		}
	}
	if results == nil {
		c.Problem("R1", "results accumulator not found in Transition")
		return
	}
	loop := eng.FindLoop(results.Block())
	var bodyEntry *ssa.BasicBlock
	for _, s := range loop.Header.Succs {
		if loop.Body[s] {
			bodyEntry = s
		}
	}
	paths, complete := eng.EnumPaths(bodyEntry, func(b *ssa.BasicBlock) bool { return b == loop.Header || !loop.Body[b] }, 20000)
	if !complete {
		c.Problem("R1", "too many paths in Transition's loop")
	}
	// the loop variable t = transitions[i]
	swapRe := `^\(\(\*synchronization/core\.transitioner\)\.swapFile\(.*\) == nil\)$`
	n := 0
	for _, p := range paths {
		if p.Last() != loop.Header {
			c.Check("R1", "no-early-exit", p.Last().Instrs[0].Pos(), false, "the loop is not left before all transitions have a result")
			continue
		}
		n++
		v := p.Resolve(p.PhiOn(results))
		call, ok := v.(*ssa.Call)
		one := false
		var elem ssa.Value
		if ok {
			if el := eng.AppendElems(call); len(el) == 1 && eng.Unwrap(call.Call.Args[0]) == ssa.Value(results) {
				one = true
				elem = el[0]
			}
		}
		key := fmt.Sprintf("iteration-path%d", n)
		if !c.Check("R1", key, loop.Header.Instrs[0].Pos(), one, "exactly one result is appended per transition", eng.Render(v)+" | "+atomsOf(p)) {
			continue
		}
		er := eng.Render(elem)
		cancelled := false
		for _, a := range p.Atoms {
			if strings.HasPrefix(a.Expr, "(selectnb(recv:") && strings.HasSuffix(a.Expr, "#0 == 0)") && a.Pos {
				cancelled = true
			}
		}
		switch {
		case cancelled:
			c.Check("R4", "cancelled→Old", elem.Pos(), strings.HasSuffix(er, ".Old"), "a transition skipped because of cancellation reports its Old entry", er)
		case pathHas(p, swapRe, false):
			c.Check("R4", "swap-failed→Old", elem.Pos(), strings.HasSuffix(er, ".Old"), "a failed file swap reports the Old entry", er)
		case pathHas(p, swapRe, true):
			c.Check("R4", "swap-ok→New", elem.Pos(), strings.HasSuffix(er, ".New"), "a successful file swap reports the New entry", er)
		case strings.HasPrefix(er, "(*synchronization/core.transitioner).remove("):
			nonNil := pathAtomEq(p, "("+er+" == nil)", false)
			c.Check("R4", "remove-remainder", elem.Pos(), nonNil, "a removal that left something behind reports exactly what remove returned", atomsOf(p))
		case strings.HasPrefix(er, "(*synchronization/core.transitioner).create("):
			// reached only if remove returned nil
			okRm := false
			for _, a := range p.Atoms {
				if strings.HasPrefix(a.Expr, "((*synchronization/core.transitioner).remove(") && strings.HasSuffix(a.Expr, " == nil)") && a.Pos {
					okRm = true
				}
			}
			c.Check("R4", "create-after-remove", elem.Pos(), okRm, "creation is attempted (and its result reported) only after the old content was removed completely", atomsOf(p))
		default:
			c.Check("R4", "unknown-result", elem.Pos(), false, "result comes from one of the known sources", er)
		}
	}
	if n < 5 {
		c.Problem("R1", "expected ≥5 iteration paths in Transition, found %d", n)
	}
	// swapFile is attempted only for file→file.
	kinds, _ := c.P.ConstsOfType(corePkg, "EntryKind")
	for _, call := range eng.CallsNamed(fn, "(*synchronization/core.transitioner).swapFile") {
		g := eng.Guards(call)
		k := fmt.Sprint(kinds["EntryKind_File"])
		ok := false
		// the guard is a phi (fileToFile); expand through boolean extraction
		for _, a := range g {
			if !a.Pos {
				continue
			}
			be, err := eng.BoolExprOf(a.V)
			if err != nil {
				continue
			}
			names := strings.Join(be.AtomNames(), " ")
			if strings.Contains(names, ".Old.Kind == "+k+":EntryKind)") && strings.Contains(names, ".New.Kind == "+k+":EntryKind)") {
				ok = true
			}
		}
		c.Check("R4", "swap-only-file-to-file", call.Pos(), ok, "swapFile is used only when both Old and New are files", eng.AtomsText(g))
	}
}

func c09CreateDirectory(c *eng.Ctx) {
	fn := c.MustFunc("R2", corePkg, "transitioner.createDirectory")
	if fn == nil {
		return
	}
	n := 0
	eng.EachInstr(fn, func(i ssa.Instruction) {
		mu, ok := i.(*ssa.MapUpdate)
		if !ok {
			return
		}
		n++
		g := eng.Guards(mu)
		vr := eng.Render(mu.Value)
		switch {
		case strings.HasPrefix(vr, fnCreateDir+"("):
			c.Check("R2", "created-child:directory", mu.Pos(), eng.HasAtom(g, `^\(`+eng.Q(vr)+` == nil\)$`, false), "a child directory is recorded only if its (possibly partial) creation returned an entry", eng.AtomsText(g))
		default:
			// value must be the planned child `entry`, under success of createFile/createSymbolicLink with that entry
			okv := strings.HasPrefix(vr, "next(range(p4.Contents))#2")
			re := `^\(\(\*synchronization/core\.transitioner\)\.create(File|SymbolicLink)\(p0, .*, ` + eng.Q(vr) + `\) == nil\)$`
			c.Check("R2", fmt.Sprintf("created-child:leaf#%d", n), mu.Pos(), okv && eng.HasAtom(g, re, true), "a file/link child is recorded only on the success edge of its creation, as planned", vr+" | "+eng.AtomsText(g))
		}
		c.Check("R2", fmt.Sprintf("created-key#%d", n), mu.Pos(), eng.Render(mu.Key) == "next(range(p4.Contents))#1", "recorded under the child's own name", eng.Render(mu.Key))
	})
	if n != 3 {
		c.Problem("R2", "expected three map updates in createDirectory, found %d", n)
	}
	// The entry returned is the slim copy of the target, never the target itself.
	for _, r := range eng.Returns(fn) {
		rv := eng.RetResults(r)[0]
		if eng.IsNilConst(rv) {
			g := eng.Guards(r)
			c.Check("R2", "nil-only-if-mkdir-failed", r.Pos(), eng.HasAtom(g, `^\(\(\*filesystem\.Directory\)\.CreateDirectory\(p1, p2\) == nil\)$`, false), "nil (nothing created) is reported only if the directory itself could not be created", eng.AtomsText(g))
			continue
		}
		c.Check("R2", "returns-own-copy", r.Pos(), strings.HasPrefix(eng.Render(rv), "(*synchronization/core.Entry).Copy(p4, "), "the reported entry is createDirectory's own copy of the target (contents filled in as created)", eng.Render(rv))
	}
	c.Floor("R2", 8)
}

// c09ProblemsRecorded: in the transitioner functions that do not return an
// error, every error edge records a problem.
func c09ProblemsRecorded(c *eng.Ctx) {
	names := []string{"transitioner.create", "transitioner.createDirectory", "transitioner.remove", "transitioner.removeDirectory", "Transition"}
	n := 0
	for _, nm := range names {
		fn := c.MustFunc("R3", corePkg, nm)
		if fn == nil {
			continue
		}
		for _, b := range fn.Blocks {
			iff, ok := b.Instrs[len(b.Instrs)-1].(*ssa.If)
			if !ok {
				continue
			}
			a := eng.MkAtom(iff.Cond, true)
			bo, ok := a.V.(*ssa.BinOp)
			if !ok || (bo.Op != token.EQL && bo.Op != token.NEQ) {
				continue
			}
			var x ssa.Value
			if eng.IsNilConst(bo.Y) {
				x = bo.X
			} else {
				continue
			}
			if !isErrorType(x.Type()) || errorOrigin(x) == "" {
				continue
			}
			// error edge: the successor where (x == nil) is false
			errSucc := b.Succs[1]
			if !a.Pos {
				errSucc = b.Succs[0]
			}
			if bo.Op == token.EQL {
				// MkAtom keeps EQL polarity: Pos means "== nil" on Succs[0]
				errSucc = b.Succs[1]
			} else {
				errSucc = b.Succs[0]
			}
			n++
			recorded := false
			for _, d := range fn.Blocks {
				if !errSucc.Dominates(d) {
					continue
				}
				for _, in := range d.Instrs {
					if cl, ok := in.(*ssa.Call); ok && eng.CalleeName(cl) == "(*synchronization/core.transitioner).recordProblem" {
						recorded = true
					}
				}
			}
			// Single-predecessor requirement: the error successor must be entered only from here.
			c.Check("R3", "problem-recorded:"+nm+"<-"+errorOrigin(x), iff.Pos(), recorded && len(errSucc.Preds) == 1, "a failed filesystem operation is reported as a problem", errorOrigin(x))
		}
	}
	if n < 12 {
		c.Problem("R3", "expected ≥12 error edges in the transitioner functions, found %d", n)
	}
}

func c09CrossDevice(c *eng.Ctx, rule string) {
	fn := c.MustFunc(rule, corePkg, "transitioner.findAndMoveStagedFileIntoPlace")
	if fn == nil {
		return
	}
	var tmp *ssa.Call
	for _, call := range eng.CallsNamed(fn, "(*filesystem.Directory).CreateTemporaryFile") {
		tmp, _ = call.(*ssa.Call)
	}
	var cp *ssa.Call
	for _, call := range eng.CallsNamed(fn, "io.CopyBuffer") {
		cp, _ = call.(*ssa.Call)
	}
	if tmp == nil || cp == nil {
		c.Problem(rule, "cross-device fallback (CreateTemporaryFile / io.CopyBuffer) not found")
		return
	}
	tmpName := eng.Render(tmp) + "#0"
	okTmp := `^\(` + eng.Q(eng.Render(tmp)) + `#2 == nil\)$`
	// every error return after the temporary exists removes it
	n := 0
	for _, r := range eng.Returns(fn) {
		res := eng.RetResults(r)
		if eng.IsNilConst(res[0]) {
			continue
		}
		if !eng.HasAtom(eng.Guards(r), okTmp, true) {
			continue
		}
		n++
		removed := false
		for _, d := range fn.Blocks {
			// blocks after the temporary's creation that every path to this return passes
			if !(tmp.Block().Dominates(d) && d.Dominates(r.Block())) {
				continue
			}
			for _, in := range d.Instrs {
				if cl, ok := in.(*ssa.Call); ok && eng.CalleeName(cl) == dirRemoveFile && eng.Render(cl.Call.Args[1]) == tmpName && eng.Render(cl.Call.Args[0]) == "p3" {
					removed = true
				}
			}
		}
		c.Check(rule, fmt.Sprintf("temporary-cleaned#%d", n), r.Pos(), removed, "an error exit after the temporary file was created removes the temporary")
	}
	if n < 4 {
		c.Problem(rule, "expected ≥4 error exits after temporary creation, found %d", n)
	}
	// rename from the temporary is guarded by copy success and permission success
	copyOK := `^\(` + eng.Q(eng.Render(cp)) + `#1 == nil\)$`
	var modes []string
	for _, call := range eng.Calls(fn) {
		name := eng.CalleeName(call)
		args := call.Common().Args
		switch name {
		case "filesystem.Rename":
			if eng.Render(args[1]) == tmpName {
				g := eng.Guards(call)
				c.Check(rule, "rename-after-copy", call.Pos(), eng.HasAtom(g, copyOK, true), "the intermediate copy is renamed into place only if the copy reported no error", eng.AtomsText(g))
				c.Check(rule, "rename-after-chmod", call.Pos(), eng.HasAtom(g, `^\(\(\*filesystem\.Directory\)\.SetPermissions\(p3, `+eng.Q(tmpName)+`, .*\) == nil\)$`, true), "… and only after its permissions were set")
			}
		case "(*filesystem.Directory).SetPermissions", "filesystem.SetPermissionsByPath":
			modes = append(modes, eng.Render(args[len(args)-1]))
			if name == "(*filesystem.Directory).SetPermissions" {
				g := eng.Guards(call)
				c.Check(rule, "chmod-after-copy", call.Pos(), eng.HasAtom(g, copyOK, true), "permissions are applied to the intermediate copy only after a complete copy", eng.AtomsText(g))
			}
		}
	}
	same := len(modes) >= 2
	for _, m := range modes {
		if m != modes[0] {
			same = false
		}
	}
	c.Check(rule, "same-mode", fn.Pos(), same && strings.Contains(modes[0], "markExecutableForReaders"), "the staged file and the intermediate copy receive the same computed mode (executable bits included)", strings.Join(modes, " | "))
	// copy direction
	dst, src := eng.Render(cp.Call.Args[0]), eng.Render(cp.Call.Args[1])
	c.Check(rule, "copy-direction", cp.Pos(), strings.Contains(dst, eng.Render(tmp)+"#1") && strings.Contains(src, "os.Open("), "the copy reads the staged file and writes the temporary", dst+" <- "+src)
	c.Floor(rule, 9)
}
