package rules

import (
	"fmt"
	"os"
	"sort"
	"strings"

	"golang.org/x/tools/go/ssa"

	"verif/sa/eng"
)

// c21ValidatorReasons (C21.R7): the reasons for which the wire-message
// validators of package remote reject a message. A remote endpoint behaves like
// a local one only if the client accepts every response a conforming server can
// send and the server every request a conforming client can send, so a NEW
// reason to reject (a bound the local endpoint does not have) breaks the
// equivalence, and a reason that disappears lets malformed messages through.
// The table below lists, per validator, the deciding condition of every
// rejecting return as read and confirmed on the pinned tree (normalised branch
// atoms, "¬" = false edge); the rule demands the same set today.
// (the table itself is in c21_validators_table.go)

// deciding condition of a return: the atom of the edge entering the return's
// block (or, when the block has several predecessors, the atoms common to all).
func c21Deciding(r *ssa.Return) []string {
	b := r.Block()
	var out []string
	if len(b.Preds) == 1 {
		for _, a := range edgeGuards(b.Preds[0], b)[len(eng.GuardsOfBlock(b.Preds[0])):] {
			out = append(out, c21AtomText(a))
		}
	}
	if len(out) == 0 {
		// join: use the must-guards that are not inherited from the immediate dominator
		inherited := map[string]bool{}
		if d := b.Idom(); d != nil {
			for _, a := range eng.GuardsOfBlock(d) {
				inherited[a.String()] = true
			}
		}
		for _, a := range eng.GuardsOfBlock(b) {
			if !inherited[a.String()] && a.Via == "" {
				out = append(out, c21AtomText(a))
			}
		}
	}
	sort.Strings(out)
	return out
}

func c21AtomText(a eng.Atom) string {
	if a.Pos {
		return a.Expr
	}
	return "¬" + a.Expr
}

func c21Validators(c *eng.Ctx) {
	named := []string{"InitializeSynchronizationRequest", "InitializeSynchronizationResponse", "PollRequest", "PollCompletionRequest", "PollResponse",
		"ScanRequest", "ScanCompletionRequest", "ScanResponse", "StageRequest", "StageResponse", "SupplyRequest", "TransitionRequest",
		"TransitionCompletionRequest", "TransitionResponse", "EndpointRequest"}
	for _, tn := range named {
		fn := c.MustFunc("R7", remotePkg, tn+".ensureValid")
		if fn == nil {
			continue
		}
		var found []string
		for _, r := range eng.Returns(fn) {
			res := eng.RetResults(r)
			if eng.IsNilConst(res[0]) {
				continue
			}
			found = append(found, strings.Join(c21Deciding(r), " ∧ "))
		}
		sort.Strings(found)
		want := append([]string(nil), c21ValidatorTable[tn]...)
		sort.Strings(want)
		ok := len(found) == len(want)
		if ok {
			for i := range want {
				if want[i] != found[i] {
					ok = false
				}
			}
		}
		var extra, missing []string
		ws, fs := map[string]int{}, map[string]int{}
		for _, w := range want {
			ws[w]++
		}
		for _, f := range found {
			fs[f]++
		}
		for f, n := range fs {
			if n > ws[f] {
				extra = append(extra, f)
			}
		}
		for w, n := range ws {
			if n > fs[w] {
				missing = append(missing, w)
			}
		}
		sort.Strings(extra)
		sort.Strings(missing)
		detail := ""
		if len(extra) > 0 {
			detail += "new reason(s) to reject: " + strings.Join(extra, " | ")
		}
		if len(missing) > 0 {
			detail += " reason(s) no longer enforced: " + strings.Join(missing, " | ")
		}
		if c21Dump {
			fmt.Printf("\t%q: {\n", tn)
			for _, f := range found {
				fmt.Printf("\t\t%q,\n", f)
			}
			fmt.Printf("\t},\n")
		}
		c.Check("R7", "rejection-reasons:"+tn, fn.Pos(), ok, "the validator of "+tn+" rejects for exactly the reasons confirmed on the pinned tree (none added, none dropped)", detail)
	}
	c.Floor("R7", 15)
}

var c21Dump = os.Getenv("VERIF_C21_DUMP") != ""
