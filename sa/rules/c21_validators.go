package rules

import (
	"fmt"
	"os"
	"regexp"
	"sort"
	"strings"

	"golang.org/x/tools/go/ssa"

	"verif/sa/eng"
)

// c21ValidatorReasons (C21.R7): the reasons for which the wire-message
// validators of package remote reject a message. A remote endpoint behaves like
// a local one only if the client accepts every response a conforming server can
// send and the server every request a conforming client can send, so a NEW
// reason to reject (a bound the local endpoint does not have) breaks the
// equivalence, and a reason that disappears lets malformed messages through.
// The table below lists, per validator, the deciding condition of every
// rejecting return as read and confirmed on the pinned tree (normalised branch
// atoms, "¬" = false edge); the rule demands the same set today.
// (the table itself is in c21_validators_table.go)

// deciding condition of a return: the atom of the edge entering the return's
// block (or, when the block has several predecessors, the atoms common to all).
func c21Deciding(r *ssa.Return) []string {
	b := r.Block()
	var out []string
	if len(b.Preds) == 1 {
		for _, a := range edgeGuards(b.Preds[0], b)[len(eng.GuardsOfBlock(b.Preds[0])):] {
			out = append(out, c21AtomText(a))
		}
	}
	if len(out) == 0 {
		// join: use the must-guards that are not inherited from the immediate dominator
		inherited := map[string]bool{}
		if d := b.Idom(); d != nil {
			for _, a := range eng.GuardsOfBlock(d) {
				inherited[a.String()] = true
			}
		}
		for _, a := range eng.GuardsOfBlock(b) {
			if !inherited[a.String()] && a.Via == "" {
				out = append(out, c21AtomText(a))
			}
		}
	}
	sort.Strings(out)
	return out
}

func c21AtomText(a eng.Atom) string {
	t := a.Expr
	if !a.Pos {
		t = "¬" + t
	}
	return canonContains(t)
}

// canonContains maps the equivalent spellings of «s contains the byte c» onto
// the IndexByte form the tables were frozen with.
var (
	reContainsStr  = regexp.MustCompile(`^(¬?)strings\.Contains\((.*), "(.)"\)$`)
	reContainsRune = regexp.MustCompile(`^(¬?)strings\.Contains(?:Rune)?\((.*), (\d+)(?::\w+)?\)$`)
	reIndexCmp     = regexp.MustCompile(`^(¬?)\(strings\.Index(?:Byte|Rune)?\((.*), (\d+)(?::\w+)?\) (>= 0|< 0|!= -1|> -1)\)$`)
)

func canonContains(t string) string {
	flip := func(neg string, contains bool, s, c string) string {
		// «contains» ≡ ¬(IndexByte == -1)
		if (neg == "") == contains {
			return "¬(strings.IndexByte(" + s + ", " + c + ") == -1)"
		}
		return "(strings.IndexByte(" + s + ", " + c + ") == -1)"
	}
	if m := reContainsStr.FindStringSubmatch(t); m != nil {
		return flip(m[1], true, m[2], fmt.Sprint(int(m[3][0])))
	}
	if m := reContainsRune.FindStringSubmatch(t); m != nil {
		return flip(m[1], true, m[2], m[3])
	}
	if m := reIndexCmp.FindStringSubmatch(t); m != nil {
		return flip(m[1], m[4] != "< 0", m[2], m[3])
	}
	return t
}

func c21Validators(c *eng.Ctx) {
	named := []string{"InitializeSynchronizationRequest", "InitializeSynchronizationResponse", "PollRequest", "PollCompletionRequest", "PollResponse",
		"ScanRequest", "ScanCompletionRequest", "ScanResponse", "StageRequest", "StageResponse", "SupplyRequest", "TransitionRequest",
		"TransitionCompletionRequest", "TransitionResponse", "EndpointRequest"}
	for _, tn := range named {
		validatorReasons(c, "R7", remotePkg, tn+".ensureValid", tn, c21ValidatorTable[tn])
	}
	c.Floor("R7", 15)
}

// validatorReasons compares the deciding conditions of the rejecting returns of
// one validator with the frozen list (as a multiset, so order and the if/switch
// spelling do not matter).
func validatorReasons(c *eng.Ctx, rule, pkg, fnName, tn string, table []string) {
	{
		fn := c.MustFunc(rule, pkg, fnName)
		if fn == nil {
			return
		}
		var found []string
		for _, r := range eng.Returns(fn) {
			res := eng.RetResults(r)
			if eng.IsNilConst(res[0]) {
				continue
			}
			found = append(found, strings.Join(c21Deciding(r), " ∧ "))
		}
		sort.Strings(found)
		want := append([]string(nil), table...)
		sort.Strings(want)
		ok := len(found) == len(want)
		if ok {
			for i := range want {
				if want[i] != found[i] {
					ok = false
				}
			}
		}
		var extra, missing []string
		ws, fs := map[string]int{}, map[string]int{}
		for _, w := range want {
			ws[w]++
		}
		for _, f := range found {
			fs[f]++
		}
		for f, n := range fs {
			if n > ws[f] {
				extra = append(extra, f)
			}
		}
		for w, n := range ws {
			if n > fs[w] {
				missing = append(missing, w)
			}
		}
		sort.Strings(extra)
		sort.Strings(missing)
		detail := ""
		if len(extra) > 0 {
			detail += "new reason(s) to reject: " + strings.Join(extra, " | ")
		}
		if len(missing) > 0 {
			detail += " reason(s) no longer enforced: " + strings.Join(missing, " | ")
		}
		if c21Dump {
			fmt.Printf("\t%q: {\n", tn)
			for _, f := range found {
				fmt.Printf("\t\t%q,\n", f)
			}
			fmt.Printf("\t},\n")
		}
		c.Check(rule, "rejection-reasons:"+tn, fn.Pos(), ok, "the validator of "+tn+" rejects for exactly the reasons confirmed on the pinned tree (none added, none dropped)", detail)
	}
}

var c21Dump = os.Getenv("VERIF_C21_DUMP") != ""
