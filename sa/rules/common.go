package rules

import (
	"fmt"
	"go/token"
	"regexp"
	"strings"

	"golang.org/x/tools/go/ssa"

	"verif/sa/eng"
)

// nilReturns lists the returns of fn whose last (error) result is the nil
// constant.
func nilReturns(fn *ssa.Function) []*ssa.Return {
	var out []*ssa.Return
	res := fn.Signature.Results()
	if res.Len() == 0 || !isErrorType(res.At(res.Len()-1).Type()) {
		return nil
	}
	for _, r := range eng.Returns(fn) {
		if len(eng.RetResults(r)) == res.Len() && eng.IsNilConst(eng.RetResults(r)[len(eng.RetResults(r))-1]) {
			out = append(out, r)
		}
	}
	return out
}

// requireAtNilReturns checks that every nil-error return of fn is guarded by
// an atom matching re with polarity pol; one obligation per return.
func requireAtNilReturns(c *eng.Ctx, rule, key string, fn *ssa.Function, re string, pol bool, desc string) {
	rets := nilReturns(fn)
	if len(rets) == 0 {
		c.Problem(rule, "%s has no nil-error return", eng.FuncName(fn))
		return
	}
	for _, r := range rets {
		g := eng.Guards(r)
		c.Check(rule, key, r.Pos(), eng.HasAtom(g, re, pol), desc, "guards at return nil: "+eng.AtomsText(g))
	}
}

// successAtom is the regexp of the atom "call whose rendering matches callRe
// returned a nil error" (either a single error result or the last of a tuple).
func successAtom(callRe string) string {
	return `^\(` + callRe + `(#\d+)? == nil\)$`
}

// callGuardedBy checks that a call instruction is guarded by (re, pol).
func callGuardedBy(c *eng.Ctx, rule, key string, call ssa.Instruction, re string, pol bool, desc string) bool {
	g := eng.Guards(call)
	return c.Check(rule, key, eng.InstrPos(call), eng.HasAtom(g, re, pol), desc, "guards: "+eng.AtomsText(g))
}

// pathsToNilReturns enumerates entry→return paths ending in a nil-error return.
func pathsToNilReturns(c *eng.Ctx, rule string, fn *ssa.Function, limit int) []eng.Path {
	paths, complete := eng.EnumPathsOpt(fn.Blocks[0], nil, limit, eng.NoFieldStores(fn))
	if !complete {
		c.Problem(rule, "path limit exceeded in %s", eng.FuncName(fn))
	}
	var out []eng.Path
	res := fn.Signature.Results()
	for _, p := range paths {
		last := p.Last()
		r, ok := last.Instrs[len(last.Instrs)-1].(*ssa.Return)
		if !ok || len(last.Succs) != 0 {
			continue
		}
		if len(eng.RetResults(r)) == res.Len() && res.Len() > 0 && eng.IsNilConst(eng.RetResults(r)[len(eng.RetResults(r))-1]) {
			out = append(out, p)
		}
	}
	return out
}

// pathHas reports whether a path carries an atom matching (re, pol).
func pathHas(p eng.Path, re string, pol bool) bool {
	rx := regexp.MustCompile(re)
	for _, a := range p.Atoms {
		if a.Pos == pol && (rx.MatchString(a.Expr) || rx.MatchString(a.Mirrored())) {
			return true
		}
	}
	return false
}

// storesDisjointFromConditions reports whether no branch condition of fn reads
// a field (by name) that fn stores to, and fn performs no map updates or
// indexed stores into non-local memory. Then two syntactically equal
// conditions over pure calls and unwritten fields have the same truth value
// along any path of fn.
func storesDisjointFromConditions(fn *ssa.Function) bool {
	written := map[string]bool{}
	ok := true
	eng.EachInstr(fn, func(i ssa.Instruction) {
		switch x := i.(type) {
		case *ssa.Store:
			switch a := x.Addr.(type) {
			case *ssa.Alloc:
			case *ssa.FieldAddr:
				if _, local := a.X.(*ssa.Alloc); !local {
					written[eng.FieldOf(a).Name()] = true
				}
			case *ssa.IndexAddr:
				if _, local := a.X.(*ssa.Alloc); !local {
					ok = false
				}
			default:
				ok = false
			}
		case *ssa.MapUpdate:
			ok = false
		}
	})
	if !ok {
		return false
	}
	eng.EachInstr(fn, func(i ssa.Instruction) {
		if iff, isIf := i.(*ssa.If); isIf {
			r := eng.Render(iff.Cond)
			for f := range written {
				if regexp.MustCompile(`\.` + regexp.QuoteMeta(f) + `\b`).MatchString(r) {
					ok = false
				}
			}
		}
	})
	return ok
}

// storesInBlock returns the stores in a block.
func storesInBlock(b *ssa.BasicBlock) []*ssa.Store {
	var out []*ssa.Store
	for _, in := range b.Instrs {
		if st, ok := in.(*ssa.Store); ok {
			out = append(out, st)
		}
	}
	return out
}

// isLoadOf reports whether v is a load (*addr) of the given address value.
func isLoadOf(v ssa.Value, addr ssa.Value) bool {
	u, ok := v.(*ssa.UnOp)
	return ok && u.Op == token.MUL && u.X == addr
}

// dominatedBlocks returns the blocks of fn dominated by b (inclusive).
func dominatedBlocks(b *ssa.BasicBlock) []*ssa.BasicBlock {
	var out []*ssa.BasicBlock
	for _, x := range b.Parent().Blocks {
		if b.Dominates(x) {
			out = append(out, x)
		}
	}
	return out
}

// isDiagnosticCall reports whether a call only produces diagnostics — a log
// line through the project's logger, or the formatting of a message/error
// value. Such calls are not operations of the component under analysis: rules
// of the form «nothing happens here except …» or «every operation is guarded
// by …» do not count them.
func isDiagnosticCall(name string) bool {
	if strings.HasPrefix(name, "(*logging.Logger).") {
		switch strings.TrimPrefix(name, "(*logging.Logger).") {
		case "Error", "Errorf", "Warn", "Warnf", "Info", "Infof", "Debug", "Debugf", "Trace", "Tracef", "Level":
			return true
		}
		return false
	}
	switch name {
	case "errors.New", "fmt.Errorf", "fmt.Sprintf", "fmt.Sprint", "errors.Is", "errors.As":
		return true
	}
	return false
}

// everyPathTo enumerates the ways from fn's entry to block b and reports
// whether ok holds on each of them (and how many there are). It is the
// disjunction-friendly form of a must-guard: after `if a || b { return x }` the
// return block has two predecessors and no single atom holds on entry to it,
// but on every way into it one of the two does.
func everyPathTo(b *ssa.BasicBlock, limit int, ok func(eng.Path) bool) (bool, int) {
	fn := b.Parent()
	paths, complete := eng.EnumPaths(fn.Blocks[0], func(x *ssa.BasicBlock) bool { return x == b }, limit)
	n, all := 0, complete
	for _, p := range paths {
		if p.Last() != b {
			continue
		}
		n++
		if !ok(p) {
			all = false
		}
	}
	return all && n > 0, n
}

// Spellings of three string tests that rules meet as boolean atoms. Each pair is
// equivalent for a non-empty string (the callers establish non-emptiness
// separately): s[0]==c / strings.HasPrefix(s, "c"); s[len(s)-1]==c /
// strings.HasSuffix(s, "c"); strings.IndexByte(s, c)>=0 / strings.Contains(s,
// "c") / strings.ContainsRune(s, c).
func atomFirstByteIs(atom string, ch byte) bool {
	return strings.HasSuffix(atom, fmt.Sprintf("[0] == %d)", ch)) && strings.HasPrefix(atom, "(") ||
		strings.HasPrefix(atom, "strings.HasPrefix(") && strings.HasSuffix(atom, fmt.Sprintf(", %q)", string(ch)))
}

func atomLastByteIs(atom string, ch byte) bool {
	return strings.HasSuffix(atom, fmt.Sprintf(" == %d)", ch)) && strings.Contains(atom, "[(len(") && strings.Contains(atom, " - 1)]") ||
		strings.HasPrefix(atom, "strings.HasSuffix(") && strings.HasSuffix(atom, fmt.Sprintf(", %q)", string(ch)))
}

func atomContainsByte(atom string, ch byte) bool {
	return strings.HasPrefix(atom, "(strings.IndexByte(") && strings.HasSuffix(atom, fmt.Sprintf(", %d) >= 0)", ch)) ||
		strings.HasPrefix(atom, "strings.Contains(") && strings.HasSuffix(atom, fmt.Sprintf(", %q)", string(ch))) ||
		strings.HasPrefix(atom, "strings.ContainsRune(") && strings.HasSuffix(atom, fmt.Sprintf(", %d)", ch))
}

// renderThroughWrapper renders v, looking through a call to a parameterless
// same-module function that does nothing but return one expression (such as
// `func lockPath() (string, error) { return subpath(lockName) }`): the wrapper's
// result is that expression.
func renderThroughWrapper(v ssa.Value) string {
	u := eng.Unwrap(v)
	idx := 0
	if ex, ok := u.(*ssa.Extract); ok {
		u, idx = ex.Tuple, ex.Index
	}
	call, ok := u.(*ssa.Call)
	if !ok {
		return eng.Render(v)
	}
	callee := call.Call.StaticCallee()
	if callee == nil || !eng.IsModuleFunc(callee) || len(callee.Params) != 0 || len(callee.Blocks) != 1 {
		return eng.Render(v)
	}
	rs := eng.Returns(callee)
	if len(rs) != 1 {
		return eng.Render(v)
	}
	res := eng.RetResults(rs[0])
	if idx >= len(res) {
		return eng.Render(v)
	}
	return eng.Render(res[idx])
}
