package rules

import (
	"go/token"
	"regexp"

	"golang.org/x/tools/go/ssa"

	"verif/sa/eng"
)

// nilReturns lists the returns of fn whose last (error) result is the nil
// constant.
func nilReturns(fn *ssa.Function) []*ssa.Return {
	var out []*ssa.Return
	res := fn.Signature.Results()
	if res.Len() == 0 || !isErrorType(res.At(res.Len()-1).Type()) {
		return nil
	}
	for _, r := range eng.Returns(fn) {
		if len(eng.RetResults(r)) == res.Len() && eng.IsNilConst(eng.RetResults(r)[len(eng.RetResults(r))-1]) {
			out = append(out, r)
		}
	}
	return out
}

// requireAtNilReturns checks that every nil-error return of fn is guarded by
// an atom matching re with polarity pol; one obligation per return.
func requireAtNilReturns(c *eng.Ctx, rule, key string, fn *ssa.Function, re string, pol bool, desc string) {
	rets := nilReturns(fn)
	if len(rets) == 0 {
		c.Problem(rule, "%s has no nil-error return", eng.FuncName(fn))
		return
	}
	for _, r := range rets {
		g := eng.Guards(r)
		c.Check(rule, key, r.Pos(), eng.HasAtom(g, re, pol), desc, "guards at return nil: "+eng.AtomsText(g))
	}
}

// successAtom is the regexp of the atom "call whose rendering matches callRe
// returned a nil error" (either a single error result or the last of a tuple).
func successAtom(callRe string) string {
	return `^\(` + callRe + `(#\d+)? == nil\)$`
}

// callGuardedBy checks that a call instruction is guarded by (re, pol).
func callGuardedBy(c *eng.Ctx, rule, key string, call ssa.Instruction, re string, pol bool, desc string) bool {
	g := eng.Guards(call)
	return c.Check(rule, key, eng.InstrPos(call), eng.HasAtom(g, re, pol), desc, "guards: "+eng.AtomsText(g))
}

// pathsToNilReturns enumerates entry→return paths ending in a nil-error return.
func pathsToNilReturns(c *eng.Ctx, rule string, fn *ssa.Function, limit int) []eng.Path {
	paths, complete := eng.EnumPathsOpt(fn.Blocks[0], nil, limit, eng.NoFieldStores(fn))
	if !complete {
		c.Problem(rule, "path limit exceeded in %s", eng.FuncName(fn))
	}
	var out []eng.Path
	res := fn.Signature.Results()
	for _, p := range paths {
		last := p.Last()
		r, ok := last.Instrs[len(last.Instrs)-1].(*ssa.Return)
		if !ok || len(last.Succs) != 0 {
			continue
		}
		if len(eng.RetResults(r)) == res.Len() && res.Len() > 0 && eng.IsNilConst(eng.RetResults(r)[len(eng.RetResults(r))-1]) {
			out = append(out, p)
		}
	}
	return out
}

// pathHas reports whether a path carries an atom matching (re, pol).
func pathHas(p eng.Path, re string, pol bool) bool {
	rx := regexp.MustCompile(re)
	for _, a := range p.Atoms {
		if a.Pos == pol && rx.MatchString(a.Expr) {
			return true
		}
	}
	return false
}

// storesDisjointFromConditions reports whether no branch condition of fn reads
// a field (by name) that fn stores to, and fn performs no map updates or
// indexed stores into non-local memory. Then two syntactically equal
// conditions over pure calls and unwritten fields have the same truth value
// along any path of fn.
func storesDisjointFromConditions(fn *ssa.Function) bool {
	written := map[string]bool{}
	ok := true
	eng.EachInstr(fn, func(i ssa.Instruction) {
		switch x := i.(type) {
		case *ssa.Store:
			switch a := x.Addr.(type) {
			case *ssa.Alloc:
			case *ssa.FieldAddr:
				if _, local := a.X.(*ssa.Alloc); !local {
					written[eng.FieldOf(a).Name()] = true
				}
			case *ssa.IndexAddr:
				if _, local := a.X.(*ssa.Alloc); !local {
					ok = false
				}
			default:
				ok = false
			}
		case *ssa.MapUpdate:
			ok = false
		}
	})
	if !ok {
		return false
	}
	eng.EachInstr(fn, func(i ssa.Instruction) {
		if iff, isIf := i.(*ssa.If); isIf {
			r := eng.Render(iff.Cond)
			for f := range written {
				if regexp.MustCompile(`\.` + regexp.QuoteMeta(f) + `\b`).MatchString(r) {
					ok = false
				}
			}
		}
	})
	return ok
}

// storesInBlock returns the stores in a block.
func storesInBlock(b *ssa.BasicBlock) []*ssa.Store {
	var out []*ssa.Store
	for _, in := range b.Instrs {
		if st, ok := in.(*ssa.Store); ok {
			out = append(out, st)
		}
	}
	return out
}

// isLoadOf reports whether v is a load (*addr) of the given address value.
func isLoadOf(v ssa.Value, addr ssa.Value) bool {
	u, ok := v.(*ssa.UnOp)
	return ok && u.Op == token.MUL && u.X == addr
}

// dominatedBlocks returns the blocks of fn dominated by b (inclusive).
func dominatedBlocks(b *ssa.BasicBlock) []*ssa.BasicBlock {
	var out []*ssa.BasicBlock
	for _, x := range b.Parent().Blocks {
		if b.Dominates(x) {
			out = append(out, x)
		}
	}
	return out
}
