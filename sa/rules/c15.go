package rules

import (
	"fmt"
	"strings"

	"golang.org/x/tools/go/ssa"

	"verif/sa/eng"
)

func init() {
	eng.Register(&eng.Property{
		ID:       "C15",
		Title:    "Docker-style ignores match Docker's build-context semantics",
		Packages: []string{dockIgnPkg, pmPkg, ignorePkg, corePkg, syncPkg},
		Explanation: "(R1, sibling agreement) the vendored matcher's MatchesForMutagen loop has the same last-match-wins structure as the Mutagen-style ignorer (same skip justification, status updates, exclusion counter, early exit), decided on every path of one iteration; after the loop: an inverted directory never continues traversal, non-directories and matchers without exclusions never continue, otherwise traversal continues exactly when some exclusion pattern has the directory as a path prefix (with separator); " +
			"(R2) the status mapping Nominal→Nominal, Matched→Ignored, Inverted→Unignored is total and injective and forwards the traversal flag; pattern normalisation trims whitespace before and after the '!' and cleans the path; " +
			"(R2 addition) NewIgnorer builds the matcher from the caller's pattern list itself — nothing is dropped, merged or reordered beforehand (evaluation is last-match-wins, so a repeated pattern is significant); " +
			"(R3) the scan's (status, mask, continue) decision table and phantom-directory marking (shared with C14.R5); non-UTF-8 names under a mask are Untracked; " +
			"(R4) reifyPhantomDirectories: reifyToTracked = trackedBelow ∨ ancestorIsDirectory [truth table]; reifying to untracked applies only to phantom directories and clears their contents; it works on copies made by ReifyPhantomDirectories; " +
			"(R5) the controller reifies exactly when the effective ignore syntax is Docker, before reconciliation, and reconciles the reified trees. " +
			"Not decided: equivalence with moby's matcher and Docker's walk on concrete trees (a runtime oracle); filepath.Match semantics.",
		Assumptions: []string{"pattern.match implements moby's per-pattern matching (vendored, unchanged)"},
		Run:         runC15,
	})
}

func runC15(c *eng.Ctx) {
	ms, _ := c.P.ConstsOfType(pmPkg, "MatchStatus")
	fn := c.MustFunc("R1", pmPkg, "PatternMatcher.MatchesForMutagen")
	if fn != nil {
		lastMatchWinsLoop(c, "R1", fn, lmwSpec{
			negField: "exclusion", countField: "exclusionCount",
			matchCall:  "(*" + pmShortName + ".Pattern).match",
			matchIsErr: true,
			matched:    ms["MatchStatusMatched"],
			inverted:   ms["MatchStatusInverted"],
			statusType: "patternmatcher.MatchStatus",
		})
		// post-loop traversal logic
		for _, r := range eng.Returns(fn) {
			res := eng.RetResults(r)
			cont, isC := eng.ConstBool(res[1])
			g := eng.Guards(r)
			if !isC {
				c.Check("R1", "continue-is-constant", r.Pos(), false, "traversal flag is decided by branches", eng.Render(res[1]))
				continue
			}
			if cont {
				okDir := eng.HasAtom(g, "^p2$", true) && eng.HasAtom(g, `^p0\.exclusions$`, true)
				okPrefix := false
				okExcl := false
				for _, a := range g {
					if a.Pos && strings.HasPrefix(a.Expr, "strings.HasPrefix((") && strings.Contains(a.Expr, ".cleanedPattern + ") && strings.Contains(a.Expr, "FromSlash(p1) + ") {
						okPrefix = true
					}
					if a.Pos && strings.HasSuffix(a.Expr, ".exclusion") {
						okExcl = true
					}
				}
				notInverted := false
				for _, a := range g {
					if !a.Pos && strings.HasSuffix(a.Expr, fmt.Sprintf(" == %d:MatchStatus)", ms["MatchStatusInverted"])) {
						notInverted = true
					}
				}
				if !notInverted {
					// `if directory && status == Inverted { return status, false }` precedes: find that return
					for _, r2 := range eng.Returns(fn) {
						g2 := eng.Guards(r2)
						res2 := eng.RetResults(r2)
						if v, ok := eng.ConstBool(res2[1]); ok && !v && eng.HasAtom(g2, "^p2$", true) && eng.HasAtom(g2, fmt.Sprintf(` == %d:MatchStatus\)$`, ms["MatchStatusInverted"]), true) {
							_ = r2
						}
					}
					// Path argument: from the first test of `directory` after the
					// loop, every path reaching this return saw status==Inverted false.
					var first *ssa.BasicBlock
					for _, b := range fn.Blocks {
						if iff, ok := b.Instrs[len(b.Instrs)-1].(*ssa.If); ok && iff.Cond == ssa.Value(fn.Params[2]) && b.Dominates(r.Block()) {
							if first == nil || b.Dominates(first) {
								first = b
							}
						}
					}
					if first != nil {
						ps, complete := eng.EnumPaths(first, func(b *ssa.BasicBlock) bool { return b == r.Block() }, 5000)
						all, n := complete, 0
						for _, p := range ps {
							if p.Last() != r.Block() {
								continue
							}
							n++
							if !pathHas(p, fmt.Sprintf(` == %d:MatchStatus\)$`, ms["MatchStatusInverted"]), false) {
								all = false
							}
						}
						if all && n > 0 {
							notInverted = true
						}
					}
				}
				c.Check("R1", "continue-true", r.Pos(), okDir && okPrefix && okExcl && notInverted, "traversal continues only for a non-inverted directory that is a prefix (with separator) of some exclusion pattern", atomsShort(g))
			}
		}
		c.Floor("R1", 12)
	}

	// R2.
	if ig := c.MustFunc("R2", dockIgnPkg, "ignorer.Ignore"); ig != nil {
		is, _ := c.P.ConstsOfType(ignorePkg, "IgnoreStatus")
		want := map[int64]int64{ms["MatchStatusNominal"]: is["IgnoreStatusNominal"], ms["MatchStatusMatched"]: is["IgnoreStatusIgnored"], ms["MatchStatusInverted"]: is["IgnoreStatusUnignored"]}
		seen := map[int64]bool{}
		// one (result constant, facts under which it is produced) per mapping arm:
		// either a return of a constant, or a constant edge of the φ a single
		// return merges (`adapted = …` in each arm, `return adapted, …` at the end)
		type arm struct {
			r   *ssa.Return
			out int64
			g   []eng.Atom
		}
		var arms []arm
		for _, r := range eng.Returns(ig) {
			res := eng.RetResults(r)
			if out, ok := eng.ConstInt64(res[0]); ok {
				arms = append(arms, arm{r, out, eng.Guards(r)})
			} else if phi, ok := eng.Unwrap(res[0]).(*ssa.Phi); ok {
				for i, e := range phi.Edges {
					if out, ok := eng.ConstInt64(e); ok {
						arms = append(arms, arm{r, out, edgeGuards(phi.Block().Preds[i], phi.Block())})
					}
				}
			}
		}
		for _, a := range arms {
			r, out, g := a.r, a.out, a.g
			res := eng.RetResults(r)
			var in int64 = -1
			for _, a := range g {
				if a.Pos && strings.HasSuffix(a.Expr, ":MatchStatus)") && strings.Contains(a.Expr, "MatchesForMutagen(") {
					if b, ok := a.V.(*ssa.BinOp); ok {
						in, _ = eng.ConstInt64(b.Y)
					}
				}
			}
			seen[in] = true
			c.Check("R2", fmt.Sprintf("status-map:%d", in), r.Pos(), in >= 0 && want[in] == out, "matcher status maps to the corresponding ignore status", fmt.Sprintf("%d→%d", in, out))
			c.Check("R2", fmt.Sprintf("traversal-forwarded:%d", in), r.Pos(), strings.HasSuffix(eng.Render(res[1]), "MatchesForMutagen(p0.matcher, p1, p2)#1"), "the traversal flag is forwarded unchanged", eng.Render(res[1]))
		}
		c.Check("R2", "status-map-total", ig.Pos(), len(seen) == 3 && !seen[-1], "all three matcher statuses are mapped")
	}
	if nv := c.MustFunc("R2", dockIgnPkg, "newValidatedPatternMatcher"); nv != nil {
		// after stripping '!' the remainder is whitespace-trimmed
		trims := eng.CallsNamed(nv, "strings.TrimSpace")
		inner := false
		for _, call := range trims {
			if strings.Contains(eng.Render(call.Common().Args[0]), "[1:]") {
				inner = true
			}
		}
		c.Check("R2", "trim-after-bang", nv.Pos(), len(trims) >= 2 && inner, "whitespace is trimmed both around the pattern and after a leading '!' (as Docker does)", fmt.Sprintf("%d TrimSpace call(s)", len(trims)))
		c.Check("R2", "path-cleaned", nv.Pos(), len(eng.CallsNamed(nv, "path.Clean")) == 1, "patterns are cleaned with path.Clean")
	}
	// Evaluation is last-match-wins, so the matcher must be built from the very
	// list the caller gave — every pattern, repetitions included, in that order
	// (['*.log','!debug.log','*.log'] and its de-duplicated form decide differently).
	if ni := c.MustFunc("R2", dockIgnPkg, "NewIgnorer"); ni != nil {
		calls := eng.CallsNamed(ni, "synchronization/core/ignore/docker.newValidatedPatternMatcher")
		for _, call := range calls {
			c.Check("R2", "matcher-built-from-the-given-list", call.Pos(), eng.Render(call.Common().Args[0]) == "p0", "the matcher is built from the caller's pattern list itself (nothing dropped, merged or reordered beforehand)", eng.Render(call.Common().Args[0]))
		}
		if len(calls) != 1 {
			c.Problem("R2", "expected one newValidatedPatternMatcher call in NewIgnorer, found %d", len(calls))
		}
	}
	c.Floor("R2", 8)

	scanIgnoreTable(c, "R3")
	c.Floor("R3", 8)

	// R4.
	if rp := c.MustFunc("R4", corePkg, "reifyPhantomDirectories"); rp != nil {
		kinds, _ := c.P.ConstsOfType(corePkg, "EntryKind")
		// the reifyToTracked branch: If on a phi; extract its function
		var decided bool
		eng.EachInstr(rp, func(i ssa.Instruction) {
			iff, ok := i.(*ssa.If)
			if !ok || decided {
				return
			}
			phi, ok := iff.Cond.(*ssa.Phi)
			if !ok {
				return
			}
			be, err := eng.BoolExprOf(phi)
			if err != nil {
				return
			}
			atoms := be.AtomNames()
			var anil, adir, tracked string
			for _, a := range atoms {
				switch {
				case a == "(p0 == nil)":
					anil = a
				case a == fmt.Sprintf("(p0.Kind == %d:EntryKind)", kinds["EntryKind_Directory"]):
					adir = a
				case strings.HasPrefix(a, "phi(") || strings.Contains(a, "trackedContentExistsAtLowerLevels"):
					tracked = a
				}
			}
			if anil == "" || adir == "" || tracked == "" {
				return
			}
			decided = true
			// which successor does the «tracked» work (stores Kind = Directory)? The
			// condition may be written either way round (reifyToTracked, or
			// reifyToUntracked with the arms swapped).
			trackSucc := -1
			eng.EachInstr(rp, func(j ssa.Instruction) {
				st, ok := j.(*ssa.Store)
				if !ok {
					return
				}
				if fa, ok := st.Addr.(*ssa.FieldAddr); ok && eng.FieldOf(fa).Name() == "Kind" {
					if k, isC := eng.ConstInt64(st.Val); isC && k == kinds["EntryKind_Directory"] {
						for s, succ := range iff.Block().Succs {
							if succ.Dominates(st.Block()) {
								trackSucc = s
							}
						}
					}
				}
			})
			eq, cex, _ := eng.TruthTableEqual(be, []string{anil, adir, tracked}, func(e map[string]bool) bool {
				v := e[tracked] || (!e[anil] && e[adir])
				if trackSucc == 1 {
					return !v
				}
				return v
			})
			c.Check("R4", "reify-to-tracked-function", iff.Pos(), eq && trackSucc >= 0, "the arm that reifies to tracked directories is taken exactly when tracked content exists below ∨ the ancestor is a directory [truth table]", fmt.Sprintf("%s; tracked arm=%d; counterexample %v", be.String()[:min(160, len(be.String()))], trackSucc, cex))
		})
		if !decided {
			c.Check("R4", "reify-to-tracked-function", rp.Pos(), false, "the reification decision could be extracted")
		}
		// each child is reified against ITS OWN ancestor entry: the ancestor
		// argument of the recursive call is the lookup of this iteration's name in
		// the ancestor's contents (nil when absent) — not a variable that could
		// still hold a sibling's entry
		for _, call := range eng.CallsTo(rp, rp) {
			a0 := eng.Unwrap(call.Common().Args[0])
			lk, isLk := a0.(*ssa.Lookup)
			okAnc := isLk && strings.Contains(eng.Render(lk.X), "GetContents(p0)") && strings.HasSuffix(eng.Render(lk.Index), "#1")
			c.Check("R4", "child-reified-against-its-own-ancestor", call.Pos(), okAnc, "the recursive call's ancestor is ancestorContents[name] of the name being visited (absent → nil)", eng.Render(a0)[:min(160, len(eng.Render(a0)))])
		}
		// stores
		nU := 0
		eng.EachInstr(rp, func(i ssa.Instruction) {
			st, ok := i.(*ssa.Store)
			if !ok {
				return
			}
			fa, ok := st.Addr.(*ssa.FieldAddr)
			if !ok {
				return
			}
			side := eng.Render(fa.X)
			g := eng.Guards(st)
			switch eng.FieldOf(fa).Name() {
			case "Kind":
				k, _ := eng.ConstInt64(st.Val)
				if k == kinds["EntryKind_Untracked"] {
					nU++
					c.Check("R4", "untrack-only-phantoms:"+side, st.Pos(), eng.HasAtom(g, fmt.Sprintf(`^\(%s\.Kind == %d:EntryKind\)$`, side, kinds["EntryKind_PhantomDirectory"]), true), "only a phantom directory is turned into untracked content", atomsShort(g))
				} else {
					c.Check("R4", "track:"+side, st.Pos(), k == kinds["EntryKind_Directory"], "reifying to tracked yields a Directory")
				}
			case "Contents":
				c.Check("R4", "untracked-clears-contents:"+side, st.Pos(), eng.IsNilConst(st.Val) && eng.HasAtom(g, fmt.Sprintf(`^\(%s\.Kind == %d:EntryKind\)$`, side, kinds["EntryKind_PhantomDirectory"]), true), "an untracked reification drops the phantom's contents")
			}
		})
		if nU != 2 {
			c.Problem("R4", "expected two untracking stores, found %d", nU)
		}
	}
	if pub := c.MustFunc("R4", corePkg, "ReifyPhantomDirectories"); pub != nil {
		for _, call := range eng.CallsNamed(pub, "synchronization/core.reifyPhantomDirectories") {
			a := call.Common().Args
			ok := strings.HasPrefix(eng.Render(a[1]), "(*synchronization/core.Entry).Copy(p1, ") && strings.HasPrefix(eng.Render(a[2]), "(*synchronization/core.Entry).Copy(p2, ") && eng.Render(a[0]) == "p0"
			c.Check("R4", "reifies-copies", call.Pos(), ok, "the in-place reification runs on copies of the two snapshots", eng.RenderCall(call.Common())[:min(200, len(eng.RenderCall(call.Common())))])
		}
	}
	c.Floor("R4", 7)

	// R5: controller.
	if syn := c.MustFunc("R5", syncPkg, "controller.synchronize"); syn != nil {
		syntaxes, _ := c.P.ConstsOfType(ignorePkg, "Syntax")
		var reify, rec *ssa.Call
		for _, call := range eng.Calls(syn) {
			switch eng.CalleeName(call) {
			case "synchronization/core.ReifyPhantomDirectories":
				reify, _ = call.(*ssa.Call)
			case "synchronization/core.Reconcile":
				rec, _ = call.(*ssa.Call)
			}
		}
		if reify == nil || rec == nil {
			c.Problem("R5", "ReifyPhantomDirectories / Reconcile not found in synchronize")
			return
		}
		g := eng.Guards(reify)
		ok := false
		for _, a := range g {
			if a.Pos && strings.HasSuffix(a.Expr, fmt.Sprintf(" == %d:Syntax)", syntaxes["Syntax_SyntaxDocker"])) {
				ok = true
			}
		}
		c.Check("R5", "reify-iff-docker", reify.Pos(), ok, "phantom directories are reified exactly under Docker ignore syntax", atomsShort(g))
		c.Check("R5", "reify-before-reconcile", reify.Pos(), reify.Block().Dominates(rec.Block()) || strings.Contains(eng.Render(rec.Call.Args[1]), "ReifyPhantomDirectories("), "reification happens before reconciliation")
		a1, a2 := eng.Render(rec.Call.Args[1]), eng.Render(rec.Call.Args[2])
		c.Check("R5", "reconcile-uses-reified", rec.Pos(), strings.Contains(a1, "ReifyPhantomDirectories(") && strings.Contains(a2, "ReifyPhantomDirectories("), "reconciliation works on the reified snapshots when reification ran")
	}
}
