package rules

import (
	"fmt"
	"strings"

	"golang.org/x/tools/go/ssa"

	"verif/sa/eng"
)

const (
	lockingPkg = "pkg/filesystem/locking"
	daemonPkg  = "pkg/daemon"
)

func init() {
	eng.Register(&eng.Property{
		ID:       "C28",
		Title:    "At most one daemon holds the daemon lock",
		Packages: []string{lockingPkg, daemonPkg},
		Explanation: "(R1, constants) Locker.Lock requests an exclusive fcntl lock (F_WRLCK) over the whole file (SEEK_SET, start 0, length 0) with F_SETLK (non-blocking) or F_SETLKW (blocking, only if asked); Unlock releases exactly that range with F_UNLCK/F_SETLK; " +
			"(R2, state follows the kernel) `held` becomes true only on the success edge of the locking fcntl and false only on the success edge of the unlocking fcntl; Lock returns nil only if that fcntl returned nil — there is no fall-through success; Lock/Unlock refuse double operations; " +
			"(R3) daemon.AcquireLock returns a Lock only after Locker.Lock(false) == nil on the locker it opened for the daemon lock path, and closes the locker otherwise; " +
			"(R4, identity of the lock file) the functions of daemon/lock.go and the Locker never remove, rename or recreate the lock file (an fcntl lock belongs to the inode: unlinking it while held lets a second process lock a new inode); Release unlocks before closing; the file handle is closed only by Locker.Close. " +
			"Not decided: kernel fcntl semantics (release on process death is the kernel's doing), races between processes.",
		Assumptions:  []string{"POSIX advisory record locks: exclusive per inode, released when the holder closes the file or dies"},
		ThoroughGOOS: []string{"darwin"},
		Run:          runC28,
	})
}

func runC28(c *eng.Ctx) {
	if c.P.GOOS == "windows" {
		c.Note("windows build uses LockFileEx; POSIX rules skipped")
		return
	}
	lock := c.MustFunc("R1", lockingPkg, "Locker.Lock")
	unlock := c.MustFunc("R1", lockingPkg, "Locker.Unlock")
	if lock == nil || unlock == nil {
		return
	}
	wr, _ := unixConst(c, "F_WRLCK")
	un, _ := unixConst(c, "F_UNLCK")
	setlk, _ := unixConst(c, "F_SETLK")
	setlkw, _ := unixConst(c, "F_SETLKW")
	specOf := func(fn *ssa.Function) map[string]ssa.Value {
		var out map[string]ssa.Value
		eng.EachInstr(fn, func(i ssa.Instruction) {
			if al, ok := i.(*ssa.Alloc); ok && strings.HasSuffix(eng.TypeShort(al.Type()), "unix.Flock_t") {
				out = eng.LitFields(al)
			}
		})
		return out
	}
	zeroOrUnset := func(v ssa.Value) bool {
		if v == nil {
			return true
		}
		k, ok := eng.ConstInt64(v)
		return ok && k == 0
	}
	for _, x := range []struct {
		fn   *ssa.Function
		typ  int64
		name string
	}{{lock, wr, "lock"}, {unlock, un, "unlock"}} {
		f := specOf(x.fn)
		if f == nil {
			c.Problem("R1", "no Flock_t specification in %s", eng.FuncName(x.fn))
			continue
		}
		t, okT := eng.ConstInt64(f["Type"])
		c.Check("R1", x.name+"-type", x.fn.Pos(), okT && t == x.typ, "the "+x.name+" request uses the right lock type", fmt.Sprintf("%d (want %d)", t, x.typ))
		c.Check("R1", x.name+"-whole-file", x.fn.Pos(), zeroOrUnset(f["Whence"]) && zeroOrUnset(f["Start"]) && zeroOrUnset(f["Len"]), "the range is the whole file (SEEK_SET, 0, 0)")
	}
	// commands
	var lockCall, unlockCall *ssa.Call
	for _, call := range eng.Calls(lock) {
		if eng.CalleeName(call) == "filesystem/locking.fcntlFlockRetryingOnEINTR" || strings.HasSuffix(eng.CalleeName(call), "unix.FcntlFlock") {
			lockCall, _ = call.(*ssa.Call)
		}
	}
	for _, call := range eng.Calls(unlock) {
		if strings.HasSuffix(eng.CalleeName(call), "FcntlFlock") || strings.HasSuffix(eng.CalleeName(call), "fcntlFlockRetryingOnEINTR") {
			unlockCall, _ = call.(*ssa.Call)
		}
	}
	if lockCall == nil || unlockCall == nil {
		c.Problem("R1", "fcntl calls not found")
		return
	}
	// lock command: phi(F_SETLK | F_SETLKW under p1)
	cmdOK := false
	if phi, ok := lockCall.Call.Args[1].(*ssa.Phi); ok && len(phi.Edges) == 2 {
		cmdOK = true
		for i, e := range phi.Edges {
			k, _ := eng.ConstInt64(e)
			switch k {
			case setlk:
			case setlkw:
				// the blocking command arrives along an edge on which `block` is true —
				// whether it is the assigned-under-`if block` value or the default that
				// survives `if !block { … }`
				if !eng.HasAtom(edgeGuards(phi.Block().Preds[i], phi.Block()), "^p1$", true) {
					cmdOK = false
				}
			default:
				cmdOK = false
			}
		}
	}
	c.Check("R1", "lock-command", lockCall.Pos(), cmdOK, "Lock uses F_SETLK, or F_SETLKW only when the caller asked to block", eng.Render(lockCall.Call.Args[1]))
	uk, _ := eng.ConstInt64(unlockCall.Call.Args[1])
	c.Check("R1", "unlock-command", unlockCall.Pos(), uk == setlk, "Unlock uses F_SETLK")
	c.Check("R1", "same-descriptor", lockCall.Pos(), eng.Render(lockCall.Call.Args[0]) == "(*os.File).Fd(p0.file)" && eng.Render(unlockCall.Call.Args[0]) == "(*os.File).Fd(p0.file)", "both operate on the locker's own file descriptor")

	// R2.
	for _, x := range []struct {
		fn   *ssa.Function
		call *ssa.Call
		val  bool
		name string
	}{{lock, lockCall, true, "Lock"}, {unlock, unlockCall, false, "Unlock"}} {
		okAtom := `^\(` + eng.Q(eng.Render(x.call)) + ` == nil\)$`
		n := 0
		eng.EachInstr(x.fn, func(i ssa.Instruction) {
			st, ok := i.(*ssa.Store)
			if !ok {
				return
			}
			if fa, ok := st.Addr.(*ssa.FieldAddr); ok && eng.FieldOf(fa).Name() == "held" {
				n++
				v, isC := eng.ConstBool(st.Val)
				c.Check("R2", x.name+"/held-follows-fcntl", st.Pos(), isC && v == x.val && eng.HasAtom(eng.Guards(st), okAtom, true), fmt.Sprintf("held becomes %v only on the success edge of the fcntl call", x.val), atomsShort(eng.Guards(st)))
			}
		})
		if n != 1 {
			c.Problem("R2", "%s: expected one store to held, found %d", x.name, n)
		}
		requireAtNilReturns(c, "R2", x.name+"/success-means-fcntl-succeeded", x.fn, okAtom, true, x.name+" reports success only if the fcntl call succeeded")
		// double operation refused
		g := eng.Guards(x.call)
		c.Check("R2", x.name+"/no-double-operation", x.call.Pos(), eng.HasAtom(g, `^p0\.held$`, !x.val), x.name+" refuses to run in the wrong state", atomsShort(g))
	}
	// held written nowhere else
	if fld, err := c.P.Field(lockingPkg, "Locker", "held"); err == nil {
		for _, st := range eng.StoresToField(c.P.ModuleFuncs(), fld) {
			nm := eng.FuncName(st.Fn)
			// (the constructor may spell out the zero value: `held: false`)
			ctorFalse := strings.HasSuffix(nm, "locking.NewLocker") && constBoolIs(st.Store.Val, false)
			c.Check("R2", "held-writer:"+nm, st.Store.Pos(), strings.HasSuffix(nm, "Locker).Lock") || strings.HasSuffix(nm, "Locker).Unlock") || ctorFalse, "held is written only by Lock and Unlock")
		}
	}

	// R3.
	acq := c.MustFunc("R3", daemonPkg, "AcquireLock")
	rel := c.MustFunc("R4", daemonPkg, "Lock.Release")
	if acq != nil {
		var nl *ssa.Call
		for _, call := range eng.CallsNamed(acq, "filesystem/locking.NewLocker") {
			nl, _ = call.(*ssa.Call)
		}
		if nl == nil {
			c.Problem("R3", "AcquireLock does not open a locker")
		} else {
			lk := eng.Render(nl) + "#0"
			okAtom := `^\(\(\*filesystem/locking\.Locker\)\.Lock\(` + eng.Q(lk) + `, false\) == nil\)$`
			for _, r := range eng.Returns(acq) {
				res := eng.RetResults(r)
				if eng.IsNilConst(res[0]) {
					continue
				}
				c.Check("R3", "returned-only-when-locked", r.Pos(), eng.HasAtom(eng.Guards(r), okAtom, true), "a Lock is handed out only after the non-blocking fcntl lock succeeded", atomsShort(eng.Guards(r)))
				if lit := eng.LitOf(res[0]); lit != nil {
					v := eng.LitFields(lit)["locker"]
					c.Check("R3", "returned-lock-wraps-locked-locker", r.Pos(), v != nil && eng.Render(v) == lk, "the Lock wraps the very locker that was locked")
				}
			}
			// (directly, or through the package's one-line lockPath() wrapper)
			lp := renderThroughWrapper(nl.Call.Args[0])
			c.Check("R3", "lock-path", nl.Pos(), strings.HasPrefix(lp, "daemon.subpath("), "the locker is opened on the daemon lock path", lp)
			// failure closes
			closed := false
			for _, call := range eng.CallsNamed(acq, "(*filesystem/locking.Locker).Close") {
				if eng.HasAtom(eng.Guards(call), okAtom, false) {
					closed = true
				}
			}
			c.Check("R3", "failure-closes-locker", acq.Pos(), closed, "a failed acquisition closes the lock file")
		}
	}

	// R4.
	forbidden := map[string]bool{"os.Remove": true, "os.RemoveAll": true, "os.Rename": true, "os.Create": true, "os.Truncate": true, "os.WriteFile": true, "syscall.Unlink": true}
	r4fns := []*ssa.Function{acq, rel, lock, unlock}
	// every function of the locking package, NewLocker and its helpers included:
	// publishing the lock file by renaming a staged file onto the path replaces
	// the inode another process may already have locked.
	seenR4 := map[*ssa.Function]bool{acq: true, rel: true, lock: true, unlock: true}
	for _, f := range c.P.ModuleFuncs(lockingPkg) {
		if !seenR4[f] && f.Parent() == nil {
			seenR4[f] = true
			r4fns = append(r4fns, f)
		}
	}
	for _, fn := range r4fns {
		if fn == nil {
			continue
		}
		bad := ""
		for _, f := range eng.WithClosures(fn) {
			for _, call := range eng.Calls(f) {
				if forbidden[eng.CalleeName(call)] || strings.HasSuffix(eng.CalleeName(call), "unix.Unlink") || strings.HasSuffix(eng.CalleeName(call), "unix.Unlinkat") {
					bad = eng.CalleeName(call)
				}
			}
		}
		c.Check("R4", "lock-file-never-unlinked:"+eng.FuncName(fn), fn.Pos(), bad == "", "the lock file is never removed, renamed or recreated by the locking code (the lock belongs to the inode)", bad)
	}
	if rel != nil {
		var ul ssa.Instruction
		for _, call := range eng.CallsNamed(rel, "(*filesystem/locking.Locker).Unlock") {
			ul = call
		}
		okOrder := ul != nil
		for _, call := range eng.CallsNamed(rel, "(*filesystem/locking.Locker).Close") {
			if ul == nil || !ul.Block().Dominates(call.Block()) {
				okOrder = false
			}
		}
		c.Check("R4", "release-unlocks-then-closes", rel.Pos(), okOrder, "Release unlocks before it closes the file")
	}
	if fld, err := c.P.Field(lockingPkg, "Locker", "file"); err == nil {
		for _, in := range eng.FieldAddrsOf(c.P.ModuleFuncs(lockingPkg), fld) {
			v := in.(ssa.Value)
			for _, ref := range *v.Referrers() {
				if u, ok := ref.(*ssa.UnOp); ok {
					for _, r2 := range *u.Referrers() {
						if call, ok := r2.(ssa.CallInstruction); ok && eng.CalleeName(call) == "(*os.File).Close" {
							c.Check("R4", "file-closed-only-by-Close", call.Pos(), strings.HasSuffix(eng.FuncName(call.Parent()), "Locker).Close"), "the lock file handle is closed only by Locker.Close", eng.FuncName(call.Parent()))
						}
					}
				}
			}
		}
	}
	c.Floor("R4", 6)
}
