package rules

import (
	"strings"

	"golang.org/x/tools/go/ssa"

	"verif/sa/eng"
)

// c25StickyExpiry decides R7: the deadline timers are one-shot — once the tick
// on timer.C has been consumed nothing but the stream's «deadline expired» flag
// remembers that the deadline passed. Every return of os.ErrDeadlineExceeded
// from Read/Write therefore either was taken because the flag is already set or
// is preceded, on all ways to it, by setting the flag. Otherwise the next
// Read/Write finds the flag clear and the timer channel empty and blocks on a
// deadline that has already passed.
func c25StickyExpiry(c *eng.Ctx) {
	n := 0
	for _, s := range []struct{ fn, flag string }{{"Stream.Read", "readDeadlineExpired"}, {"Stream.Write", "writeDeadlineExpired"}} {
		fn := c.MustFunc("R7", muxPkg, s.fn)
		if fn == nil {
			continue
		}
		var sets []*ssa.Store
		eng.EachInstr(fn, func(i ssa.Instruction) {
			if st, ok := i.(*ssa.Store); ok {
				if fa, ok := st.Addr.(*ssa.FieldAddr); ok && eng.FieldOf(fa).Name() == s.flag {
					if v, isC := eng.ConstBool(st.Val); isC && v {
						sets = append(sets, st)
					}
				}
			}
		})
		for _, r := range eng.Returns(fn) {
			res := eng.RetResults(r)
			if len(res) != 2 || eng.Render(res[1]) != "os.ErrDeadlineExceeded" {
				continue
			}
			n++
			g := eng.Guards(r)
			known := false
			for _, a := range g {
				if a.Pos && a.Expr == "p0."+s.flag {
					known = true
				}
			}
			recorded := false
			for _, st := range sets {
				if st.Block().Dominates(r.Block()) {
					recorded = true
				}
			}
			c.Check("R7", "expiry-recorded:"+strings.TrimPrefix(s.fn, "Stream."), r.Pos(), known || recorded, "a deadline error is returned only where the expiry flag is set or has just been set (the consumed timer tick is never the only memory of the expiry)", atomsShort(g))
		}
	}
	c.Floor("R7", 4)
}
