package rules

import (
	"fmt"
	"strings"

	"golang.org/x/tools/go/ssa"

	"verif/sa/eng"
)

// c42PollConsumesNothingSilently (C42.R7): a poll signal is the only way the
// controller learns of a change (or of a transition it must re-examine). Poll
// may take a signal from the coalescer only in the blocking wait that makes it
// return; a non-blocking receive that merely drains a buffered signal throws
// the notification away.
func c42PollConsumesNothingSilently(c *eng.Ctx) {
	fn := c.MustFunc("R7", localEPPkg, "endpoint.Poll")
	if fn == nil {
		return
	}
	nBlocking, nDrain := 0, 0
	eng.EachInstr(fn, func(i ssa.Instruction) {
		switch x := i.(type) {
		case *ssa.Select:
			for _, st := range x.States {
				if strings.Contains(eng.Render(st.Chan), "Signals(p0.pollSignal)") {
					if x.Blocking {
						nBlocking++
					} else {
						nDrain++
					}
				}
			}
		case *ssa.UnOp:
			if strings.HasPrefix(eng.Render(x), "recv(") && strings.Contains(eng.Render(x.X), "Signals(p0.pollSignal)") {
				nBlocking++
			}
		}
	})
	c.Check("R7", "poll-waits-on-the-signal", fn.Pos(), nBlocking == 1 && nDrain == 0, "Poll receives from the poll signal exactly once, in its blocking wait — it never drains a pending signal", fmt.Sprintf("blocking=%d non-blocking=%d", nBlocking, nDrain))
	// after the wait Poll returns (the signal is reported, not swallowed by a loop)
	loops := false
	for _, b := range fn.Blocks {
		for _, s := range b.Succs {
			if s.Dominates(b) {
				loops = true
			}
		}
	}
	c.Check("R7", "poll-returns-after-signal", fn.Pos(), !loops, "Poll returns once it was signalled (no loop that could consume several signals)")
}
