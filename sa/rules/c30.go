package rules

import (
	"fmt"
	"regexp"
	"strings"

	"golang.org/x/tools/go/ssa"

	"verif/sa/eng"
)

const statePkg = "pkg/state"

func init() {
	eng.Register(&eng.Property{
		ID:       "C30",
		Title:    "State-change long-polls never miss an update",
		Packages: []string{statePkg, syncPkg, fwdPkg},
		Explanation: "(R1, lockset) Tracker.index, terminated and pollRequests are accessed only with the condition variable's lock (change.L) held; " +
			"(R2) TrackingLock.Unlock always notifies the tracker after releasing the mutex; UnlockWithoutNotify does not; " +
			"(R3) the index is written only by NotifyOfChange (increment, skipping 0 on wrap-around, then Signal) and the constructor (initial 1); a terminated tracker is not advanced; " +
			"(R4) WaitForChange registers its request and signals the tracking goroutine before releasing the lock, with a response channel of capacity 1 (so the tracker never blocks on a waiter that left); the tracking loop answers a request exactly when its previousIndex differs (≠, not <) from the current index, with the current index, and removes it; termination answers every pending request; " +
			"(R5, dirty ⇒ notify) in the synchronization and forwarding controllers and managers, a critical section on stateLock that stores to the published state (c.state.…, c.session.Paused, or replaces c.state) is never closed with UnlockWithoutNotify — the only tolerated fields are listed with reasons. " +
			"Not decided: promptness, schedules, spurious wake-ups.",
		Assumptions: []string{"sync.Cond.Wait atomically releases and re-acquires the lock"},
		Run:         runC30,
	})
}

func runC30(c *eng.Ctx) {
	locksetRuleX(c, "R1", []string{statePkg},
		[]fieldGuard{
			{statePkg, "Tracker", "index", "change.L", false},
			{statePkg, "Tracker", "terminated", "change.L", false},
			{statePkg, "Tracker", "pollRequests", "change.L", false},
		}, nil, map[string][]string{}, eng.DefaultLockOps(), nil)
	c.Floor("R1", 10)

	// R2.
	if ul := c.MustFunc("R2", statePkg, "TrackingLock.Unlock"); ul != nil {
		var unlock, notify ssa.Instruction
		for _, call := range eng.Calls(ul) {
			switch eng.CalleeName(call) {
			case "(*sync.Mutex).Unlock":
				unlock = call
			case "(*state.Tracker).NotifyOfChange":
				notify = call
			}
		}
		ok := unlock != nil && notify != nil && len(ul.Blocks) == 1 && eng.InstrIndex(unlock) < eng.InstrIndex(notify) && regexp.MustCompile(`^p0\.\w+$`).MatchString(eng.Render(notify.(ssa.CallInstruction).Common().Args[0])) // the lock's own (only) *Tracker field, whatever its name
		c.Check("R2", "unlock-notifies", ul.Pos(), ok, "Unlock releases the mutex and then unconditionally notifies the lock's own tracker")
	}
	if uw := c.MustFunc("R2", statePkg, "TrackingLock.UnlockWithoutNotify"); uw != nil {
		n := len(eng.CallsNamed(uw, "(*state.Tracker).NotifyOfChange"))
		c.Check("R2", "unlock-without-notify-is-silent", uw.Pos(), n == 0 && len(eng.CallsNamed(uw, "(*sync.Mutex).Unlock")) == 1, "UnlockWithoutNotify only releases the mutex")
	}

	// R3.
	if fld, err := c.P.Field(statePkg, "Tracker", "index"); err == nil {
		for _, st := range eng.StoresToField(c.P.ModuleFuncs(), fld) {
			nm := eng.FuncName(st.Fn)
			if _, fresh := st.Addr.X.(*ssa.Alloc); fresh {
				v, _ := eng.ConstInt64(st.Store.Val)
				c.Check("R3", "index-initial", st.Store.Pos(), v == 1 && nm == "state.NewTracker", "a tracker starts at index 1 (0 is the 'give me the current index' request)", fmt.Sprint(v))
				continue
			}
			c.Check("R3", "index-writer:"+nm, st.Store.Pos(), nm == "(*state.Tracker).NotifyOfChange", "the index is advanced only by NotifyOfChange", nm)
		}
	}
	if nc := c.MustFunc("R3", statePkg, "Tracker.NotifyOfChange"); nc != nil {
		var inc, wrap *ssa.Store
		eng.EachInstr(nc, func(i ssa.Instruction) {
			if st, ok := i.(*ssa.Store); ok {
				if fa, ok := st.Addr.(*ssa.FieldAddr); ok && eng.FieldOf(fa).Name() == "index" {
					if eng.Render(st.Val) == "(p0.index + 1)" {
						inc = st
					} else if v, isC := eng.ConstInt64(st.Val); isC && v == 1 {
						wrap = st
					} else {
						c.Check("R3", "index-update-form", st.Pos(), false, "index is incremented by one or reset to 1", eng.Render(st.Val))
					}
				}
			}
		})
		c.Check("R3", "index-increment", nc.Pos(), inc != nil && eng.HasAtom(eng.Guards(inc), `^p0\.terminated$`, false), "a live tracker's index grows by one per notification")
		if inc != nil {
			// … and nothing but termination suppresses it (no coalescing of notifications: a
			// change after an index was handed out must advance the index)
			extra := ""
			for _, a := range eng.WithoutImplied(eng.Guards(inc)) {
				if !(a.Expr == "p0.terminated" && !a.Pos) {
					extra = a.String()
				}
			}
			c.Check("R3", "index-increment-unconditional", inc.Pos(), extra == "", "every notification of a live tracker advances the index — no other condition can skip it", extra)
		}
		c.Check("R3", "index-skips-zero", nc.Pos(), wrap != nil && eng.HasAtom(eng.Guards(wrap), `^\(p0\.index == 0\)$`, true), "on wrap-around the index skips 0")
		sig := false
		for _, call := range eng.CallsNamed(nc, "(*sync.Cond).Signal") {
			if inc != nil && inc.Block().Dominates(call.Block()) {
				sig = true
			}
		}
		c.Check("R3", "signal-after-increment", nc.Pos(), sig, "every increment is followed by a Signal to the tracking goroutine")
	}

	// R4.
	if wf := c.MustFunc("R4", statePkg, "Tracker.WaitForChange"); wf != nil {
		var reg *ssa.MapUpdate
		eng.EachInstr(wf, func(i ssa.Instruction) {
			if mu, ok := i.(*ssa.MapUpdate); ok && eng.Render(mu.Map) == "p0.pollRequests" {
				reg = mu
			}
		})
		if reg == nil {
			c.Check("R4", "request-registered", wf.Pos(), false, "WaitForChange registers its request")
		} else {
			var sig, unl ssa.Instruction
			for _, in := range reg.Block().Instrs[eng.InstrIndex(reg):] {
				if call, ok := in.(ssa.CallInstruction); ok {
					switch {
					case eng.CalleeName(call) == "(*sync.Cond).Signal" && sig == nil:
						sig = call
					case call.Common().IsInvoke() && call.Common().Method.Name() == "Unlock" && unl == nil:
						unl = call
					}
				}
			}
			c.Check("R4", "register-signal-unlock", reg.Pos(), sig != nil && unl != nil && eng.InstrIndex(sig) < eng.InstrIndex(unl), "the request is registered, the tracker signalled, and only then the lock released")
			if lit := eng.LitOf(reg.Key); lit != nil {
				f := eng.LitFields(lit)
				okPrev := f["previousIndex"] != nil && eng.Render(f["previousIndex"]) == "p2"
				capOK := false
				if mc, ok := eng.Unwrap(f["responses"]).(*ssa.MakeChan); ok {
					if v, isC := eng.ConstInt64(mc.Size); isC && v >= 1 {
						capOK = true
					}
				} else if ct, ok := f["responses"].(*ssa.ChangeType); ok {
					if mc, ok := ct.X.(*ssa.MakeChan); ok {
						if v, isC := eng.ConstInt64(mc.Size); isC && v >= 1 {
							capOK = true
						}
					}
				}
				c.Check("R4", "request-carries-previous-index", reg.Pos(), okPrev, "the request carries the caller's previous index")
				c.Check("R4", "response-channel-buffered", reg.Pos(), capOK, "the response channel has room for one answer, so the tracking goroutine (which answers while holding the lock) can never block on a departed waiter")
			}
		}
		// previousIndex == 0 → current index immediately
		for _, r := range eng.Returns(wf) {
			g := eng.Guards(r)
			if eng.HasAtom(g, `^\(p2 == 0\)$`, true) {
				res := eng.RetResults(r)
				c.Check("R4", "zero-index-returns-current", r.Pos(), eng.Render(res[0]) == "p0.index", "a request with index 0 returns the current index immediately")
			}
		}
	}
	if tr := c.MustFunc("R4", statePkg, "Tracker.track"); tr != nil {
		n := 0
		for _, op := range eng.ChanOps(tr) {
			if !op.Send {
				continue
			}
			n++
			g := eng.Guards(op.Instr)
			lit := eng.LitOf(op.Val)
			term := eng.HasAtom(g, `^p0\.terminated$`, true)
			if term {
				okv := false
				if lit != nil {
					f := eng.LitFields(lit)
					t, _ := eng.ConstBool(f["terminated"])
					okv = t && eng.Render(f["index"]) == "p0.index"
				} else {
					okv = strings.Contains(eng.Render(op.Val), "local:")
				}
				c.Check("R4", "termination-answers-pending", eng.InstrPos(op.Instr), okv, "on termination every pending request gets a terminated answer with the current index")
				continue
			}
			ne := false
			for _, a := range g {
				if !a.Pos && strings.HasSuffix(a.Expr, ".previousIndex == p0.index)") {
					ne = true
				}
			}
			c.Check("R4", "answer-iff-index-differs", eng.InstrPos(op.Instr), ne, "a request is answered exactly when its previous index differs from the current one (≠, so stale-higher indices are answered too)", atomsShort(g))
			if lit != nil {
				f := eng.LitFields(lit)
				t, isC := eng.ConstBool(f["terminated"])
				c.Check("R4", "answer-carries-current-index", eng.InstrPos(op.Instr), eng.Render(f["index"]) == "p0.index" && (f["terminated"] == nil || isC && !t), "the answer carries the current index")
			}
			// followed by delete of that request
			del := false
			for _, in := range op.Instr.Block().Instrs[eng.InstrIndex(op.Instr):] {
				if call, ok := in.(*ssa.Call); ok && eng.CalleeName(call) == "builtin:delete" {
					del = true
				}
			}
			c.Check("R4", "answered-request-removed", eng.InstrPos(op.Instr), del, "an answered request is removed from the pending set")
		}
		if n != 2 {
			c.Problem("R4", "expected two answer sites in track, found %d", n)
		}
		// the loop waits on the condition variable
		c.Check("R4", "track-waits", tr.Pos(), len(eng.CallsNamed(tr, "(*sync.Cond).Wait")) == 1, "the tracking loop sleeps on the condition variable between rounds")
	}
	c.Floor("R4", 10)

	c30DirtyNotify(c)
}

// c30Tolerated lists state fields whose change under UnlockWithoutNotify is fine.
var c30Tolerated = map[string]string{
	"synchronizing": "internal channel handle, not part of the published state",
}

func c30DirtyNotify(c *eng.Ctx) {
	n, sections := 0, 0
	for _, fn := range c.P.ModuleFuncs(syncPkg, fwdPkg) {
		for _, call := range eng.Calls(fn) {
			if eng.CalleeName(call) != "(*state.TrackingLock).UnlockWithoutNotify" && eng.CalleeName(call) != "(*state.TrackingLock).Unlock" {
				continue
			}
			if _, isDefer := call.(*ssa.Defer); isDefer {
				continue
			}
			sections++
			if eng.CalleeName(call) == "(*state.TrackingLock).Unlock" {
				continue
			}
			n++
			lockR := eng.Render(call.Common().Args[0])
			// walk back to the matching Lock
			b := call.Block()
			idx := eng.InstrIndex(call)
			var dirty []string
			found := false
			for hops := 0; hops < 16 && !found; hops++ {
				for k := idx - 1; k >= 0; k-- {
					in := b.Instrs[k]
					if cl, ok := in.(*ssa.Call); ok && eng.CalleeName(cl) == "(*state.TrackingLock).Lock" && eng.Render(cl.Call.Args[0]) == lockR {
						found = true
						break
					}
					if st, ok := in.(*ssa.Store); ok {
						ar := eng.Render(st.Addr)
						base := strings.TrimSuffix(strings.TrimPrefix(lockR, "&"), ".stateLock")
						if strings.HasPrefix(ar, "&"+base+".state") || strings.HasPrefix(ar, "&"+base+".session.") {
							field := ar[strings.LastIndex(ar, ".")+1:]
							if _, ok := c30Tolerated[field]; !ok {
								dirty = append(dirty, ar)
							}
						}
					}
					if mu, ok := in.(*ssa.MapUpdate); ok && strings.Contains(eng.Render(mu.Map), ".state.") {
						dirty = append(dirty, eng.Render(mu.Map))
					}
				}
				if found {
					break
				}
				if len(b.Preds) != 1 {
					break
				}
				b = b.Preds[0]
				idx = len(b.Instrs)
			}
			key := fmt.Sprintf("silent-unlock#%d@%s", n, eng.FuncName(fn))
			if !found {
				c.Check("R5", key, call.Pos(), false, "the critical section closed by UnlockWithoutNotify can be delimited (straight-line from its Lock)")
				continue
			}
			c.Check("R5", key, call.Pos(), len(dirty) == 0, "a critical section that changed the published state is not closed silently", strings.Join(dirty, ", "))
		}
	}
	if n < 3 || sections < 20 {
		c.Problem("R5", "expected ≥3 silent unlocks among ≥20 critical sections in the controllers, found %d/%d", n, sections)
	}
}
