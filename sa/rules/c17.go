package rules

import (
	"fmt"
	"go/constant"
	"go/token"
	"go/types"
	"strings"

	"golang.org/x/tools/go/ssa"

	"verif/sa/eng"
)

func init() {
	eng.Register(&eng.Property{
		ID:       "C17",
		Title:    "Synchronization never reaches outside the root through in-root symbolic links",
		Packages: []string{fsPkg, corePkg, rsyncPkg, localEPPkg},
		Explanation: "(R1) every openat in package filesystem passes flags that — on every branch feeding the argument — contain O_NOFOLLOW, except the root/root-parent open when its caller explicitly allowed a symbolic-link leaf, and O_CREAT|O_EXCL temporary creation; directory opens are not exempt; " +
			"(R2) every fstatat/fchownat/fchmodat/unlinkat-family call that takes flags passes AT_SYMLINK_NOFOLLOW as a constant; " +
			"(R3) every Directory method taking a child name validates it with ensureValidName (single path component, not '.'/'..') before the name reaches any *at() system call; the only exemption is opening \".\" as a directory; " +
			"(R4) packages core, rsync and endpoint/local reach the filesystem by path only with the synchronization root itself, the root's parent/leaf split, or a path handed out by the staging provider — never with a path joined from the root and a relative path; everything below the root goes through Directory handles; " +
			"(R5) allowSymbolicLinkLeaf=true is passed only for the root's parent directory in walkToParentAndComputeLeafName; " +
			"(R6) Opener.OpenFile and walkToParentAndComputeLeafName descend one component at a time with Directory.OpenDirectory and open the leaf with Directory.OpenFile / return the parent handle. " +
			"Not decided: kernel semantics of O_NOFOLLOW/AT_SYMLINK_NOFOLLOW; the Windows and Darwin siblings are covered only where they type-check in the thorough tier.",
		Assumptions: []string{"openat(2) with O_NOFOLLOW fails on a symbolic-link leaf; *at() calls resolve only the given single component relative to the directory descriptor"},
		Run:         runC17,
	})
}

func unixConst(c *eng.Ctx, name string) (int64, bool) {
	p := c.P.AllPkgs["golang.org/x/sys/unix"]
	if p == nil || p.Types == nil {
		return 0, false
	}
	k, ok := p.Types.Scope().Lookup(name).(*types.Const)
	if !ok {
		return 0, false
	}
	v, ok := constant.Int64Val(constant.ToInt(k.Val()))
	return v, ok
}

// constLeaves collects the constant leaves of a phi tree; ok=false if a leaf is not constant.
func constLeaves(v ssa.Value, seen map[ssa.Value]bool, out *[]struct {
	val  int64
	pred *ssa.BasicBlock
}, pred *ssa.BasicBlock) bool {
	v = eng.Unwrap(v)
	if cv, ok := v.(*ssa.Convert); ok {
		v = cv.X
	}
	if seen[v] {
		return true
	}
	seen[v] = true
	if k, ok := eng.ConstInt64(v); ok {
		*out = append(*out, struct {
			val  int64
			pred *ssa.BasicBlock
		}{k, pred})
		return true
	}
	if phi, ok := v.(*ssa.Phi); ok {
		for i, e := range phi.Edges {
			if !constLeaves(e, seen, out, phi.Block().Preds[i]) {
				return false
			}
		}
		return true
	}
	// a same-module helper that only computes the flag word (e.g.
	// contentOpenFlags(wantDirectory)): every value it can return is a leaf
	if call, ok := v.(*ssa.Call); ok {
		if callee := call.Call.StaticCallee(); callee != nil && eng.IsModuleFunc(callee) && eng.PureHelper(callee) && callee.Signature.Results().Len() == 1 {
			rs := eng.Returns(callee)
			if len(rs) == 0 {
				return false
			}
			for _, r := range rs {
				if !constLeaves(eng.RetResults(r)[0], seen, out, r.Block()) {
					return false
				}
			}
			return true
		}
		return false
	}
	if b, ok := v.(*ssa.BinOp); ok {
		// fold bit operations on constants (go/ssa does not)
		x, okx := eng.ConstInt64(b.X)
		y, oky := eng.ConstInt64(b.Y)
		if okx && oky {
			var r int64
			switch b.Op {
			case token.OR:
				r = x | y
			case token.AND:
				r = x & y
			case token.AND_NOT:
				r = x &^ y
			default:
				return false
			}
			p := pred
			if p == nil {
				p = b.Block()
			}
			*out = append(*out, struct {
				val  int64
				pred *ssa.BasicBlock
			}{r, b.Block()})
			_ = p
			return true
		}
	}
	return false
}

func runC17(c *eng.Ctx) {
	if c.P.GOOS == "windows" {
		c.Note("windows: POSIX *at() rules not applicable; only R4/R5 run")
	}
	oNoFollow, ok1 := unixConst(c, "O_NOFOLLOW")
	oCreat, _ := unixConst(c, "O_CREAT")
	oExcl, _ := unixConst(c, "O_EXCL")
	atNoFollow, ok2 := unixConst(c, "AT_SYMLINK_NOFOLLOW")
	fsFns := c.P.ModuleFuncs(fsPkg)
	if c.P.GOOS != "windows" {
		if !ok1 || !ok2 {
			c.Problem("R1", "x/sys/unix constants not resolved")
			return
		}
		// R1.
		n := 0
		for _, fn := range fsFns {
			for _, call := range eng.CallsNamed(fn, "filesystem.openatRetryingOnEINTR") {
				n++
				c.Analysed(fn)
				key := "openat@" + eng.FuncName(fn)
				var leaves []struct {
					val  int64
					pred *ssa.BasicBlock
				}
				if !constLeaves(call.Common().Args[2], map[ssa.Value]bool{}, &leaves, nil) {
					c.Check("R1", key, call.Pos(), false, "openat flags are compile-time constants on every branch", eng.Render(call.Common().Args[2]))
					continue
				}
				for _, lf := range leaves {
					has := lf.val&oNoFollow != 0
					exempt := ""
					if !has {
						if lf.val&oCreat != 0 && lf.val&oExcl != 0 {
							exempt = "O_CREAT|O_EXCL never opens an existing link"
						} else if eng.FuncName(fn) == "filesystem.Open" && lf.pred != nil {
							// the cleared-flag branch must be the one taken under allowSymbolicLinkLeaf
							g := eng.GuardsOfBlock(lf.pred)
							if eng.HasAtom(g, "^p1$", true) || blockIsTrueSuccOf(lf.pred, fn.Params[1]) {
								exempt = "root open with caller-approved symbolic-link leaf"
							}
							// the flag may instead be ADDED under !allow: then the value without
							// it travels along the edge of lf.pred on which allow is true
							if iff, ok := lf.pred.Instrs[len(lf.pred.Instrs)-1].(*ssa.If); ok && exempt == "" && len(lf.pred.Succs) == 2 {
								for s, succ := range lf.pred.Succs {
									a := eng.MkAtom(iff.Cond, s == 0)
									if a.Expr != "p1" || !a.Pos {
										continue
									}
									for _, in := range succ.Instrs {
										phi, isPhi := in.(*ssa.Phi)
										if !isPhi {
											break
										}
										for i, e := range phi.Edges {
											if v, isC := eng.ConstInt64(e); isC && v == lf.val && succ.Preds[i] == lf.pred {
												exempt = "root open with caller-approved symbolic-link leaf (flag added only under !allow)"
											}
										}
									}
								}
							}
						}
					}
					c.Check("R1", fmt.Sprintf("%s/flags=%#x", key, lf.val), call.Pos(), has || exempt != "", "every flag combination reaching this openat contains O_NOFOLLOW", exempt)
				}
			}
		}
		if n < 4 {
			c.Problem("R1", "expected ≥4 openat call sites in package filesystem, found %d", n)
		}
		// R2.
		n = 0
		for _, fn := range fsFns {
			for _, call := range eng.Calls(fn) {
				name := eng.CalleeName(call)
				idx := -1
				switch name {
				case "filesystem.fstatatRetryingOnEINTR":
					idx = 3
				case "filesystem.fchownatRetryingOnEINTR":
					idx = 4
				case "filesystem.fchmodatRetryingOnEINTR":
					idx = 3
				}
				if idx < 0 {
					continue
				}
				n++
				v, isC := eng.ConstInt64(call.Common().Args[idx])
				c.Check("R2", strings.TrimPrefix(name, "filesystem.")+"@"+eng.FuncName(fn), call.Pos(), isC && v&atNoFollow != 0, "metadata/ownership/permission calls never follow a symbolic-link leaf (AT_SYMLINK_NOFOLLOW constant)", eng.Render(call.Common().Args[idx]))
			}
		}
		if n < 3 {
			c.Problem("R2", "expected ≥3 flag-taking *at calls, found %d", n)
		}
		// R3.
		n = 0
		for _, fn := range fsFns {
			if !strings.HasPrefix(eng.FuncName(fn), "(*filesystem.Directory).") {
				continue
			}
			method := strings.TrimPrefix(eng.FuncName(fn), "(*filesystem.Directory).")
			if method == "readContentMetadata" {
				// internal helper: its callers validate (checked below)
				continue
			}
			reach := eng.ReachableBlocks(fn)
			for _, call := range eng.Calls(fn) {
				name := eng.CalleeName(call)
				if !(strings.HasSuffix(name, "RetryingOnEINTR") || strings.HasPrefix(name, "golang.org/x/sys/unix.")) {
					continue
				}
				if !reach[call.Block()] {
					continue // excluded by a constant platform test
				}
				for _, a := range call.Common().Args {
					p, isP := a.(*ssa.Parameter)
					if !isP || !types.Identical(p.Type(), types.Typ[types.String]) {
						continue
					}
					// symlink targets are data, not names
					if eng.FuncName(fn) == "(*filesystem.Directory).CreateSymbolicLink" && p == fn.Params[2] {
						continue
					}
					n++
					g := eng.Guards(call)
					pr := eng.Render(p)
					ok := eng.HasAtom(g, `^\(filesystem\.ensureValidName\(`+pr+`\) == nil\)$`, true)
					why := ""
					if !ok && strings.HasSuffix(eng.FuncName(fn), ").open") {
						// exemption: wantDirectory && name == "."
						paths, _ := eng.EnumPaths(fn.Blocks[0], func(b *ssa.BasicBlock) bool { return b == call.Block() }, 2000)
						ok = true
						for _, pt := range paths {
							if pt.Last() != call.Block() {
								continue
							}
							valid := pathHas(pt, `^\(filesystem\.ensureValidName\(p1\) == nil\)$`, true)
							dot := pathHas(pt, `^p2$`, true) && pathHas(pt, `^\(p1 == "\."\)$`, true)
							if !valid && !dot {
								ok = false
							}
						}
						why = "validated, or opening \".\" as a directory"
					}
					c.Check("R3", "name-validated:"+strings.TrimPrefix(eng.FuncName(fn), "(*filesystem.Directory).")+"/"+strings.TrimPrefix(name, "filesystem."), call.Pos(), ok, "a child name reaches a system call only after ensureValidName accepted it", why)
				}
			}
		}
		if n < 8 {
			c.Problem("R3", "expected ≥8 name-taking system calls in Directory methods, found %d", n)
		}
		// readContentMetadata's callers: the name is validated, or comes from the directory's own listing.
		if helper := c.MustFunc("R3", fsPkg, "Directory.readContentMetadata"); helper != nil {
			for _, fn := range fsFns {
				for _, call := range eng.CallsTo(fn, helper) {
					a := call.Common().Args[1]
					r := eng.Render(a)
					ok := eng.HasAtom(eng.Guards(call), `^\(filesystem\.ensureValidName\(`+eng.Q(r)+`\) == nil\)$`, true) || strings.Contains(r, "ReadContentNames(p0)#0[")
					c.Check("R3", "helper-caller:"+eng.FuncName(fn), call.Pos(), ok, "readContentMetadata is given a validated name or a name from the directory's own listing", r)
				}
			}
		}
		if ev := c.MustFunc("R3", fsPkg, "ensureValidName"); ev != nil {
			paths := pathsToNilReturns(c, "R3", ev, 5000)
			for _, want := range []string{`"."`, `".."`} {
				bad := 0
				for _, p := range paths {
					if !pathHas(p, `^\(p0 == `+want+`\)$`, false) {
						bad++
					}
				}
				c.Check("R3", "rejects:"+want, ev.Pos(), len(paths) > 0 && bad == 0, "ensureValidName rejects "+want)
			}
			bad := 0
			for _, p := range paths {
				sep := false
				for _, a := range p.Atoms {
					if !a.Pos && (strings.Contains(a.Expr, "IndexByte(p0, 47)") || strings.Contains(a.Expr, `ContainsRune(p0, 47)`) || strings.Contains(a.Expr, `Contains(p0, "/")`)) || a.Pos && strings.Contains(a.Expr, "IndexByte(p0, 47) == -1") {
						sep = true
					}
				}
				if !sep {
					bad++
				}
			}
			c.Check("R3", "rejects:separator", ev.Pos(), len(paths) > 0 && bad == 0, "ensureValidName rejects names containing a path separator")
		}
	}

	// R4/R5: path-based access from core, rsync, endpoint/local.
	pathFns := map[string]int{
		"filesystem.Open": 0, "filesystem.OpenDirectory": 0, "filesystem.OpenFile": 0, "filesystem.NewOpener": 0,
		"filesystem.SetPermissionsByPath": 0,
		"os.Open":                         0, "os.OpenFile": 0, "os.Remove": 0, "os.RemoveAll": 0, "os.Mkdir": 0, "os.MkdirAll": 0, "os.Lstat": 0, "os.Stat": 0,
		"os.ReadFile": 0, "os.WriteFile": 0, "os.Symlink": 0, "os.Readlink": 0, "os.Chmod": 0, "os.Chown": 0, "os.Rename": 0, "os.ReadDir": 0, "os.Create": 0,
	}
	n := 0
	for _, fn := range c.P.ModuleFuncs(corePkg, rsyncPkg) {
		if strings.Contains(c.P.Pos(fn.Pos()), "_test.go") {
			continue
		}
		for _, call := range eng.Calls(fn) {
			name := eng.CalleeName(call)
			idx, ok := pathFns[name]
			if !ok {
				if name == "filesystem.Rename" {
					// Rename(nil, path, …): the path form is only used for staged files
					a := call.Common().Args
					if eng.IsNilConst(a[0]) {
						n++
						r := eng.Render(a[1])
						c.Check("R4", "path-arg:"+eng.FuncName(fn)+"/Rename", call.Pos(), strings.HasPrefix(r, "invoke:Provide("), "a path-based rename source is a staged file from the provider", r)
					}
				}
				continue
			}
			n++
			r := eng.Render(call.Common().Args[idx])
			_, isParam := eng.Unwrap(call.Common().Args[idx]).(*ssa.Parameter)
			okp := isParam || r == "p0.root" || strings.HasSuffix(r, ".root") ||
				strings.HasPrefix(r, "path/filepath.Split(p0.root)#0") || strings.HasPrefix(r, "invoke:Provide(") ||
				strings.Contains(r, "probe") || strings.HasPrefix(eng.FuncName(fn), "synchronization/core.probe")
			if strings.Contains(r, "filepath.Join(") && !strings.Contains(eng.FuncName(fn), "probe") {
				okp = false
			}
			c.Check("R4", "path-arg:"+eng.FuncName(fn)+"/"+name, call.Pos(), okp, "the filesystem is reached by path only for the root itself, its parent, or provider-staged files — never root joined with a relative path", r)
			// R5
			if strings.HasPrefix(name, "filesystem.Open") {
				a := call.Common().Args
				if len(a) > 1 {
					if v, isC := eng.ConstBool(a[1]); isC && v {
						c.Check("R5", "symlink-leaf-allowed@"+eng.FuncName(fn), call.Pos(), strings.HasSuffix(eng.FuncName(fn), "walkToParentAndComputeLeafName") && strings.HasPrefix(r, "path/filepath.Split(p0.root)#0"), "a symbolic-link leaf is tolerated only when opening the root's parent directory", r)
					} else if !isC {
						c.Check("R5", "symlink-leaf-constant@"+eng.FuncName(fn), call.Pos(), false, "allowSymbolicLinkLeaf is a constant at every call", eng.Render(a[1]))
					}
				}
			}
		}
	}
	if n < 8 {
		c.Problem("R4", "expected ≥8 path-based filesystem calls in core and rsync, found %d", n)
	}

	// R6.
	if of := c.MustFunc("R6", fsPkg, "Opener.OpenFile"); of != nil {
		for _, call := range eng.Calls(of) {
			name := eng.CalleeName(call)
			a := call.Common().Args
			switch name {
			case "filesystem.OpenDirectory", "filesystem.OpenFile":
				v, isC := eng.ConstBool(a[1])
				c.Check("R6", "opener-root:"+name, call.Pos(), eng.Render(a[0]) == "p0.root" && isC && !v, "the opener opens its root without following a link", eng.RenderCall(call.Common()))
			case "(*filesystem.Directory).OpenDirectory":
				r := eng.Render(a[1])
				c.Check("R6", "opener-descends-by-component", call.Pos(), strings.Contains(r, "strings.Split(p1, \"/\")"), "the opener descends one path component at a time through directory handles", r[:min(120, len(r))])
			case "(*filesystem.Directory).OpenFile":
				r := eng.Render(a[1])
				c.Check("R6", "opener-leaf", call.Pos(), strings.Contains(r, "strings.Split(p1, \"/\")"), "the leaf is opened relative to its parent handle", r[:min(120, len(r))])
			}
		}
	}
	if wk := c.MustFunc("R6", corePkg, "transitioner.walkToParentAndComputeLeafName"); wk != nil {
		nd := 0
		for _, call := range eng.CallsNamed(wk, "(*filesystem.Directory).OpenDirectory") {
			nd++
			r := eng.Render(call.Common().Args[1])
			c.Check("R6", "walk-descends-by-component", call.Pos(), strings.Contains(r, "strings.Split(p1, \"/\")") || strings.Contains(r, "phi("), "the transition walk descends one component at a time through directory handles", r[:min(120, len(r))])
		}
		if nd == 0 {
			c.Problem("R6", "walkToParentAndComputeLeafName does not descend with OpenDirectory")
		}
	}
	c.Floor("R6", 5)
}

// blockIsTrueSuccOf reports whether b is the true successor of an If on cond.
func blockIsTrueSuccOf(b *ssa.BasicBlock, cond ssa.Value) bool {
	for _, p := range b.Preds {
		if iff, ok := p.Instrs[len(p.Instrs)-1].(*ssa.If); ok && iff.Cond == cond && p.Succs[0] == b {
			return true
		}
	}
	// the phi edge may come directly from the If block (empty then-branch folded)
	if iff, ok := b.Instrs[len(b.Instrs)-1].(*ssa.If); ok && iff.Cond == cond {
		return false
	}
	return false
}
