package rules

import (
	"fmt"
	"go/token"
	"strings"

	"golang.org/x/tools/go/ssa"

	"verif/sa/eng"
)

// c12NameGuard (C12.R8): ensureValidName refuses a name only for one of the
// reasons that make it not a single path component. Each rejecting return must
// be decided by an allowed test; anything else (HasPrefix, Contains, length
// bounds, …) refuses legal names, which the scan would then report as
// problematic content.
func c12NameGuard(c *eng.Ctx) {
	fn := c.MustFunc("R8", fsPkg, "ensureValidName")
	if fn == nil {
		return
	}
	allowed := func(a eng.Atom) (string, bool) {
		switch v := a.V.(type) {
		case *ssa.BinOp:
			if v.Op != token.EQL && v.Op != token.NEQ {
				return "", false
			}
			// p0 == "." / ".." / ""
			if eng.Render(v.X) == "p0" {
				if s, ok := eng.ConstString(v.Y); ok && a.Pos && (s == "." || s == ".." || s == "") {
					return fmt.Sprintf("name == %q", s), true
				}
			}
			// strings.IndexByte/IndexRune(p0, sep) == -1, negated
			if call, ok := v.X.(*ssa.Call); ok && !a.Pos && constIs(v.Y, -1) {
				n := eng.CalleeName(call)
				if (n == "strings.IndexByte" || n == "strings.IndexRune") && eng.Render(call.Call.Args[0]) == "p0" {
					if k, ok := eng.ConstInt64(call.Call.Args[1]); ok && (k == '/' || k == '\\') {
						return "contains a separator", true
					}
				}
			}
		case *ssa.Call:
			n := eng.CalleeName(v)
			if a.Pos && (n == "strings.ContainsRune" || n == "strings.ContainsAny" || n == "strings.Contains") && eng.Render(v.Call.Args[0]) == "p0" {
				if k, ok := eng.ConstInt64(v.Call.Args[1]); ok && (k == '/' || k == '\\') {
					return "contains a separator", true
				}
				if s, ok := eng.ConstString(v.Call.Args[1]); ok && s != "" && strings.Trim(s, `/\`) == "" {
					return "contains a separator", true
				}
			}
		}
		return "", false
	}
	nRej := 0
	for _, r := range eng.Returns(fn) {
		if eng.IsNilConst(eng.RetResults(r)[0]) {
			continue
		}
		nRej++
		why := ""
		for _, a := range eng.Guards(r) {
			if w, ok := allowed(a); ok {
				why = w
			}
		}
		c.Check("R8", fmt.Sprintf("rejection#%d-is-exact", nRej), r.Pos(), why != "", "a name is refused only because it is \".\", \"..\", empty, or contains a path separator", why+" | "+atomsShort(eng.Guards(r)))
	}
	if nRej < 3 {
		c.Problem("R8", "expected ≥3 rejecting returns in ensureValidName, found %d", nRej)
	}
}
