package rules

import (
	"fmt"
	"go/token"
	"go/types"
	"sort"
	"strings"

	"golang.org/x/tools/go/ssa"

	"verif/sa/eng"
)

func init() {
	eng.Register(&eng.Property{
		ID:       "C37",
		Title:    "Accepted session configurations are valid for every endpoint",
		Packages: []string{syncPkg, corePkg, remotePkg, "pkg/synchronization/compression", "pkg/synchronization/hashing", "pkg/synchronization/core/ignore"},
		Explanation: "(R1, validate-the-merge) every configuration handed to connect() or stored in the controller's merged-configuration fields is a MergeConfigurations result that passed EnsureValid(false) on every path: directly in newSession, and through Session.EnsureValid (which must validate both merges) in loadSession; " +
			"(R2, field coverage) every field of Configuration is merged with higher-non-default-wins (scalar fields: value taken from `higher` under its own non-default test, else from `lower`; ignore lists: lower appended before higher) and compared in Equal; " +
			"(R3, text round trip — fully decided from the two switch tables) for every enum type of the configuration with MarshalText/UnmarshalText, Unmarshal(Marshal(k)) = k for each non-default constant and the strings are pairwise distinct; " +
			"(R4) the remote initialise request accepts only if Configuration.EnsureValid(false) succeeded, and core.EnsureDefaultFileModeValid has no accepting path with portable mode ∧ executable bits. " +
			"(R5) Configuration.EnsureValid checks the default file and directory modes against the effective permissions mode — the session default (Version.DefaultPermissionsMode) wherever the configured mode is unspecified, the configured mode only where IsDefault is false; " +
			"Not decided: semantic validity rules inside EnsureValid beyond the default-file-mode clause.",
		Assumptions: []string{"MergeConfigurations is the only producer of effective endpoint configurations (checked: connect's argument provenance)"},
		Run:         runC37,
	})
}

func runC37(c *eng.Ctx) {
	c37EffectiveMode(c)
	merge := c.MustFunc("R1", syncPkg, "MergeConfigurations")
	conn := c.MustFunc("R1", syncPkg, "connect")
	if merge == nil || conn == nil {
		return
	}
	validRe := func(v ssa.Value) string {
		return successAtom(`\(\*synchronization\.Configuration\)\.EnsureValid\(` + eng.Q(eng.Render(v)) + `, false\)`)
	}
	mergedFields := map[*types.Var]bool{}
	for _, n := range []string{"mergedAlphaConfiguration", "mergedBetaConfiguration"} {
		f, err := c.P.Field(syncPkg, "controller", n)
		if err != nil {
			c.Problem("R1", "%v", err)
			continue
		}
		mergedFields[f] = true
	}
	sessRe := successAtom(`\(\*synchronization\.Session\)\.EnsureValid\([^()]*\)`)
	// validated(v, at): v is a merge result validated at instruction `at`.
	validated := func(v ssa.Value, at ssa.Instruction) (bool, string) {
		v = eng.Unwrap(v)
		// loads of controller merged fields: validated at their (checked) stores
		if u, ok := v.(*ssa.UnOp); ok && u.Op == token.MUL {
			if f := eng.FieldOf(u.X); f != nil && mergedFields[f] {
				return true, "controller field " + f.Name() + " (stores checked separately)"
			}
		}
		call, ok := v.(*ssa.Call)
		if !ok || eng.Callee(call) != merge {
			return false, "not a MergeConfigurations result nor a merged controller field: " + eng.Render(v)
		}
		g := eng.Guards(at)
		if eng.HasAtom(g, validRe(v), true) {
			return true, "merge result validated by EnsureValid(false)"
		}
		// loadSession: Merge(session.Configuration, session.ConfigurationX) under session.EnsureValid()==nil
		a0, a1 := eng.Render(call.Call.Args[0]), eng.Render(call.Call.Args[1])
		if eng.HasAtom(g, sessRe, true) && strings.HasSuffix(a0, ".Configuration") && (strings.HasSuffix(a1, ".ConfigurationAlpha") || strings.HasSuffix(a1, ".ConfigurationBeta")) &&
			strings.TrimSuffix(a0, ".Configuration") == strings.TrimSuffix(strings.TrimSuffix(a1, ".ConfigurationAlpha"), ".ConfigurationBeta") {
			return true, "merge of a session validated by Session.EnsureValid (which validates both merges, checked)"
		}
		return false, "merge result used without validation; guards: " + eng.AtomsText(g)
	}
	fns := c.P.ModuleFuncs(syncPkg)
	n := 0
	for _, fn := range fns {
		for _, call := range eng.CallsTo(fn, conn) {
			n++
			c.Analysed(fn)
			ok, why := validated(call.Common().Args[6], call)
			c.Check("R1", fmt.Sprintf("connect-arg:%s#%d", eng.FuncName(fn), n), call.Pos(), ok, "the configuration passed to connect is a validated merge", why)
		}
	}
	for f := range mergedFields {
		for _, st := range eng.StoresToField(fns, f) {
			ok, why := validated(st.Store.Val, st.Store)
			c.Check("R1", "store:"+f.Name()+"@"+eng.FuncName(st.Fn), st.Store.Pos(), ok, "the controller's merged configuration is a validated merge", why)
		}
	}
	// Session.EnsureValid validates both merges.
	if sv := c.MustFunc("R1", syncPkg, "Session.EnsureValid"); sv != nil {
		for _, side := range []string{"ConfigurationAlpha", "ConfigurationBeta"} {
			re := successAtom(`\(\*synchronization\.Configuration\)\.EnsureValid\(synchronization\.MergeConfigurations\(p0\.Configuration, p0\.` + side + `\), false\)`)
			requireAtNilReturns(c, "R1", "session-validates-merge:"+side, sv, re, true, "Session.EnsureValid accepts only if the merged "+side+" passes EnsureValid(false)")
		}
	}
	c.Floor("R1", 10)

	c37Fields(c, merge)
	c37TextTables(c)

	// R4.
	if fn := c.MustFunc("R4", remotePkg, "InitializeSynchronizationRequest.ensureValid"); fn != nil {
		requireAtNilReturns(c, "R4", "remote-init-validates", fn, successAtom(`\(\*synchronization\.Configuration\)\.EnsureValid\(p0\.Configuration, false\)`), true,
			"the remote endpoint accepts an initialise request only if its (merged) configuration is valid")
	}
	if fn := c.MustFunc("R4", corePkg, "EnsureDefaultFileModeValid"); fn != nil {
		modes, _ := c.P.ConstsOfType(corePkg, "PermissionsMode")
		portable := modes["PermissionsMode_PermissionsModePortable"]
		paths := pathsToNilReturns(c, "R4", fn, 10000)
		bad := 0
		for _, p := range paths {
			isPortable := pathHas(p, fmt.Sprintf(`^\(p0 == %d:PermissionsMode\)$`, portable), true)
			exec := pathHas(p, `^synchronization/core\.anyExecutableBitSet\(p1\)$`, true) || pathHas(p, `^\(\(p1 & 73:Mode\) == 0:Mode\)$`, false)
			if isPortable && exec {
				bad++
			}
			// A path that never tests the mode or the bits but accepts would
			// be caught by the next check.
		}
		c.Check("R4", "no-exec-bits-under-portable", fn.Pos(), len(paths) > 0 && bad == 0, "no accepting path has portable mode together with executable bits", fmt.Sprintf("%d accepting paths, %d bad", len(paths), bad))
		// Every accepting path must have decided the conjunction: either mode != portable or no exec bits.
		undecided := 0
		for _, p := range paths {
			notPortable := pathHas(p, fmt.Sprintf(`^\(p0 == %d:PermissionsMode\)$`, portable), false)
			noExec := pathHas(p, `^synchronization/core\.anyExecutableBitSet\(p1\)$`, false) || pathHas(p, `^\(\(p1 & 73:Mode\) == 0:Mode\)$`, true)
			if !notPortable && !noExec {
				undecided++
			}
		}
		c.Check("R4", "conjunction-tested", fn.Pos(), undecided == 0, "every accepting path established mode≠portable or no executable bits", fmt.Sprintf("%d accepting paths lack both", undecided))
		if ab := c.MustFunc("R4", corePkg, "anyExecutableBitSet"); ab != nil {
			rets := eng.Returns(ab)
			ok := len(rets) == 1 && eng.Render(eng.RetResults(rets[0])[0]) == "((p0 & 73:Mode) != 0:Mode)"
			c.Check("R4", "exec-mask", ab.Pos(), ok, "anyExecutableBitSet tests exactly the three execute bits (0111)", eng.Render(eng.RetResults(rets[0])[0]))
		}
	}
	c.Floor("R4", 4)
}

// c37Fields decides R2.
func c37Fields(c *eng.Ctx, merge *ssa.Function) {
	cfg, err := c.P.Named(syncPkg, "Configuration")
	if err != nil {
		c.Problem("R2", "%v", err)
		return
	}
	st := cfg.Underlying().(*types.Struct)
	equal := c.MustFunc("R2", syncPkg, "Configuration.Equal")
	// result cell of merge
	var result *ssa.Alloc
	for _, r := range eng.Returns(merge) {
		result, _ = eng.Unwrap(eng.RetResults(r)[0]).(*ssa.Alloc)
	}
	if result == nil {
		c.Problem("R2", "MergeConfigurations does not return a fresh literal")
		return
	}
	nf := 0
	for i := 0; i < st.NumFields(); i++ {
		f := st.Field(i)
		if !f.Exported() {
			continue
		}
		nf++
		var stores []*ssa.Store
		eng.EachInstr(merge, func(in ssa.Instruction) {
			if s, ok := in.(*ssa.Store); ok {
				if fa, ok := s.Addr.(*ssa.FieldAddr); ok && fa.X == ssa.Value(result) && eng.FieldOf(fa) == f {
					stores = append(stores, s)
				}
			}
		})
		key := "merge:" + f.Name()
		if _, isSlice := f.Type().Underlying().(*types.Slice); isSlice {
			// append(result.F, lower.F...) then append(…, higher.F...)
			ok := len(stores) == 2
			detail := fmt.Sprintf("%d stores", len(stores))
			if ok {
				v0, v1 := eng.Render(stores[0].Val), eng.Render(stores[1].Val)
				// order by position in the function
				first, second := stores[0], stores[1]
				if !first.Block().Dominates(second.Block()) || (first.Block() == second.Block() && eng.InstrIndex(first) > eng.InstrIndex(second)) {
					first, second = second, first
					v0, v1 = v1, v0
				}
				ok = strings.HasPrefix(v0, "append(") && strings.HasSuffix(v0, ", p0."+f.Name()+")") &&
					strings.HasPrefix(v1, "append(") && strings.HasSuffix(v1, ", p1."+f.Name()+")")
				detail = v0 + " ; " + v1
			}
			// the same list built in one step: slices.Concat(lower.F, higher.F)
			// (always a fresh slice; a bare append(lower.F, higher.F...) is NOT
			// accepted — it may write into lower's spare capacity)
			if len(stores) == 1 {
				if call, isCall := eng.Unwrap(stores[0].Val).(*ssa.Call); isCall && strings.HasPrefix(eng.CalleeName(call), "slices.Concat") {
					el := eng.VarargElems(&call.Call)
					ok = len(el) == 2 && eng.Render(el[0]) == "p0."+f.Name() && eng.Render(el[1]) == "p1."+f.Name()
					detail = eng.RenderCall(&call.Call)
				}
			}
			c.Check("R2", key, merge.Pos(), ok, "list field is lower's entries followed by higher's", detail)
		} else {
			var fromHigher, fromLower *ssa.Store
			for _, s := range stores {
				switch eng.Render(s.Val) {
				case "p1." + f.Name():
					fromHigher = s
				case "p0." + f.Name():
					fromLower = s
				}
			}
			ok := len(stores) == 2 && fromHigher != nil && fromLower != nil
			detail := fmt.Sprintf("%d stores", len(stores))
			if ok {
				// higher wins under a test on higher's own field; lower under its negation.
				gh, gl := eng.Guards(fromHigher), eng.Guards(fromLower)
				var test *eng.Atom
				for i := range gh {
					if gh[i].Via == "" && strings.Contains(gh[i].Expr, "p1."+f.Name()) {
						test = &gh[i]
					}
				}
				ok = test != nil
				if ok {
					neg := false
					for _, a := range gl {
						if a.V == test.V && a.Pos != test.Pos {
							neg = true
						}
					}
					ok = neg && nonDefaultTest(*test, f.Name())
					detail = "higher under " + test.String()
				}
			}
			c.Check("R2", key, merge.Pos(), ok, "scalar field: higher's value if higher is non-default, else lower's", detail)
		}
		if equal != nil {
			// Equal mentions both c.F and other.F.
			var l, r bool
			eng.EachInstr(equal, func(in ssa.Instruction) {
				if v, ok := in.(ssa.Value); ok && eng.FieldOf(v) == f {
					switch eng.Render(v) {
					case "&p0." + f.Name():
						l = true
					case "&p1." + f.Name():
						r = true
					}
				}
			})
			c.Check("R2", "equal:"+f.Name(), equal.Pos(), l && r, "Equal compares the field on both operands")
		}
	}
	c.Floor("R2", 2*20)
	_ = nf
}

// nonDefaultTest reports whether the atom states "higher.F is not the default
// value": IsDefault() false, F != 0, F != "", len(F) != 0 …
func nonDefaultTest(a eng.Atom, field string) bool {
	e := a.Expr
	switch {
	case strings.Contains(e, ".IsDefault(p1."+field+")"):
		return !a.Pos
	case e == "(p1."+field+" == 0)" || e == `(p1.`+field+` == "")` || e == "(len(p1."+field+") == 0)" || e == "(p1."+field+" == nil)":
		return !a.Pos
	case e == "(p1."+field+" > 0)" || e == "(len(p1."+field+") > 0)":
		return a.Pos
	}
	return false
}

// c37TextTables decides R3 for every enum field type of Configuration that has
// MarshalText and UnmarshalText.
func c37TextTables(c *eng.Ctx) {
	cfg, err := c.P.Named(syncPkg, "Configuration")
	if err != nil {
		return
	}
	st := cfg.Underlying().(*types.Struct)
	seen := map[*types.Named]bool{}
	count := 0
	for i := 0; i < st.NumFields(); i++ {
		n, ok := st.Field(i).Type().(*types.Named)
		if !ok || seen[n] {
			continue
		}
		seen[n] = true
		if _, isInt := n.Underlying().(*types.Basic); !isInt {
			continue
		}
		var mar, unm *ssa.Function
		for _, t := range []types.Type{n, types.NewPointer(n)} {
			ms := c.P.Prog.MethodSets.MethodSet(t)
			for k := 0; k < ms.Len(); k++ {
				f := c.P.Prog.MethodValue(ms.At(k))
				if f == nil || f.Synthetic != "" {
					continue
				}
				switch ms.At(k).Obj().Name() {
				case "MarshalText":
					mar = f
				case "UnmarshalText":
					unm = f
				}
			}
		}
		if mar == nil || unm == nil {
			continue
		}
		c.Analysed(mar, unm)
		count++
		tname := n.Obj().Name()
		// Marshal table.
		mt := map[int64]string{}
		mpaths, complete := eng.EnumPaths(mar.Blocks[0], nil, 5000)
		if !complete {
			c.Problem("R3", "%s.MarshalText: too many paths", tname)
			continue
		}
		for _, p := range mpaths {
			ret, ok := p.Last().Instrs[len(p.Last().Instrs)-1].(*ssa.Return)
			if !ok {
				continue
			}
			var k int64 = -1
			for _, a := range p.Atoms {
				if a.Pos && a.EqLHS == "p0" {
					if b, ok := a.V.(*ssa.BinOp); ok {
						if v, ok := eng.ConstInt64(b.Y); ok {
							k = v
						}
					}
				}
			}
			if k < 0 {
				continue
			}
			rv := eng.RetResults(ret)[0]
			if cv, ok := rv.(*ssa.Convert); ok {
				rv = cv.X
			}
			if s, ok := eng.ConstString(p.Resolve(rv)); ok {
				mt[k] = s
			}
		}
		// Unmarshal table.
		ut := map[string]int64{}
		upaths, complete := eng.EnumPaths(unm.Blocks[0], nil, 5000)
		if !complete {
			c.Problem("R3", "%s.UnmarshalText: too many paths", tname)
			continue
		}
		for _, p := range upaths {
			ret, ok := p.Last().Instrs[len(p.Last().Instrs)-1].(*ssa.Return)
			if !ok || !eng.IsNilConst(eng.RetResults(ret)[0]) {
				continue
			}
			var lit string
			has := false
			for _, a := range p.Atoms {
				if a.Pos && a.EqLHS != "" && strings.HasPrefix(a.EqLHS, "conv:string(p1)") {
					if b, ok := a.V.(*ssa.BinOp); ok {
						if s, ok := eng.ConstString(b.Y); ok {
							lit, has = s, true
						}
					}
				}
			}
			if !has {
				continue
			}
			for _, b := range p.Blocks {
				for _, s := range storesInBlock(b) {
					if s.Addr == ssa.Value(unm.Params[0]) {
						if v, ok := eng.ConstInt64(s.Val); ok {
							ut[lit] = v
						}
					}
				}
			}
		}
		consts, _ := c.P.ConstsOfType(eng.FuncPkgRel(mar), tname)
		var names []string
		for nm := range consts {
			names = append(names, nm)
		}
		sort.Strings(names)
		strs := map[string]string{}
		for _, nm := range names {
			k := consts[nm]
			if k == 0 {
				continue // default value: marshals to a placeholder by design
			}
			s, okM := mt[k]
			back, okU := ut[s]
			c.Check("R3", "roundtrip:"+tname+"."+nm, mar.Pos(), okM && okU && back == k,
				"UnmarshalText(MarshalText(k)) = k", fmt.Sprintf("k=%d text=%q back=%d (marshal has=%v unmarshal has=%v)", k, s, back, okM, okU))
			if okM {
				if prev, dup := strs[s]; dup {
					c.Check("R3", "unique:"+tname+"."+nm, mar.Pos(), false, "text forms are pairwise distinct", fmt.Sprintf("%q used by %s and %s", s, prev, nm))
				}
				strs[s] = nm
			}
		}
	}
	if count < 8 {
		c.Problem("R3", "only %d enum types with text tables found (expected ≥ 8)", count)
	}
	c.Floor("R3", 20)
}
