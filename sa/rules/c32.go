package rules

import (
	"fmt"
	"strings"

	"golang.org/x/tools/go/ssa"

	"verif/sa/eng"
)

func init() {
	eng.Register(&eng.Property{
		ID:       "C32",
		Title:    "Prompting is serialized, ends at unregistration, and hides secrets",
		Packages: []string{promptPkg},
		Explanation: "(R1, token discipline decided on every path) in prompting.Message and prompting.Prompt the prompter is obtained by receiving it from its holder channel, invoked exactly once, and sent back to the same holder on every path that obtained it — before any return; a failed receive (closed holder) invokes nothing; " +
			"(R2) a holder is a channel of capacity 1 loaded with the prompter exactly once at registration; " +
			"(R3) UnregisterPrompter removes the registry entry under the write lock, then BLOCKS until it has taken the prompter out of the holder (waiting for an in-flight invocation), then closes the holder — no non-blocking shortcut; " +
			"(R4, lockset) the registry map is read under registryLock (read or write) and modified only under the write lock; " +
			"(R5) determineResponseMode returns Echo only on the true edge of strings.HasSuffix(prompt, s) for s ranging over the suffix table, returns Secret otherwise, and every table entry is a yes/no host-key confirmation (contains \"yes\" and \"no\"). " +
			"(R6) RegisterPrompterWithIdentifier stores a holder in the registry only where the identifier was looked up and found absent — a refused (colliding) registration leaves the registered prompter's holder in place, so a later unregistration still drains the right one; " +
			"Not decided: schedules; what the terminal does with the mode.",
		Assumptions: []string{"channel semantics"},
		Run:         runC32,
	})
}

func runC32(c *eng.Ctx) {
	c32RegisterKeepsHolder(c)
	// R1.
	for _, name := range []string{"Message", "Prompt"} {
		fn := c.MustFunc("R1", promptPkg, name)
		if fn == nil {
			continue
		}
		var recv *ssa.UnOp
		for _, op := range eng.ChanOps(fn) {
			if !op.Send && op.Select == nil {
				if u, ok := op.Instr.(*ssa.UnOp); ok && u.CommaOk {
					recv = u
				}
			}
		}
		if recv == nil {
			c.Check("R1", name+"/acquires-from-holder", fn.Pos(), false, "the prompter is acquired by a (comma-ok) receive from its holder")
			continue
		}
		holder := recv.X
		okAtom := "^" + eng.Q(eng.Render(recv)) + `#1$`
		paths, complete := eng.EnumPaths(fn.Blocks[0], nil, 5000)
		if !complete {
			c.Problem("R1", "too many paths in %s", name)
		}
		n, bad := 0, 0
		var why string
		for _, p := range paths {
			if !p.Contains(recv.Block()) {
				continue
			}
			got := pathHas(p, okAtom, true)
			invokes, returns := 0, 0
			order := true
			seenInvoke := false
			for _, b := range p.Blocks {
				for _, in := range b.Instrs {
					if call, ok := in.(*ssa.Call); ok && call.Call.IsInvoke() && (call.Call.Method.Name() == "Message" || call.Call.Method.Name() == "Prompt") {
						invokes++
						seenInvoke = true
					}
					if s, ok := in.(*ssa.Send); ok && s.Chan == holder {
						returns++
						if !seenInvoke {
							order = false
						}
						if eng.Render(s.X) != eng.Render(recv)+"#0" {
							order = false
						}
					}
				}
			}
			n++
			if got {
				if invokes != 1 || returns != 1 || !order {
					bad++
					why = fmt.Sprintf("invocations=%d returns=%d order-ok=%v", invokes, returns, order)
				}
			} else if invokes != 0 || returns != 0 {
				bad++
				why = "prompter used without having been acquired"
			}
		}
		c.Check("R1", name+"/acquire-invoke-return", fn.Pos(), n > 0 && bad == 0, "on every path: acquired ⇒ invoked exactly once and then handed back to the same holder; not acquired ⇒ untouched", why)
		// the holder comes from the registry under the identifier given
		c.Check("R1", name+"/holder-from-registry", recv.Pos(), strings.HasPrefix(eng.Render(holder), "lookupok(prompting.registry,p0)#0"), "the holder is the registry entry for the given identifier", eng.Render(holder))
	}

	// R2.
	if reg := c.MustFunc("R2", promptPkg, "RegisterPrompterWithIdentifier"); reg != nil {
		var mc *ssa.MakeChan
		eng.EachInstr(reg, func(i ssa.Instruction) {
			if m, ok := i.(*ssa.MakeChan); ok {
				mc = m
			}
		})
		capOK := false
		if mc != nil {
			v, isC := eng.ConstInt64(mc.Size)
			capOK = isC && v == 1
		}
		c.Check("R2", "holder-capacity-1", reg.Pos(), capOK, "a holder has capacity 1")
		sends := 0
		for _, op := range eng.ChanOps(reg) {
			if op.Send && op.Chan == ssa.Value(mc) {
				sends++
				c.Check("R2", "holder-loaded-with-prompter", eng.InstrPos(op.Instr), eng.Render(op.Val) == "p1", "the holder is loaded with the registered prompter")
			}
		}
		c.Check("R2", "holder-loaded-once", reg.Pos(), sends == 1, "exactly one token is put into a new holder", fmt.Sprint(sends))
		stored := false
		eng.EachInstr(reg, func(i ssa.Instruction) {
			if mu, ok := i.(*ssa.MapUpdate); ok && mu.Value == ssa.Value(mc) && eng.Render(mu.Key) == "p0" {
				stored = true
			}
		})
		c.Check("R2", "holder-registered", reg.Pos(), stored, "the holder is registered under the identifier")
	}

	// R3.
	if un := c.MustFunc("R3", promptPkg, "UnregisterPrompter"); un != nil {
		var del, recv, cls ssa.Instruction
		nonBlocking := false
		eng.EachInstr(un, func(i ssa.Instruction) {
			switch x := i.(type) {
			case *ssa.Call:
				switch eng.CalleeName(x) {
				case "builtin:delete":
					del = x
				case "builtin:close":
					cls = x
				}
			case *ssa.UnOp:
				if strings.HasPrefix(eng.Render(x), "recv") {
					recv = x
				}
			case *ssa.Select:
				nonBlocking = true
			}
		})
		order := del != nil && recv != nil && cls != nil &&
			del.Block().Dominates(recv.Block()) && recv.Block().Dominates(cls.Block()) &&
			(recv.Block() != cls.Block() || eng.InstrIndex(recv) < eng.InstrIndex(cls))
		c.Check("R3", "delete-then-wait-then-close", un.Pos(), order && !nonBlocking, "unregistration removes the entry, then waits (blocking receive) for the prompter to be idle, then closes the holder", fmt.Sprintf("select used=%v", nonBlocking))
		if recv != nil && cls != nil {
			c.Check("R3", "same-holder", un.Pos(), eng.Render(recv.(*ssa.UnOp).X) == eng.Render(cls.(*ssa.Call).Call.Args[0]), "the holder waited on is the holder closed")
		}
	}

	// R4: registry map under registryLock.
	ops := eng.DefaultLockOps()
	nAcc := 0
	for _, fn := range c.P.ModuleFuncs(promptPkg) {
		var held map[ssa.Instruction]map[string]bool
		eng.EachInstr(fn, func(i ssa.Instruction) {
			write := false
			var m ssa.Value
			switch x := i.(type) {
			case *ssa.Lookup:
				m = x.X
			case *ssa.MapUpdate:
				m, write = x.Map, true
			case *ssa.Call:
				if eng.CalleeName(x) == "builtin:delete" {
					m, write = x.Call.Args[0], true
				}
			}
			if m == nil || eng.Render(m) != "prompting.registry" || fn.Name() == "init" {
				return
			}
			nAcc++
			if held == nil {
				held = eng.HeldLocks(fn, ops, nil)
			}
			h := held[i]["prompting.registryLock"]
			kind := "read"
			if write {
				kind = "write"
				// must be the write lock: the most recent acquire on the path is Lock, not RLock
				for _, call := range eng.Calls(fn) {
					if eng.CalleeName(call) == "(*sync.RWMutex).RLock" && call.Block().Dominates(i.Block()) {
						h = false
					}
				}
			}
			c.Check("R4", fmt.Sprintf("registry-%s@%s", kind, eng.FuncName(fn)), eng.InstrPos(i), h, "the registry is accessed under registryLock ("+kind+" lock for a "+kind+")", eng.LockNames(held[i]))
		})
	}
	if nAcc < 5 {
		c.Problem("R4", "expected ≥5 registry accesses, found %d", nAcc)
	}

	// R5.
	if dm := c.MustFunc("R5", promptPkg, "determineResponseMode"); dm != nil {
		modes, _ := c.P.ConstsOfType(promptPkg, "ResponseMode")
		for _, r := range eng.Returns(dm) {
			v, _ := eng.ConstInt64(eng.RetResults(r)[0])
			g := eng.Guards(r)
			switch v {
			case modes["ResponseModeEcho"]:
				ok := false
				for _, a := range g {
					if a.Pos && strings.HasPrefix(a.Expr, "strings.HasSuffix(p0, ") && strings.Contains(a.Expr, "echoedPromptSuffixes") {
						ok = true
					}
					// slices.ContainsFunc(table, func(s string) bool { return strings.HasSuffix(prompt, s) })
					if call, isCall := a.V.(*ssa.Call); isCall && a.Pos && strings.HasPrefix(eng.CalleeName(call), "slices.ContainsFunc") && len(call.Call.Args) == 2 && strings.Contains(eng.Render(call.Call.Args[0]), "echoedPromptSuffixes") {
						if mc, isMC := call.Call.Args[1].(*ssa.MakeClosure); isMC {
							bindsPrompt := false
							if len(mc.Bindings) == 1 {
								if al, isAl := mc.Bindings[0].(*ssa.Alloc); isAl { // the cell the parameter was spilled into
									n := 0
									for _, ref := range *al.Referrers() {
										if st, isSt := ref.(*ssa.Store); isSt && st.Addr == ssa.Value(al) {
											n++
											bindsPrompt = st.Val == ssa.Value(dm.Params[0])
										}
									}
									bindsPrompt = bindsPrompt && n == 1
								} else {
									bindsPrompt = mc.Bindings[0] == ssa.Value(dm.Params[0])
								}
							}
							if pred, isFn := mc.Fn.(*ssa.Function); isFn && len(pred.Params) == 1 && bindsPrompt {
								rs := eng.Returns(pred)
								if len(rs) == 1 {
									if hs, isHS := eng.Unwrap(eng.RetResults(rs[0])[0]).(*ssa.Call); isHS && eng.CalleeName(hs) == "strings.HasSuffix" {
										fromPrompt := strings.Contains(eng.Render(hs.Call.Args[0]), "fv:")
										ok = fromPrompt && hs.Call.Args[1] == ssa.Value(pred.Params[0])
									}
								}
							}
						}
					}
				}
				c.Check("R5", "echo-only-on-suffix", r.Pos(), ok, "Echo is chosen only where the prompt ends with a table entry (suffix, not substring)", atomsShort(g))
			case modes["ResponseModeSecret"]:
				c.Check("R5", "default-secret", r.Pos(), true, "otherwise the response is secret")
			default:
				c.Check("R5", "unexpected-mode", r.Pos(), false, "only Echo and Secret are produced", fmt.Sprint(v))
			}
		}
		// table contents from the package initializer
		initFn := c.P.Pkg(promptPkg).Func("init")
		n := 0
		if initFn != nil {
			eng.EachInstr(initFn, func(i ssa.Instruction) {
				if st, ok := i.(*ssa.Store); ok {
					if s, ok := eng.ConstString(st.Val); ok {
						if _, isIdx := st.Addr.(*ssa.IndexAddr); isIdx {
							n++
							c.Check("R5", fmt.Sprintf("table-entry#%d", n), dm.Pos(), strings.Contains(s, "yes") && strings.Contains(s, "no"), "every echoed suffix is a yes/no confirmation", fmt.Sprintf("%q", s))
						}
					}
				}
			})
		}
		if n < 3 {
			c.Problem("R5", "echo suffix table not found in the package initializer (%d entries)", n)
		}
	}
}
