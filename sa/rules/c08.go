package rules

import (
	"strings"

	"golang.org/x/tools/go/ssa"

	"verif/sa/eng"
)

func init() {
	eng.Register(&eng.Property{
		ID:       "C08",
		Title:    "Transitions never destroy content changed after the scan",
		Packages: []string{corePkg},
		Explanation: "Check-before-destroy, decided on every path of package core: " +
			"(R1/R2) every Directory.RemoveFile / RemoveSymbolicLink call is dominated by the success of ensureExpectedFile / ensureExpectedSymbolicLink on the same (parent, name), unless the name provably is a temporary this function created; " +
			"(R3) swapFile changes permissions or moves the staged file over the existing one only after ensureExpectedFile(parent, name, path, OLD entry) succeeded; a replacing rename is reachable only from swapFile; " +
			"(R4) ensureExpectedFile accepts only on paths where all of these held: cache hit for the path, Mode equal, ModificationTime.Equal at full precision, Size equal, FileID equal, bytes.Equal(cached digest, expected digest), and the stat itself succeeded; " +
			"(R5) ensureExpectedSymbolicLink accepts, in every symlink mode, only after comparing the re-read target with the expected target — normalised first in portable mode; " +
			"(R6) removeDirectory's flag discipline (see C03.R3): unknown on-disk content blocks the removal of every ancestor directory being removed; " +
			"(R7) the cache entry the scan records for a file sets every field R4 compares, from the same stat. " +
			"Not decided: the acknowledged window between the check and the destructive call (no static argument can close it), rename(2)/unlinkat(2) semantics.",
		Assumptions: []string{"filesystem.Directory methods operate on the named child of the open directory handle (C17)"},
		Run:         runC08,
	})
}

func runC08(c *eng.Ctx) {
	trRemovalsGuarded(c, "R1")
	trSwapFile(c, "R3")
	trEnsureExpected(c, "R4")
	trRemoveDirectoryFlags(c, "R6")
	c.Floor("R1", 5)
	c.Floor("R3", 5)
	c.Floor("R4", 9)
	c.Floor("R6", 12)

	// R7: the CacheEntry literal in scanner.file.
	fn := c.MustFunc("R7", corePkg, "scanner.file")
	if fn == nil {
		return
	}
	n := 0
	eng.EachInstr(fn, func(i ssa.Instruction) {
		mu, ok := i.(*ssa.MapUpdate)
		if !ok {
			return
		}
		lit := eng.LitOf(mu.Value)
		if lit == nil || !strings.HasSuffix(eng.TypeShort(lit.Type()), "core.CacheEntry") {
			return
		}
		n++
		f := eng.LitFields(lit)
		// All four metadata fields must be read from one and the same metadata
		// value, which is the scan's stat of this file (the parameter, possibly
		// refreshed by the open).
		want := map[string][2]string{
			"Mode":             {"conv:uint32(", ".Mode)"},
			"ModificationTime": {"google.golang.org/protobuf/types/known/timestamppb.New(", ".ModificationTime)"},
			"Size":             {"", ".Size"},
			"FileID":           {"", ".FileID"},
		}
		bases := map[string]bool{}
		for name, ps := range want {
			got := "<unset>"
			if f[name] != nil {
				got = eng.Render(f[name])
			}
			if name == "Mode" && !strings.HasPrefix(got, ps[0]) {
				ps = [2]string{"", ".Mode"} // same underlying type: no conversion instruction
			}
			ok := strings.HasPrefix(got, ps[0]) && strings.HasSuffix(got, ps[1])
			if ok {
				base := strings.TrimSuffix(strings.TrimPrefix(got, ps[0]), ps[1])
				bases[base] = true
				ok = strings.Contains(base, "p3")
			}
			c.Check("R7", "cache-field:"+name, mu.Pos(), ok, "the cache entry records "+name+" from the file's own stat", got)
		}
		c.Check("R7", "cache-one-stat", mu.Pos(), len(bases) == 1, "all cached metadata fields come from one stat result", strings.Join(keys(bases), " | "))
		c.Check("R7", "cache-field:Digest", mu.Pos(), f["Digest"] != nil, "the cache entry records the digest")
		c.Check("R7", "cache-key", mu.Pos(), eng.Render(mu.Key) == "p1", "the cache entry is stored under the file's path", eng.Render(mu.Key))
	})
	if n != 1 {
		c.Problem("R7", "expected one CacheEntry store in scanner.file, found %d", n)
	}
	c.Floor("R7", 6)
}
