package rules

import (
	"fmt"
	"strings"

	"golang.org/x/tools/go/ssa"

	"verif/sa/eng"
)

// c19SeekEveryBlock (C19.R9): Engine.Patch positions the base before EVERY
// block it copies — the Seek is not skipped on the strength of state the
// engine remembers from an earlier call (an engine is reused across bases; a
// remembered offset describes the previous base, not this one).
func c19SeekEveryBlock(c *eng.Ctx) {
	patch := c.MustFunc("R9", rsyncPkg, "Engine.Patch")
	if patch == nil {
		return
	}
	n := 0
	for _, call := range eng.Calls(patch) {
		cc := call.Common()
		if !cc.IsInvoke() || cc.Method.Name() != "Seek" {
			continue
		}
		n++
		bad := ""
		for _, a := range eng.Guards(call) {
			if strings.Contains(a.Expr, "p0.") { // a condition on the engine's own fields
				bad = a.String()
			}
		}
		c.Check("R9", "seek-not-conditional-on-engine-state", call.Pos(), bad == "", "the base is positioned for every block operation, independent of anything the engine remembers from earlier calls", bad)
	}
	if n == 0 {
		c.Problem("R9", "Engine.Patch does not seek the base")
	}
}

// streamBarrier: in fn's closures, the message send on enqueueField happens
// only after a blocking, stand-alone receive on the stream's deadline semaphore
// semField (held by any in-flight Read/Write until it has queued its own
// messages).
func streamBarrier(c *eng.Ctx, rule, key, fnName, semField, enqueueField, what string) {
	fn := c.MustFunc(rule, muxPkg, fnName)
	if fn == nil {
		return
	}
	fldD, _ := c.P.Field(muxPkg, "Stream", semField)
	fldE, _ := c.P.Field(muxPkg, "Multiplexer", enqueueField)
	n := 0
	for _, f := range eng.WithClosures(fn) {
		var recvI, sendI ssa.Instruction
		for _, op := range eng.ChanOps(f) {
			if !op.Send && eng.ChanField(op.Chan) == fldD && op.Select == nil {
				recvI = op.Instr
			}
			if op.Send && eng.ChanField(op.Chan) == fldE {
				sendI = op.Instr
			}
		}
		if sendI != nil {
			n++
			ok := recvI != nil && (recvI.Block().Dominates(sendI.Block()) && (recvI.Block() != sendI.Block() || eng.InstrIndex(recvI) < eng.InstrIndex(sendI)))
			c.Check(rule, key, eng.InstrPos(sendI), ok, what)
		}
	}
	if n == 0 {
		c.Problem(rule, "%s: no send on %s found", fnName, enqueueField)
	}
}

// c34SendReportsWriteError (C34.R5): sendVersion and sendMagicNumber return the
// error of the Write that carries the message — a handshake whose outgoing half
// was cut short fails on this side too.
func c34SendReportsWriteError(c *eng.Ctx) {
	for _, x := range []struct{ pkg, fn string }{{mutagenPkg, "sendVersion"}, {agentPkg, "sendMagicNumber"}} {
		fn := c.MustFunc("R5", x.pkg, x.fn)
		if fn == nil {
			continue
		}
		var wr *ssa.Call
		for _, call := range eng.Calls(fn) {
			if cc := call.Common(); cc.IsInvoke() && cc.Method.Name() == "Write" {
				wr, _ = call.(*ssa.Call)
			}
		}
		if wr == nil {
			c.Problem("R5", "%s does not write", x.fn)
			continue
		}
		for _, r := range eng.Returns(fn) {
			rv := eng.RetResults(r)[0]
			ok := false
			if ex, isEx := eng.Unwrap(rv).(*ssa.Extract); isEx && ex.Tuple == ssa.Value(wr) && ex.Index == 1 {
				ok = true // return err (of the Write)
			}
			if eng.IsNilConst(rv) {
				// nil only where the Write's error was tested nil
				for _, a := range eng.Guards(r) {
					if b, isB := a.V.(*ssa.BinOp); isB && a.Pos && eng.IsNilConst(b.Y) {
						if ex, isEx := eng.Unwrap(b.X).(*ssa.Extract); isEx && ex.Tuple == ssa.Value(wr) && ex.Index == 1 {
							ok = true
						}
					}
				}
			}
			if !eng.IsNilConst(rv) && !ok {
				// some other non-nil error (short write) is fine as long as it is not nil
				if _, isConst := eng.Unwrap(rv).(*ssa.Const); !isConst {
					ok = eng.Render(rv) != "" && !strings.HasPrefix(eng.Render(rv), "local:") && !strings.HasPrefix(eng.Render(rv), "*local:")
				}
			}
			c.Check("R5", "send-reports-the-write-error:"+x.fn, r.Pos(), ok, "the result is the Write's error, or nil only where that error was nil", eng.Render(rv))
		}
	}
}

// c32RegisterKeepsHolder (C32.R6): a refused registration changes nothing. The
// registry is written by RegisterPrompterWithIdentifier only on the way on which
// the identifier was looked up and found absent.
func c32RegisterKeepsHolder(c *eng.Ctx) {
	fn := c.MustFunc("R6", promptPkg, "RegisterPrompterWithIdentifier")
	if fn == nil {
		return
	}
	n := 0
	eng.EachInstr(fn, func(i ssa.Instruction) {
		mu, ok := i.(*ssa.MapUpdate)
		if !ok || !strings.HasSuffix(eng.Render(mu.Map), "registry") {
			return
		}
		n++
		absent := false
		for _, a := range eng.Guards(mu) {
			if !a.Pos && strings.HasPrefix(a.Expr, "lookupok(") && strings.HasSuffix(a.Expr, "#1") && strings.Contains(a.Expr, "registry") {
				absent = true
			}
		}
		c.Check("R6", "registered-only-if-absent", mu.Pos(), absent, "the holder is stored only where the identifier was found absent — a colliding registration leaves the existing holder in place", atomsShort(eng.Guards(mu)))
	})
	if n != 1 {
		c.Problem("R6", "expected one registry insertion in RegisterPrompterWithIdentifier, found %d", n)
	}
}

// c31NobodyDrainsSignals (C31.R5): a buffered signal is consumed by the
// coalescer's user only. No function of the package receives from the signal
// channel (Terminate discarding a pending signal would lose an earned one).
func c31NobodyDrainsSignals(c *eng.Ctx) {
	sigF, _ := c.P.Field(statePkg, "Coalescer", "signals")
	n := 0
	for _, fn := range c.P.ModuleFuncs(statePkg) {
		for _, op := range eng.ChanOps(fn) {
			if eng.ChanField(op.Chan) != sigF {
				continue
			}
			n++
			if !op.Send {
				c.Check("R5", "no-internal-receive-on-signals@"+eng.FuncName(fn), eng.InstrPos(op.Instr), false, "only the user of the coalescer takes signals out of the buffer", eng.FuncName(fn))
			}
		}
	}
	c.Check("R5", "signal-channel-operations-inspected", 0, n >= 1, "the package's operations on the signal channel were found")
}

// c38LocalNormalizes (C38.R8): a local URL that Parse accepts is one
// EnsureValid accepts: parseLocal returns a URL only where every
// filesystem.Normalize it ran succeeded (EnsureValid demands an absolute local
// path, which is what Normalize produces).
func c38LocalNormalizes(c *eng.Ctx) {
	fn := c.MustFunc("R8", urlPkg, "parseLocal")
	if fn == nil {
		return
	}
	calls := eng.CallsNamed(fn, "filesystem.Normalize")
	if len(calls) == 0 {
		c.Problem("R8", "parseLocal does not normalise its path (directly)")
		return
	}
	paths := pathsToNilReturns(c, "R8", fn, 5000)
	for i, call := range calls {
		bad, n := 0, 0
		okRe := `^\(` + eng.Q(eng.Render(call.Value())) + `#1 == nil\)$`
		for _, p := range paths {
			if !p.Contains(call.Block()) {
				continue
			}
			n++
			if !pathHas(p, okRe, true) {
				bad++
			}
		}
		c.Check("R8", fmt.Sprintf("normalisation#%d-must-succeed", i+1), call.Pos(), n > 0 && bad == 0, "every way on which parseLocal returns a URL after normalising passed the test that the normalisation succeeded (a failure is an error, not a pass-through)", fmt.Sprintf("%d of %d accepting ways ignore the error", bad, n))
	}
}

// c23HalfCloseKeepsCredits (C23.R7): half-closing ends only the local write
// direction. In Multiplexer.enqueue the case that takes a close-write request
// deletes nothing from the map of pending window increments (the peer may keep
// writing and needs every credit for bytes already consumed); only a full close
// cancels them (C24.R4).
func c23HalfCloseKeepsCredits(c *eng.Ctx) {
	enq := c.MustFunc("R7", muxPkg, "Multiplexer.enqueue")
	if enq == nil {
		return
	}
	cwF, err := c.P.Field(muxPkg, "Multiplexer", "enqueueCloseWrite")
	if err != nil {
		c.Problem("R7", "%v", err)
		return
	}
	incMap := ""
	for _, call := range eng.CallsNamed(enq, "(*multiplexing.messageBuffer).encodeStreamWindowIncrement") {
		r := eng.Render(call.Common().Args[1])
		incMap = strings.TrimSuffix(strings.TrimPrefix(r, "next(range("), "))#1")
	}
	found := false
	for _, op := range eng.ChanOps(enq) {
		if op.Send || op.Select == nil || eng.ChanField(op.Chan) != cwF {
			continue
		}
		blk := eng.SelectCaseBlock(op.Select, op.Index)
		if blk == nil {
			continue
		}
		found = true
		dropped := false
		for _, b := range enq.Blocks {
			if !blk.Dominates(b) {
				continue
			}
			for _, in := range b.Instrs {
				if call, ok := in.(*ssa.Call); ok && eng.CalleeName(call) == "builtin:delete" && eng.Render(call.Call.Args[0]) == incMap {
					dropped = true
				}
			}
		}
		c.Check("R7", "half-close-keeps-pending-window-increments", blk.Instrs[0].Pos(), incMap != "" && !dropped, "taking a close-write request does not cancel the stream's pending window increment (the peer's remaining writes still need the credit)")
	}
	if !found {
		c.Problem("R7", "enqueue has no receive on enqueueCloseWrite")
	}
}

// c41ContainsAsksTheDisk (C41.R8): «already staged» is the staging directory's
// verdict at the time of asking. Store.Contains answers true only on a way on
// which os.Lstat of the content's target path succeeded (and reported a regular
// file) — never from what the store remembers having written (a remembered set
// outlives Finalize, which removes the directory).
func c41ContainsAsksTheDisk(c *eng.Ctx) {
	fn := c.MustFunc("R8", "pkg/synchronization/endpoint/local/staging/store", "Store.Contains")
	if fn == nil {
		return
	}
	n := 0
	for _, r := range eng.Returns(fn) {
		res := eng.RetResults(r)
		// (a non-constant verdict, e.g. Mode().IsRegular(), is computed from that Lstat)
		if v, isC := eng.ConstBool(res[0]); isC && !v {
			continue
		}
		n++
		g := eng.Guards(r)
		asked := eng.HasAtom(g, `^\(os\.Lstat\(.*\)#1 == nil\)$`, true)
		c.Check("R8", "true-only-after-lstat", r.Pos(), asked && eng.IsNilConst(res[1]), "Contains reports true only where os.Lstat of the target succeeded just now", atomsShort(g))
	}
	if n == 0 {
		c.Problem("R8", "Store.Contains never reports true")
	}
}
