package rules

import (
	"fmt"
	"go/token"
	"strings"

	"golang.org/x/tools/go/ssa"

	"verif/sa/eng"
)

const fsPkg = "pkg/filesystem"

func init() {
	eng.Register(&eng.Property{
		ID:       "C12",
		Title:    "A scan describes the filesystem exactly",
		Packages: []string{corePkg, fsPkg},
		Explanation: "(R1, kind table) in scanner.directory the entry kind is Directory/File/SymbolicLink exactly under the matching ModeType test of the child's own metadata, and anything else is recorded as Untracked; " +
			"(R2) every store into the directory's content map is dominated by HasPrefix(name, TemporaryNamePrefix) being false (for every file type), and entries stored under the raw name additionally by utf8.ValidString(name); " +
			"(R3, exactly-once accounting) every path of scanner.file that returns a File entry increments files by 1 and totalFileSize by metadata.Size exactly once, and no other return touches them; likewise symbolicLinks in symbolicLink; directory increments directories once, outside the content loop, on its success return; Scan copies the four counters into the snapshot; " +
			"(R4) Executable = (permissionsMode = Portable) ∧ preservesExecutability ∧ anyExecutableBitSet(mode) [truth table]; " +
			"(R5) the recorded digest is the cached digest exactly when the cache-match flag held, otherwise hasher.Sum(nil) taken after hasher.Reset and a copy that reported no error and whose byte count equals metadata.Size; " +
			"(R6, symlink-mode table) Portable → symbolicLink(enforce=true), Ignore → Untracked, POSIXRaw → symbolicLink(enforce=false); " +
			"(R7) Directory.ReadSymbolicLink accepts a readlinkat result only if it is strictly shorter than the buffer (otherwise it grows the buffer); " +
			"(R8, no legal name refused) the name guard every open/readlink of a child goes through (ensureValidName) rejects only under an EXACT comparison with \".\" or \"..\" (or the empty name) or a search for a path separator — a prefix/suffix/substring test would turn legal entries such as \"..data\" into Problematic ones. " +
			"(R9) scanner.symbolicLink measures a link's depth from its root-relative path (the path parameter, not the base name) when asking whether the target stays inside the root; " +
			"Not decided: agreement with an independent walk of a real tree; stat/readdir semantics.",
		Assumptions: []string{"readlinkat truncates silently when the buffer is too small"},
		Run:         runC12,
	})
}

func runC12(c *eng.Ctx) {
	c12LinkPath(c)
	dir := c.MustFunc("R1", corePkg, "scanner.directory")
	file := c.MustFunc("R3", corePkg, "scanner.file")
	if dir == nil || file == nil {
		return
	}
	c12NameGuard(c)
	kinds, _ := c.P.ConstsOfType(corePkg, "EntryKind")

	// The content map.
	var contents *ssa.MakeMap
	eng.EachInstr(dir, func(i ssa.Instruction) {
		if mm, ok := i.(*ssa.MakeMap); ok && strings.HasSuffix(eng.TypeShort(mm.Type()), "map[string]*synchronization/core.Entry") {
			contents = mm
		}
	})
	if contents == nil {
		c.Problem("R2", "content map of scanner.directory not found")
		return
	}

	// R1: kind phi.
	modeConst := func(name string) int64 {
		v, err := c.P.ConstInt(fsPkg, name)
		if err != nil {
			c.Problem("R1", "%v", err)
		}
		return v
	}
	want := map[int64]int64{
		kinds["EntryKind_Directory"]:    modeConst("ModeTypeDirectory"),
		kinds["EntryKind_File"]:         modeConst("ModeTypeFile"),
		kinds["EntryKind_SymbolicLink"]: modeConst("ModeTypeSymbolicLink"),
	}
	mask := modeConst("ModeTypeMask")
	var kindPhi *ssa.Phi
	for _, b := range dir.Blocks {
		for _, in := range b.Instrs {
			phi, ok := in.(*ssa.Phi)
			if !ok {
				break
			}
			if strings.HasSuffix(eng.TypeShort(phi.Type()), "core.EntryKind") && len(phi.Edges) == 3 {
				allConst := true
				for _, e := range phi.Edges {
					if _, ok := eng.ConstInt64(e); !ok {
						allConst = false
					}
				}
				if allConst {
					kindPhi = phi
				}
			}
		}
	}
	if kindPhi == nil {
		c.Problem("R1", "entry-kind selection not found in scanner.directory")
	} else {
		for i, e := range kindPhi.Edges {
			k, _ := eng.ConstInt64(e)
			g := eng.GuardsOfBlock(kindPhi.Block().Preds[i])
			// the edge itself may carry the deciding atom
			pred := kindPhi.Block().Preds[i]
			var as []eng.Atom
			as = append(as, g...)
			for si, s := range pred.Succs {
				if s == kindPhi.Block() {
					if iff, ok := pred.Instrs[len(pred.Instrs)-1].(*ssa.If); ok {
						as = append(as, eng.MkAtom(iff.Cond, si == 0))
					}
				}
			}
			re := fmt.Sprintf(`^\(\(.*\.Mode & %d:Mode\) == %d:Mode\)$`, mask, want[k])
			c.Check("R1", fmt.Sprintf("kind-%d", k), kindPhi.Pos(), want[k] != 0 && eng.HasAtom(as, re, true), fmt.Sprintf("kind %d is chosen exactly under its file-type test", k), eng.AtomsText(as)[:min(200, len(eng.AtomsText(as)))])
		}
	}

	// R2 and the Untracked default.
	nUpd := 0
	eng.EachInstr(dir, func(i ssa.Instruction) {
		mu, ok := i.(*ssa.MapUpdate)
		if !ok || mu.Map != ssa.Value(contents) {
			return
		}
		nUpd++
		g := eng.Guards(mu)
		key := eng.Render(mu.Key)
		tmp := false
		for _, a := range g {
			if !a.Pos && strings.HasPrefix(a.Expr, "strings.HasPrefix(") && strings.HasSuffix(a.Expr, `".mutagen-temporary-")`) {
				tmp = true
			}
		}
		c.Check("R2", fmt.Sprintf("not-temporary#%d", nUpd), mu.Pos(), tmp, "nothing with the temporary-name prefix is recorded, whatever its type", eng.AtomsText(g)[:min(200, len(eng.AtomsText(g)))])
		if !strings.Contains(key, "ToValidUTF8") {
			c.Check("R2", fmt.Sprintf("valid-utf8#%d", nUpd), mu.Pos(), eng.HasAtom(g, `^unicode/utf8\.ValidString\(`, true), "entries recorded under the on-disk name have valid UTF-8 names")
		} else {
			c.Check("R2", fmt.Sprintf("escaped-name#%d", nUpd), mu.Pos(), eng.HasAtom(g, `^unicode/utf8\.ValidString\(`, false), "escaped names are used only for invalid UTF-8")
			// ignored parents record Untracked, otherwise Problematic
			if lit := eng.LitOf(mu.Value); lit != nil {
				k, _ := eng.ConstInt64(eng.LitFields(lit)["Kind"])
				masked := eng.HasAtom(g, `^p6$`, true)
				c.Check("R2", fmt.Sprintf("non-utf8-kind#%d", nUpd), mu.Pos(), (masked && k == kinds["EntryKind_Untracked"]) || (!masked && eng.HasAtom(g, `^p6$`, false) && k == kinds["EntryKind_Problematic"]), "a non-UTF-8 name is Untracked under an ignore mask and Problematic otherwise", fmt.Sprint(k))
			}
		}
	})
	if nUpd < 7 {
		c.Problem("R2", "expected ≥7 stores into the content map, found %d", nUpd)
	}

	c12Counters(c, dir, file, kinds)
	c12FileEntry(c, file, kinds)

	// R6.
	modes, _ := c.P.ConstsOfType(corePkg, "SymbolicLinkMode")
	sl := c.MustFunc("R6", corePkg, "scanner.symbolicLink")
	if sl != nil {
		for _, call := range eng.CallsTo(dir, sl) {
			g := eng.Guards(call)
			v, isC := eng.ConstBool(call.Common().Args[4])
			wantMode := "SymbolicLinkMode_SymbolicLinkModePOSIXRaw"
			if v {
				wantMode = "SymbolicLinkMode_SymbolicLinkModePortable"
			}
			c.Check("R6", fmt.Sprintf("symlink-call-enforce=%v", v), call.Pos(), isC && eng.HasAtom(g, fmt.Sprintf(`^\(p0\.symbolicLinkMode == %d:SymbolicLinkMode\)$`, modes[wantMode]), true), "symbolicLink(enforce) is called under the matching symlink mode", eng.AtomsText(g)[:min(160, len(eng.AtomsText(g)))])
		}
		// Ignore mode: a literal Untracked entry.
		found := false
		eng.EachInstr(dir, func(i ssa.Instruction) {
			if st, ok := i.(*ssa.Store); ok {
				if fa, ok := st.Addr.(*ssa.FieldAddr); ok && eng.FieldOf(fa).Name() == "Kind" {
					if k, ok := eng.ConstInt64(st.Val); ok && k == kinds["EntryKind_Untracked"] {
						if eng.HasAtom(eng.Guards(st), fmt.Sprintf(`^\(p0\.symbolicLinkMode == %d:SymbolicLinkMode\)$`, modes["SymbolicLinkMode_SymbolicLinkModeIgnore"]), true) {
							found = true
						}
					}
				}
			}
		})
		c.Check("R6", "symlink-ignore-untracked", dir.Pos(), found, "in Ignore mode a symbolic link is recorded as Untracked")
	}
	c.Floor("R6", 3)

	// R7.
	if rl := c.MustFunc("R7", fsPkg, "Directory.ReadSymbolicLink"); rl != nil && c.P.GOOS != "windows" {
		n := 0
		for _, r := range eng.Returns(rl) {
			res := eng.RetResults(r)
			if !eng.IsNilConst(res[1]) {
				continue
			}
			n++
			g := eng.Guards(r)
			ok := false
			for _, a := range g {
				if b, isB := a.V.(*ssa.BinOp); isB && a.Pos && b.Op == token.LSS && strings.Contains(eng.Render(b.X), "Readlinkat") || strings.Contains(a.Expr, "eadlinkat") && strings.Contains(a.Expr, " < ") && a.Pos {
					ok = true
				}
			}
			c.Check("R7", "readlink-strictly-shorter", r.Pos(), ok, "a link target is accepted only if it left room in the buffer (count < size)", eng.AtomsText(g)[:min(200, len(eng.AtomsText(g)))])
		}
		if n == 0 {
			c.Problem("R7", "ReadSymbolicLink has no success return")
		}
	}
}

func c12Counters(c *eng.Ctx, dir, file *ssa.Function, kinds map[string]int64) {
	// scanner.file paths.
	countStores := func(p eng.Path, field string) (n int, vals []string) {
		for _, b := range p.Blocks {
			for _, st := range storesInBlock(b) {
				if fa, ok := st.Addr.(*ssa.FieldAddr); ok && eng.FieldOf(fa).Name() == field && eng.Render(fa.X) == "p0" {
					n++
					vals = append(vals, eng.Render(st.Val))
				}
			}
		}
		return
	}
	resultKind := func(p eng.Path) int64 {
		last := p.Last()
		r, ok := last.Instrs[len(last.Instrs)-1].(*ssa.Return)
		if !ok {
			return -2
		}
		lit := eng.LitOf(eng.RetResults(r)[0])
		if lit == nil {
			return -1
		}
		for _, b := range p.Blocks {
			for _, st := range storesInBlock(b) {
				if fa, ok := st.Addr.(*ssa.FieldAddr); ok && fa.X == ssa.Value(lit) && eng.FieldOf(fa).Name() == "Kind" {
					k, _ := eng.ConstInt64(st.Val)
					return k
				}
			}
		}
		return -1
	}
	for _, spec := range []struct {
		fn     *ssa.Function
		kind   int64
		fields map[string]string // field -> expected increment rendering suffix
		name   string
	}{
		{file, kinds["EntryKind_File"], map[string]string{"files": "(p0.files + 1)", "totalFileSize": "(p0.totalFileSize + "}, "file"},
		{c.MustFunc("R3", corePkg, "scanner.symbolicLink"), kinds["EntryKind_SymbolicLink"], map[string]string{"symbolicLinks": "(p0.symbolicLinks + 1)"}, "symbolicLink"},
	} {
		if spec.fn == nil {
			continue
		}
		paths, complete := eng.EnumPaths(spec.fn.Blocks[0], nil, 50000)
		if !complete {
			c.Problem("R3", "too many paths in scanner.%s", spec.name)
			continue
		}
		okS, okO, nS, nO := true, true, 0, 0
		var bad string
		for _, p := range paths {
			if p.Last() == spec.fn.Recover {
				continue
			}
			k := resultKind(p)
			if k == -2 {
				continue
			}
			for f, inc := range spec.fields {
				n, vals := countStores(p, f)
				if k == spec.kind {
					nS++
					if n != 1 || !strings.HasPrefix(vals[0], inc) {
						okS = false
						bad = fmt.Sprintf("%s: %d store(s) %v", f, n, vals)
					}
					if f == "totalFileSize" && n == 1 && !strings.HasSuffix(vals[0], ".Size)") {
						okS = false
						bad = "totalFileSize += " + vals[0]
					}
				} else {
					nO++
					if n != 0 {
						okO = false
						bad = fmt.Sprintf("%s touched on a non-%s return", f, spec.name)
					}
				}
			}
		}
		c.Check("R3", "counted-once:"+spec.name, spec.fn.Pos(), okS && nS > 0, "every successful "+spec.name+" return counted the entry exactly once", bad)
		c.Check("R3", "not-counted-otherwise:"+spec.name, spec.fn.Pos(), okO && nO > 0, "problematic/vanished/cancelled returns of "+spec.name+" count nothing", bad)
	}
	// directories++ in scanner.directory: exactly one store outside the closure and outside the loop.
	var dstores []*ssa.Store
	eng.EachInstr(dir, func(i ssa.Instruction) {
		if st, ok := i.(*ssa.Store); ok {
			if fa, ok := st.Addr.(*ssa.FieldAddr); ok && eng.FieldOf(fa).Name() == "directories" {
				dstores = append(dstores, st)
			}
		}
	})
	okD := len(dstores) == 1
	if okD {
		st := dstores[0]
		okD = eng.Render(st.Val) == "(p0.directories + 1)"
		// its block ends in the success return
		_, isRet := st.Block().Instrs[len(st.Block().Instrs)-1].(*ssa.Return)
		okD = okD && isRet
	}
	c.Check("R3", "directory-counted-once", dir.Pos(), okD, "a directory is counted once, when its entry is returned")
	// Snapshot fields.
	if scan := c.MustFunc("R3", corePkg, "Scan"); scan != nil {
		for _, r := range eng.Returns(scan) {
			lit := eng.LitOf(eng.RetResults(r)[0])
			if lit == nil {
				continue
			}
			f := eng.LitFields(lit)
			if f["Directories"] == nil {
				continue
			}
			for field, src := range map[string]string{"Directories": "directories", "Files": "files", "SymbolicLinks": "symbolicLinks", "TotalFileSize": "totalFileSize"} {
				got := "<unset>"
				if f[field] != nil {
					got = eng.Render(f[field])
				}
				c.Check("R3", "snapshot:"+field, r.Pos(), strings.HasSuffix(got, "."+src), "the snapshot reports the scanner's "+src+" counter", got)
			}
		}
	}
	c.Floor("R3", 9)
}

func c12FileEntry(c *eng.Ctx, file *ssa.Function, kinds map[string]int64) {
	pmodes, _ := c.P.ConstsOfType(corePkg, "PermissionsMode")
	portable := fmt.Sprintf("(p0.permissionsMode == %d:PermissionsMode)", pmodes["PermissionsMode_PermissionsModePortable"])
	paths, complete := eng.EnumPaths(file.Blocks[0], nil, 50000)
	if !complete {
		c.Problem("R5", "too many paths in scanner.file")
		return
	}
	var cached ssa.Value
	eng.EachInstr(file, func(i ssa.Instruction) {
		if lk, ok := i.(*ssa.Lookup); ok && lk.CommaOk && eng.Render(lk.X) == "p0.cache.Entries" {
			cached = lk
		}
	})
	nFile := 0
	for _, p := range paths {
		last := p.Last()
		r, ok := last.Instrs[len(last.Instrs)-1].(*ssa.Return)
		if !ok || last == file.Recover {
			continue
		}
		lit := eng.LitOf(eng.RetResults(r)[0])
		if lit == nil {
			continue
		}
		var kind int64 = -1
		var digest, exec ssa.Value
		for _, b := range p.Blocks {
			for _, st := range storesInBlock(b) {
				if fa, ok := st.Addr.(*ssa.FieldAddr); ok && fa.X == ssa.Value(lit) {
					switch eng.FieldOf(fa).Name() {
					case "Kind":
						kind, _ = eng.ConstInt64(st.Val)
					case "Digest":
						digest = st.Val
					case "Executable":
						exec = st.Val
					}
				}
			}
		}
		if kind != kinds["EntryKind_File"] {
			continue
		}
		nFile++
		if nFile > 64 {
			continue
		}
		ex := p.ExpandedAtoms()
		// R5.
		dv := p.Resolve(digest)
		dr := eng.Render(dv)
		matchKnown, match := false, false
		// the cache-match flag: the phi tested right before choosing the digest
		for _, a := range p.Atoms {
			if phi, ok := a.V.(*ssa.Phi); ok && strings.Contains(eng.Render(phi), ".FileID == ") && !strings.Contains(eng.Render(phi), ".Mode == conv") {
				matchKnown, match = true, a.Pos
			}
		}
		switch {
		case strings.HasSuffix(dr, ".Digest") && cached != nil:
			c.Check("R5", "digest-from-cache", r.Pos(), matchKnown && match, "the cached digest is used only when the cache-match flag held", atomsShort(ex))
		case dr == "invoke:Sum(p0.hasher, nil)":
			copyOK := eng.HasAtom(ex, `^\(io\.CopyBuffer\(.*\)#1 == nil\)$`, true)
			sizeOK := eng.HasAtom(ex, `^\(conv:uint64\(io\.CopyBuffer\(.*\)#0\) == .*\.Size\)$`, true)
			c.Check("R5", "digest-from-hash", r.Pos(), (!matchKnown || !match) && copyOK && sizeOK, "a fresh digest is the hasher's sum after an error-free copy of exactly metadata.Size bytes", atomsShort(ex))
		default:
			c.Check("R5", "digest-source", r.Pos(), false, "the digest comes from the cache or the hasher", dr)
		}
		// R4 on the first file path only (the function is the same on all).
		if nFile == 1 && exec != nil {
			be, err := eng.BoolExprOf(exec)
			if err != nil {
				c.Problem("R4", "%v", err)
			} else {
				pres := "p0.preservesExecutability"
				var bits string
				for _, a := range be.AtomNames() {
					if strings.HasPrefix(a, "synchronization/core.anyExecutableBitSet(") {
						bits = a
					}
				}
				eq, cex, err := eng.TruthTableEqual(be, []string{portable, pres, bits}, func(e map[string]bool) bool { return e[portable] && e[pres] && e[bits] })
				if err != nil {
					c.Problem("R4", "%v", err)
				} else {
					c.Check("R4", "executable-function", r.Pos(), eq && bits != "" && strings.HasSuffix(bits, ".Mode)"), "Executable = portable ∧ preservesExecutability ∧ anyExecutableBitSet(mode) [truth table]", fmt.Sprintf("%s; counterexample %v", be, cex))
				}
			}
		}
	}
	if nFile == 0 {
		c.Problem("R5", "no File-entry path in scanner.file")
	}
	// hasher.Reset precedes the copy.
	var reset, cp ssa.Instruction
	eng.EachInstr(file, func(i ssa.Instruction) {
		if call, ok := i.(*ssa.Call); ok {
			if call.Call.IsInvoke() && call.Call.Method.Name() == "Reset" && eng.Render(call.Call.Value) == "p0.hasher" {
				reset = call
			}
			if eng.CalleeName(call) == "io.CopyBuffer" {
				cp = call
			}
		}
	})
	okOrder := reset != nil && cp != nil && (reset.Block() == cp.Block() && eng.InstrIndex(reset) < eng.InstrIndex(cp) || reset.Block() != cp.Block() && reset.Block().Dominates(cp.Block()))
	c.Check("R5", "hasher-reset-before-copy", file.Pos(), okOrder, "the shared hasher is reset before a file is hashed")
	c.Floor("R5", 3)
}

func atomsShort(as []eng.Atom) string {
	s := eng.AtomsText(as)
	if len(s) > 260 {
		return strings.ToValidUTF8(s[:260], "") + "…"
	}
	return s
}
