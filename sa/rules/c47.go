package rules

import (
	"fmt"
	"go/token"
	"strings"

	"golang.org/x/tools/go/ssa"

	"verif/sa/eng"
)

func init() {
	eng.Register(&eng.Property{
		ID:       "C47",
		Title:    "Stream helper writers honour their contracts",
		Packages: []string{streamPkg},
		Explanation: "(R1, cutoff writer) with cutoff 0 nothing is forwarded and len(buffer) is reported; otherwise the downstream write receives the whole buffer only under len(buffer) ≤ cutoff, else buffer[:cutoff]; after EVERY downstream write the cutoff is reduced by the count that write returned (not by the requested length); results: the downstream result for a whole-buffer write, (written, err) on a downstream error, (len(buffer), nil) after a successful truncated write; " +
			"(R2, line splitter) trimCarriageReturn drops the last byte exactly under «len > 0 ∧ last byte = CR»; LineProcessor.Write appends all data, repeatedly finds the first '\\n' in the remainder, hands string(trimCarriageReturn(remainder[:i])) to the callback, advances by i+1 (consumed count and remainder alike), stops when none is found, then keeps exactly the unconsumed suffix (copy + reslice to len−consumed) and reports len(data); " +
			"(R3, hashing writer) the hasher receives data[:n] where n is the count the downstream write returned, and (n, err) of that write is returned; " +
			"(R4, preemptable writer) every downstream write is preceded by the counter test; when the counter equals the interval a non-blocking receive on the cancellation channel decides: cancelled → (0, ErrWritePreempted) without writing, otherwise the counter restarts at 0; in the other branch the counter is incremented by exactly 1 — so at most «interval» writes separate two checks; the counter is not touched on the way to a refusal, so once preempted every later write polls and is refused too; " +
			"(R5, valve) Write and Shut hold the valve's lock; Write forwards to the writer unless it is nil, in which case it reports len(buffer) without writing; Shut stores nil; " +
			"(R6, multi-closer) Close calls Close on every element of the list (the call is unconditional in the loop body and the loop has no other exit), keeps an error only when it is non-nil and none was kept before, and returns the kept error. " +
			"Not decided: timing of preemption in wall-clock terms; downstream writers' own contracts.",
		Assumptions: []string{"io.Writer implementations return 0 ≤ n ≤ len(p)"},
		Run:         runC47,
	})
}

func runC47(c *eng.Ctx) {
	loadOf := func(v ssa.Value, field string) bool { // *(&p0.field)
		u, ok := eng.Unwrap(v).(*ssa.UnOp)
		if !ok || u.Op != token.MUL {
			return false
		}
		fa, ok := u.X.(*ssa.FieldAddr)
		return ok && eng.FieldOf(fa).Name() == field && eng.Render(fa.X) == "p0"
	}
	downstream := func(fn *ssa.Function, field string) []*ssa.Call {
		var out []*ssa.Call
		for _, ci := range eng.Calls(fn) {
			cc := ci.Common()
			if cl, ok := ci.(*ssa.Call); ok && cc.IsInvoke() && cc.Method.Name() == "Write" && loadOf(cc.Value, field) {
				out = append(out, cl)
			}
		}
		return out
	}
	extractOf := func(v ssa.Value, call *ssa.Call, idx int) bool {
		ex, ok := eng.Unwrap(v).(*ssa.Extract)
		return ok && ex.Tuple == ssa.Value(call) && ex.Index == idx
	}
	lenOf := func(v ssa.Value, what string) bool {
		call, ok := eng.Unwrap(v).(*ssa.Call)
		return ok && eng.CalleeName(call) == "builtin:len" && eng.Render(call.Call.Args[0]) == what
	}

	// ---------------- R1 cutoff ----------------
	if fn := c.MustFunc("R1", streamPkg, "cutoffWriter.Write"); fn != nil {
		ws := downstream(fn, "writer")
		c.Check("R1", "two-downstream-writes", fn.Pos(), len(ws) == 2, "the cutoff writer forwards through a whole-buffer write and a truncated write", fmt.Sprint(len(ws)))
		for n, w := range ws {
			// decrement by the returned count
			okDec := false
			detail := ""
			for _, in := range w.Block().Instrs[eng.InstrIndex(w):] {
				st, ok := in.(*ssa.Store)
				if !ok {
					continue
				}
				fa, ok := st.Addr.(*ssa.FieldAddr)
				if !ok || eng.FieldOf(fa).Name() != "cutoff" {
					continue
				}
				detail = eng.Render(st.Val)
				if b, ok := st.Val.(*ssa.BinOp); ok && b.Op == token.SUB && loadOf(b.X, "cutoff") {
					if cv, ok := b.Y.(*ssa.Convert); ok && extractOf(cv.X, w, 0) {
						okDec = true
					}
				}
			}
			c.Check("R1", fmt.Sprintf("write#%d-cutoff-reduced-by-count-written", n+1), w.Pos(), okDec, "after a downstream write the remaining allowance shrinks by what that write reported as written", detail)
			arg := w.Call.Args[0]
			g := eng.Guards(w)
			if eng.Render(arg) == "p1" {
				okG := false
				for _, a := range g {
					if b, ok := a.V.(*ssa.BinOp); ok {
						if (b.Op == token.LEQ && a.Pos || b.Op == token.GTR && !a.Pos) && loadOf(b.Y, "cutoff") {
							if cv, ok := b.X.(*ssa.Convert); ok && lenOf(cv.X, "p1") {
								okG = true
							}
						}
					}
				}
				c.Check("R1", "whole-buffer-only-within-cutoff", w.Pos(), okG && eng.HasAtom(g, `^\(p0\.cutoff == 0\)$`, false), "the whole buffer is forwarded only when it fits the remaining allowance", atomsShort(g))
				for _, r := range eng.Returns(fn) {
					if r.Block() == w.Block() {
						res := eng.RetResults(r)
						c.Check("R1", "whole-buffer-result-forwarded", r.Pos(), extractOf(res[0], w, 0) && extractOf(res[1], w, 1), "a whole-buffer write reports the downstream result")
					}
				}
			} else {
				sl, ok := arg.(*ssa.Slice)
				okS := ok && eng.Render(sl.X) == "p1" && sl.Low == nil && sl.High != nil && loadOf(sl.High, "cutoff")
				c.Check("R1", "truncated-to-cutoff", w.Pos(), okS && eng.HasAtom(g, `^\(p0\.cutoff == 0\)$`, false), "a longer buffer is forwarded as buffer[:cutoff]", eng.Render(arg))
				for _, r := range eng.Returns(fn) {
					if !w.Block().Dominates(r.Block()) {
						continue
					}
					res := eng.RetResults(r)
					gr := eng.Guards(r)
					failed := false
					succeeded := false
					for _, a := range gr {
						if b, ok := a.V.(*ssa.BinOp); ok && extractOf(b.X, w, 1) && eng.IsNilConst(b.Y) {
							if a.Pos {
								succeeded = true
							} else {
								failed = true
							}
						}
					}
					switch {
					case failed:
						c.Check("R1", "truncated-write-error-reported", r.Pos(), extractOf(res[0], w, 0) && extractOf(res[1], w, 1), "a failed truncated write reports the downstream count and error")
					case succeeded:
						c.Check("R1", "excess-reported-as-written", r.Pos(), lenOf(res[0], "p1") && eng.IsNilConst(res[1]), "after the cutoff the excess is reported as written")
					default:
						c.Check("R1", "truncated-write-result-undecided", r.Pos(), false, "the result after a truncated write depends on its error", atomsShort(gr))
					}
				}
			}
		}
		for _, r := range eng.Returns(fn) {
			g := eng.Guards(r)
			if eng.HasAtom(g, `^\(p0\.cutoff == 0\)$`, true) {
				res := eng.RetResults(r)
				noWrite := true
				for _, w := range ws {
					if w.Block() == r.Block() || w.Block().Dominates(r.Block()) {
						noWrite = false
					}
				}
				c.Check("R1", "exhausted-discards-and-reports-written", r.Pos(), noWrite && lenOf(res[0], "p1") && eng.IsNilConst(res[1]), "once the allowance is used up nothing is forwarded and everything is reported as written")
			}
		}
		c.Floor("R1", 8)
	}

	// ---------------- R2 line splitter ----------------
	if fn := c.MustFunc("R2", streamPkg, "trimCarriageReturn"); fn != nil {
		nTrim := 0
		for _, r := range eng.Returns(fn) {
			v := eng.RetResults(r)[0]
			if eng.Render(v) == "p0" {
				continue
			}
			nTrim++
			// bytes.TrimSuffix(buffer, []byte{'\r'}) removes one trailing CR if there
			// is one — the library form of the same function
			if call, isCall := eng.Unwrap(v).(*ssa.Call); isCall && eng.CalleeName(call) == "bytes.TrimSuffix" && len(call.Call.Args) == 2 && eng.Render(call.Call.Args[0]) == "p0" {
				okLib := false
				if lit := eng.LitOf(call.Call.Args[1]); lit != nil {
					okLib = true
				}
				if sl2, isSl := eng.Unwrap(call.Call.Args[1]).(*ssa.Slice); isSl {
					if al, isAl := sl2.X.(*ssa.Alloc); isAl {
						// a one-element array literal holding '\r'
						n, cr := 0, false
						for _, ref := range *al.Referrers() {
							if ia, isIA := ref.(*ssa.IndexAddr); isIA {
								for _, r2 := range *ia.Referrers() {
									if st, isSt := r2.(*ssa.Store); isSt {
										n++
										cr = constIs(st.Val, '\r')
									}
								}
							}
						}
						okLib = n == 1 && cr && strings.HasSuffix(eng.TypeShort(al.Type()), "[1]byte")
					}
				}
				if s, isConv := eng.Unwrap(call.Call.Args[1]).(*ssa.Convert); isConv { // []byte("\r")
					okLib = eng.Render(s.X) == `"\r"`
				}
				c.Check("R2", "trim-exactly-when-last-byte-is-cr", r.Pos(), okLib, "the last byte is dropped exactly when the slice is non-empty and ends in a carriage return (bytes.TrimSuffix with the one-byte suffix CR)", eng.RenderCall(&call.Call))
				continue
			}
			sl, ok := v.(*ssa.Slice)
			okS := ok && eng.Render(sl.X) == "p0" && sl.Low == nil && sl.High != nil
			if okS {
				b, ok := sl.High.(*ssa.BinOp)
				okS = ok && b.Op == token.SUB && lenOf(b.X, "p0") && constIs(b.Y, 1)
			}
			g := eng.Guards(r)
			nonEmpty, isCR, extra := false, false, ""
			for _, a := range g {
				b, ok := a.V.(*ssa.BinOp)
				if !ok {
					extra = a.String()
					continue
				}
				switch {
				case lenOf(b.X, "p0") && ((b.Op == token.GTR && constIs(b.Y, 0) && a.Pos) || (b.Op == token.GEQ && constIs(b.Y, 1) && a.Pos) || ((b.Op == token.EQL || b.Op == token.NEQ) && constIs(b.Y, 0) && !a.Pos)):
					nonEmpty = true
				case (b.Op == token.EQL || b.Op == token.NEQ) && a.Pos && constIs(b.Y, '\r') && eng.Render(b.X) == "p0[(len(p0) - 1)]":
					isCR = true
				default:
					extra = a.String()
				}
			}
			c.Check("R2", "trim-exactly-when-last-byte-is-cr", r.Pos(), okS && nonEmpty && isCR && extra == "", "the last byte is dropped exactly when the slice is non-empty and ends in a carriage return (a line consisting of CR alone becomes empty)", atomsShort(g))
		}
		if nTrim != 1 {
			c.Problem("R2", "expected one trimming return in trimCarriageReturn, found %d", nTrim)
		}
	}
	if fn := c.MustFunc("R2", streamPkg, "LineProcessor.Write"); fn != nil {
		var idx *ssa.Call
		for _, ci := range eng.CallsNamed(fn, "bytes.IndexByte") {
			idx, _ = ci.(*ssa.Call)
		}
		var rem *ssa.Phi
		if idx != nil {
			rem, _ = idx.Call.Args[0].(*ssa.Phi)
		}
		if idx == nil || rem == nil || !constIs(idx.Call.Args[1], '\n') {
			c.Problem("R2", "newline search over a loop variable not found in LineProcessor.Write")
		} else {
			hdr := rem.Block()
			// remainder: φ(p0.buffer | rem[idx+1:])
			okRem := true
			for j, e := range rem.Edges {
				if hdr.Dominates(hdr.Preds[j]) {
					sl, ok := e.(*ssa.Slice)
					okAdv := ok && sl.X == ssa.Value(rem) && sl.High == nil && sl.Low != nil
					if okAdv {
						b, ok := sl.Low.(*ssa.BinOp)
						okAdv = ok && b.Op == token.ADD && b.X == ssa.Value(idx) && constIs(b.Y, 1)
					}
					okRem = okRem && okAdv
				} else {
					okRem = okRem && loadOf(e, "buffer")
				}
			}
			c.Check("R2", "remainder-advances-past-newline", rem.Pos(), okRem, "scanning starts at the whole buffer and continues after each newline found")
			// processed: φ(0 | processed + (idx+1))
			var proc *ssa.Phi
			for _, in := range hdr.Instrs {
				if phi, ok := in.(*ssa.Phi); ok && eng.TypeShort(phi.Type()) == "int" {
					proc = phi
				}
			}
			okProc := proc != nil
			if proc != nil {
				for j, e := range proc.Edges {
					if hdr.Dominates(hdr.Preds[j]) {
						b, ok := e.(*ssa.BinOp)
						okAdd := ok && b.Op == token.ADD && b.X == ssa.Value(proc)
						if okAdd {
							inc, ok := b.Y.(*ssa.BinOp)
							okAdd = ok && inc.Op == token.ADD && inc.X == ssa.Value(idx) && constIs(inc.Y, 1)
						}
						okProc = okProc && okAdd
					} else {
						okProc = okProc && constIs(e, 0)
					}
				}
			}
			c.Check("R2", "consumed-count-matches-advance", idx.Pos(), okProc, "the consumed count grows by index+1 per line, from 0")
			// callback
			nCb := 0
			for _, ci := range eng.Calls(fn) {
				cc := ci.Common()
				if cc.IsInvoke() || cc.StaticCallee() != nil {
					continue
				}
				if _, isB := cc.Value.(*ssa.Builtin); isB {
					continue
				}
				if !loadOf(cc.Value, "Callback") {
					continue
				}
				nCb++
				okArg := false
				if cv, ok := cc.Args[0].(*ssa.Convert); ok {
					if tc, ok := cv.X.(*ssa.Call); ok && eng.CalleeName(tc) == "stream.trimCarriageReturn" {
						if sl, ok := tc.Call.Args[0].(*ssa.Slice); ok && sl.X == ssa.Value(rem) && sl.Low == nil && sl.High == ssa.Value(idx) {
							okArg = true
						}
					}
				}
				g := eng.Guards(ci)
				found := false
				for _, a := range g {
					if b, ok := a.V.(*ssa.BinOp); ok && b.X == ssa.Value(idx) && constIs(b.Y, -1) && !a.Pos {
						found = true
					}
				}
				c.Check("R2", "callback-gets-trimmed-line", ci.Pos(), okArg && found, "each newline found delivers string(trimCarriageReturn(remainder[:index])) — the newline itself is not part of the line")
			}
			if nCb != 1 {
				c.Problem("R2", "expected one callback site, found %d", nCb)
			}
			// leftover
			var finalStore *ssa.Store
			eng.EachInstr(fn, func(i ssa.Instruction) {
				if st, ok := i.(*ssa.Store); ok {
					if fa, ok := st.Addr.(*ssa.FieldAddr); ok && eng.FieldOf(fa).Name() == "buffer" && !hdr.Dominates(st.Block()) == false {
						if _, isSl := st.Val.(*ssa.Slice); isSl {
							finalStore = st
						}
					}
				}
			})
			okLeft := false
			if finalStore != nil && proc != nil {
				sl := finalStore.Val.(*ssa.Slice)
				if sl.Low == nil && sl.High != nil && loadOf(sl.X, "buffer") {
					if b, ok := sl.High.(*ssa.BinOp); ok && b.Op == token.SUB && b.Y == ssa.Value(proc) && lenOf(b.X, "p0.buffer") {
						okLeft = true
					}
				}
			}
			okCopy := false
			for _, ci := range eng.CallsNamed(fn, "builtin:copy") {
				dst, ok1 := ci.Common().Args[0].(*ssa.Slice)
				src, ok2 := ci.Common().Args[1].(*ssa.Slice)
				if ok1 && ok2 && loadOf(dst.X, "buffer") && loadOf(src.X, "buffer") && dst.Low == nil && src.High == nil && src.Low == ssa.Value(proc) {
					okCopy = true
				}
			}
			c.Check("R2", "unconsumed-suffix-kept", fn.Pos(), okLeft && okCopy, "after splitting, exactly the bytes after the last newline stay buffered (moved to the front, length = len − consumed)")
			// append all data; return len(data)
			okApp := false
			for _, ci := range eng.CallsNamed(fn, "builtin:append") {
				if loadOf(ci.Common().Args[0], "buffer") && eng.Render(ci.Common().Args[1]) == "p1" {
					okApp = true
				}
			}
			c.Check("R2", "all-data-buffered", fn.Pos(), okApp, "all incoming bytes are appended to the buffer before splitting")
			for _, r := range eng.Returns(fn) {
				res := eng.RetResults(r)
				if eng.IsNilConst(res[1]) {
					c.Check("R2", "reports-all-written", r.Pos(), lenOf(res[0], "p1"), "a successful write reports len(data)")
				} else {
					c.Check("R2", "overflow-writes-nothing", r.Pos(), constIs(res[0], 0) && !hdr.Dominates(r.Block()), "a rejected write (buffer limit) consumes nothing")
				}
			}
		}
		c.Floor("R2", 8)
	}

	// ---------------- R3 hashing ----------------
	if fn := c.MustFunc("R3", streamPkg, "hashedWriter.Write"); fn != nil {
		ws := downstream(fn, "writer")
		if len(ws) != 1 {
			c.Problem("R3", "expected one downstream write in hashedWriter.Write, found %d", len(ws))
		} else {
			w := ws[0]
			c.Check("R3", "forwards-the-data", w.Pos(), eng.Render(w.Call.Args[0]) == "p1", "the data is forwarded unchanged")
			nh := 0
			for _, ci := range eng.Calls(fn) {
				cc := ci.Common()
				if cc.IsInvoke() && cc.Method.Name() == "Write" && loadOf(cc.Value, "hasher") {
					nh++
					sl, ok := cc.Args[0].(*ssa.Slice)
					okH := ok && eng.Render(sl.X) == "p1" && sl.Low == nil && sl.High != nil && extractOf(sl.High, w, 0) && len(eng.Guards(ci)) == 0 &&
						w.Block() == ci.Block() && eng.InstrIndex(w) < eng.InstrIndex(ci)
					c.Check("R3", "digests-exactly-the-accepted-prefix", ci.Pos(), okH, "the hasher receives data[:n], n being what the downstream write accepted — unconditionally", eng.Render(cc.Args[0]))
				}
			}
			c.Check("R3", "single-digest-update", fn.Pos(), nh == 1, "one hasher update per write", fmt.Sprint(nh))
			for _, r := range eng.Returns(fn) {
				res := eng.RetResults(r)
				c.Check("R3", "returns-downstream-result", r.Pos(), extractOf(res[0], w, 0) && extractOf(res[1], w, 1), "the downstream result is reported")
			}
		}
	}

	// ---------------- R4 preemptable ----------------
	if fn := c.MustFunc("R4", streamPkg, "preemptableWriter.Write"); fn != nil {
		ws := downstream(fn, "writer")
		if len(ws) != 1 {
			c.Problem("R4", "expected one downstream write, found %d", len(ws))
		} else {
			w := ws[0]
			// the counter test is the entry block's condition
			iff, ok := fn.Blocks[0].Instrs[len(fn.Blocks[0].Instrs)-1].(*ssa.If)
			okTest, inverted := false, false
			if ok {
				if b, ok := iff.Cond.(*ssa.BinOp); ok && (b.Op == token.EQL || b.Op == token.NEQ) &&
					(loadOf(b.X, "writeCount") && loadOf(b.Y, "checkInterval") || loadOf(b.Y, "writeCount") && loadOf(b.X, "checkInterval")) {
					okTest, inverted = true, b.Op == token.NEQ
				}
			}
			c.Check("R4", "counter-tested-before-every-write", fn.Pos(), okTest && w.Block() != fn.Blocks[0], "every write first compares the write counter with the check interval")
			if okTest {
				chk, other := fn.Blocks[0].Succs[0], fn.Blocks[0].Succs[1]
				if inverted { // `if count != interval { count++ } else { check }`
					chk, other = other, chk
				}
				// select in chk
				var sel *ssa.Select
				for _, in := range chk.Instrs {
					if s, ok := in.(*ssa.Select); ok {
						sel = s
					}
				}
				if sel == nil {
					// the poll may live in a small method of the writer, called here
					for _, in := range chk.Instrs {
						call, ok := in.(*ssa.Call)
						if !ok {
							continue
						}
						if callee := call.Call.StaticCallee(); callee != nil && eng.IsModuleFunc(callee) && len(call.Call.Args) == 1 && eng.Render(call.Call.Args[0]) == "p0" && eng.PureHelper(callee) {
							eng.EachInstr(callee, func(i ssa.Instruction) {
								if s, ok := i.(*ssa.Select); ok {
									sel = s
								}
							})
						}
					}
				}
				okSel := sel != nil && !sel.Blocking && len(sel.States) == 1 && sel.States[0].Dir == 2 && loadOf(sel.States[0].Chan, "cancelled")
				_ = okSel
				if sel != nil {
					okSel = !sel.Blocking && len(sel.States) == 1 && loadOf(sel.States[0].Chan, "cancelled")
				}
				c.Check("R4", "due-check-polls-cancellation", chk.Instrs[0].Pos(), okSel, "when the counter reaches the interval the cancellation channel is polled (non-blocking receive)")
				// cancelled → return 0, ErrWritePreempted, no write
				okPre, okReset := false, false
				for _, r := range eng.Returns(fn) {
					res := eng.RetResults(r)
					if strings.Contains(eng.Render(res[1]), "stream.ErrWritePreempted") {
						g := eng.Guards(r)
						hit := false
						for _, a := range g {
							if strings.HasPrefix(a.Expr, "(selectnb(recv:p0.cancelled)#0 == 0)") && a.Pos {
								hit = true
							}
						}
						okPre = hit && constIs(res[0], 0) && !w.Block().Dominates(r.Block()) && r.Block() != w.Block()
					}
				}
				c.Check("R4", "cancelled-refuses-without-writing", fn.Pos(), okPre, "a pending cancellation makes the write fail with ErrWritePreempted and nothing is written")
				// reset in the not-cancelled continuation; +1 in the other branch
				okInc := false
				eng.EachInstr(fn, func(i ssa.Instruction) {
					st, ok := i.(*ssa.Store)
					if !ok {
						return
					}
					fa, ok := st.Addr.(*ssa.FieldAddr)
					if !ok || eng.FieldOf(fa).Name() != "writeCount" {
						return
					}
					if constIs(st.Val, 0) && chk.Dominates(st.Block()) {
						okReset = true
					} else if b, ok := st.Val.(*ssa.BinOp); ok && b.Op == token.ADD && loadOf(b.X, "writeCount") && constIs(b.Y, 1) && st.Block() == other {
						okInc = true
					} else {
						okReset, okInc = false, false
						c.Check("R4", "unexpected-counter-update", st.Pos(), false, "the counter is only reset after a check or incremented by one", eng.Render(st.Val))
					}
				})
				c.Check("R4", "counter-restarts-after-check", fn.Pos(), okReset, "after a check that found no cancellation the counter restarts at 0")
				// a refused write leaves the counter where it is (still due), so every
				// later write polls again and is refused too
				for _, r := range eng.Returns(fn) {
					if res := eng.RetResults(r); !strings.Contains(eng.Render(res[1]), "stream.ErrWritePreempted") {
						continue
					}
					touched := false
					eng.EachInstr(fn, func(i ssa.Instruction) {
						if st, ok := i.(*ssa.Store); ok {
							if fa, ok := st.Addr.(*ssa.FieldAddr); ok && eng.FieldOf(fa).Name() == "writeCount" && st.Block().Dominates(r.Block()) {
								touched = true
							}
						}
					})
					c.Check("R4", "refused-write-stays-due", r.Pos(), !touched, "the counter is not restarted on the way to a refusal: once preempted, every later write is checked and refused as well (nothing more goes downstream)")
				}
				c.Check("R4", "counter-increments-otherwise", fn.Pos(), okInc, "a write that is not due for a check increments the counter by exactly 1 (so a check happens at least every «interval»+1 writes)")
			}
			for _, r := range eng.Returns(fn) {
				if r.Block() == w.Block() {
					res := eng.RetResults(r)
					c.Check("R4", "forwards-data-and-result", r.Pos(), eng.Render(w.Call.Args[0]) == "p1" && extractOf(res[0], w, 0) && extractOf(res[1], w, 1), "an admitted write forwards the data and reports the downstream result")
				}
			}
		}
		c.Floor("R4", 6)
	}

	// ---------------- R5 valve ----------------
	if fn := c.MustFunc("R5", streamPkg, "ValveWriter.Write"); fn != nil {
		held := eng.HeldLocks(fn, eng.DefaultLockOps(), nil)
		ws := downstream(fn, "writer")
		if len(ws) != 1 {
			c.Problem("R5", "expected one downstream write in ValveWriter.Write, found %d", len(ws))
		} else {
			w := ws[0]
			g := eng.Guards(w)
			c.Check("R5", "forwards-only-when-open", w.Pos(), eng.HasAtom(g, `^\(p0\.writer == nil\)$`, false) && held[w]["p0.writerLock"] && eng.Render(w.Call.Args[0]) == "p1", "an open valve forwards the buffer, under the lock", atomsShort(g))
		}
		for _, r := range eng.Returns(fn) {
			g := eng.Guards(r)
			if eng.HasAtom(g, `^\(p0\.writer == nil\)$`, true) {
				res := eng.RetResults(r)
				c.Check("R5", "shut-valve-discards", r.Pos(), lenOf(res[0], "p1") && eng.IsNilConst(res[1]), "a shut valve reports the bytes as written and forwards nothing")
			}
		}
		eng.EachInstr(fn, func(i ssa.Instruction) {
			if fa, ok := i.(*ssa.FieldAddr); ok && eng.FieldOf(fa).Name() == "writer" {
				c.Check("R5", "write-reads-writer-under-lock", fa.Pos(), held[i]["p0.writerLock"], "the writer field is read under the lock")
			}
		})
	}
	if fn := c.MustFunc("R5", streamPkg, "ValveWriter.Shut"); fn != nil {
		held := eng.HeldLocks(fn, eng.DefaultLockOps(), nil)
		n := 0
		eng.EachInstr(fn, func(i ssa.Instruction) {
			if st, ok := i.(*ssa.Store); ok {
				if fa, ok := st.Addr.(*ssa.FieldAddr); ok && eng.FieldOf(fa).Name() == "writer" {
					n++
					c.Check("R5", "shut-clears-writer-under-lock", st.Pos(), eng.IsNilConst(st.Val) && held[i]["p0.writerLock"] && len(eng.Guards(st)) == 0, "Shut unconditionally stores nil, under the lock")
				}
			}
		})
		if n != 1 {
			c.Problem("R5", "expected one store in Shut, found %d", n)
		}
	}

	// ---------------- R6 multi-closer ----------------
	if fn := c.MustFunc("R6", streamPkg, "multiCloser.Close"); fn != nil {
		var hdr *ssa.BasicBlock
		for _, b := range fn.Blocks {
			if b.Comment == "rangeindex.loop" {
				hdr = b
			}
		}
		var cl *ssa.Call
		for _, ci := range eng.Calls(fn) {
			if cc := ci.Common(); cc.IsInvoke() && cc.Method.Name() == "Close" {
				cl, _ = ci.(*ssa.Call)
			}
		}
		if hdr == nil || cl == nil {
			c.Problem("R6", "loop or Close call not found in multiCloser.Close")
		} else {
			body := hdr.Succs[0]
			iff := hdr.Instrs[len(hdr.Instrs)-1].(*ssa.If)
			c.Check("R6", "ranges-over-all-closers", hdr.Instrs[0].Pos(), strings.HasSuffix(eng.Render(iff.Cond), "< len(p0.closers))") && strings.HasPrefix(eng.Render(cl.Call.Value), "p0.closers["), "the loop visits every element of the closer list")
			c.Check("R6", "close-unconditional-in-body", cl.Pos(), cl.Block() == body, "each visited closer is closed unconditionally")
			// no exit from the loop other than the header's done edge
			noExit := true
			for _, b := range fn.Blocks {
				if !hdr.Dominates(b) || b == hdr || !eng.Reachable(b, nil)[hdr] {
					continue
				}
				for _, s := range b.Succs {
					if !eng.Reachable(s, nil)[hdr] && s != hdr {
						noExit = false
					}
				}
				if len(b.Succs) == 0 {
					noExit = false
				}
			}
			c.Check("R6", "no-early-exit", fn.Pos(), noExit, "an error does not stop the remaining closers from being closed")
			// first error
			var fe *ssa.Phi
			for _, in := range hdr.Instrs {
				if phi, ok := in.(*ssa.Phi); ok && eng.TypeShort(phi.Type()) == "error" {
					fe = phi
				}
			}
			okFE := fe != nil
			if fe != nil {
				for j, e := range fe.Edges {
					p := hdr.Preds[j]
					switch {
					case !hdr.Dominates(p):
						okFE = okFE && eng.IsNilConst(e)
					case e == ssa.Value(fe):
					case e == ssa.Value(cl):
						ga := edgeGuards(p, hdr)
						nonNil, none := false, false
						for _, a := range ga {
							b, ok := a.V.(*ssa.BinOp)
							if !ok || !eng.IsNilConst(b.Y) {
								continue
							}
							if b.X == ssa.Value(cl) && !a.Pos {
								nonNil = true
							}
							if b.X == ssa.Value(fe) && a.Pos {
								none = true
							}
						}
						okFE = okFE && nonNil && none
					default:
						okFE = false
					}
				}
				for _, r := range eng.Returns(fn) {
					okFE = okFE && eng.RetResults(r)[0] == ssa.Value(fe)
				}
			}
			c.Check("R6", "first-error-kept-and-returned", fn.Pos(), okFE, "the error returned is the first non-nil one; later errors do not replace it")
		}
	}
}
