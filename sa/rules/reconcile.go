package rules

import (
	"fmt"
	"strings"

	"golang.org/x/tools/go/ssa"

	"verif/sa/eng"
)

// Shared extraction for the reconciliation handlers (C01, C02, C03, C06): every
// entry→return path of a handler is summarised as its branch atoms plus the
// emissions it performs (appends to reconciler.{ancestor,alpha,beta}Changes and
// conflicts, with the fields of the appended literal).

type emission struct {
	list   string // "ancestorChanges", "alphaChanges", "betaChanges", "conflicts"
	store  *ssa.Store
	fields map[string]ssa.Value // fields of the appended &Change{}/&Conflict{}
}

type handlerPath struct {
	path  eng.Path
	emits []emission
}

var reconcilerLists = []string{"ancestorChanges", "alphaChanges", "betaChanges", "conflicts"}

// emissionsIn finds the list appends performed in a block.
func emissionsIn(b *ssa.BasicBlock) []emission {
	var out []emission
	for _, st := range storesInBlock(b) {
		fa, ok := st.Addr.(*ssa.FieldAddr)
		if !ok {
			continue
		}
		f := eng.FieldOf(fa)
		if f == nil {
			continue
		}
		isList := false
		for _, l := range reconcilerLists {
			if f.Name() == l {
				isList = true
			}
		}
		if !isList || !strings.HasSuffix(eng.TypeShort(fa.X.Type()), "core.reconciler") {
			continue
		}
		e := emission{list: f.Name(), store: st}
		if call, ok := st.Val.(*ssa.Call); ok {
			if el := eng.AppendElems(call); len(el) == 1 {
				if lit := eng.LitOf(el[0]); lit != nil {
					e.fields = eng.LitFields(lit)
				}
			}
		}
		out = append(out, e)
	}
	return out
}

func handlerPaths(c *eng.Ctx, rule string, fn *ssa.Function) []handlerPath {
	// Expression-level contradiction pruning is sound here when the fields the
	// function stores to (the reconciler's result lists) are never read by a
	// branch condition; verify that instead of assuming it.
	byExpr := storesDisjointFromConditions(fn)
	if !byExpr {
		c.Note("%s: conditions read fields the function writes; infeasible paths are not pruned by expression", eng.FuncName(fn))
	}
	paths, complete := eng.EnumPathsOpt(fn.Blocks[0], nil, 20000, byExpr)
	if !complete {
		c.Problem(rule, "too many paths in %s", eng.FuncName(fn))
	}
	var out []handlerPath
	for _, p := range paths {
		hp := handlerPath{path: p}
		for _, b := range p.Blocks {
			hp.emits = append(hp.emits, emissionsIn(b)...)
		}
		out = append(out, hp)
	}
	return out
}

// Canonical renderings used by the reconcile rules. Handler parameters:
// p0=r, p1=path, p2=ancestor, p3=alpha, p4=beta.
const (
	rAncestor = "p2"
	rAlpha    = "p3"
	rBeta     = "p4"
)

func rSyn(x string) string { return "(*synchronization/core.Entry).synchronizable(" + x + ")" }
func rDiff(a, b string) string {
	return "synchronization/core.diff(p1, " + a + ", " + b + ")"
}
func rND(x string) string { return "synchronization/core.extractNonDeletionChanges(" + x + ")" }

func sideDiff(side string) string { return rDiff(rAncestor, rSyn(side)) }
func sideResidue(side string) string {
	return rDiff(rSyn(side), side)
}

// emptyRe: atom text for len(x)==0 (polarity true) in the forms the code uses.
func lenZeroAtom(p eng.Path, x string, wantEmpty bool) bool {
	for _, a := range p.Atoms {
		switch a.Expr {
		case "(len(" + x + ") == 0)":
			if a.Pos == wantEmpty {
				return true
			}
		case "(len(" + x + ") > 0)":
			if a.Pos == !wantEmpty {
				return true
			}
		}
	}
	return false
}

func modeAtom(c *eng.Ctx, mode string) string {
	modes, _ := c.P.ConstsOfType(corePkg, "SynchronizationMode")
	return fmt.Sprintf("(p0.mode == %d:SynchronizationMode)", modes["SynchronizationMode_SynchronizationMode"+mode])
}

func pathAtomEq(p eng.Path, expr string, pol bool) bool {
	for _, a := range p.Atoms {
		if (a.Expr == expr || a.Mirrored() == expr) && a.Pos == pol {
			return true
		}
	}
	return false
}

func emitKey(fn *ssa.Function, idx int, e emission) string {
	return fmt.Sprintf("%s/%s#%d", strings.TrimPrefix(eng.FuncName(fn), "(*synchronization/core.reconciler)."), e.list, idx)
}

// distinctEmitSites numbers the emission stores of a function in block order so
// that keys are stable (by order of appearance, not by line).
func distinctEmitSites(fn *ssa.Function) map[*ssa.Store]int {
	out := map[*ssa.Store]int{}
	n := map[string]int{}
	for _, b := range fn.Blocks {
		for _, e := range emissionsIn(b) {
			n[e.list]++
			out[e.store] = n[e.list]
		}
	}
	return out
}
