package rules

import (
	"fmt"
	"os"
	"sort"
	"strings"

	"verif/sa/eng"
)

// c24ReaderReasons (C24.R6): the complete list of reasons for which the reader
// goroutine (Multiplexer.read) tears the connection down, as read and confirmed
// on the pinned tree. R1–R5 show, reason by reason, that a conforming local
// sender cannot trigger them; that argument only covers the reasons that exist.
// A NEW reason (for instance rejecting window increments for a stream the peer
// has half-closed, which a conforming peer does send) must therefore be
// reported, as must a reason that disappears. Fingerprint = the deciding branch
// condition of every error return (normalised atoms, "¬" = false edge).
func c24ReaderReasons(c *eng.Ctx) {
	fn := c.MustFunc("R6", muxPkg, "Multiplexer.read")
	if fn == nil {
		return
	}
	var found []string
	for _, r := range eng.Returns(fn) {
		res := eng.RetResults(r)
		if eng.IsNilConst(res[len(res)-1]) {
			continue
		}
		kind := "any"
		for _, a := range eng.Guards(r) {
			if a.Pos && strings.HasPrefix(a.Expr, "(invoke:ReadByte(p1)#0 == ") && strings.HasSuffix(a.Expr, ":messageKind)") {
				kind = strings.TrimSuffix(strings.TrimPrefix(a.Expr, "(invoke:ReadByte(p1)#0 == "), ":messageKind)")
			}
		}
		found = append(found, "kind="+kind+": "+strings.Join(c21Deciding(r), " ∧ "))
	}
	sort.Strings(found)
	if os.Getenv("VERIF_C24_DUMP") != "" {
		for _, f := range found {
			fmt.Printf("\t%q,\n", f)
		}
	}
	want := append([]string(nil), c24ReaderTable...)
	sort.Strings(want)
	ws, fs := map[string]int{}, map[string]int{}
	for _, w := range want {
		ws[w]++
	}
	for _, f := range found {
		fs[f]++
	}
	var extra, missing []string
	for f, n := range fs {
		if n > ws[f] {
			extra = append(extra, f)
		}
	}
	for w, n := range ws {
		if n > fs[w] {
			missing = append(missing, w)
		}
	}
	sort.Strings(extra)
	sort.Strings(missing)
	for i, e := range extra {
		c.Check("R6", fmt.Sprintf("new-teardown-reason#%d", i+1), fn.Pos(), false, "the reader tears the connection down only for the reasons whose unreachability from a conforming sender was established", e)
	}
	for i, m := range missing {
		c.Check("R6", fmt.Sprintf("dropped-teardown-reason#%d", i+1), fn.Pos(), false, "every protocol violation the reader used to reject is still rejected", m)
	}
	c.Check("R6", "teardown-reasons-accounted", fn.Pos(), len(found) >= 20, "the reader's error returns were enumerated", fmt.Sprintf("%d error returns", len(found)))
}
