package rules

import (
	"go/token"
	"strings"

	"golang.org/x/tools/go/ssa"

	"verif/sa/eng"
)

// c38Unambiguous (C38.R5): a component the formatter leaves out when it is
// empty must never be produced "explicitly empty" by the parser, otherwise the
// formatted text re-parses differently:
//
//   - user: the formatters print `user@` only for a non-empty user, so the edge
//     on which a parser cuts the user out of the text (raw[:i] at the '@') must
//     be guarded by i ≠ 0 (an empty user before '@' is rejected);
//   - port: formatSSH prints `:port` for a non-zero port. parseSCPSSH accepts an
//     explicit zero port (existing behaviour, covered by the project's tests),
//     so either the edge that converts the parsed number is guarded by ≠ 0, or
//     the formatter must decide on the PATH as well (print the zero port when
//     the path could be read as a port specification).
func c38Unambiguous(c *eng.Ctx, parsed map[string]map[string]ssa.Value) {
	for _, proto := range []string{"SSH", "Docker"} {
		user := parsed[proto]["User"]
		if user == nil {
			continue
		}
		phi, ok := eng.Unwrap(user).(*ssa.Phi)
		if !ok {
			c.Check("R5", proto+"/explicit-user-non-empty", user.Pos(), false, "the user component is either absent or cut from the text before '@'", eng.Render(user))
			continue
		}
		n := 0
		var visit func(p *ssa.Phi, depth int)
		visit = func(p *ssa.Phi, depth int) {
			for _, e := range p.Edges {
				switch x := e.(type) {
				case *ssa.Phi:
					if depth < 3 && x != p {
						visit(x, depth+1)
					}
				case *ssa.Slice:
					n++
					okG := false
					for _, a := range eng.Guards(x) {
						if b, isB := a.V.(*ssa.BinOp); isB && (b.Op == token.EQL || b.Op == token.NEQ) && !a.Pos && b.X == x.High && constIs(b.Y, 0) {
							okG = true
						}
					}
					c.Check("R5", proto+"/explicit-user-non-empty", x.Pos(), okG && x.Low == nil && x.High != nil, "a user cut out of the text in front of '@' is non-empty (an empty user would vanish when the URL is formatted, and the text would re-parse differently)", atomsShort(eng.Guards(x)))
				}
			}
		}
		visit(phi, 0)
		if n == 0 {
			c.Problem("R5", "%s parser: no edge assigns the user from the text", proto)
		}
	}
	// port
	port := parsed["SSH"]["Port"]
	ff := c.MustFunc("R5", urlPkg, "URL.formatSSH")
	if port == nil || ff == nil {
		c.Problem("R5", "SSH port component not found")
		return
	}
	parserGuards := false
	if phi, ok := eng.Unwrap(port).(*ssa.Phi); ok {
		for _, e := range phi.Edges {
			cv, isCv := e.(*ssa.Convert)
			if !isCv {
				continue
			}
			for _, a := range eng.Guards(cv) {
				if b, isB := a.V.(*ssa.BinOp); isB && (b.Op == token.EQL || b.Op == token.NEQ) && !a.Pos && b.X == cv.X && constIs(b.Y, 0) {
					parserGuards = true
				}
			}
		}
	}
	// the formatter's decision to print the port looks at the path
	formatterLooksAtPath := false
	for _, call := range eng.CallsNamed(ff, "fmt.Sprintf") {
		uses := false
		for _, e := range eng.VarargElems(call.Common()) {
			if r := eng.Render(e); r == "p0.Port" || r == "conv:uint32(p0.Port)" {
				uses = true
			}
		}
		if !uses {
			continue
		}
		// the block printing the port is reached from a test on the port and, on
		// the zero-port side, from a test involving p0.Path
		for _, p := range call.Block().Preds {
			for _, a := range edgeGuards(p, call.Block()) {
				if strings.Contains(a.Expr, "p0.Path") {
					formatterLooksAtPath = true
				}
			}
		}
	}
	c.Check("R5", "SSH/zero-port-unambiguous", ff.Pos(), parserGuards || formatterLooksAtPath,
		"an explicit zero port cannot silently disappear: the parser refuses it, or the formatter prints it when the path could be read as a port")
	c.Floor("R5", 3)
}
