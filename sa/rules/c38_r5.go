package rules

import (
	"fmt"
	"go/token"
	"strings"

	"golang.org/x/tools/go/ssa"

	"verif/sa/eng"
)

// c38Unambiguous (C38.R5): a component the formatter leaves out when it is
// empty must never be produced "explicitly empty" by the parser, otherwise the
// formatted text re-parses differently:
//
//   - user: the formatters print `user@` only for a non-empty user, so the edge
//     on which a parser cuts the user out of the text (raw[:i] at the '@') must
//     be guarded by i ≠ 0 (an empty user before '@' is rejected);
//   - port: formatSSH prints `:port` for a non-zero port. parseSCPSSH accepts an
//     explicit zero port (existing behaviour, covered by the project's tests),
//     so either the edge that converts the parsed number is guarded by ≠ 0, or
//     the formatter must decide on the PATH as well (print the zero port when
//     the path could be read as a port specification).
func c38Unambiguous(c *eng.Ctx, parsed map[string]map[string]ssa.Value) {
	for _, proto := range []string{"SSH", "Docker"} {
		user := parsed[proto]["User"]
		if user == nil {
			continue
		}
		phi, ok := eng.Unwrap(user).(*ssa.Phi)
		if !ok {
			c.Check("R5", proto+"/explicit-user-non-empty", user.Pos(), false, "the user component is either absent or cut from the text before '@'", eng.Render(user))
			continue
		}
		n := 0
		var visit func(p *ssa.Phi, depth int)
		visit = func(p *ssa.Phi, depth int) {
			for _, e := range p.Edges {
				switch x := e.(type) {
				case *ssa.Phi:
					if depth < 3 && x != p {
						visit(x, depth+1)
					}
				case *ssa.Slice:
					n++
					okG := false
					for _, a := range eng.Guards(x) {
						if b, isB := a.V.(*ssa.BinOp); isB && (b.Op == token.EQL || b.Op == token.NEQ) && !a.Pos && b.X == x.High && constIs(b.Y, 0) {
							okG = true
						}
					}
					c.Check("R5", proto+"/explicit-user-non-empty", x.Pos(), okG && x.Low == nil && x.High != nil, "a user cut out of the text in front of '@' is non-empty (an empty user would vanish when the URL is formatted, and the text would re-parse differently)", atomsShort(eng.Guards(x)))
				}
			}
		}
		visit(phi, 0)
		if n == 0 {
			c.Problem("R5", "%s parser: no edge assigns the user from the text", proto)
		}
	}
	// port
	port := parsed["SSH"]["Port"]
	ff := c.MustFunc("R5", urlPkg, "URL.formatSSH")
	if port == nil || ff == nil {
		c.Problem("R5", "SSH port component not found")
		return
	}
	parserGuards := false
	if phi, ok := eng.Unwrap(port).(*ssa.Phi); ok {
		for _, e := range phi.Edges {
			cv, isCv := e.(*ssa.Convert)
			if !isCv {
				continue
			}
			for _, a := range eng.Guards(cv) {
				if b, isB := a.V.(*ssa.BinOp); isB && (b.Op == token.EQL || b.Op == token.NEQ) && !a.Pos && b.X == cv.X && constIs(b.Y, 0) {
					parserGuards = true
				}
			}
		}
	}
	// the formatter's decision to print the port looks at the path
	formatterLooksAtPath := false
	for _, call := range eng.CallsNamed(ff, "fmt.Sprintf") {
		uses := false
		for _, e := range eng.VarargElems(call.Common()) {
			if r := eng.Render(e); r == "p0.Port" || r == "conv:uint32(p0.Port)" {
				uses = true
			}
		}
		if !uses {
			continue
		}
		// the block printing the port is reached from a test on the port and, on
		// the zero-port side, from a test involving p0.Path
		for _, p := range call.Block().Preds {
			for _, a := range edgeGuards(p, call.Block()) {
				if strings.Contains(a.Expr, "p0.Path") {
					formatterLooksAtPath = true
				}
			}
		}
	}
	c.Check("R5", "SSH/zero-port-unambiguous", ff.Pos(), parserGuards || formatterLooksAtPath,
		"an explicit zero port cannot silently disappear: the parser refuses it, or the formatter prints it when the path could be read as a port")
	c.Floor("R5", 3)
}

// c38Delimited (C38.R6): formatSSH prints the host verbatim and follows it with
// ':'. The text therefore reads back as the same host only if a parsed host
// can never contain ':' — structurally: every value parseSCPSSH can return as
// Host is "" (rejected later) or the prefix raw[:i] cut at the range index i of a
// loop iteration that saw r == ':' (the FIRST colon, since the loop breaks
// there). A second source for the host (say, the inside of a bracketed literal,
// colons included) parses but does not survive formatting.
func c38Delimited(c *eng.Ctx, parsed map[string]map[string]ssa.Value) {
	host := parsed["SSH"]["Host"]
	if host == nil {
		c.Problem("R6", "SSH host component not found")
		return
	}
	n := 0
	seen := map[ssa.Value]bool{}
	var visit func(v ssa.Value, depth int)
	visit = func(v ssa.Value, depth int) {
		v = eng.Unwrap(v)
		if seen[v] || depth > 4 {
			return
		}
		seen[v] = true
		switch x := v.(type) {
		case *ssa.Phi:
			for _, e := range x.Edges {
				visit(e, depth+1)
			}
		case *ssa.Const:
			// "" — the «no host found» value, rejected by the emptiness test (R4)
		case *ssa.Slice:
			n++
			atColon := false
			for _, a := range eng.Guards(x) {
				if b, ok := a.V.(*ssa.BinOp); ok && a.Pos && b.Op == token.EQL && constIs(b.Y, ':') {
					atColon = true
				}
			}
			// equivalent: raw[:strings.IndexByte(raw, ':')] (first occurrence by definition)
			if call, ok := eng.Unwrap(x.High).(*ssa.Call); ok && len(call.Call.Args) == 2 && eng.Render(call.Call.Args[0]) == eng.Render(x.X) {
				switch eng.CalleeName(call) {
				case "strings.IndexByte", "strings.IndexRune":
					atColon = constIs(call.Call.Args[1], ':')
				case "strings.Index":
					atColon = eng.Render(call.Call.Args[1]) == `":"`
				}
			}
			c.Check("R6", "SSH/host-stops-at-first-colon", x.Pos(), x.Low == nil && x.High != nil && atColon, "the host is the text in front of the first ':' (it can contain no ':' itself, so host + ':' reads back as the same host)", eng.Render(x)[:min(120, len(eng.Render(x)))])
		default:
			n++
			c.Check("R6", "SSH/host-stops-at-first-colon", v.Pos(), false, "the host is the text in front of the first ':'", eng.Render(v)[:min(120, len(eng.Render(v)))])
		}
	}
	visit(host, 0)
	if n == 0 {
		c.Problem("R6", "SSH parser: no edge assigns the host from the text")
	}
}

// c38DockerPathStrip (C38.R7): parseDocker drops the first byte of a
// synchronization path in exactly the two cases for which formatDocker puts a
// '/' back — a home-relative path (`/~…`, second byte '~') and a Windows path
// (`/C:\…`, isWindowsPath of the remainder) — and drops the split character of a
// forwarding endpoint (formatDocker re-adds ':'). Any other shortening of the
// path (collapsing slashes, trimming, cleaning) is not undone by the formatter:
// the formatted text is then parsed a second time by those same two tests and
// can come back as a different path.
func c38DockerPathStrip(c *eng.Ctx, parsed map[string]map[string]ssa.Value) {
	path := parsed["Docker"]["Path"]
	if path == nil {
		c.Problem("R7", "Docker path component not found")
		return
	}
	kinds, _ := c.P.ConstsOfType(urlPkg, "Kind")
	n := 0
	seen := map[ssa.Value]bool{}
	var visit func(v ssa.Value, depth int)
	visit = func(v ssa.Value, depth int) {
		v = eng.Unwrap(v)
		if seen[v] || depth > 8 {
			return
		}
		seen[v] = true
		switch x := v.(type) {
		case *ssa.Phi:
			for _, e := range x.Edges {
				visit(e, depth+1)
			}
		case *ssa.Slice:
			if x.High == nil && constIs(x.Low, 1) {
				n++
				ok := false
				g := eng.Guards(x)
				for _, a := range g {
					if !a.Pos {
						continue
					}
					if b, isB := a.V.(*ssa.BinOp); isB && b.Op == token.EQL && constIs(b.Y, '~') {
						ok = true
					}
					if strings.HasPrefix(a.Expr, "url.isWindowsPath(") {
						ok = true
					}
					if strings.HasSuffix(a.Expr, fmt.Sprintf(" == %d:Kind)", kinds["Kind_Forwarding"])) {
						ok = true
					}
				}
				c.Check("R7", "Docker/path-strip-mirrors-format", x.Pos(), ok, "the path loses its first byte only where formatDocker puts it back: '/~…', '/<windows path>', or the ':' of a forwarding endpoint", atomsShort(g))
			}
			visit(x.X, depth+1)
		}
	}
	visit(path, 0)
	if n < 3 {
		c.Problem("R7", "expected the three first-byte strips of parseDocker (home-relative, Windows, forwarding), found %d", n)
	}
}
