package rules

import (
	"go/types"

	"golang.org/x/tools/go/ssa"

	"verif/sa/eng"
)

// c22NoRetain decides R5, the io.Writer contract along the control-stream
// chain: «Write must not retain p». The encoder and the bufio layers reuse their
// buffers, so a Write method (of a compressor, a flusher, a wrapper …) that keeps
// a view of its argument in receiver state sees later messages' bytes there — a
// compressor that uses such a view as its dictionary emits back-references the
// peer resolves against different history, and the message decodes to garbage.
func c22NoRetain(c *eng.Ctx) {
	isViewOf := func(v ssa.Value, p *ssa.Parameter) bool {
		for i := 0; i < 8; i++ {
			v = eng.Unwrap(v)
			if v == ssa.Value(p) {
				return true
			}
			sl, ok := v.(*ssa.Slice)
			if !ok {
				return false
			}
			v = sl.X
		}
		return false
	}
	n := 0
	for _, pkg := range []string{compressionPkg, streamPkg, encodingPkg} {
		for _, fn := range c.P.ModuleFuncs(pkg) {
			if fn.Name() != "Write" || fn.Signature.Recv() == nil || len(fn.Params) != 2 {
				continue
			}
			sl, ok := fn.Params[1].Type().Underlying().(*types.Slice)
			if !ok {
				continue
			}
			if b, ok := sl.Elem().Underlying().(*types.Basic); !ok || b.Kind() != types.Byte {
				continue
			}
			n++
			c.Analysed(fn)
			p := fn.Params[1]
			var kept ssa.Instruction
			eng.EachInstr(fn, func(i ssa.Instruction) {
				switch x := i.(type) {
				case *ssa.Store:
					switch x.Addr.(type) {
					case *ssa.FieldAddr, *ssa.Global, *ssa.IndexAddr:
						if isViewOf(x.Val, p) {
							kept = i
						}
					}
				case *ssa.MapUpdate:
					if isViewOf(x.Value, p) {
						kept = i
					}
				case *ssa.Send:
					if isViewOf(x.X, p) {
						kept = i
					}
				}
			})
			pos := fn.Pos()
			if kept != nil {
				pos = kept.Pos()
			}
			c.Check("R5", "write-does-not-retain:"+eng.FuncName(fn), pos, kept == nil, "Write does not keep a view of its argument in state that outlives the call (io.Writer: «Write must not retain p»)")
		}
	}
	if n < 3 {
		c.Problem("R5", "expected ≥3 Write methods along the control-stream chain, found %d", n)
	}
}
