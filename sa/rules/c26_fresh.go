package rules

import (
	"fmt"
	"go/token"
	"strings"

	"golang.org/x/tools/go/ssa"

	"verif/sa/eng"
)

// c26FreshOccupancy (C26.R6): inside a loop that changes the buffer's occupancy
// (stores to used or start), every bound is computed from the occupancy as it is
// in THAT iteration. A value derived from a load of used/start executed before
// the loop and then used inside the loop is stale after the first iteration —
// the free segment computed from it can extend into unread data. (Feeding such
// a value into a loop-carried variable that the loop itself updates is fine.)
func c26FreshOccupancy(c *eng.Ctx) {
	n := 0
	for _, fn := range c.P.ModuleFuncs(ringPkg) {
		if !strings.HasPrefix(eng.FuncName(fn), "(*multiplexing/ring.Buffer).") || fn.Blocks == nil {
			continue
		}
		for _, hdr := range fn.Blocks {
			isHeader := false
			for _, p := range hdr.Preds {
				if hdr.Dominates(p) {
					isHeader = true
				}
			}
			if !isHeader {
				continue
			}
			loop := eng.FindLoop(hdr)
			changed := map[string]bool{}
			for b := range loop.Body {
				for _, in := range b.Instrs {
					if st, ok := in.(*ssa.Store); ok {
						if f := eng.FieldOf(st.Addr); f != nil && (f.Name() == "used" || f.Name() == "start") {
							changed[f.Name()] = true
						}
					}
				}
			}
			if len(changed) == 0 {
				continue
			}
			n++
			stale := ""
			eng.EachInstr(fn, func(i ssa.Instruction) {
				u, ok := i.(*ssa.UnOp)
				if !ok || u.Op != token.MUL || loop.Body[u.Block()] {
					return
				}
				f := eng.FieldOf(u.X)
				if f == nil || !changed[f.Name()] {
					return
				}
				// follow uses
				seen := map[ssa.Value]bool{}
				var walk func(v ssa.Value, depth int)
				walk = func(v ssa.Value, depth int) {
					if depth > 8 || seen[v] || v.Referrers() == nil {
						return
					}
					seen[v] = true
					for _, r := range *v.Referrers() {
						if phi, isPhi := r.(*ssa.Phi); isPhi && phi.Block() == hdr {
							continue // initial value of a loop-carried variable
						}
						if loop.Body[r.Block()] {
							if _, isDbg := r.(*ssa.DebugRef); !isDbg {
								stale = fmt.Sprintf("%s (loaded before the loop) is used inside it: %s", eng.Render(u), c.P.Pos(r.Pos()))
							}
							continue
						}
						if rv, isVal := r.(ssa.Value); isVal {
							walk(rv, depth+1)
						}
					}
				}
				walk(u, 0)
			})
			c.Check("R6", "fresh-occupancy-in-loop:"+strings.TrimPrefix(eng.FuncName(fn), "(*multiplexing/ring.Buffer)."), hdr.Instrs[0].Pos(), stale == "", "bounds inside a loop that changes the occupancy are computed from the current occupancy, not from a value read before the loop", stale)
		}
	}
	if n < 1 {
		c.Problem("R6", "no occupancy-changing loop found in package ring")
	}
}
