package rules

import (
	"fmt"
	"go/token"
	"strings"

	"golang.org/x/tools/go/ssa"

	"verif/sa/eng"
)

// lmwSpec describes one last-match-wins evaluation loop (the Mutagen-style
// ignorer and the vendored Docker pattern matcher are siblings of this shape).
type lmwSpec struct {
	negField   string // pattern field: "negated" / "exclusion"
	countField string // receiver field holding the number of negated patterns
	matchCall  string // callee short name of the per-pattern match
	matchIsErr bool   // match returns (bool, error)
	matched    int64  // status constant for "ignored / matched"
	inverted   int64  // status constant for "unignored / inverted"
	statusType string
}

// lastMatchWinsLoop decides the loop's skip structure, status updates and the
// remaining-negations counter on every path through one iteration.
func lastMatchWinsLoop(c *eng.Ctx, rule string, fn *ssa.Function, sp lmwSpec) {
	// Header: the block with a phi of the status type.
	var status, remaining *ssa.Phi
	for _, b := range fn.Blocks {
		for _, in := range b.Instrs {
			phi, ok := in.(*ssa.Phi)
			if !ok {
				break
			}
			if strings.HasSuffix(eng.TypeShort(phi.Type()), sp.statusType) && eng.FindLoop(b) != nil && status == nil {
				status = phi
			}
		}
	}
	if status == nil {
		c.Problem(rule, "status accumulator not found in %s", eng.FuncName(fn))
		return
	}
	hdr := status.Block()
	for _, in := range hdr.Instrs {
		if phi, ok := in.(*ssa.Phi); ok && phi != status {
			for _, e := range phi.Edges {
				if strings.HasSuffix(eng.Render(e), "."+sp.countField) {
					remaining = phi
				}
			}
		}
	}
	if remaining == nil {
		c.Problem(rule, "remaining-negations counter (initialised from %s) not found in %s", sp.countField, eng.FuncName(fn))
		return
	}
	loop := eng.FindLoop(hdr)
	// initial values
	for i, e := range status.Edges {
		if !loop.Body[hdr.Preds[i]] {
			v, ok := eng.ConstInt64(e)
			c.Check(rule, "status-starts-nominal", status.Pos(), ok && v == 0, "evaluation starts from the nominal status")
		}
	}
	var bodyEntry *ssa.BasicBlock
	for _, s := range hdr.Succs {
		if loop.Body[s] {
			bodyEntry = s
		}
	}
	// Two loads of pattern.negated in one iteration agree because the function
	// writes no memory at all (verified): prune contradictory paths by expression.
	paths, complete := eng.EnumPathsOpt(bodyEntry, func(b *ssa.BasicBlock) bool { return b == hdr || !loop.Body[b] }, 20000, eng.NoFieldStores(fn))
	if !complete {
		c.Problem(rule, "too many paths through the evaluation loop")
		return
	}
	isStatusTest := func(a eng.Atom, k int64) bool {
		b, ok := a.V.(*ssa.BinOp)
		if !ok || b.Op != token.EQL && b.Op != token.NEQ {
			return false
		}
		v, isC := eng.ConstInt64(b.Y)
		return b.X == ssa.Value(status) && isC && v == k
	}
	nSkip, nEval := 0, 0
	for _, p := range paths {
		var sMatched, sInverted, remZero, neg, matched *bool
		set := func(dst **bool, v bool) { x := v; *dst = &x }
		called := false
		for _, b := range p.Blocks {
			for _, in := range b.Instrs {
				if call, ok := in.(*ssa.Call); ok && eng.CalleeName(call) == sp.matchCall {
					called = true
				}
			}
		}
		for _, a := range p.Atoms {
			switch {
			case isStatusTest(a, sp.matched):
				set(&sMatched, a.Pos)
			case isStatusTest(a, sp.inverted):
				set(&sInverted, a.Pos)
			case strings.HasSuffix(a.Expr, "."+sp.negField):
				set(&neg, a.Pos)
			case strings.HasPrefix(a.Expr, sp.matchCall+"("), strings.HasPrefix(a.Expr, "("+sp.matchCall+"(") && strings.HasSuffix(a.Expr, "#0"):
				set(&matched, a.Pos)
			default:
				if b, ok := a.V.(*ssa.BinOp); ok && b.X == ssa.Value(remaining) {
					if z, isZ := eng.ConstInt64(b.Y); isZ && z == 0 && (b.Op == token.EQL || b.Op == token.NEQ) {
						set(&remZero, a.Pos)
					}
				}
				if sp.matchIsErr && strings.HasPrefix(a.Expr, sp.matchCall+"(") && strings.HasSuffix(a.Expr, "#0") {
					set(&matched, a.Pos)
				}
			}
		}
		is := func(b *bool, v bool) bool { return b != nil && *b == v }
		leaves := p.Last() != hdr
		if leaves {
			// panic edge of an erroring match is fine; a break needs matched-status ∧ no negations left
			last := p.Last()
			if _, isPanic := last.Instrs[len(last.Instrs)-1].(*ssa.Panic); isPanic {
				continue
			}
			c.Check(rule, "early-exit", last.Instrs[0].Pos(), !called && is(sMatched, true) && is(remZero, true), "evaluation stops early only when the path is ignored and no negated pattern remains", atomsShort(p.Atoms))
			continue
		}
		newStatus := p.Resolve(p.PhiOn(status))
		d, okD := p.IntDelta(p.PhiOn(remaining), remaining)
		// counter
		wantD := int64(0)
		if is(neg, true) {
			wantD = -1
		}
		c.Check(rule, "remaining-counter", hdr.Instrs[0].Pos(), okD && d == wantD, "the remaining-negations counter drops by one exactly for negated patterns", fmt.Sprintf("delta=%d ok=%v atoms: %s", d, okD, atomsShort(p.Atoms)))
		if !called {
			nSkip++
			justified := (is(neg, true) && is(sInverted, true)) || (is(neg, false) && is(sMatched, true))
			c.Check(rule, "skip-justified", hdr.Instrs[0].Pos(), justified, "a pattern is skipped without matching only if it could not change the outcome (same polarity as the current status)", atomsShort(p.Atoms))
			c.Check(rule, "skip-keeps-status", hdr.Instrs[0].Pos(), newStatus == ssa.Value(status), "a skipped pattern leaves the status unchanged")
			continue
		}
		nEval++
		switch {
		case is(matched, true) && is(neg, true):
			v, ok := eng.ConstInt64(newStatus)
			c.Check(rule, "match-negated", hdr.Instrs[0].Pos(), ok && v == sp.inverted, "a matching negated pattern sets the un-ignored status (last match wins)", eng.Render(newStatus))
		case is(matched, true) && is(neg, false):
			v, ok := eng.ConstInt64(newStatus)
			c.Check(rule, "match-plain", hdr.Instrs[0].Pos(), ok && v == sp.matched, "a matching plain pattern sets the ignored status (last match wins)", eng.Render(newStatus))
		case is(matched, false):
			c.Check(rule, "no-match", hdr.Instrs[0].Pos(), newStatus == ssa.Value(status), "a non-matching pattern leaves the status unchanged")
		default:
			c.Check(rule, "unclassified-path", hdr.Instrs[0].Pos(), false, "every evaluated path tests the match result and the pattern polarity", atomsShort(p.Atoms))
		}
	}
	if nSkip < 2 || nEval < 3 {
		c.Problem(rule, "loop classes incomplete in %s: skip=%d evaluated=%d", eng.FuncName(fn), nSkip, nEval)
	}
}
