package rules

import (
	"fmt"
	"strings"

	"golang.org/x/tools/go/ssa"

	"verif/sa/eng"
)

func init() {
	eng.Register(&eng.Property{
		ID:       "C29",
		Title:    "Session lifecycle commands take effect exactly as documented",
		Packages: []string{syncPkg},
		Explanation: "(R1, lockset) controller.disabled/cancel/flushRequests/done are written only with lifecycleLock held — including through the lifecycleLockHeld-parameter idiom, whose callers pass true exactly when they hold the lock; resume, halt and reset never release the lifecycle lock explicitly between their checks and their effects (lock continuity: only the deferred unlock); " +
			"(R5 addition) every successful way through halt did its mode's work — pause: Paused=true persisted; shutdown: controller disabled; terminate: controller disabled and both files removed — whatever state the session was in (no «already paused, nothing to do» exit); " +
			"(R2) halt cancels the running loop and waits for its done channel before it persists anything, disables the controller or removes files, on every path where a loop exists; " +
			"(R3) pause and resume store Paused and save the session file, and report success only if that save succeeded; " +
			"(R4) the synchronization loop is started (go controller.run) only for sessions that are not paused, at creation and at load; " +
			"(R5) terminate disables the controller and removes both the session and the archive file; the manager forgets a terminated session; " +
			"(R6, flush) the loop receives flush requests at exactly one place (the polling select), forces full scans on both endpoints exactly when a request is pending, and answers the request at exactly one place — after the scans of that same iteration and after counting the cycle as successful — then forgets it; " +
			"(R7) reset performs no endpoint operation and overwrites the archive with an empty one between pausing and resuming, all under the lifecycle lock. " +
			"Not decided: behaviour under actual interleavings; that connect() cannot start a loop for a paused session beyond R1/R4.",
		Assumptions: []string{"sync.Mutex semantics"},
		Run:         runC29,
	})
}

func runC29(c *eng.Ctx) {
	ctl := "(*synchronization.controller)."
	locksetRuleX(c, "R1", []string{syncPkg},
		[]fieldGuard{
			{syncPkg, "controller", "disabled", "lifecycleLock", true},
			{syncPkg, "controller", "cancel", "lifecycleLock", true},
			{syncPkg, "controller", "flushRequests", "lifecycleLock", true},
			{syncPkg, "controller", "done", "lifecycleLock", true},
		},
		nil,
		map[string][]string{
			ctl + "resume": {"p0.lifecycleLock?3"},
			ctl + "halt":   {"p0.lifecycleLock?4"},
		}, eng.DefaultLockOps(), nil)
	for _, m := range []string{"resume", "halt", "reset"} {
		fn := c.MustFunc("R1", syncPkg, "controller."+m)
		if fn == nil {
			continue
		}
		explicit := 0
		nLock := 0
		for _, call := range eng.Calls(fn) {
			if _, isDefer := call.(*ssa.Defer); isDefer {
				continue
			}
			if eng.CalleeName(call) == "(*sync.Mutex).Unlock" && eng.Render(call.Common().Args[0]) == "&p0.lifecycleLock" {
				explicit++
			}
			if eng.CalleeName(call) == "(*sync.Mutex).Lock" && eng.Render(call.Common().Args[0]) == "&p0.lifecycleLock" {
				nLock++
			}
		}
		c.Check("R1", "lock-continuity:"+m, fn.Pos(), explicit == 0 && nLock <= 1, m+" holds the lifecycle lock continuously from its checks to its effects (no explicit unlock/relock)", fmt.Sprintf("explicit unlocks=%d locks=%d", explicit, nLock))
		// the conditional acquisition is keyed on the flag parameter
		if m != "reset" {
			for _, call := range eng.Calls(fn) {
				if _, isDefer := call.(*ssa.Defer); !isDefer && eng.CalleeName(call) == "(*sync.Mutex).Lock" && eng.Render(call.Common().Args[0]) == "&p0.lifecycleLock" {
					flag := fmt.Sprintf("p%d", len(fn.Params)-1)
					c.Check("R1", "self-lock-iff-not-held:"+m, call.Pos(), eng.HasAtom(eng.Guards(call), "^"+flag+"$", false), m+" takes the lock itself exactly when told the caller does not hold it")
				}
			}
		}
	}
	c.Floor("R1", 12)

	halt := c.MustFunc("R2", syncPkg, "controller.halt")
	resume := c.MustFunc("R3", syncPkg, "controller.resume")
	if halt == nil || resume == nil {
		return
	}
	// R2: effects in halt and the cancel/wait before them.
	isEffect := func(in ssa.Instruction) string {
		switch x := in.(type) {
		case *ssa.Call:
			n := eng.CalleeName(x)
			if n == "encoding.MarshalAndSaveProtobuf" || n == "os.Remove" {
				return n
			}
		case *ssa.Store:
			if fa, ok := x.Addr.(*ssa.FieldAddr); ok {
				if f := eng.FieldOf(fa).Name(); f == "disabled" || f == "Paused" {
					return "store " + f
				}
			}
		}
		return ""
	}
	for _, fn := range []*ssa.Function{halt, resume} {
		short := strings.TrimPrefix(eng.FuncName(fn), ctl)
		var effBlocks []*ssa.BasicBlock
		for _, b := range fn.Blocks {
			for _, in := range b.Instrs {
				if isEffect(in) != "" {
					effBlocks = append(effBlocks, b)
					break
				}
			}
		}
		bad, n := 0, 0
		for _, eb := range effBlocks {
			paths, complete := eng.EnumPathsOpt(fn.Blocks[0], func(b *ssa.BasicBlock) bool { return b == eb }, 20000, true)
			if !complete {
				c.Problem("R2", "too many paths in %s", short)
			}
			for _, p := range paths {
				if p.Last() != eb {
					continue
				}
				running := pathAtomEq(p, "(p0.cancel == nil)", false)
				if !running {
					continue
				}
				n++
				cancelled, waited := false, false
				for _, b := range p.Blocks[:len(p.Blocks)-1] {
					for _, in := range b.Instrs {
						if call, ok := in.(*ssa.Call); ok && eng.RenderCall(&call.Call) == "dyn:p0.cancel()" {
							cancelled = true
						}
						if u, ok := in.(*ssa.UnOp); ok && cancelled && eng.Render(u) == "recv(p0.done)" {
							waited = true
						}
					}
				}
				if !(cancelled && waited) {
					bad++
				}
			}
		}
		c.Check("R2", "stop-loop-before-effects:"+short, fn.Pos(), n > 0 && bad == 0, short+" cancels a running loop and waits for it to finish before persisting, disabling or removing anything", fmt.Sprintf("%d of %d running-loop paths skip the cancel/wait", bad, n))
	}

	// R3.
	for _, x := range []struct {
		fn   *ssa.Function
		want bool
	}{{halt, true}, {resume, false}} {
		short := strings.TrimPrefix(eng.FuncName(x.fn), ctl)
		var store *ssa.Store
		eng.EachInstr(x.fn, func(i ssa.Instruction) {
			if st, ok := i.(*ssa.Store); ok {
				if fa, ok := st.Addr.(*ssa.FieldAddr); ok && eng.FieldOf(fa).Name() == "Paused" {
					store = st
				}
			}
		})
		if store == nil {
			c.Check("R3", "paused-stored:"+short, x.fn.Pos(), false, short+" records the paused flag")
			continue
		}
		v, isC := eng.ConstBool(store.Val)
		c.Check("R3", "paused-stored:"+short, store.Pos(), isC && v == x.want, fmt.Sprintf("%s sets Paused=%v", short, x.want))
		var save *ssa.Call
		for _, call := range eng.CallsNamed(x.fn, "encoding.MarshalAndSaveProtobuf") {
			if eng.Render(call.Common().Args[0]) == "p0.sessionPath" && eng.Render(call.Common().Args[1]) == "p0.session" {
				save, _ = call.(*ssa.Call)
			}
		}
		okSave := save != nil && store.Block().Dominates(save.Block()) && (store.Block() != save.Block() || eng.InstrIndex(store) < eng.InstrIndex(save))
		c.Check("R3", "paused-saved:"+short, store.Pos(), okSave, short+" saves the session file after changing the flag")
		if save != nil {
			// a nil return reachable after the save requires saveErr == nil
			okRet := true
			nret := 0
			for _, p := range pathsToNilReturns(c, "R3", x.fn, 50000) {
				if !p.Contains(save.Block()) {
					continue
				}
				nret++
				if !pathHas(p, `^\(`+eng.Q(eng.Render(save))+` == nil\)$`, true) {
					okRet = false
				}
			}
			c.Check("R3", "success-requires-save:"+short, save.Pos(), okRet && nret > 0, short+" reports success only if the session file was saved")
		}
	}

	// R4.
	for _, fnName := range []string{"newSession", "loadSession"} {
		fn := c.MustFunc("R4", syncPkg, fnName)
		if fn == nil {
			continue
		}
		n := 0
		eng.EachInstr(fn, func(i ssa.Instruction) {
			g, ok := i.(*ssa.Go)
			if !ok || !strings.HasSuffix(eng.CalleeName(g), "controller).run") {
				return
			}
			n++
			gs := eng.Guards(g)
			ok2 := false
			for _, a := range gs {
				if !a.Pos && (strings.HasSuffix(a.Expr, ".Paused") || a.Expr == "p11") {
					ok2 = true
				}
			}
			c.Check("R4", "loop-started-only-if-not-paused:"+fnName, g.Pos(), ok2, fnName+" starts the loop only for a session that is not paused", atomsShort(gs))
		})
		if n != 1 {
			c.Problem("R4", "%s: expected one `go controller.run`, found %d", fnName, n)
		}
	}
	// the Paused field persisted at creation equals the paused parameter
	if ns := c.MustFunc("R4", syncPkg, "newSession"); ns != nil {
		eng.EachInstr(ns, func(i ssa.Instruction) {
			if st, ok := i.(*ssa.Store); ok {
				if fa, ok := st.Addr.(*ssa.FieldAddr); ok && eng.FieldOf(fa).Name() == "Paused" {
					c.Check("R4", "created-paused-flag", st.Pos(), eng.Render(st.Val) == "p11", "a session created paused is persisted as paused", eng.Render(st.Val))
				}
			}
		})
	}

	// R5.
	var removes []string
	for _, call := range eng.CallsNamed(halt, "os.Remove") {
		g := eng.Guards(call)
		removes = append(removes, eng.Render(call.Common().Args[0]))
		c.Check("R5", "remove-only-on-terminate", call.Pos(), eng.HasAtom(g, `^\(p2 == 2:controllerHaltMode\)$`, true), "files are removed only in terminate mode", atomsShort(g))
	}
	c.Check("R5", "terminate-removes-both-files", halt.Pos(), strings.Join(removes, ",") == "p0.sessionPath,p0.archivePath" || strings.Join(removes, ",") == "p0.archivePath,p0.sessionPath", "terminate removes the session file and the archive", strings.Join(removes, ","))
	eng.EachInstr(halt, func(i ssa.Instruction) {
		if st, ok := i.(*ssa.Store); ok {
			if fa, ok := st.Addr.(*ssa.FieldAddr); ok && eng.FieldOf(fa).Name() == "disabled" {
				g := eng.Guards(st)
				c.Check("R5", "disabled-on-shutdown-or-terminate", st.Pos(), eng.HasAtom(g, `^\(p2 == [12]:controllerHaltMode\)$`, true), "the controller is disabled by shutdown and terminate only")
			}
		}
	})
	// Success means the mode's work was done: every way through halt that
	// returns nil either is a pause that persisted Paused=true, a shutdown that
	// disabled the controller, or it disabled the controller and removed both
	// files (no early «nothing to do» exit may skip the terminate work).
	{
		paths := pathsToNilReturns(c, "R5", halt, 20000)
		bad, why := 0, ""
		for _, p := range paths {
			removed, disabled, paused := map[string]bool{}, false, false
			for _, b := range p.Blocks {
				for _, in := range b.Instrs {
					switch x := in.(type) {
					case *ssa.Call:
						if eng.CalleeName(x) == "os.Remove" {
							removed[eng.Render(x.Call.Args[0])] = true
						}
					case *ssa.Store:
						if fa, ok := x.Addr.(*ssa.FieldAddr); ok {
							if v, isC := eng.ConstBool(x.Val); isC && v {
								switch eng.FieldOf(fa).Name() {
								case "disabled":
									disabled = true
								case "Paused":
									paused = true
								}
							}
						}
					}
				}
			}
			ok := false
			switch {
			case pathHas(p, `^\(p2 == 0:controllerHaltMode\)$`, true):
				ok = paused && pathHas(p, `MarshalAndSaveProtobuf\(p0\.sessionPath, .*\) == nil\)$`, true)
			case pathHas(p, `^\(p2 == 1:controllerHaltMode\)$`, true):
				ok = disabled
			default:
				ok = disabled && removed["p0.sessionPath"] && removed["p0.archivePath"]
			}
			if !ok {
				bad++
				why = atomsOf(p)
			}
		}
		c.Check("R5", "success-means-mode-work-done", halt.Pos(), len(paths) >= 3 && bad == 0, "halt returns nil only after the requested mode's work: pause persisted, shutdown disabled, terminate disabled and both files removed — whatever state the session was in", fmt.Sprintf("%d of %d successful ways skip it; e.g. %s", bad, len(paths), why[:min(len(why), 300)]))
	}
	if mt := c.MustFunc("R5", syncPkg, "Manager.Terminate"); mt != nil {
		del := false
		for _, f := range eng.WithClosures(mt) {
			for _, call := range eng.Calls(f) {
				if eng.CalleeName(call) == "builtin:delete" && strings.HasSuffix(eng.Render(call.Common().Args[0]), ".sessions") {
					g := eng.Guards(call)
					for _, a := range g {
						if a.Pos && strings.Contains(a.Expr, ").halt(") && strings.HasSuffix(a.Expr, " == nil)") {
							del = true
						}
					}
				}
			}
		}
		c.Check("R5", "manager-forgets-terminated", mt.Pos(), del, "the manager drops a session after its terminate succeeded")
	}

	c29Flush(c)

	// R7.
	if reset := c.MustFunc("R7", syncPkg, "controller.reset"); reset != nil {
		epCalls := 0
		for _, call := range eng.Calls(reset) {
			cc := call.Common()
			if cc.IsInvoke() && strings.HasSuffix(eng.TypeShort(cc.Value.Type()), "synchronization.Endpoint") {
				epCalls++
			}
		}
		c.Check("R7", "reset-touches-no-endpoint", reset.Pos(), epCalls == 0, "reset performs no endpoint operation (neither root is modified)")
		var haltC, saveC, resC ssa.Instruction
		for _, call := range eng.Calls(reset) {
			switch eng.CalleeName(call) {
			case ctl + "halt":
				haltC = call
				m, _ := eng.ConstInt64(call.Common().Args[2])
				c.Check("R7", "reset-pauses", call.Pos(), m == 0, "reset stops the loop with a pause (keeping the session)")
			case "encoding.MarshalAndSaveProtobuf":
				saveC = call
				lit := eng.LitOf(call.Common().Args[1])
				empty := lit != nil && len(eng.LitFields(lit)) == 0
				c.Check("R7", "reset-writes-empty-archive", call.Pos(), eng.Render(call.Common().Args[0]) == "p0.archivePath" && empty, "reset overwrites the archive with an empty one")
			case ctl + "resume":
				resC = call
			}
		}
		order := haltC != nil && saveC != nil && resC != nil && saveC.Block().Dominates(resC.Block())
		c.Check("R7", "reset-order", reset.Pos(), order, "the archive is cleared before the session is resumed")
		// … and only after a running loop was stopped: every way to the archive
		// write either passes through the halt or established that no loop runs
		// (a loop still running would write its in-memory ancestor back).
		if haltC != nil && saveC != nil {
			paths, complete := eng.EnumPaths(reset.Blocks[0], func(b *ssa.BasicBlock) bool { return b == saveC.Block() }, 2000)
			nTo, bad := 0, 0
			if saveC.Block() == reset.Blocks[0] {
				// the write happens before any test: nothing was halted
				nTo, bad = 1, 1
				if haltC.Block() == saveC.Block() && eng.InstrIndex(haltC) < eng.InstrIndex(saveC) {
					bad = 0
				}
			}
			for _, p := range paths {
				if p.Last() != saveC.Block() {
					continue
				}
				nTo++
				if !p.Contains(haltC.Block()) && !pathHas(p, `^\(p0\.cancel == nil\)$`, true) {
					bad++
				}
			}
			c.Check("R7", "reset-halts-before-clearing", saveC.Pos(), complete && nTo > 0 && bad == 0, "the archive is cleared only after a running loop was halted (or none was running)", fmt.Sprintf("%d of %d paths reach the write with the loop possibly running", bad, nTo))
		}
		// resume only if it was running, under the same flag as the halt
		if haltC != nil && resC != nil {
			hg, rg := eng.Guards(haltC), eng.Guards(resC)
			same := false
			for _, a := range hg {
				for _, b := range rg {
					if a.V == b.V && a.Pos == b.Pos && strings.Contains(a.Expr, "p0.cancel == nil") {
						same = true
					}
				}
			}
			c.Check("R7", "resume-iff-was-running", reset.Pos(), same, "reset resumes exactly the sessions it had to pause")
		}
	}
}

func c29Flush(c *eng.Ctx) {
	syn := c.MustFunc("R6", syncPkg, "controller.synchronize")
	if syn == nil {
		return
	}
	fld, _ := c.P.Field(syncPkg, "controller", "flushRequests")
	nRecv := 0
	var cell ssa.Value
	var pollSel *ssa.Select
	for _, f := range eng.WithClosures(syn) {
		for _, op := range eng.ChanOps(f) {
			if op.Send || eng.ChanField(op.Chan) != fld {
				continue
			}
			nRecv++
			pollSel = op.Select
			okSel := op.Select != nil && op.Select.Blocking && f == syn
			hasCtx := false
			if op.Select != nil {
				for _, st := range op.Select.States {
					if strings.HasPrefix(eng.Render(st.Chan), "invoke:Done(") {
						hasCtx = true
					}
				}
			}
			c.Check("R6", fmt.Sprintf("flush-received-in-polling-select#%d", nRecv), eng.InstrPos(op.Instr), okSel && hasCtx, "flush requests are taken only by the polling select of the loop")
		}
	}
	c.Check("R6", "single-flush-receive", syn.Pos(), nRecv == 1, "there is exactly one place where the loop takes a flush request", fmt.Sprint(nRecv))
	// reply: Send of nil on a chan error value
	nReply := 0
	for _, f := range eng.WithClosures(syn) {
		eng.EachInstr(f, func(i ssa.Instruction) {
			s, ok := i.(*ssa.Send)
			if !ok || !eng.IsNilConst(s.X) || eng.TypeShort(s.Chan.Type()) != "chan error" {
				return
			}
			// only sends on the variable holding the received flush request
			var phis []*ssa.Phi
			fromPoll := false
			seen := map[ssa.Value]bool{}
			var walk func(v ssa.Value)
			walk = func(v ssa.Value) {
				if seen[v] {
					return
				}
				seen[v] = true
				switch x := v.(type) {
				case *ssa.Phi:
					phis = append(phis, x)
					for _, e := range x.Edges {
						walk(e)
					}
				case *ssa.Extract:
					if pollSel != nil && x.Tuple == ssa.Value(pollSel) {
						fromPoll = true
					}
				}
			}
			walk(s.Chan)
			if !fromPoll {
				return
			}
			nReply++
			_ = cell
			g := eng.Guards(s)
			c.Check("R6", "reply-only-if-pending", s.Pos(), eng.HasAtom(g, `^\(`+eng.Q(eng.Render(s.Chan))+` == nil\)$`, false), "a reply is sent only when a request is pending", atomsShort(g))
			// after scans and the successful-cycle count of this iteration
			scanned, counted := false, false
			for _, b := range f.Blocks {
				if !b.Dominates(s.Block()) {
					continue
				}
				for _, in := range b.Instrs {
					if mc, ok := in.(*ssa.MakeClosure); ok {
						for _, call := range eng.Calls(mc.Fn.(*ssa.Function)) {
							if call.Common().IsInvoke() && call.Common().Method.Name() == "Scan" {
								scanned = true
							}
						}
					}
					if st, ok := in.(*ssa.Store); ok {
						if fa, ok := st.Addr.(*ssa.FieldAddr); ok && eng.FieldOf(fa).Name() == "SuccessfulCycles" {
							counted = true
						}
					}
				}
			}
			c.Check("R6", "reply-after-scans-and-success", s.Pos(), scanned && counted && f == syn, "the reply comes after this iteration's scans and after the cycle was counted successful")
			// then forgotten
			forgot := false
			for _, phi := range phis {
				for k, e := range phi.Edges {
					if eng.IsNilConst(e) && s.Block().Dominates(phi.Block().Preds[k]) {
						forgot = true
					}
				}
			}
			c.Check("R6", "request-forgotten-after-reply", s.Pos(), forgot, "the answered request is cleared")
		})
	}
	c.Check("R6", "single-flush-reply", syn.Pos(), nReply == 1, "there is exactly one place where a flush is acknowledged with success", fmt.Sprint(nReply))
	// full scan flag
	nScan := 0
	for _, f := range eng.WithClosures(syn) {
		for _, call := range eng.Calls(f) {
			cc := call.Common()
			if cc.IsInvoke() && cc.Method.Name() == "Scan" && strings.HasSuffix(eng.TypeShort(cc.Value.Type()), "synchronization.Endpoint") {
				nScan++
				r := eng.Render(cc.Args[2])
				c.Check("R6", fmt.Sprintf("full-scan-iff-flush#%d", nScan), call.Pos(), strings.Contains(r, "flushRequest") && strings.Contains(r, "== nil") || strings.Contains(r, "forceFullScan"), "scans are full exactly when a flush request is pending", r)
			}
		}
	}
	if nScan != 2 {
		c.Problem("R6", "expected two Scan invocations, found %d", nScan)
	}
	// forceFullScan definition
	for _, f := range eng.WithClosures(syn) {
		eng.EachInstr(f, func(i ssa.Instruction) {
			if st, ok := i.(*ssa.Store); ok {
				if al, ok := st.Addr.(*ssa.Alloc); ok && al.Comment == "forceFullScan" {
					r := eng.Render(st.Val)
					c.Check("R6", "force-full-definition", st.Pos(), strings.Contains(r, "flushRequest") && strings.HasSuffix(r, "!= nil)"), "forceFullScan := flushRequest != nil", r)
				}
			}
		})
	}
}
