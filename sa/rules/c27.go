package rules

import (
	"fmt"
	"strings"

	"golang.org/x/tools/go/ssa"

	"verif/sa/eng"
)

func init() {
	eng.Register(&eng.Property{
		ID:       "C27",
		Title:    "Persistent session files are replaced atomically",
		Packages: []string{fsPkg, encodingPkg, syncPkg, fwdPkg, localEPPkg},
		Explanation: "(R1, ordering) in WriteFileAtomic the rename over the target is dominated by the success of CreateTemp, of writing the caller's data to that temporary, of closing it and of chmod-ing it — in that order — and renames temporary.Name() onto the caller's path with replace=true; " +
			"(R2) the temporary is created in filepath.Dir(path) (same filesystem, so rename is atomic) with a name prefix that starts with TemporaryNamePrefix (scans ignore it); " +
			"(R3) every error exit after the temporary exists removes it; " +
			"(R4, who-may-write) encoding.MarshalAndSave persists only through WriteFileAtomic, passing the marshalled bytes only if marshalling succeeded, and contains no other file-creating call; packages synchronization, forwarding, endpoint/local and encoding contain no direct file-writing call at all (os.WriteFile/Create/OpenFile) — a positive control inside package filesystem shows the matcher works. " +
			"(R5) filesystem.Rename itself replaces by renaming only — it never unlinks, removes or truncates the target before the rename; " +
			"(R6) the bytes a marshal callback returns to MarshalAndSave are not derived from a package-level variable (the write happens after the callback returned, without a lock); " +
			"Not decided: crash atomicity of rename(2) itself; durability (no fsync is claimed).",
		Assumptions: []string{"rename(2) within one directory is atomic"},
		Run:         runC27,
	})
}

func runC27(c *eng.Ctx) {
	c27RenameNeverUnlinks(c)
	fn := c.MustFunc("R1", fsPkg, "WriteFileAtomic")
	if fn == nil {
		return
	}
	var create, rename *ssa.Call
	for _, call := range eng.Calls(fn) {
		switch eng.CalleeName(call) {
		case "os.CreateTemp":
			create, _ = call.(*ssa.Call)
		case "filesystem.Rename":
			rename, _ = call.(*ssa.Call)
		}
	}
	if create == nil || rename == nil {
		c.Problem("R1", "CreateTemp/Rename not found in WriteFileAtomic")
		return
	}
	tmp := eng.Render(create) + "#0"
	g := eng.Guards(rename)
	for _, step := range []struct{ name, re string }{
		{"create", `^\(` + eng.Q(eng.Render(create)) + `#1 == nil\)$`},
		{"write", `^\(\(\*os\.File\)\.Write\(` + eng.Q(tmp) + `, p1\)#1 == nil\)$`},
		{"close", `^\(\(\*os\.File\)\.Close\(` + eng.Q(tmp) + `\) == nil\)$`},
		{"chmod", `^\(os\.Chmod\(\(\*os\.File\)\.Name\(` + eng.Q(tmp) + `\), p2\) == nil\)$`},
	} {
		c.Check("R1", "rename-after-"+step.name, rename.Pos(), eng.HasAtom(g, step.re, true), "the target is replaced only after the "+step.name+" step succeeded", atomsShort(g))
	}
	a := rename.Call.Args
	v, isC := eng.ConstBool(a[4])
	c.Check("R1", "rename-arguments", rename.Pos(), eng.Render(a[1]) == "(*os.File).Name("+tmp+")" && eng.Render(a[3]) == "p0" && isC && v && eng.IsNilConst(a[0]) && eng.IsNilConst(a[2]), "the temporary is renamed onto the caller's path, replacing it", eng.RenderCall(&rename.Call))
	// order close before chmod before rename is implied by dominance of their success atoms; write before close:
	var wr, cl ssa.Instruction
	for _, call := range eng.Calls(fn) {
		switch eng.CalleeName(call) {
		case "(*os.File).Write":
			wr = call
		case "(*os.File).Close":
			if eng.HasAtom(eng.Guards(call), `Write\(.*\)#1 == nil\)$`, true) {
				cl = call
			}
		}
	}
	c.Check("R1", "close-after-write", fn.Pos(), wr != nil && cl != nil, "the temporary is closed on the success path after the data was written")

	// R2.
	prefix, _ := eng.ConstString(create.Call.Args[1])
	tprefix := ""
	if v, _, err := c.P.Const(fsPkg, "TemporaryNamePrefix"); err == nil {
		tprefix = strings.Trim(v.ExactString(), `"`)
	}
	c.Check("R2", "temporary-in-target-directory", create.Pos(), eng.Render(create.Call.Args[0]) == "path/filepath.Dir(p0)", "the temporary lives in the target's directory", eng.Render(create.Call.Args[0]))
	c.Check("R2", "temporary-name-ignored-by-scans", create.Pos(), tprefix != "" && strings.HasPrefix(prefix, tprefix), "the temporary's name starts with the prefix that scans skip", fmt.Sprintf("%q vs %q", prefix, tprefix))

	// R3.
	n := 0
	for _, r := range eng.Returns(fn) {
		res := eng.RetResults(r)
		if eng.IsNilConst(res[0]) {
			continue
		}
		if !eng.HasAtom(eng.Guards(r), `^\(`+eng.Q(eng.Render(create))+`#1 == nil\)$`, true) {
			continue
		}
		n++
		removed := false
		for _, b := range fn.Blocks {
			if !(create.Block().Dominates(b) && b.Dominates(r.Block())) {
				continue
			}
			for _, in := range b.Instrs {
				if call, ok := in.(*ssa.Call); ok && eng.CalleeName(call) == "os.Remove" && eng.Render(call.Call.Args[0]) == "(*os.File).Name("+tmp+")" {
					removed = true
				}
			}
		}
		c.Check("R3", fmt.Sprintf("temporary-removed-on-error#%d", n), r.Pos(), removed, "a failed step removes the temporary file")
	}
	if n < 4 {
		c.Problem("R3", "expected four error exits after temporary creation, found %d", n)
	}

	// R4.
	if ms := c.MustFunc("R4", encodingPkg, "MarshalAndSave"); ms != nil {
		nw := 0
		for _, call := range eng.Calls(ms) {
			if eng.CalleeName(call) == "filesystem.WriteFileAtomic" {
				nw++
				a := call.Common().Args
				gg := eng.Guards(call)
				ok := eng.Render(a[0]) == "p0" && strings.HasSuffix(eng.Render(a[1]), "#0") && strings.HasPrefix(eng.Render(a[1]), "dyn:p1()") && eng.HasAtom(gg, `^\(dyn:p1\(\)#1 == nil\)$`, true)
				c.Check("R4", "save-is-atomic-write", call.Pos(), ok, "MarshalAndSave writes the marshalled bytes to the caller's path with WriteFileAtomic, only if marshalling succeeded", eng.RenderCall(call.Common()))
			}
		}
		if nw != 1 {
			c.Problem("R4", "expected one WriteFileAtomic call in MarshalAndSave, found %d", nw)
		}
	}
	direct := map[string]bool{"os.WriteFile": true, "os.Create": true, "os.OpenFile": true, "os.CreateTemp": true, "io/ioutil.WriteFile": true}
	for _, pk := range []string{encodingPkg, syncPkg, fwdPkg, localEPPkg} {
		bad := ""
		nf := 0
		var pos ssa.Instruction
		for _, f := range c.P.ModuleFuncs(pk) {
			nf++
			for _, call := range eng.Calls(f) {
				if direct[eng.CalleeName(call)] {
					bad = eng.CalleeName(call) + " in " + eng.FuncName(f)
					pos = call
				}
			}
		}
		p := fn.Pos()
		if pos != nil {
			p = pos.Pos()
		}
		c.Check("R4", "no-direct-file-writes:"+pk, p, bad == "" && nf > 5, "package "+pk+" never creates or writes a file directly (everything persistent goes through MarshalAndSave → WriteFileAtomic)", bad)
	}
	// positive control for the matcher
	pc := 0
	for _, f := range c.P.ModuleFuncs(fsPkg) {
		for _, call := range eng.Calls(f) {
			if direct[eng.CalleeName(call)] {
				pc++
			}
		}
	}
	c.Check("R4", "matcher-positive-control", fn.Pos(), pc >= 1, "the direct-write matcher does match where such calls exist (package filesystem)", fmt.Sprintf("%d site(s)", pc))
	c.Floor("R4", 6)

	// R6: the bytes a marshal callback hands to MarshalAndSave are the save's own.
	// MarshalAndSave writes them after the callback has returned and holds no lock
	// of its own, so bytes that alias package-level state (a reused buffer) can be
	// overwritten by a concurrent save while they are being written: the file is
	// then complete in length and neither the old nor the new content.
	nm := 0
	for _, f := range c.P.ModuleFuncs(encodingPkg) {
		for _, call := range eng.Calls(f) {
			if eng.CalleeName(call) != "encoding.MarshalAndSave" || len(call.Common().Args) < 2 {
				continue
			}
			var cb *ssa.Function
			switch m := call.Common().Args[1].(type) {
			case *ssa.MakeClosure:
				cb, _ = m.Fn.(*ssa.Function)
			case *ssa.Function:
				cb = m
			}
			if cb == nil {
				c.Check("R6", "marshal-callback-resolved@"+f.Name(), call.Pos(), false, "the marshal callback handed to MarshalAndSave is a function literal or a named function")
				continue
			}
			nm++
			shared := ""
			for _, r := range eng.Returns(cb) {
				res := eng.RetResults(r)
				if len(res) == 0 {
					continue
				}
				if eng.MayDependOn(res[0], func(v ssa.Value) bool {
					g, ok := v.(*ssa.Global)
					if ok {
						shared = g.Name()
					}
					return ok
				}) {
					break
				}
			}
			c.Check("R6", "saved-bytes-not-shared@"+f.Name(), call.Pos(), shared == "", "the bytes returned by the marshal callback are not derived from a package-level variable", shared)
		}
	}
	c.Floor("R6", 1)
}
