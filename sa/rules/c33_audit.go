package rules

import (
	"go/token"

	"golang.org/x/tools/go/ssa"

	"verif/sa/eng"
)

// c33AuditWriter (C33.R5): the byte counters equal the bytes forwarded only if
// the audit writer reports EVERY count the downstream write returned — also the
// count of a write that failed part-way. The auditor call must be unconditional,
// take uint64(n) with n the downstream count, and the downstream result must be
// returned unchanged. NewAuditWriter wraps exactly the given writer and auditor.
func c33AuditWriter(c *eng.Ctx) {
	fn := c.MustFunc("R5", streamPkg, "auditWriter.Write")
	if fn == nil {
		return
	}
	var down *ssa.Call
	for _, ci := range eng.InvokesOf(fn, "Write") {
		if cl, ok := ci.(*ssa.Call); ok && eng.Render(cl.Call.Value) == "p0.writer" && eng.Render(cl.Call.Args[0]) == "p1" {
			down = cl
		}
	}
	if down == nil {
		c.Problem("R5", "auditWriter.Write does not forward to its writer")
		return
	}
	n := 0
	for _, ci := range eng.Calls(fn) {
		cc := ci.Common()
		if cc.IsInvoke() || cc.StaticCallee() != nil {
			continue
		}
		if _, isB := cc.Value.(*ssa.Builtin); isB {
			continue
		}
		u, ok := cc.Value.(*ssa.UnOp)
		if !ok || u.Op != token.MUL || eng.Render(cc.Value) != "p0.auditor" {
			continue
		}
		n++
		okArg := false
		if cv, ok := cc.Args[0].(*ssa.Convert); ok {
			if ex, ok := cv.X.(*ssa.Extract); ok && ex.Tuple == ssa.Value(down) && ex.Index == 0 {
				okArg = true
			}
		}
		g := eng.WithoutImplied(eng.Guards(ci))
		c.Check("R5", "audits-every-downstream-count", ci.Pos(), okArg && len(g) == 0 && down.Block().Dominates(ci.Block()), "the auditor receives the count of every downstream write — also of one that failed part-way", atomsShort(g))
	}
	if n != 1 {
		c.Check("R5", "audits-every-downstream-count", fn.Pos(), false, "the auditor is called exactly once per write")
	}
	for _, r := range eng.Returns(fn) {
		res := eng.RetResults(r)
		e0, ok0 := res[0].(*ssa.Extract)
		e1, ok1 := res[1].(*ssa.Extract)
		c.Check("R5", "returns-downstream-result", r.Pos(), ok0 && ok1 && e0.Tuple == ssa.Value(down) && e1.Tuple == ssa.Value(down) && e0.Index == 0 && e1.Index == 1, "the downstream result is returned unchanged")
	}
	if nw := c.MustFunc("R5", streamPkg, "NewAuditWriter"); nw != nil {
		okW := false
		for _, r := range eng.Returns(nw) {
			if lit := eng.LitOf(eng.RetResults(r)[0]); lit != nil {
				f := eng.LitFields(lit)
				okW = f["writer"] != nil && eng.Render(f["writer"]) == "p0" && f["auditor"] != nil && eng.Render(f["auditor"]) == "p1"
			}
		}
		c.Check("R5", "wraps-given-writer-and-auditor", nw.Pos(), okW, "NewAuditWriter wraps the given writer with the given auditor")
	}
}
