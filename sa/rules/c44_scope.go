package rules

import (
	"strings"

	"verif/sa/eng"
)

// c44Scope decides R7: the scope a line is prefixed with is the logger's OWN
// scope. Sublogger hands out, on every successful path, a fresh Logger whose
// scope is the parent's scope joined with the (validated) name — or the bare name
// under an unscoped parent — and whose level and writer are the parent's. A
// logger looked up from anywhere else (a registry keyed by the leaf name, say)
// would write lines under another logger's scope.
func c44Scope(c *eng.Ctx) {
	fn := c.MustFunc("R7", loggingPkg, "Logger.Sublogger")
	if fn == nil {
		return
	}
	n := 0
	for _, r := range eng.Returns(fn) {
		res := eng.RetResults(r)
		if len(res) != 1 || eng.IsNilConst(res[0]) {
			continue
		}
		n++
		lit := eng.LitOf(res[0])
		if lit == nil {
			c.Check("R7", "sublogger-is-fresh", r.Pos(), false, "Sublogger returns a Logger constructed for this (parent, name) pair", eng.Render(res[0]))
			continue
		}
		f := eng.LitFields(lit)
		scope := ""
		if f["scope"] != nil {
			scope = eng.Render(f["scope"])
		}
		scopeOK := strings.Contains(scope, "p0.scope") && strings.Contains(scope, "p1") && strings.Contains(scope, `"."`)
		c.Check("R7", "sublogger-scope-is-parent-dot-name", r.Pos(), scopeOK, "the new logger's scope is the parent's scope, a dot, and the requested name (the bare name under an unscoped parent)", scope)
		c.Check("R7", "sublogger-inherits-writer-and-level", r.Pos(), f["writer"] != nil && eng.Render(f["writer"]) == "p0.writer" && f["level"] != nil && eng.Render(f["level"]) == "p0.level", "level and writer are the parent's")
		g := eng.Guards(r)
		c.Check("R7", "sublogger-name-validated", r.Pos(), eng.HasAtom(g, `MatchString\(.*nameMatcher, p1\)$`, true), "a logger is handed out only for a name that matched the name pattern", atomsShort(g))
	}
	if n == 0 {
		c.Problem("R7", "Sublogger has no successful return")
	}
}
