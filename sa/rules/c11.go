package rules

import (
	"fmt"
	"strings"

	"golang.org/x/tools/go/ssa"

	"verif/sa/eng"
)

func init() {
	eng.Register(&eng.Property{
		ID:       "C11",
		Title:    "Root deletion, root type change and one-sided emptying halt the session",
		Packages: []string{syncPkg, corePkg},
		Explanation: "(R1, must-precede) in controller.synchronize every Endpoint.Stage / Supply / Transition invocation (including those in goroutine closures) is dominated by the FALSE edges of oneEndpointEmptiedRoot(ancestor, αContent, βContent) and of containsRootDeletion / containsRootTypeChange on BOTH transition lists returned by core.Reconcile for the same three trees; " +
			"(R2) each TRUE edge stores the matching Status_HaltedOn… constant and returns exactly the sentinel errHaltedForSafety (not a wrapped error); " +
			"(R3) controller.run compares synchronize's error with that sentinel (== or errors.Is) and on the true edge nothing but waiting for ctx.Done() and returning is reachable — no reconnect, no further cycle; " +
			"(R4) full truth tables: Change.IsRootDeletion = Path==\"\" ∧ Old≠nil ∧ New=nil; IsRootTypeChange = Path==\"\" ∧ Old≠nil ∧ New≠nil ∧ Old.Kind≠New.Kind; oneEndpointEmptiedRoot = all three are directories ∧ ¬(len(ancestor.Contents) < 2) ∧ (alpha empty XOR beta empty); containsRoot* return true exactly on an element satisfying the predicate. " +
			"(R6, shared with C05.R1) the safety checks of the first cycle after a pause/restart/reconnect compare against the ancestor read back from the archive, so the archive saved at the end of a cycle holds exactly the tree Apply returned and EnsureValid(true) accepted (a saved ancestor that lags a cycle behind hides a one-sided emptying or a root deletion from them); " +
			"Not decided: behaviour of running sessions over time; that the user-facing status survives until intervention beyond run()'s structure.",
		Assumptions: []string{"the sentinel is compared by identity or errors.Is"},
		Run:         runC11,
	})
}

func runC11(c *eng.Ctx) {
	syn := c.MustFunc("R1", syncPkg, "controller.synchronize")
	if syn == nil {
		return
	}
	// R6 (shared with C05.R1): the ancestor the checks compare against after a
	// restart is the one saved last — it must be the tree just applied.
	c05SaveRule(c, "R6")
	var rec, emptied *ssa.Call
	var delCalls, typeCalls []*ssa.Call
	for _, call := range eng.Calls(syn) {
		cv, ok := call.(*ssa.Call)
		if !ok {
			continue
		}
		switch eng.CalleeName(call) {
		case "synchronization/core.Reconcile":
			rec = cv
		case "synchronization.oneEndpointEmptiedRoot":
			emptied = cv
		case "synchronization.containsRootDeletion":
			delCalls = append(delCalls, cv)
		case "synchronization.containsRootTypeChange":
			typeCalls = append(typeCalls, cv)
		}
	}
	if rec == nil || emptied == nil || len(delCalls) != 2 || len(typeCalls) != 2 {
		c.Problem("R1", "safety calls not found as expected (Reconcile=%v emptied=%v deletion=%d typechange=%d)", rec != nil, emptied != nil, len(delCalls), len(typeCalls))
		return
	}
	// Same trees.
	for i, nm := range []string{"ancestor", "alpha content", "beta content"} {
		c.Check("R1", "same-trees:"+nm, emptied.Pos(), eng.Deref(emptied.Call.Args[i]) == eng.Deref(rec.Call.Args[i]) || eng.Render(emptied.Call.Args[i]) == eng.Render(rec.Call.Args[i]),
			"the emptied-root test looks at the same "+nm+" that is reconciled", eng.Render(emptied.Call.Args[i])[:min(120, len(eng.Render(emptied.Call.Args[i])))])
	}
	// Each containsRoot* call covers one of Reconcile's transition lists (#1 alpha, #2 beta).
	covers := func(calls []*ssa.Call) map[int]*ssa.Call {
		out := map[int]*ssa.Call{}
		for _, cl := range calls {
			if ex, ok := eng.Deref(cl.Call.Args[0]).(*ssa.Extract); ok && ex.Tuple == ssa.Value(rec) {
				out[ex.Index] = cl
			}
		}
		return out
	}
	dc, tc := covers(delCalls), covers(typeCalls)
	c.Check("R1", "deletion-covers-both", rec.Pos(), dc[1] != nil && dc[2] != nil, "containsRootDeletion is applied to Reconcile's alpha and beta transitions")
	c.Check("R1", "typechange-covers-both", rec.Pos(), tc[1] != nil && tc[2] != nil, "containsRootTypeChange is applied to Reconcile's alpha and beta transitions")
	required := []*ssa.Call{emptied, dc[1], dc[2], tc[1], tc[2]}
	names := []string{"emptied-root", "alpha-root-deletion", "beta-root-deletion", "alpha-root-type-change", "beta-root-type-change"}
	// R1: endpoint operations.
	n := 0
	for _, fn := range eng.WithClosures(syn) {
		for _, call := range eng.Calls(fn) {
			cc := call.Common()
			if !cc.IsInvoke() || !strings.HasSuffix(eng.TypeShort(cc.Value.Type()), "synchronization.Endpoint") {
				continue
			}
			m := cc.Method.Name()
			if m != "Stage" && m != "Supply" && m != "Transition" {
				continue
			}
			n++
			var g []eng.Atom
			if fn == syn {
				g = eng.Guards(call)
			} else {
				g = closureSiteGuards(syn, fn)
			}
			for i, rq := range required {
				if rq == nil {
					continue
				}
				ok := false
				for _, a := range g {
					if a.V == ssa.Value(rq) && !a.Pos {
						ok = true
					}
				}
				c.Check("R1", fmt.Sprintf("%s#%d/%s", m, n, names[i]), call.Pos(), ok, "the endpoint is asked to "+m+" only after the "+names[i]+" check came out false")
			}
		}
	}
	if n < 5 {
		c.Problem("R1", "expected ≥5 Stage/Supply/Transition invocations in synchronize, found %d", n)
	}

	// R2: the true edges.
	statuses, _ := c.P.ConstsOfType(syncPkg, "Status")
	wantStatus := map[*ssa.Call]string{emptied: "Status_HaltedOnRootEmptied", dc[1]: "Status_HaltedOnRootDeletion", dc[2]: "Status_HaltedOnRootDeletion", tc[1]: "Status_HaltedOnRootTypeChange", tc[2]: "Status_HaltedOnRootTypeChange"}
	for i, rq := range required {
		if rq == nil {
			continue
		}
		found := false
		for _, r := range eng.Returns(syn) {
			g := eng.Guards(r)
			// the return is in the true region of this call or of its || partner
			in := false
			for _, a := range g {
				if a.V == ssa.Value(rq) && a.Pos {
					in = true
				}
			}
			if !in {
				// `a || b`: the halting block is entered from either test; accept if
				// the block's predecessors are exactly the true edges of tests on rq's partner.
				for _, p := range r.Block().Preds {
					if iff, ok := p.Instrs[len(p.Instrs)-1].(*ssa.If); ok && iff.Cond == ssa.Value(rq) && p.Succs[0] == r.Block() {
						in = true
					}
				}
			}
			if !in {
				continue
			}
			found = true
			rv := eng.Render(eng.RetResults(r)[0])
			c.Check("R2", names[i]+"/sentinel", r.Pos(), rv == "synchronization.errHaltedForSafety", "the halt returns the sentinel error itself", rv)
			st := int64(-1)
			for _, s := range storesInBlock(r.Block()) {
				if fa, ok := s.Addr.(*ssa.FieldAddr); ok && eng.FieldOf(fa).Name() == "Status" {
					if v, ok := eng.ConstInt64(s.Val); ok {
						st = v
					}
				}
			}
			c.Check("R2", names[i]+"/status", r.Pos(), st == statuses[wantStatus[rq]], "the halt records "+wantStatus[rq], fmt.Sprint(st))
		}
		c.Check("R2", names[i]+"/halts", rq.Pos(), found, "the true edge of the "+names[i]+" check leads to a halting return")
	}

	// R3: run.
	if run := c.MustFunc("R3", syncPkg, "controller.run"); run != nil {
		found := false
		for _, b := range run.Blocks {
			iff, ok := b.Instrs[len(b.Instrs)-1].(*ssa.If)
			if !ok {
				continue
			}
			r := eng.Render(iff.Cond)
			isCmp := strings.Contains(r, "synchronization.errHaltedForSafety") && strings.Contains(r, ".synchronize(")
			if !isCmp {
				continue
			}
			found = true
			c.Check("R3", "compares-synchronize-error", iff.Pos(), strings.Contains(r, " == synchronization.errHaltedForSafety)") || strings.HasPrefix(r, "errors.Is("), "run tests synchronize's error against the sentinel", r[:min(160, len(r))])
			region := b.Succs[0]
			bad := ""
			for _, d := range run.Blocks {
				if !region.Dominates(d) {
					continue
				}
				for _, in := range d.Instrs {
					if call, ok := in.(ssa.CallInstruction); ok {
						nm := eng.CalleeName(call)
						if nm != "iface:context.Context.Done" && !isDiagnosticCall(nm) {
							bad = nm // (a log line is not an action of the session)
						}
					}
				}
				for _, s := range d.Succs {
					if !region.Dominates(s) {
						bad = "control leaves the halted region towards " + s.Comment
					}
				}
			}
			c.Check("R3", "halted-region", iff.Pos(), bad == "" && len(region.Preds) == 1, "after a safety halt run only waits for cancellation and returns", bad)
		}
		if !found {
			c.Check("R3", "compares-synchronize-error", run.Pos(), false, "run tests synchronize's error against the sentinel", "no such comparison found")
		}
	}

	c11Tables(c)
}

func min(a, b int) int {
	if a < b {
		return a
	}
	return b
}

func c11Tables(c *eng.Ctx) {
	type spec struct {
		pkg, fn string
		atoms   []string
		f       func(env map[string]bool) bool
		text    string
	}
	pathE, oldN, newN := `(p0.Path == "")`, "(p0.Old == nil)", "(p0.New == nil)"
	kindEq := "(p0.Old.Kind == p0.New.Kind)"
	aN, aD := "(p0 == nil)", "(p0.Kind == 0:EntryKind)"
	bN, bD := "(p1 == nil)", "(p1.Kind == 0:EntryKind)"
	cN, cD := "(p2 == nil)", "(p2.Kind == 0:EntryKind)"
	few := "(len(p0.Contents) < 2)"
	ae, be := "(len(p1.Contents) == 0)", "(len(p2.Contents) == 0)"
	specs := []spec{
		{corePkg, "Change.IsRootDeletion", []string{pathE, oldN, newN}, func(e map[string]bool) bool { return e[pathE] && !e[oldN] && e[newN] }, `Path=="" ∧ Old≠nil ∧ New=nil`},
		{corePkg, "Change.IsRootTypeChange", []string{pathE, oldN, newN, kindEq}, func(e map[string]bool) bool { return e[pathE] && !e[oldN] && !e[newN] && !e[kindEq] }, `Path=="" ∧ Old≠nil ∧ New≠nil ∧ Old.Kind≠New.Kind`},
		{syncPkg, "oneEndpointEmptiedRoot", []string{aN, aD, bN, bD, cN, cD, few, ae, be}, func(e map[string]bool) bool {
			return !e[aN] && e[aD] && !e[bN] && e[bD] && !e[cN] && e[cD] && !e[few] && (e[ae] != e[be])
		}, "all directories ∧ ¬(len(ancestor.Contents)<2) ∧ (alpha empty XOR beta empty)"},
	}
	for _, s := range specs {
		fn := c.MustFunc("R4", s.pkg, s.fn)
		if fn == nil {
			continue
		}
		be, err := eng.FuncBoolExpr(fn)
		if err != nil {
			c.Problem("R4", "%s: %v", s.fn, err)
			continue
		}
		eq, cex, err := eng.TruthTableEqual(be, s.atoms, s.f)
		if err != nil {
			c.Problem("R4", "%s: %v", s.fn, err)
			continue
		}
		d := be.String()
		if len(d) > 200 {
			d = d[:200] + "…"
		}
		c.Check("R4", "table:"+s.fn, fn.Pos(), eq, s.fn+" = "+s.text+" [full truth table]", fmt.Sprintf("extracted atoms %v; counterexample %v; %s", be.AtomNames(), cex, d))
	}
	for nm, pred := range map[string]string{"containsRootDeletion": "(*synchronization/core.Change).IsRootDeletion", "containsRootTypeChange": "(*synchronization/core.Change).IsRootTypeChange"} {
		fn := c.MustFunc("R4", syncPkg, nm)
		if fn == nil {
			continue
		}
		// the same «some element satisfies the predicate», delegated to the
		// standard library: return slices.ContainsFunc(changes, (*Change).Pred)
		if rs := eng.Returns(fn); len(rs) == 1 {
			if call, ok := eng.Unwrap(eng.RetResults(rs[0])[0]).(*ssa.Call); ok && strings.HasPrefix(eng.CalleeName(call), "slices.ContainsFunc") && len(call.Call.Args) == 2 {
				okLib := eng.Render(call.Call.Args[0]) == "p0" && eng.Render(call.Call.Args[1]) == "func:"+pred+"$thunk"
				c.Check("R4", nm+"/true-iff-found", call.Pos(), okLib, nm+" is slices.ContainsFunc over the whole list with the predicate", eng.RenderCall(&call.Call))
				c.Check("R4", nm+"/false-after-all", call.Pos(), okLib, nm+" returns false only after every element was examined")
				c.Check("R4", nm+"/predicate-called", fn.Pos(), okLib, "the predicate is applied to the ranged elements")
				continue
			}
		}
		for _, r := range eng.Returns(fn) {
			v, isC := eng.ConstBool(eng.RetResults(r)[0])
			g := eng.Guards(r)
			if !isC {
				c.Check("R4", nm+"/const-results", r.Pos(), false, "returns a constant", eng.Render(eng.RetResults(r)[0]))
				continue
			}
			if v {
				ok := false
				for _, a := range g {
					if a.Pos && strings.HasPrefix(a.Expr, pred+"(p0[") {
						ok = true
					}
				}
				c.Check("R4", nm+"/true-iff-found", r.Pos(), ok, nm+" returns true only for an element satisfying the predicate", eng.AtomsText(g))
			} else {
				// false only after the loop is exhausted: the return block is a loop exit (rangeindex.done)
				exhausted := false
				for _, a := range g {
					if !a.Pos && strings.Contains(a.Expr, " < len(p0))") {
						exhausted = true
					}
				}
				c.Check("R4", nm+"/false-after-all", r.Pos(), exhausted, nm+" returns false only after every element was examined", eng.AtomsText(g))
			}
		}
		// the predicate is evaluated on each element: a call with the ranged element inside the loop
		calls := eng.CallsNamed(fn, pred)
		c.Check("R4", nm+"/predicate-called", fn.Pos(), len(calls) == 1, "the predicate is applied to the ranged elements")
	}
	c.Floor("R4", 9)
}
