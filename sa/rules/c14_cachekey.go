package rules

import (
	"strings"

	"golang.org/x/tools/go/ssa"

	"verif/sa/eng"
)

// c14CacheKey (C14.R7, also run for C03 and C15 which rely on the same cache):
// an ignore verdict is remembered under exactly the question that was asked.
// In scanner.directory the ignorer is consulted with (contentPath, isDirectory);
// the cache key used for the lookup before it and for the record after it is the
// literal IgnoreCacheKey{Path: <that same path value>, Directory: <that same
// flag>} — not the base name (verdicts of same-named entries at different depths
// would collide) and not the path alone (a file's verdict would be reused for a
// directory of the same name).
func c14CacheKey(c *eng.Ctx, rule string) {
	dir := c.MustFunc(rule, corePkg, "scanner.directory")
	if dir == nil {
		return
	}
	var ask ssa.CallInstruction
	for _, call := range eng.Calls(dir) {
		cc := call.Common()
		if cc.IsInvoke() && cc.Method.Name() == "Ignore" && strings.HasSuffix(eng.Render(cc.Value), ".ignorer") {
			ask = call
		}
	}
	if ask == nil {
		c.Problem(rule, "scanner.directory does not consult the ignorer")
		return
	}
	qPath, qDir := ask.Common().Args[0], ask.Common().Args[1]
	keyOK := func(v ssa.Value) (bool, string) {
		lit := eng.LitOf(v)
		if lit == nil {
			return false, "key is not an IgnoreCacheKey literal: " + eng.Render(v)
		}
		f := eng.LitFields(lit)
		if f["Path"] == nil || f["Directory"] == nil {
			return false, "key literal leaves Path or Directory unset"
		}
		if eng.Unwrap(f["Path"]) != eng.Unwrap(qPath) && eng.Render(f["Path"]) != eng.Render(qPath) {
			return false, "Path = " + eng.Render(f["Path"]) + ", the ignorer was asked about " + eng.Render(qPath)
		}
		if eng.Unwrap(f["Directory"]) != eng.Unwrap(qDir) && eng.Render(f["Directory"]) != eng.Render(qDir) {
			return false, "Directory = " + eng.Render(f["Directory"]) + ", the ignorer was asked with " + eng.Render(qDir)
		}
		return true, ""
	}
	n := 0
	eng.EachInstr(dir, func(i ssa.Instruction) {
		switch x := i.(type) {
		case *ssa.MapUpdate:
			if !strings.HasSuffix(eng.Render(x.Map), ".newIgnoreCache") || !x.Block().Dominates(x.Block()) {
				return
			}
			// only the record that follows the question (same iteration): its block is
			// dominated by, or dominates, the question's block
			if !(ask.Block().Dominates(x.Block()) || x.Block().Dominates(ask.Block())) && !reachesWithoutLoop(ask.Block(), x.Block()) {
				return
			}
			n++
			ok, why := keyOK(x.Key)
			c.Check(rule, "verdict-recorded-under-the-question-asked", x.Pos(), ok, "the ignore verdict is cached under {the path the ignorer was asked about, the same directory flag}", why)
		case *ssa.Lookup:
			if !strings.HasSuffix(eng.Render(x.X), ".ignoreCache") || !x.Block().Dominates(ask.Block()) {
				return
			}
			n++
			ok, why := keyOK(x.Index)
			c.Check(rule, "verdict-looked-up-under-the-question-asked", x.Pos(), ok, "a cached verdict is reused only for {the same path, the same directory flag} the ignorer would be asked about", why)
		}
	})
	if n < 2 {
		c.Problem(rule, "expected the cache lookup before and the cache record after the ignorer call in scanner.directory, found %d", n)
	}
}

// reachesWithoutLoop: b is reachable from a through forward edges only (no
// back edge), i.e. within the same loop iteration.
func reachesWithoutLoop(a, b *ssa.BasicBlock) bool {
	seen := map[*ssa.BasicBlock]bool{}
	var walk func(x *ssa.BasicBlock) bool
	walk = func(x *ssa.BasicBlock) bool {
		if x == b {
			return true
		}
		if seen[x] {
			return false
		}
		seen[x] = true
		for _, s := range x.Succs {
			if s.Dominates(x) {
				continue // back edge
			}
			if walk(s) {
				return true
			}
		}
		return false
	}
	return walk(a)
}
