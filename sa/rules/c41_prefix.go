package rules

import (
	"strings"

	"golang.org/x/tools/go/ssa"

	"verif/sa/eng"
)

// c41PrefixIndexComplete (C41.R6): Store.Contains answers «not staged» from the
// in-memory prefix index alone (prefixExists[digest[0]] false → false, nil). That
// answer is sound only if the index knows every prefix directory that exists on
// disk — including those left by an earlier instance of the store (an
// interrupted cycle). So, as long as Contains has that shortcut, Initialize must
// mark the prefixes found by listing the existing root, and Commit must mark the
// prefix it creates.
func c41PrefixIndexComplete(c *eng.Ctx) {
	con := c.MustFunc("R6", storePkg, "Store.Contains")
	ini := c.MustFunc("R6", storePkg, "Store.Initialize")
	if con == nil || ini == nil {
		return
	}
	shortcut := false
	for _, r := range eng.Returns(con) {
		res := eng.RetResults(r)
		if !constBoolIs(res[0], false) || !eng.IsNilConst(res[1]) {
			continue
		}
		for _, a := range eng.Guards(r) {
			if strings.Contains(a.Expr, ".prefixExists[") && !a.Pos {
				shortcut = true
			}
		}
	}
	if !shortcut {
		c.Check("R6", "contains-consults-the-disk", con.Pos(), true, "Contains does not answer from the prefix index alone")
		return
	}
	marksFromListing := false
	for _, f := range eng.WithClosures(ini) {
		eng.EachInstr(f, func(i ssa.Instruction) {
			st, ok := i.(*ssa.Store)
			if !ok || !constBoolIs(st.Val, true) {
				return
			}
			ia, ok := st.Addr.(*ssa.IndexAddr)
			if !ok || !strings.HasSuffix(eng.Render(ia.X), ".prefixExists") && !strings.Contains(eng.Render(ia.X), "prefixExists") {
				return
			}
			if eng.MayDependOn(ia.Index, func(v ssa.Value) bool {
				call, ok := v.(*ssa.Call)
				return ok && (eng.CalleeName(call) == "os.ReadDir" || strings.HasSuffix(eng.CalleeName(call), ".Readdirnames") || strings.HasSuffix(eng.CalleeName(call), ".ReadDir"))
			}) {
				marksFromListing = true
			}
		})
	}
	c.Check("R6", "prefix-index-rebuilt-from-disk", ini.Pos(), marksFromListing, "Contains answers «not staged» from the prefix index alone, so Initialize rebuilds that index from the prefix directories that already exist in the staging root (content staged by an earlier, interrupted cycle is found again)")
}
