package rules

import (
	"go/token"
	"strings"

	"golang.org/x/tools/go/ssa"

	"verif/sa/eng"
)

// c20DeferredResult (C20.R4): a deferred function that assigns a function's
// (named) error result can turn a reported failure into success. In the rsync
// and remote packages such an assignment is allowed only where the current
// result is known to be nil (guard `result == nil`), or when the new value is
// computed from the old one (wrapping). An unconditional `err = f()` in a defer
// runs on the error paths too and overwrites the failure with f's outcome.
func c20DeferredResult(c *eng.Ctx) {
	n := 0
	for _, fn := range c.P.ModuleFuncs(rsyncPkg, remotePkg) {
		if strings.Contains(c.P.Pos(fn.Pos()), ".pb.go:") {
			continue
		}
		eng.EachInstr(fn, func(i ssa.Instruction) {
			d, ok := i.(*ssa.Defer)
			if !ok {
				return
			}
			mc, ok := d.Call.Value.(*ssa.MakeClosure)
			if !ok {
				return
			}
			cl := mc.Fn.(*ssa.Function)
			for k, fv := range cl.FreeVars {
				al, ok := mc.Bindings[k].(*ssa.Alloc)
				if !ok {
					continue
				}
				// is the cell one of fn's results? (named results are allocs whose value is returned)
				isResult := false
				for _, r := range eng.Returns(fn) {
					for _, op := range r.Results {
						if u, ok := op.(*ssa.UnOp); ok && u.Op == token.MUL && u.X == ssa.Value(al) {
							isResult = true
						}
					}
				}
				if !isResult || !strings.HasSuffix(eng.TypeShort(al.Type()), "error") {
					continue
				}
				eng.EachInstr(cl, func(j ssa.Instruction) {
					st, ok := j.(*ssa.Store)
					if !ok || st.Addr != ssa.Value(fv) {
						return
					}
					n++
					guarded := false
					for _, a := range eng.Guards(st) {
						if b, ok := a.V.(*ssa.BinOp); ok && a.Pos && (b.Op == token.EQL || b.Op == token.NEQ) {
							x, y := b.X, b.Y
							if eng.IsNilConst(x) {
								x, y = y, x
							}
							if u, ok := x.(*ssa.UnOp); ok && eng.IsNilConst(y) && u.X == ssa.Value(fv) {
								guarded = true
							}
						}
					}
					wraps := eng.MayDependOn(st.Val, func(v ssa.Value) bool {
						u, ok := v.(*ssa.UnOp)
						return ok && u.Op == token.MUL && u.X == ssa.Value(fv)
					})
					c.Check("R4", "deferred-result-assignment@"+eng.FuncName(fn), st.Pos(), guarded || wraps, "a deferred function overwrites the error result only where it is nil (or wraps it) — it cannot replace a reported failure", eng.Render(st.Val))
				})
			}
		})
	}
	c.Check("R4", "deferred-result-assignments-inspected", token.NoPos, true, "deferred assignments to error results in rsync/remote were inspected")
}
