package rules

import (
	"fmt"
	"go/token"
	"go/types"
	"strings"

	"golang.org/x/tools/go/ssa"

	"verif/sa/eng"
)

const fastpathPkg = "pkg/synchronization/core/fastpath"

func init() {
	eng.Register(&eng.Property{
		ID:       "C40",
		Title:    "Session selection and listing are exact",
		Packages: []string{syncPkg, fwdPkg, corePkg, fastpathPkg},
		Explanation: "Decided for the synchronization manager and its sibling, the forwarding manager. " +
			"(R1, selection by specification) the per-specification match flag starts false for EVERY specification (the inner-loop φ's entry edge is the constant false coming from inside the outer loop), becomes true exactly on the edges where the session's identifier or its name equals the specification — the same edges that insert the session into the result set — and is never cleared; when the flag is false after the scan the function returns (nil, error); the result list is built by appending every key of the set exactly once; " +
			"(R2, selection by label) a session is appended exactly on the true edge of selector.Matches(session.Labels) for every session in the registry, with the selector parsed from the argument and a parse error returned; " +
			"(R3) selectControllers dispatches All → all, specifications → by specification (passing them), label selector → by label (passing it), nothing → error; " +
			"(R4, truncation accounting) for every list field of State/EndpointState that has an Excluded* counterpart (derived from the struct types: 5), List copies the list, sorts it with the sorter of its element type, and only if its length exceeds a constant K stores Excluded* = len − K in the SAME sub-structure and truncates the SAME list to [:K] with the same K; " +
			"(R5, creation-time order) the comparator given to sort.Slice over the returned slice is, by truth table, (i.Seconds < j.Seconds) ∨ (i.Seconds = j.Seconds ∧ i.Nanos < j.Nanos) with i ← first index and j ← second index; " +
			"(R6, depth-first path order) fastpath.Less: trivial cases (equal → false, root first), then per iteration the front components are s[:IndexByte(s,'/')] (or s if there is no slash), the remainder is s[IndexByte+1:], and every return/continue of the loop agrees with the decision list «c1<c2 → true; c2<c1 → false; first exhausted → true; second exhausted → false; else continue» for every assignment compatible with its guards; the sort.Interface implementations for conflicts and problems call fastpath.Less on (l[i].F, l[j].F) for the same path field F. " +
			"Not decided: sort.Sort/sort.Slice themselves; label selector semantics (third-party); that DFS order is what the decision list yields (argued in DESIGN.md).",
		Assumptions: []string{"sort.Sort and sort.Slice sort by the given comparator"},
		Run:         runC40,
	})
}

func runC40(c *eng.Ctx) {
	for _, pkg := range []string{syncPkg, fwdPkg} {
		tag := map[string]string{syncPkg: "sync", fwdPkg: "fwd"}[pkg]
		c40BySpec(c, pkg, tag)
		c40ByLabel(c, pkg, tag)
		c40Dispatch(c, pkg, tag)
		c40Comparator(c, pkg, tag)
	}
	c.Floor("R1", 12)
	c.Floor("R2", 6)
	c.Floor("R3", 8)
	c.Floor("R5", 4)
	c40Truncation(c)
	c40Less(c)
}

func c40BySpec(c *eng.Ctx, pkg, tag string) {
	fn := c.MustFunc("R1", pkg, "Manager.findControllersBySpecification")
	if fn == nil {
		return
	}
	// loops
	var outer, inner *ssa.BasicBlock
	for _, b := range fn.Blocks {
		if b.Comment == "rangeindex.loop" && outer == nil && strings.Contains(eng.Render(b.Instrs[len(b.Instrs)-1].(*ssa.If).Cond), "len(p1)") {
			outer = b
		}
	}
	for _, b := range fn.Blocks {
		if b.Comment == "rangeiter.loop" && outer != nil && outer.Dominates(b) {
			if iff, ok := b.Instrs[len(b.Instrs)-1].(*ssa.If); ok && strings.Contains(eng.Render(iff.Cond), "range(p0.sessions)") {
				inner = b
			}
		}
	}
	if outer == nil || inner == nil {
		c.Problem("R1", "%s: specification/session loops not found", tag)
		return
	}
	var flag *ssa.Phi
	for _, in := range inner.Instrs {
		if phi, ok := in.(*ssa.Phi); ok && eng.TypeShort(phi.Type()) == "bool" {
			flag = phi
		}
	}
	if flag == nil {
		c.Problem("R1", "%s: match flag not found", tag)
		return
	}
	// the specification of this iteration
	isSpec := func(v ssa.Value) bool {
		r := eng.Render(v)
		return strings.HasPrefix(r, "p1[") && strings.Contains(r, "rangeindex")
	}
	fieldEqSpec := func(cond ssa.Value) string {
		b, ok := cond.(*ssa.BinOp)
		if !ok || b.Op != token.EQL {
			return ""
		}
		x, y := b.X, b.Y
		if isSpec(x) {
			x, y = y, x
		}
		if !isSpec(y) {
			return ""
		}
		r := eng.Render(x)
		switch {
		case strings.HasSuffix(r, "#2.session.Identifier"):
			return "Identifier"
		case strings.HasSuffix(r, "#2.session.Name"):
			return "Name"
		}
		return ""
	}
	var setBlock *ssa.BasicBlock
	var mu *ssa.MapUpdate
	eng.EachInstr(fn, func(i ssa.Instruction) {
		if m, ok := i.(*ssa.MapUpdate); ok {
			mu, setBlock = m, m.Block()
		}
	})
	if mu == nil {
		c.Problem("R1", "%s: result set insertion not found", tag)
		return
	}
	for j, p := range inner.Preds {
		e := flag.Edges[j]
		switch {
		case !inner.Dominates(p):
			b, isB := eng.ConstBool(e)
			c.Check("R1", tag+"/flag-reset-per-specification", flag.Pos(), isB && !b && outer.Dominates(p) && p != outer.Preds[0], "the match flag starts false for every specification (not carried over from the previous one)", eng.Render(e))
		case p == setBlock:
			b, isB := eng.ConstBool(e)
			c.Check("R1", tag+"/flag-set-with-insertion", flag.Pos(), isB && b, "inserting a session into the result set marks the specification as matched")
		default:
			c.Check("R1", tag+"/flag-kept-otherwise", flag.Pos(), e == ssa.Value(flag), "a non-matching session leaves the flag unchanged", eng.Render(e))
		}
	}
	// edges into the insertion block
	kinds := map[string]bool{}
	okEdges := len(setBlock.Preds) > 0
	for _, p := range setBlock.Preds {
		iff, ok := p.Instrs[len(p.Instrs)-1].(*ssa.If)
		if !ok || len(p.Succs) != 2 || p.Succs[0] == p.Succs[1] {
			okEdges = false
			continue
		}
		// the edge into the insertion block must establish the equality
		// (true edge of ==, or false edge of != after an inverted test)
		a := eng.MkAtom(iff.Cond, p.Succs[0] == setBlock)
		k := ""
		if a.Pos {
			k = fieldEqSpec(a.V)
			if b, isB := a.V.(*ssa.BinOp); isB && b.Op == token.NEQ {
				eq := *b
				eq.Op = token.EQL
				k = fieldEqSpec(&eq)
			}
		}
		if k == "" {
			okEdges = false
		}
		kinds[k] = true
	}
	c.Check("R1", tag+"/insert-iff-identifier-or-name-equal", mu.Pos(), okEdges && kinds["Identifier"] && kinds["Name"] && len(kinds) == 2, "a session is inserted exactly on the edges where its identifier or its name equals the specification", fmt.Sprint(keys(kinds)))
	// and the non-matching route: both tests false → back to the loop without insertion
	c.Check("R1", tag+"/inserted-key-is-session", mu.Pos(), strings.HasSuffix(eng.Render(mu.Key), "range(p0.sessions))#2") && constBoolIs(mu.Value, true), "the inserted key is the session being examined", eng.Render(mu.Key))
	// every other path from inner body to the header carries no insertion: setBlock is the only block with a MapUpdate (one MapUpdate)
	n := 0
	eng.EachInstr(fn, func(i ssa.Instruction) {
		if _, ok := i.(*ssa.MapUpdate); ok {
			n++
		}
	})
	c.Check("R1", tag+"/single-insertion-site", fn.Pos(), n == 1, "there is one insertion site", fmt.Sprint(n))
	// error when unmatched
	nErr := 0
	for _, r := range eng.Returns(fn) {
		res := eng.RetResults(r)
		if eng.IsNilConst(res[1]) {
			// success: result is the list appended from the set
			phi, ok := eng.Unwrap(res[0]).(*ssa.Phi)
			okL := false
			if ok {
				for _, e := range phi.Edges {
					if app, ok := eng.Unwrap(e).(*ssa.Call); ok && eng.CalleeName(app) == "builtin:append" {
						el := eng.AppendElems(app)
						if len(el) == 1 {
							if ex, ok := eng.Unwrap(el[0]).(*ssa.Extract); ok && ex.Index == 1 {
								if nx, ok := ex.Tuple.(*ssa.Next); ok {
									if rg, ok := nx.Iter.(*ssa.Range); ok && eng.Unwrap(rg.X) == eng.Unwrap(mu.Map) && eng.Unwrap(app.Call.Args[0]) == ssa.Value(phi) {
										okL = true
									}
								}
							}
						}
					}
				}
			}
			c.Check("R1", tag+"/result-is-the-set", r.Pos(), okL, "the result list consists of every key of the result set, appended once", eng.Render(res[0]))
			continue
		}
		nErr++
		g := eng.Guards(r)
		okG := false
		for _, a := range g {
			if a.V == ssa.Value(flag) && !a.Pos {
				okG = true
			}
		}
		c.Check("R1", tag+"/error-iff-unmatched", r.Pos(), okG && eng.IsNilConst(res[0]) && r.Block().Preds[0].Preds[0] == inner, "an error (and no list) is returned when a specification matched no session, tested right after the scan", atomsShort(g))
	}
	if nErr != 1 {
		c.Problem("R1", "%s: expected one error return, found %d", tag, nErr)
	}
	// the test of the flag follows the inner loop's exit
	if done := inner.Succs[1]; done != nil {
		iff, ok := done.Instrs[len(done.Instrs)-1].(*ssa.If)
		c.Check("R1", tag+"/flag-tested-after-each-scan", fn.Pos(), ok && iff.Cond == ssa.Value(flag), "the flag is tested after the scan of every specification")
	}
}

func constBoolIs(v ssa.Value, want bool) bool {
	b, ok := eng.ConstBool(v)
	return ok && b == want
}

func c40ByLabel(c *eng.Ctx, pkg, tag string) {
	fn := c.MustFunc("R2", pkg, "Manager.findControllersByLabelSelector")
	if fn == nil {
		return
	}
	var parse *ssa.Call
	for _, call := range eng.CallsNamed(fn, "selection.ParseLabelSelector") {
		parse, _ = call.(*ssa.Call)
	}
	c.Check("R2", tag+"/selector-parsed-from-argument", fn.Pos(), parse != nil && eng.Render(parse.Call.Args[0]) == "p1", "the selector is parsed from the argument")
	if parse == nil {
		return
	}
	nApp := 0
	for _, call := range eng.Calls(fn) {
		if eng.CalleeName(call) != "builtin:append" {
			continue
		}
		nApp++
		g := eng.Guards(call)
		okG := false
		for _, a := range g {
			if cl, ok := a.V.(*ssa.Call); ok && a.Pos && cl.Call.IsInvoke() && cl.Call.Method.Name() == "Matches" {
				recv, isEx := eng.Unwrap(cl.Call.Value).(*ssa.Extract)
				if isEx && recv.Tuple == ssa.Value(parse) && recv.Index == 0 && strings.HasSuffix(eng.Render(cl.Call.Args[0]), "range(p0.sessions))#2.session.Labels") {
					okG = true
				}
			}
		}
		el := eng.AppendElems(call.(*ssa.Call))
		c.Check("R2", tag+"/append-iff-labels-match", call.Pos(), okG && len(el) == 1 && strings.HasSuffix(eng.Render(el[0]), "range(p0.sessions))#2"), "a session is appended exactly when the selector matches its labels", atomsShort(g))
	}
	if nApp != 1 {
		c.Problem("R2", "%s: expected one append, found %d", tag, nApp)
	}
	// a session is passed over only because the selector said no: every way back
	// to the loop header other than through the append carries Matches(...) false
	for _, hdr := range fn.Blocks {
		if hdr.Comment != "rangeiter.loop" {
			continue
		}
		nSkip, badSkip := 0, ""
		for _, p := range hdr.Preds {
			if !hdr.Dominates(p) {
				continue
			}
			appends := false
			for _, in := range p.Instrs {
				if cl, ok := in.(*ssa.Call); ok && eng.CalleeName(cl) == "builtin:append" {
					appends = true
				}
			}
			if appends {
				continue
			}
			nSkip++
			said := false
			for _, a := range edgeGuards(p, hdr) {
				if cl, ok := a.V.(*ssa.Call); ok && !a.Pos && cl.Call.IsInvoke() && cl.Call.Method.Name() == "Matches" {
					said = true
				}
			}
			if !said {
				badSkip = atomsShort(edgeGuards(p, hdr))
			}
		}
		c.Check("R2", tag+"/skipped-only-when-selector-rejects", hdr.Instrs[0].Pos(), nSkip > 0 && badSkip == "", "a session is left out only on the false edge of selector.Matches — no pre-filter (e.g. on empty labels) decides instead of the selector", badSkip)
	}
	for _, r := range eng.Returns(fn) {
		res := eng.RetResults(r)
		g := eng.Guards(r)
		if eng.IsNilConst(res[1]) {
			c.Check("R2", tag+"/success-after-parse-ok", r.Pos(), eng.HasAtom(g, `^\(selection\.ParseLabelSelector\(p1\)#1 == nil\)$`, true), "the list is returned only when the selector parsed", atomsShort(g))
		} else {
			c.Check("R2", tag+"/parse-error-returned", r.Pos(), eng.HasAtom(g, `^\(selection\.ParseLabelSelector\(p1\)#1 == nil\)$`, false) && eng.IsNilConst(res[0]), "a selector that does not parse yields an error and no list")
		}
	}
}

func c40Dispatch(c *eng.Ctx, pkg, tag string) {
	fn := c.MustFunc("R3", pkg, "Manager.selectControllers")
	if fn == nil {
		return
	}
	for _, r := range eng.Returns(fn) {
		g := eng.Guards(r)
		res := eng.RetResults(r)
		src := eng.Render(res[0])
		all := eng.HasAtom(g, `^p1\.All$`, true)
		notAll := eng.HasAtom(g, `^p1\.All$`, false)
		spec := eng.HasAtom(g, `^\(len\(p1\.Specifications\) > 0\)$`, true)
		noSpec := eng.HasAtom(g, `^\(len\(p1\.Specifications\) > 0\)$`, false)
		lab := eng.HasAtom(g, `^\(p1\.LabelSelector == ""\)$`, false)
		noLab := eng.HasAtom(g, `^\(p1\.LabelSelector == ""\)$`, true)
		switch {
		case strings.Contains(src, "allControllers(p0)"):
			c.Check("R3", tag+"/all", r.Pos(), all, "all sessions are returned only when All is set", atomsShort(g))
		case strings.Contains(src, "findControllersBySpecification(p0, p1.Specifications)"):
			c.Check("R3", tag+"/by-specification", r.Pos(), notAll && spec, "specifications are used when present (and All is not set)", atomsShort(g))
		case strings.Contains(src, "findControllersByLabelSelector(p0, p1.LabelSelector)"):
			c.Check("R3", tag+"/by-label", r.Pos(), notAll && noSpec && lab, "the label selector is used when it is the only mechanism given", atomsShort(g))
		case eng.IsNilConst(res[0]) && !eng.IsNilConst(res[1]):
			c.Check("R3", tag+"/empty-selection-rejected", r.Pos(), notAll && noSpec && noLab, "an empty selection is an error", atomsShort(g))
		default:
			c.Check("R3", tag+"/unexpected-return", r.Pos(), false, "selectControllers returns only through the three mechanisms or the error", src)
		}
	}
}

func c40Comparator(c *eng.Ctx, pkg, tag string) {
	fn := c.MustFunc("R5", pkg, "Manager.List")
	if fn == nil {
		return
	}
	var srt *ssa.Call
	for _, call := range eng.CallsNamed(fn, "sort.Slice") {
		srt, _ = call.(*ssa.Call)
	}
	if srt == nil {
		c.Check("R5", tag+"/sorted-by-creation-time", fn.Pos(), false, "List sorts the states with sort.Slice")
		return
	}
	mc, ok := eng.Unwrap(srt.Call.Args[1]).(*ssa.MakeClosure)
	if !ok {
		c.Problem("R5", "%s: comparator is not a closure", tag)
		return
	}
	cmp := mc.Fn.(*ssa.Function)
	c.Analysed(cmp)
	be, err := eng.FuncBoolExpr(cmp)
	if err != nil {
		c.Problem("R5", "%s: comparator: %v", tag, err)
		return
	}
	var sl, se, nl string
	bad := ""
	for _, a := range be.AtomNames() {
		orient := strings.Index(a, "[p0]") >= 0 && strings.Index(a, "[p1]") > strings.Index(a, "[p0]") && strings.Count(a, "[p0]") == 1 && strings.Count(a, "[p1]") == 1
		switch {
		case strings.Contains(a, ".CreationTime.Seconds < ") && strings.HasSuffix(a, ".CreationTime.Seconds)") && orient:
			sl = a
		case strings.Contains(a, ".CreationTime.Seconds == ") && strings.HasSuffix(a, ".CreationTime.Seconds)"):
			se = a
		case strings.Contains(a, ".CreationTime.Nanos < ") && strings.HasSuffix(a, ".CreationTime.Nanos)") && orient:
			nl = a
		default:
			bad = a
		}
	}
	okT := false
	detail := bad
	if sl != "" && se != "" && nl != "" && bad == "" {
		eq, cex, err := eng.TruthTableEqual(be, []string{sl, se, nl}, func(env map[string]bool) bool {
			if env[sl] && env[se] {
				return be.Eval(env) // a.S < b.S and a.S == b.S cannot both hold: don't care
			}
			return env[sl] || (env[se] && env[nl])
		})
		okT = eq && err == nil
		if !eq {
			detail = fmt.Sprint(cex)
		}
	}
	c.Check("R5", tag+"/comparator-is-creation-time-order", cmp.Pos(), okT, "the comparator is (i.Seconds < j.Seconds) ∨ (i.Seconds = j.Seconds ∧ i.Nanos < j.Nanos)", detail)
	// the sorted slice is the one captured and the one returned
	// the slice lives in a cell (it is captured by the comparator): compare cells
	cellOf := func(v ssa.Value) ssa.Value {
		if u, ok := eng.Unwrap(v).(*ssa.UnOp); ok && u.Op == token.MUL {
			return u.X
		}
		return eng.Unwrap(v)
	}
	sorted := cellOf(srt.Call.Args[0])
	ret := false
	for _, r := range eng.Returns(fn) {
		res := eng.RetResults(r)
		if eng.IsNilConst(res[2]) {
			ret = cellOf(res[1]) == sorted && srt.Block().Dominates(r.Block())
		}
	}
	capt := false
	for _, b := range mc.Bindings {
		if b == sorted {
			capt = true
		}
	}
	if al, ok := sorted.(*ssa.Alloc); ok {
		// the cell is assigned once (the slice is not replaced between sorting and returning)
		if eng.SingleAssign(al) == nil {
			ret = false
		}
	}
	c.Check("R5", tag+"/sorts-the-returned-slice", srt.Pos(), ret && capt, "the slice sorted is the slice the comparator indexes and the slice returned", fmt.Sprintf("returned=%v captured=%v", ret, capt))
}

// fieldPath walks v (a FieldAddr, or a load of one) up to its root value,
// returning the field names from the root.
func fieldPath(v ssa.Value) (ssa.Value, []string) {
	var path []string
	for {
		switch x := v.(type) {
		case *ssa.UnOp:
			if x.Op == token.MUL {
				v = x.X
				continue
			}
		case *ssa.FieldAddr:
			path = append([]string{eng.FieldOf(x).Name()}, path...)
			v = x.X
			continue
		}
		return v, path
	}
}

func c40Truncation(c *eng.Ctx) {
	fn := c.MustFunc("R4", syncPkg, "Manager.List")
	if fn == nil {
		return
	}
	// expected instances from the types
	expected := map[string]bool{}
	stT, err := c.P.Named(syncPkg, "State")
	if err != nil {
		c.Problem("R4", "%v", err)
		return
	}
	var collect func(prefix string, t types.Type, depth int)
	collect = func(prefix string, t types.Type, depth int) {
		if p, ok := t.(*types.Pointer); ok {
			t = p.Elem()
		}
		s, ok := t.Underlying().(*types.Struct)
		if !ok || depth > 2 {
			return
		}
		for i := 0; i < s.NumFields(); i++ {
			f := s.Field(i)
			if !f.Exported() {
				continue
			}
			if strings.HasPrefix(f.Name(), "Excluded") {
				expected[prefix+strings.TrimPrefix(f.Name(), "Excluded")] = true
			}
			if strings.HasSuffix(f.Name(), "State") {
				collect(prefix+f.Name()+".", f.Type(), depth+1)
			}
		}
	}
	collect("", stT, 0)
	seen := map[string]bool{}
	eng.EachInstr(fn, func(i ssa.Instruction) {
		st, ok := i.(*ssa.Store)
		if !ok {
			return
		}
		fa, ok := st.Addr.(*ssa.FieldAddr)
		if !ok || !strings.HasPrefix(eng.FieldOf(fa).Name(), "Excluded") {
			return
		}
		root, path := fieldPath(fa)
		listPath := append(append([]string(nil), path[:len(path)-1]...), strings.TrimPrefix(path[len(path)-1], "Excluded"))
		key := strings.Join(listPath, ".")
		seen[key] = true
		isList := func(v ssa.Value) bool { // a load of the list field of the same root
			u, ok := eng.Unwrap(v).(*ssa.UnOp)
			if !ok || u.Op != token.MUL {
				return false
			}
			r, p := fieldPath(u.X)
			return r == root && strings.Join(p, ".") == key
		}
		lenOfList := func(v ssa.Value) bool {
			call, ok := eng.Unwrap(v).(*ssa.Call)
			return ok && eng.CalleeName(call) == "builtin:len" && isList(call.Call.Args[0])
		}
		// value: uint64(len(list) - K)
		var k int64 = -1
		val := st.Val
		if cv, ok := val.(*ssa.Convert); ok {
			val = cv.X
		}
		if b, ok := val.(*ssa.BinOp); ok && b.Op == token.SUB && lenOfList(b.X) {
			k, _ = eng.ConstInt64(b.Y)
		}
		c.Check("R4", key+"/excluded-is-len-minus-K", st.Pos(), k > 0, "the excluded count is the length of that very list minus the limit", eng.Render(st.Val))
		// guard
		blk := st.Block()
		okGuard := false
		if len(blk.Preds) == 1 {
			p := blk.Preds[0]
			if iff, ok := p.Instrs[len(p.Instrs)-1].(*ssa.If); ok && p.Succs[0] == blk {
				if b, ok := iff.Cond.(*ssa.BinOp); ok && b.Op == token.GTR && lenOfList(b.X) && constIs(b.Y, k) {
					okGuard = true
				}
			}
			// copy and sort precede the test in the predecessor
			var cp, so ssa.Instruction
			for _, in := range p.Instrs {
				if s2, ok := in.(*ssa.Store); ok {
					r, pp := fieldPath(s2.Addr)
					if r == root && strings.Join(pp, ".") == key {
						if call, ok := s2.Val.(*ssa.Call); ok && strings.HasPrefix(eng.CalleeName(call), "synchronization/core.Copy") && isList(call.Call.Args[0]) {
							cp = in
						}
					}
				}
				if call, ok := in.(*ssa.Call); ok && strings.HasPrefix(eng.CalleeName(call), "synchronization/core.Sort") && isList(call.Call.Args[0]) {
					so = in
				}
			}
			c.Check("R4", key+"/copied-then-sorted-before-truncation", st.Pos(), cp != nil && so != nil && eng.InstrIndex(cp) < eng.InstrIndex(so), "the list is copied and then sorted (depth-first path order) before it is measured and cut")
		}
		c.Check("R4", key+"/only-when-longer-than-K", st.Pos(), okGuard, "truncation happens exactly when that list is longer than the same limit")
		// truncation store
		okTr := false
		for _, in := range blk.Instrs {
			if s2, ok := in.(*ssa.Store); ok && s2 != st {
				r, pp := fieldPath(s2.Addr)
				if r == root && strings.Join(pp, ".") == key {
					if sl, ok := s2.Val.(*ssa.Slice); ok && sl.Low == nil && sl.High != nil && constIs(sl.High, k) && isList(sl.X) {
						okTr = true
					}
				}
			}
		}
		c.Check("R4", key+"/list-cut-to-K", st.Pos(), okTr, "the same list is cut to its first K entries, K being the limit used in the count")
	})
	for k := range expected {
		c.Check("R4", k+"/processed", fn.Pos(), seen[k], "every list with an Excluded* counter is sorted, counted and truncated by List")
	}
	if len(expected) < 5 {
		c.Problem("R4", "expected ≥5 truncatable lists in State, found %d", len(expected))
	}
	c.Floor("R4", 25)
}

func c40Less(c *eng.Ctx) {
	fn := c.MustFunc("R6", fastpathPkg, "Less")
	if fn == nil {
		return
	}
	// loop header: the block with two string φs
	var hdr *ssa.BasicBlock
	for _, b := range fn.Blocks {
		n := 0
		for _, in := range b.Instrs {
			if phi, ok := in.(*ssa.Phi); ok && eng.TypeShort(phi.Type()) == "string" {
				for j := range phi.Edges {
					if b.Dominates(b.Preds[j]) {
						n++
						break
					}
				}
			}
		}
		if n == 2 {
			hdr = b
		}
	}
	if hdr == nil {
		c.Problem("R6", "component loop not found in fastpath.Less")
		return
	}
	// trivial cases before the loop
	nTriv := 0
	for _, r := range eng.Returns(fn) {
		if hdr.Dominates(r.Block()) {
			continue
		}
		nTriv++
		g := eng.Guards(r)
		v, _ := eng.ConstBool(eng.RetResults(r)[0])
		switch {
		case eng.HasAtom(g, `^\(p0 == p1\)$`, true):
			c.Check("R6", "equal-paths-not-less", r.Pos(), !v, "a path is not less than itself")
		case eng.HasAtom(g, `^\(p0 == ""\)$`, true) && eng.HasAtom(g, `^\(p0 == p1\)$`, false):
			c.Check("R6", "root-first", r.Pos(), v, "the root precedes every other path")
		case eng.HasAtom(g, `^\(p1 == ""\)$`, true) && eng.HasAtom(g, `^\(p0 == p1\)$`, false):
			c.Check("R6", "nothing-before-root", r.Pos(), !v, "no other path precedes the root")
		default:
			c.Check("R6", "unexpected-trivial-return", r.Pos(), false, "unexpected return before the component loop", atomsShort(g))
		}
	}
	// φs and index calls
	type side struct {
		phi  *ssa.Phi
		idx  *ssa.Call
		comp *ssa.Phi
	}
	var sides []side
	for _, in := range hdr.Instrs {
		phi, ok := in.(*ssa.Phi)
		if !ok {
			continue
		}
		s := side{phi: phi}
		eng.EachInstr(fn, func(i ssa.Instruction) {
			if call, ok := i.(*ssa.Call); ok && eng.CalleeName(call) == "strings.IndexByte" && call.Call.Args[0] == ssa.Value(phi) && constIs(call.Call.Args[1], '/') {
				s.idx = call
			}
		})
		sides = append(sides, s)
	}
	if len(sides) != 2 || sides[0].idx == nil || sides[1].idx == nil {
		c.Problem("R6", "IndexByte calls on the loop variables not found")
		return
	}
	for n, s := range sides {
		name := []string{"first", "second"}[n]
		// advance: φ(pN, phi[idx+1:])
		okAdv, okInit := false, false
		for j, e := range s.phi.Edges {
			if hdr.Dominates(hdr.Preds[j]) {
				if sl, ok := e.(*ssa.Slice); ok && sl.X == ssa.Value(s.phi) && sl.High == nil && sl.Low != nil {
					if b, ok := sl.Low.(*ssa.BinOp); ok && b.Op == token.ADD && b.X == ssa.Value(s.idx) && constIs(b.Y, 1) {
						okAdv = true
					}
				}
			} else if eng.Render(e) == fmt.Sprintf("p%d", n) {
				okInit = true
			}
		}
		c.Check("R6", name+"/remainder-skips-separator", s.phi.Pos(), okAdv && okInit, "the next iteration continues with s[IndexByte(s,'/')+1:] (initially the argument)")
		// component φ: φ(phi | phi[:idx]) with the whole string on the idx == -1 edge
		var comp *ssa.Phi
		eng.EachInstr(fn, func(i ssa.Instruction) {
			p, ok := i.(*ssa.Phi)
			if !ok || p.Block() == hdr || len(p.Edges) != 2 {
				return
			}
			for _, e := range p.Edges {
				if sl, ok := e.(*ssa.Slice); ok && sl.X == ssa.Value(s.phi) {
					comp = p
				}
			}
		})
		okComp := false
		if comp != nil {
			okComp = true
			for j, e := range comp.Edges {
				pred := comp.Block().Preds[j]
				ga := eng.GuardsOfBlock(pred)
				noSlash, hasSlash := false, false
				for _, a := range ga {
					if b, ok := a.V.(*ssa.BinOp); ok && b.X == ssa.Value(s.idx) && constIs(b.Y, -1) {
						if a.Pos {
							noSlash = true
						} else {
							hasSlash = true
						}
					}
				}
				if e == ssa.Value(s.phi) {
					okComp = okComp && noSlash
				} else if sl, ok := e.(*ssa.Slice); ok && sl.X == ssa.Value(s.phi) && sl.Low == nil && sl.High == ssa.Value(s.idx) {
					okComp = okComp && hasSlash
				} else {
					okComp = false
				}
			}
		}
		c.Check("R6", name+"/front-component-excludes-separator", s.phi.Pos(), okComp, "the front component is s[:IndexByte(s,'/')] (the whole string when there is no slash) — the separator is not part of it")
		sides[n].comp = comp
	}
	if sides[0].comp == nil || sides[1].comp == nil {
		return
	}
	// decision list
	classify := func(a eng.Atom) (string, bool) {
		b, ok := a.V.(*ssa.BinOp)
		if !ok {
			return "", false
		}
		switch {
		case b.Op == token.LSS && b.X == ssa.Value(sides[0].comp) && b.Y == ssa.Value(sides[1].comp):
			return "A", true
		case b.Op == token.LSS && b.X == ssa.Value(sides[1].comp) && b.Y == ssa.Value(sides[0].comp):
			return "B", true
		case b.Op == token.GTR && b.X == ssa.Value(sides[0].comp) && b.Y == ssa.Value(sides[1].comp):
			return "B", true
		case b.Op == token.GTR && b.X == ssa.Value(sides[1].comp) && b.Y == ssa.Value(sides[0].comp):
			return "A", true
		case (b.Op == token.EQL || b.Op == token.NEQ) && b.X == ssa.Value(sides[0].idx) && constIs(b.Y, -1):
			return "E1", true
		case (b.Op == token.EQL || b.Op == token.NEQ) && b.X == ssa.Value(sides[1].idx) && constIs(b.Y, -1):
			return "E2", true
		}
		return "", false
	}
	spec := func(env map[string]bool) string {
		switch {
		case env["A"]:
			return "true"
		case env["B"]:
			return "false"
		case env["E1"]:
			return "true"
		case env["E2"]:
			return "false"
		}
		return "continue"
	}
	agree := func(g []eng.Atom, outcome string) (bool, string) {
		fixed := map[string]bool{}
		for _, a := range g {
			if k, ok := classify(a); ok {
				fixed[k] = a.Pos
			}
		}
		names := []string{"A", "B", "E1", "E2"}
		for m := 0; m < 16; m++ {
			env := map[string]bool{}
			okEnv := true
			for i, nme := range names {
				env[nme] = m&(1<<i) != 0
				if f, has := fixed[nme]; has && f != env[nme] {
					okEnv = false
				}
			}
			if !okEnv || (env["A"] && env["B"]) {
				continue
			}
			if got := spec(env); got != outcome {
				return false, fmt.Sprintf("with %v the order requires %s", env, got)
			}
		}
		return true, ""
	}
	nIn := 0
	for _, r := range eng.Returns(fn) {
		if !hdr.Dominates(r.Block()) {
			continue
		}
		nIn++
		v, isB := eng.ConstBool(eng.RetResults(r)[0])
		okA, why := agree(eng.Guards(r), fmt.Sprint(v))
		c.Check("R6", fmt.Sprintf("loop-return#%d-agrees-with-decision-list", nIn), r.Pos(), isB && okA, "this return matches «c1<c2 → true; c2<c1 → false; first exhausted → true; second exhausted → false»", why)
	}
	for _, p := range hdr.Preds {
		if !hdr.Dominates(p) {
			continue
		}
		okA, why := agree(eng.GuardsOfBlock(p), "continue")
		c.Check("R6", "continue-only-when-components-equal-and-both-have-more", eng.InstrPos(p.Instrs[len(p.Instrs)-1]), okA, "the loop continues only when the components are equal and both paths have further components", why)
	}
	if nIn < 4 || nTriv != 3 {
		c.Problem("R6", "expected 3 trivial and ≥4 loop returns in fastpath.Less, found %d and %d", nTriv, nIn)
	}
	// sort.Interface implementations
	for _, it := range []struct{ typ, field string }{{"sortableConflictList", "Root"}, {"sortableProblemList", "Path"}} {
		lf := c.MustFunc("R6", corePkg, it.typ+".Less")
		if lf == nil {
			continue
		}
		okL := false
		for _, call := range eng.CallsNamed(lf, "synchronization/core/fastpath.Less") {
			a := call.Common().Args
			if eng.Render(a[0]) == "p0[p1]."+it.field && eng.Render(a[1]) == "p0[p2]."+it.field {
				for _, r := range eng.Returns(lf) {
					if eng.Unwrap(eng.RetResults(r)[0]) == call.(*ssa.Call) {
						okL = true
					}
				}
			}
		}
		c.Check("R6", it.typ+"/less-is-fastpath-less-on-paths", lf.Pos(), okL, "the list's Less is fastpath.Less(l[i]."+it.field+", l[j]."+it.field+")")
		sf := c.MustFunc("R6", corePkg, map[string]string{"sortableConflictList": "SortConflicts", "sortableProblemList": "SortProblems"}[it.typ])
		if sf != nil {
			okS := false
			for _, call := range eng.CallsNamed(sf, "sort.Sort") {
				if mi, ok := call.Common().Args[0].(*ssa.MakeInterface); ok && strings.HasSuffix(eng.TypeShort(mi.X.Type()), it.typ) && eng.Render(mi.X) == "p0" {
					okS = true
				}
			}
			c.Check("R6", it.typ+"/sorted-through-interface", sf.Pos(), okS, "the exported sorter sorts through that interface")
		}
	}
}
