package rules

import (
	"fmt"
	"go/types"
	"strings"

	"golang.org/x/tools/go/ssa"

	"verif/sa/eng"
)

func init() {
	eng.Register(&eng.Property{
		ID:       "C25",
		Title:    "Multiplexer operations never hang and a slow stream never blocks others",
		Packages: []string{muxPkg},
		Explanation: "Escape-hatch discipline of every blocking channel operation in the stream/multiplexer API, decided from the select instructions: " +
			"(R1) every blocking select in Stream.Read/Write/closeWrite/close and Multiplexer.OpenStream/AcceptStream contains a receive on the multiplexer's closed channel; the waiting selects of Read and Write additionally contain the stream's own closure channel, the peer-closure channel(s), the deadline timer's channel and the deadline-update channel; blocking operations outside a select are limited to a frozen table of capacity-1 semaphores/tokens returned by their holder and capacity-matched queues, each with its reason; " +
			"(R2) the read/write deadline semaphore taken at the start of Read/Write is given back by a deferred send on the same channel; " +
			"(R3) the reader never blocks on the accept backlog: the send on pendingInboundStreamIdentifiers is reached only when len(queue) was tested to be below its capacity (the channel is made with exactly that capacity), otherwise the open is rejected with a close message; " +
			"(R4) writeBufferPending and writeBufferAvailable have the same capacity, so handing a taken buffer to the writer never blocks; " +
			"(R5, token conservation) on every path of Write that returns a deadline error after the send-window token was taken, the token is put back. " +
			"(R6) the close and close-write messages are queued (blocking select with the multiplexer-closed escape) whenever the caller requested them, under no further condition, and Close/CloseWrite always request them — a peer blocked in Read learns of the closure only through that message; " +
			"(R7, sticky expiry) the deadline timers are one-shot: every return of os.ErrDeadlineExceeded from Read/Write is taken under the stream's expired flag or after setting it on all ways to that return, so a later call still sees the expiry after the timer's tick has been consumed; " +
			"Not decided: liveness under actual schedules, fairness, timer behaviour.",
		Assumptions: []string{"channel semantics of the Go memory model; a deferred send on an empty capacity-1 channel does not block"},
		Run:         runC25,
	})
}

type c25Exempt struct{ fn, field, dir, reason string }

var c25Standalone = []c25Exempt{
	{"(*multiplexing.Stream).Read$1", "readDeadline", "send", "returns the capacity-1 read semaphore its holder took (never full)"},
	{"(*multiplexing.Stream).Write$1", "writeDeadline", "send", "returns the capacity-1 write semaphore its holder took (never full)"},
	{"(*multiplexing.Stream).Read", "receiveBufferReady", "send", "capacity-1 token put back by the reader that consumed it, under receiveBufferLock"},
	{"(*multiplexing.Stream).Write", "sendWindowReady", "send", "capacity-1 token put back by the writer that consumed it, under sendWindowLock"},
	{"(*multiplexing.Stream).Write", "writeBufferPending", "send", "queue with the same capacity as the pool the buffer was taken from (R4)"},
	{"(*multiplexing.Multiplexer).OpenStream", "writeBufferPending", "send", "queue with the same capacity as the pool the buffer was taken from (R4)"},
	{"(*multiplexing.Multiplexer).acceptOneStream", "writeBufferPending", "send", "queue with the same capacity as the pool the buffer was taken from (R4)"},
	{"(*multiplexing.Stream).closeWrite$1", "writeDeadline", "recv", "waits for an in-flight Write, which always returns the semaphore (R2) and itself has every escape hatch including closedWrite, closed just above"},
	{"(*multiplexing.Stream).close$1", "readDeadline", "recv", "waits for an in-flight Read, which always returns the semaphore (R2) and observes `closed`, closed just above"},
}

func runC25(c *eng.Ctx) {
	c25CloseMessages(c)
	c25StickyExpiry(c)
	apis := []string{"Stream.Read", "Stream.Write", "Stream.closeWrite", "Stream.close", "Multiplexer.OpenStream", "Multiplexer.AcceptStream", "Multiplexer.acceptOneStream"}
	exempt := map[string]c25Exempt{}
	for _, e := range c25Standalone {
		exempt[e.fn+"|"+e.field+"|"+e.dir] = e
	}
	nSel, nSolo := 0, 0
	for _, api := range apis {
		top, err := c.P.Func(muxPkg, api)
		if err != nil {
			if api == "Multiplexer.acceptOneStream" || api == "Multiplexer.AcceptStream" {
				continue
			}
			c.Problem("R1", "%v", err)
			continue
		}
		for _, fn := range eng.WithClosures(top) {
			c.Analysed(fn)
			name := eng.FuncName(fn)
			isStream := strings.Contains(name, "multiplexing.Stream)")
			seenSel := map[*ssa.Select]bool{}
			for _, op := range eng.ChanOps(fn) {
				if op.Select != nil {
					if seenSel[op.Select] || !op.Select.Blocking {
						seenSel[op.Select] = true
						continue
					}
					seenSel[op.Select] = true
					nSel++
					var fields []string
					for _, st := range op.Select.States {
						r := eng.Render(st.Chan)
						fields = append(fields, r)
					}
					has := func(sub string) bool {
						for _, f := range fields {
							if strings.HasSuffix(f, sub) {
								return true
							}
						}
						return false
					}
					key := fmt.Sprintf("select#%d@%s", nSel, name)
					muxClosed := has("multiplexer.closed") || (!isStream && has("p0.closed")) || has("invoke:Done(p1)")
					c.Check("R1", key+"/multiplexer-closed", op.Select.Pos(), has("multiplexer.closed") || (!isStream && has("p0.closed")), "a blocking select can always be released by closing the multiplexer", strings.Join(fields, " | "))
					_ = muxClosed
					waiting := has("receiveBufferReady") || has("sendWindowReady")
					if waiting {
						for _, need := range []string{".closed", ".remoteClosed", ".C", "DeadlineSet"} {
							okN := false
							for _, f := range fields {
								if strings.HasSuffix(f, need) && !strings.HasSuffix(f, "multiplexer.closed") {
									okN = true
								}
							}
							c.Check("R1", key+"/has"+need, op.Select.Pos(), okN, "the data wait of Read/Write is also released by stream closure, peer closure, the deadline timer and deadline updates", strings.Join(fields, " | "))
						}
					}
					if has("readDeadline") || has("writeDeadline") {
						c.Check("R1", key+"/semaphore-wait-has-closed", op.Select.Pos(), has("p0.closed") || has("s.closed"), "waiting for the deadline semaphore is released by closing the stream")
					}
					continue
				}
				// standalone blocking operation
				nSolo++
				f := eng.ChanField(op.Chan)
				fname := "?"
				if f != nil {
					fname = f.Name()
				}
				dir := "recv"
				if op.Send {
					dir = "send"
				}
				e, ok := exempt[name+"|"+fname+"|"+dir]
				c.Check("R1", fmt.Sprintf("standalone:%s %s@%s", dir, fname, name), eng.InstrPos(op.Instr), ok, "a blocking channel operation outside a select is one of the tabled non-blocking-by-construction cases", e.reason)
			}
		}
	}
	if nSel < 6 || nSolo < 6 {
		c.Problem("R1", "expected ≥6 blocking selects and ≥6 standalone operations, found %d/%d", nSel, nSolo)
	}

	// capacities
	ctor := c.MustFunc("R4", muxPkg, "Multiplex")
	ns := c.MustFunc("R2", muxPkg, "newStream")
	caps := map[string]string{}
	for _, fn := range []*ssa.Function{ctor, ns} {
		if fn == nil {
			continue
		}
		eng.EachInstr(fn, func(i ssa.Instruction) {
			if st, ok := i.(*ssa.Store); ok {
				if mc, ok := st.Val.(*ssa.MakeChan); ok {
					if fa, ok := st.Addr.(*ssa.FieldAddr); ok {
						caps[eng.FieldOf(fa).Name()] = eng.Render(mc.Size)
					}
				}
			}
		})
	}
	c.Check("R4", "buffer-queues-same-capacity", ctor.Pos(), caps["writeBufferPending"] != "" && caps["writeBufferPending"] == caps["writeBufferAvailable"], "writeBufferPending and writeBufferAvailable have the same capacity", caps["writeBufferPending"]+" vs "+caps["writeBufferAvailable"])
	for _, f := range []string{"readDeadline", "writeDeadline", "receiveBufferReady", "sendWindowReady"} {
		c.Check("R4", "capacity-1:"+f, ns.Pos(), caps[f] == "1", "the semaphore/token channel "+f+" has capacity 1", caps[f])
	}

	// R2: deferred return of the semaphore.
	for _, m := range []struct{ fn, field string }{{"Stream.Read", "readDeadline"}, {"Stream.Write", "writeDeadline"}} {
		fn := c.MustFunc("R2", muxPkg, m.fn)
		if fn == nil {
			continue
		}
		fld, _ := c.P.Field(muxPkg, "Stream", m.field)
		var acquire ssa.Instruction
		for _, op := range eng.ChanOps(fn) {
			if !op.Send && eng.ChanField(op.Chan) == fld {
				acquire = op.Instr
			}
		}
		var deferred ssa.Instruction
		eng.EachInstr(fn, func(i ssa.Instruction) {
			d, ok := i.(*ssa.Defer)
			if !ok {
				return
			}
			if mc, ok := d.Call.Value.(*ssa.MakeClosure); ok {
				for _, op := range eng.ChanOps(mc.Fn.(*ssa.Function)) {
					if op.Send && eng.ChanField(op.Chan) == fld {
						deferred = d
					}
				}
			}
		})
		ok := acquire != nil && deferred != nil && acquire.Block().Dominates(deferred.Block())
		// no return between acquisition success and the defer
		if ok {
			for _, r := range eng.Returns(fn) {
				if acquire.Block().Dominates(r.Block()) && !deferred.Block().Dominates(r.Block()) {
					// returns on the failure arms of the acquiring select are fine: they did not get the semaphore
					g := eng.Guards(r)
					got := false
					for _, a := range g {
						if a.Pos && strings.HasPrefix(a.Expr, "(select(recv:p0."+m.field) && strings.HasSuffix(a.Expr, "#0 == 0)") {
							got = true
						}
					}
					if got {
						ok = false
					}
				}
			}
		}
		c.Check("R2", "semaphore-returned:"+m.fn, fn.Pos(), ok, "the deadline semaphore is handed back by a defer registered right after it was taken")
	}

	// R3: backlog.
	if rd := c.MustFunc("R3", muxPkg, "Multiplexer.read"); rd != nil {
		fld, _ := c.P.Field(muxPkg, "Multiplexer", "pendingInboundStreamIdentifiers")
		capR := caps["pendingInboundStreamIdentifiers"]
		n := 0
		for _, op := range eng.ChanOps(rd) {
			if !op.Send || eng.ChanField(op.Chan) != fld {
				continue
			}
			n++
			g := eng.Guards(op.Instr)
			q := "len(p0.pendingInboundStreamIdentifiers)"
			capExpr := strings.Replace(capR, "p0.", "p0.configuration.", 1)
			ok := false
			for _, a := range g {
				for _, ce := range []string{capR, capExpr, "p0.configuration.AcceptBacklog", "cap(p0.pendingInboundStreamIdentifiers)"} {
					if (!a.Pos && (a.Expr == "("+q+" == "+ce+")" || a.Expr == "("+q+" >= "+ce+")")) || (a.Pos && a.Expr == "("+q+" < "+ce+")") {
						ok = true
					}
				}
			}
			c.Check("R3", "backlog-send-guarded", eng.InstrPos(op.Instr), ok && op.Select == nil, "the reader queues an inbound stream only after testing that the backlog has room (len == capacity is false)", atomsShort(g))
			c.Check("R3", "backlog-capacity-is-configured", eng.InstrPos(op.Instr), strings.HasSuffix(capR, "AcceptBacklog"), "the backlog channel is made with the configured AcceptBacklog as capacity", capR)
		}
		if n != 1 {
			c.Problem("R3", "expected one backlog send in the reader, found %d", n)
		}
		// the full-backlog arm rejects with a close
		fldC, _ := c.P.Field(muxPkg, "Multiplexer", "enqueueClose")
		rej := false
		for _, op := range eng.ChanOps(rd) {
			if op.Send && eng.ChanField(op.Chan) == fldC {
				for _, a := range eng.Guards(op.Instr) {
					if a.Pos && strings.HasPrefix(a.Expr, "(len(p0.pendingInboundStreamIdentifiers) == ") {
						rej = true
					}
				}
			}
		}
		c.Check("R3", "overflow-rejected", rd.Pos(), rej, "an open beyond the backlog is answered with a close message")
	}

	// R5: token conservation in Write.
	if wr := c.MustFunc("R5", muxPkg, "Stream.Write"); wr != nil {
		fld, _ := c.P.Field(muxPkg, "Stream", "sendWindowReady")
		var sel *ssa.Select
		for _, op := range eng.ChanOps(wr) {
			if !op.Send && op.Select != nil && eng.ChanField(op.Chan) == fld {
				sel = op.Select
			}
		}
		if sel == nil {
			c.Problem("R5", "Write's waiting select not found")
			return
		}
		n := 0
		for _, r := range eng.Returns(wr) {
			res := eng.RetResults(r)
			if eng.Render(res[1]) != "os.ErrDeadlineExceeded" || !sel.Block().Dominates(r.Block()) {
				continue
			}
			n++
			paths, _ := eng.EnumPaths(sel.Block(), func(b *ssa.BasicBlock) bool { return b == r.Block() }, 5000)
			bad := 0
			for _, p := range paths {
				if p.Last() != r.Block() {
					continue
				}
				// is the token flag known true on this path?
				flagTrue := false
				for _, a := range p.Atoms {
					if phi, ok := a.V.(*ssa.Phi); ok && a.Pos {
						if b, isB := phi.Type().Underlying().(*types.Basic); isB && b.Kind() == types.Bool && strings.Contains(phi.Comment, "haveNonZeroSendWindow") {
							flagTrue = true
						}
					}
				}
				returned := false
				for _, b := range p.Blocks {
					for _, in := range b.Instrs {
						if s, ok := in.(*ssa.Send); ok && eng.ChanField(s.Chan) == fld {
							returned = true
						}
					}
				}
				tested := false
				for _, a := range p.Atoms {
					if phi, ok := a.V.(*ssa.Phi); ok && strings.Contains(phi.Comment, "haveNonZeroSendWindow") {
						tested = true
					}
				}
				if !tested || (flagTrue && !returned) {
					bad++
				}
			}
			c.Check("R5", fmt.Sprintf("token-returned-on-deadline#%d", n), r.Pos(), bad == 0, "a deadline expiry while holding the send-window token tests the token flag and puts the token back", fmt.Sprintf("%d path(s) lose the token", bad))
		}
		if n < 2 {
			c.Problem("R5", "expected two deadline returns inside Write's wait loop, found %d", n)
		}
	}
}
