package rules

import (
	"fmt"
	"go/token"
	"strings"

	"golang.org/x/tools/go/ssa"

	"verif/sa/eng"
)

func init() {
	eng.Register(&eng.Property{
		ID:       "C01",
		Title:    "Two-way-safe synchronization never loses a modification",
		Packages: []string{corePkg, syncPkg},
		Explanation: "Decides the safety argument of the three-way merge on every control-flow path of the planner (all inputs at once): " +
			"(R1, overwrite guard) every path of handleDisagreementBidirectional that appends a change for side X (= plans to overwrite X) carries the branch fact len(diff(path, ancestor, X.synchronizable()))==0 (X unmodified) or len(extractNonDeletionChanges(that diff))==0 (X only deleted); the only other admissible fact is mode==TwoWaySafe being false, and only for beta; " +
			"(R2) the planned change for X has Path=path and New = the other side's synchronizable content (or nil when that side deleted); " +
			"(R3) reconcile's mode switch sends TwoWaySafe (and TwoWayResolved) only to the bidirectional handler; " +
			"(R4) extractNonDeletionChanges keeps exactly the changes with New != nil; " +
			"(R5) differ.diff emits Change{Path, Old: base, New: target} exactly under !target.Equal(base,false) and otherwise recurses over the union of names; " +
			"(R6) under mode==TwoWaySafe, when both sides have non-deletion changes, the only emission is a conflict; " +
			"(R7) controller.synchronize folds each transition RESULT (not the planned New) into the ancestor, so a failed creation is never recorded as synchronized. " +
			"(R8, just-in-time check — the rule family of C08.R4) ensureExpectedFile/ensureExpectedSymbolicLink accept only when mode, size, exact modification time, file identity and digest (resp. link target) equal what the scan recorded, so content modified after the scan is not removed or replaced. " +
			"(R9, shared with C08.R3) only swapFile asks findAndMoveStagedFileIntoPlace for a replacing move, and only after its just-in-time check of the OLD file; every creation passes replace=false and every rename honours that flag — so content that appeared at a path after the scan is never overwritten by a created file. " +
			"(R10, shared with C06.R6) the plan's lists are written only by reconcile and the disagreement handlers, whose emissions R1–R9 analyse; " +
			"Not decided: correctness of Entry.Equal / synchronizable / nameUnion themselves (C07), the rest of the on-disk check-before-write layer (C08), multi-cycle histories.",
		Assumptions: []string{"diff, synchronizable and extractNonDeletionChanges are pure (two calls with equal arguments are equal)", "Entry values are immutable once scanned (C07.R3)"},
		Run:         runC01,
	})
}

func runC01(c *eng.Ctx) {
	c01Planner(c, "R1", "R2", "R6")

	// R10 (shared with C06.R6): nobody but reconcile and the handlers emits.
	if rec := c.MustFunc("R10", corePkg, "reconciler.reconcile"); rec != nil {
		var handlers []*ssa.Function
		for _, h := range reconcileHandlers {
			if fn := c.MustFunc("R10", corePkg, h); fn != nil {
				handlers = append(handlers, fn)
			}
		}
		c06WhoMayEmit(c, "R10", rec, handlers)
	}

	// R3: dispatch.
	if rec := c.MustFunc("R3", corePkg, "reconciler.reconcile"); rec != nil {
		c01Dispatch(c, rec, "R3", map[string]string{
			"TwoWaySafe":     "handleDisagreementBidirectional",
			"TwoWayResolved": "handleDisagreementBidirectional",
		})
	}

	// R4.
	if ex := c.MustFunc("R4", corePkg, "extractNonDeletionChanges"); ex != nil {
		n := 0
		eng.EachInstr(ex, func(i ssa.Instruction) {
			call, ok := i.(*ssa.Call)
			if !ok || eng.CalleeName(call) != "builtin:append" {
				return
			}
			n++
			g := eng.Guards(call)
			el := eng.AppendElems(call)
			elemOK := len(el) == 1
			guardOK := false
			if elemOK {
				guardOK = eng.HasAtom(g, `^\(`+eng.Q(eng.Render(el[0]))+`\.New == nil\)$`, false)
			}
			c.Check("R4", "keep-iff-new", call.Pos(), elemOK && guardOK, "a change is kept exactly when its New is non-nil", eng.AtomsText(g))
		})
		if n != 1 {
			c.Problem("R4", "expected exactly one append in extractNonDeletionChanges, found %d", n)
		}
		// The element appended is an element of the input.
	}

	c01DiffRules(c, "R5")
	c.Floor("R5", 5)

	// R7: controller folds results.
	if syn := c.MustFunc("R7", syncPkg, "controller.synchronize"); syn != nil {
		c01FoldResults(c, "R7", syn)
	}

	// R8: the just-in-time on-disk check before a file or link is removed or
	// replaced (the third mechanism of the property; shared with C08.R4).
	trEnsureExpected(c, "R8")

	// R9: creation never replaces. Content that appeared at a path after the
	// scan was never synchronized; a staged file moved over it would destroy it.
	trSwapFile(c, "R9")
}

// c01DiffRules decides the shape of differ.diff (shared with C07).
func c01DiffRules(c *eng.Ctx, rule string) {
	if d := c.MustFunc(rule, corePkg, "differ.diff"); d != nil {
		n := 0
		for _, b := range d.Blocks {
			for _, st := range storesInBlock(b) {
				fa, ok := st.Addr.(*ssa.FieldAddr)
				if !ok || eng.FieldOf(fa).Name() != "changes" {
					continue
				}
				n++
				g := eng.Guards(st)
				c.Check(rule, "emit-under-inequality", st.Pos(), eng.HasAtom(g, `^\(\*synchronization/core\.Entry\)\.Equal\(p3, p2, false\)$`, false),
					"a change is emitted only where target and base differ (shallow)", eng.AtomsText(g))
				if call, ok := st.Val.(*ssa.Call); ok {
					if el := eng.AppendElems(call); len(el) == 1 {
						if lit := eng.LitOf(el[0]); lit != nil {
							f := eng.LitFields(lit)
							ok := f["Path"] != nil && eng.Render(f["Path"]) == "p1" && f["Old"] != nil && eng.Render(f["Old"]) == "p2" && f["New"] != nil && eng.Render(f["New"]) == "p3"
							c.Check(rule, "orientation", st.Pos(), ok, "the change is {Path: path, Old: base, New: target}")
						}
					}
				}
				// after emitting, no recursion
				rec := false
				for _, bb := range dominatedBlocks(st.Block()) {
					for _, call := range bb.Instrs {
						if cl, ok := call.(*ssa.Call); ok && eng.Callee(cl) == d {
							rec = true
						}
					}
				}
				c.Check(rule, "no-descend-after-emit", st.Pos(), !rec, "after reporting a differing entry the differ does not descend into it")
			}
		}
		if n != 1 {
			c.Problem(rule, "expected exactly one emission in differ.diff, found %d", n)
		}
		// The recursion covers the union of names of both sides.
		for _, call := range eng.CallsTo(d, d) {
			args := call.Common().Args
			a2, a3 := eng.Render(args[2]), eng.Render(args[3])
			ok := strings.Contains(a2, "GetContents(p2)") && strings.Contains(a3, "GetContents(p3)") && strings.Contains(a2, "nameUnion(") && strings.Contains(a3, "nameUnion(")
			c.Check(rule, "recursion", call.Pos(), ok, "children are compared name by name over the union of both content maps", a2+" / "+a3)
			g := eng.Guards(call)
			c.Check(rule, "recursion-under-equality", call.Pos(), eng.HasAtom(g, `^\(\*synchronization/core\.Entry\)\.Equal\(p3, p2, false\)$`, true), "descent only into entries that are shallowly equal")
		}
		for _, call := range eng.CallsNamed(d, "synchronization/core.nameUnion") {
			args := eng.VarargElems(call.Common())
			var rs []string
			for _, a := range args {
				rs = append(rs, eng.Render(a))
			}
			ok := len(rs) == 2 && strings.Contains(strings.Join(rs, ","), "GetContents(p2)") && strings.Contains(strings.Join(rs, ","), "GetContents(p3)")
			c.Check(rule, "union-of-both", call.Pos(), ok, "the name union ranges over base and target contents", strings.Join(rs, ","))
		}
	}
}

func sideName(s string) string {
	if s == rAlpha {
		return "alpha"
	}
	return "beta"
}

// c01Dispatch checks that each call to a handler in reconcile is guarded by
// the expected mode tests.
func c01Dispatch(c *eng.Ctx, rec *ssa.Function, rule string, want map[string]string) {
	for mode, handler := range want {
		atom := modeAtom(c, mode)
		found := false
		for _, call := range eng.Calls(rec) {
			name := eng.CalleeName(call)
			if !strings.Contains(name, "handleDisagreement") {
				continue
			}
			g := eng.Guards(call)
			if eng.HasAtom(g, "^"+eng.Q(atom)+"$", true) {
				found = true
				c.Check(rule, "dispatch:"+mode, call.Pos(), strings.HasSuffix(name, "."+handler), "mode "+mode+" is handled by "+handler, name)
			}
		}
		if !found {
			c.Check(rule, "dispatch:"+mode, rec.Pos(), false, "mode "+mode+" has a dispatch arm in reconcile")
		}
	}
}

// c01FoldResults: in synchronize (and its goroutine closures) every Change
// appended to the lists later passed to core.Apply that stems from a transition
// has Path = transitions[i].Path and New = results[i] with the same index.
func c01FoldResults(c *eng.Ctx, rule string, syn *ssa.Function) {
	n := 0
	// scan looks for `append(list, &Change{Path: X[i].Path, New: R[i]})` in fn.
	// via is the call through which fn was reached when the conversion loop
	// lives in a helper (then X and R are the helper's parameters and the
	// call's arguments decide what they are).
	var scan func(fn *ssa.Function, via *ssa.Call)
	scan = func(fn *ssa.Function, via *ssa.Call) {
		eng.EachInstr(fn, func(i ssa.Instruction) {
			call, ok := i.(*ssa.Call)
			if !ok {
				return
			}
			if eng.CalleeName(call) != "builtin:append" {
				// one level of helper: a package function of the controller's package
				if via == nil {
					if callee := call.Call.StaticCallee(); callee != nil && callee.Blocks != nil && callee != syn && eng.FuncPkgRel(callee) == syncPkg && callee.Signature.Recv() == nil {
						scan(callee, call)
					}
				}
				return
			}
			el := eng.AppendElems(call)
			if len(el) != 1 {
				return
			}
			lit := eng.LitOf(el[0])
			if lit == nil || !strings.HasSuffix(eng.TypeShort(lit.Type()), "core.Change") {
				return
			}
			f := eng.LitFields(lit)
			if f["Path"] == nil || f["New"] == nil {
				return
			}
			pr, nr := eng.Render(f["Path"]), eng.Render(f["New"])
			if !strings.HasSuffix(pr, ".Path") || !strings.Contains(pr, "[") {
				return
			}
			n++
			key := eng.FuncName(fn)
			site := call.Pos()
			// pr = X[i].Path ; nr must be R[i] with the same index expression, R a results slice.
			idx := pr[strings.LastIndex(pr, "[")+1 : strings.LastIndex(pr, "]")]
			okNew := strings.HasSuffix(nr, "["+idx+"]") && strings.Contains(strings.ToLower(nr), "result") || isIndexOfResults(f["New"], idx)
			var guards []eng.Atom
			if via != nil {
				// inside the helper: New must be param[j][idx]; at the call site argument j must be the Transition results
				okNew = false
				if u, isU := f["New"].(*ssa.UnOp); isU {
					if ia, isIA := u.X.(*ssa.IndexAddr); isIA && eng.Render(ia.Index) == idx {
						if prm, isP := ia.X.(*ssa.Parameter); isP {
							for j, q := range fn.Params {
								if q == prm && j < len(via.Call.Args) {
									ar := eng.Render(via.Call.Args[j])
									okNew = strings.Contains(ar, "Transition(") || strings.Contains(strings.ToLower(ar), "results")
								}
							}
						}
					}
				}
				key = eng.FuncName(via.Parent()) + "→" + eng.FuncName(fn)
				site = via.Pos()
				guards = append(append([]eng.Atom(nil), eng.Guards(call)...), eng.Guards(via)...)
			} else {
				guards = eng.Guards(call)
			}
			c.Check(rule, "fold:"+key, site, okNew, "the ancestor receives the transition's reported result at the same index, not the planned content", "Path="+pr+" New="+nr)
			// Every transition is folded: inside the closure the append is
			// conditional only on the loop bound and on the transition call's error.
			extra := 0
			var extraAtom string
			for _, a := range guards {
				isLoop := strings.Contains(a.Expr, " < len(")
				isErr := strings.HasSuffix(a.Expr, " == nil)") && (strings.Contains(a.Expr, "TransitionErr") || strings.Contains(a.Expr, "Transition("))
				if !isLoop && !isErr {
					extra++
					extraAtom = a.String()
				}
			}
			c.Check(rule, "fold-unconditional:"+key, site, extra == 0, "every transition's result is folded into the ancestor (no result is skipped)", extraAtom)
			c.Analysed(fn)
		})
	}
	for _, fn := range eng.WithClosures(syn) {
		scan(fn, nil)
	}
	if n < 2 {
		c.Problem(rule, "expected two result-folding appends (alpha, beta) in synchronize, found %d", n)
	}
}

func isIndexOfResults(v ssa.Value, idx string) bool {
	u, ok := v.(*ssa.UnOp)
	if !ok || u.Op != token.MUL {
		return false
	}
	ia, ok := u.X.(*ssa.IndexAddr)
	if !ok || eng.Render(ia.Index) != idx {
		return false
	}
	// The indexed slice must be (a local holding) the Transition call's results.
	return strings.Contains(eng.Render(ia.X), "Transition(") || strings.Contains(strings.ToLower(eng.Render(ia.X)), "results")
}

// c01Planner decides the overwrite guard (r1), the planned literal (r2) and the
// two-way-safe conflict rule (r6) of the bidirectional handler. Shared with C04:
// a cycle is a fixpoint only if what is planned for a side is the OTHER side's
// synchronizable content (a mis-wired argument that plans the unfiltered subtree
// makes the ancestor absorb unsynchronizable entries).
func c01Planner(c *eng.Ctx, r1, r2, r6 string) {
	bidi := c.MustFunc(r1, corePkg, "reconciler.handleDisagreementBidirectional")
	if bidi == nil {
		return
	}
	twoWaySafe := modeAtom(c, "TwoWaySafe")
	sites := distinctEmitSites(bidi)
	hps := handlerPaths(c, r1, bidi)
	nAlpha, nBeta := 0, 0
	for _, hp := range hps {
		for _, e := range hp.emits {
			var side, other string
			switch e.list {
			case "alphaChanges":
				side, other = rAlpha, rBeta
				nAlpha++
			case "betaChanges":
				side, other = rBeta, rAlpha
				nBeta++
			default:
				continue
			}
			key := emitKey(bidi, sites[e.store], e)
			d := sideDiff(side)
			unmodified := lenZeroAtom(hp.path, d, true)
			deletionOnly := lenZeroAtom(hp.path, rND(d), true)
			modeEscape := side == rBeta && pathAtomEq(hp.path, twoWaySafe, false)
			c.Check(r1, key, e.store.Pos(), unmodified || deletionOnly || modeEscape,
				"a change that overwrites "+sideName(side)+" is planned only if "+sideName(side)+" is unmodified or deletion-only since the ancestor (or, for beta, the mode is not two-way-safe)",
				"path facts: "+atomsOf(hp.path))
			// R2: the literal.
			if e.fields == nil {
				c.Check(r2, key, e.store.Pos(), false, "the planned change is a literal that can be inspected")
				continue
			}
			pathOK := e.fields["Path"] != nil && eng.Render(e.fields["Path"]) == "p1"
			newR := "nil"
			if e.fields["New"] != nil {
				newR = eng.Render(e.fields["New"])
			}
			newOK := newR == rSyn(other)
			if newR == "nil" {
				// propagating a deletion: the other side's synchronizable content is nil on this path.
				newOK = pathAtomEq(hp.path, "("+rSyn(other)+" == nil)", true)
				// Both sides deletion-only: one side is nil and the other a pure
				// subtree of the ancestor (the handler's documented invariant), so
				// on the branch where this side is non-nil the other is nil.
				if !newOK && lenZeroAtom(hp.path, rND(sideDiff(side)), true) && lenZeroAtom(hp.path, rND(sideDiff(other)), true) &&
					pathAtomEq(hp.path, "("+rSyn(other)+" == nil)", false) == false && pathAtomEq(hp.path, "("+rSyn(side)+" == nil)", false) {
					newOK = true
				}
			}
			c.Check(r2, key, e.store.Pos(), pathOK && newOK, "the change for "+sideName(side)+" targets `path` and installs the other side's synchronizable content", fmt.Sprintf("Path=%v New=%s", pathOK, newR))
		}
		// R6.
		if pathAtomEq(hp.path, twoWaySafe, true) {
			onlyConflict := len(hp.emits) == 1 && hp.emits[0].list == "conflicts"
			c.Check(r6, "two-way-safe-both-modified", bidi.Pos(), onlyConflict, "where the handler tests for two-way-safe mode (both sides have non-deletion changes) it only records a conflict", fmt.Sprintf("%d emission(s)", len(hp.emits)))
		}
	}
	if nAlpha < 3 || nBeta < 4 {
		c.Problem(r1, "expected ≥3 alpha and ≥4 beta overwrite paths in the bidirectional handler, found %d/%d", nAlpha, nBeta)
	}
	c.Floor(r1, 7)
	c.Floor(r2, 7)
	c.Floor(r6, 1)
}
