package rules

import (
	"strings"

	"verif/sa/eng"
)

// c27RenameNeverUnlinks (C27.R5): WriteFileAtomic's commit is atomic only if
// filesystem.Rename replaces the target with a single rename. Rename must not
// remove, unlink or truncate anything itself (an "unlink, then rename" is a
// window in which neither the old nor the new content exists).
func c27RenameNeverUnlinks(c *eng.Ctx) {
	fn := c.MustFunc("R5", fsPkg, "Rename")
	if fn == nil {
		return
	}
	bad := ""
	nRename := 0
	for _, ci := range eng.Calls(fn) {
		n := strings.ToLower(eng.CalleeName(ci))
		short := n[strings.LastIndex(n, ".")+1:]
		if strings.Contains(short, "unlink") || strings.Contains(short, "remove") || strings.Contains(short, "rmdir") || strings.Contains(short, "truncate") || strings.Contains(short, "delete") {
			bad = eng.CalleeName(ci)
		}
		if strings.Contains(short, "renameat") || short == "rename" || strings.Contains(short, "movefile") {
			nRename++
		}
	}
	c.Check("R5", "rename-never-unlinks", fn.Pos(), bad == "" && nRename >= 1, "filesystem.Rename replaces by renaming only: it never unlinks, removes or truncates the target first", bad)
}
