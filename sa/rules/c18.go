package rules

import (
	"fmt"
	"go/token"
	"strings"

	"golang.org/x/tools/go/ssa"

	"verif/sa/eng"
)

func init() {
	eng.Register(&eng.Property{
		ID:       "C18",
		Title:    "Executability survives synchronization through an endpoint that cannot store it",
		Packages: []string{corePkg, syncPkg},
		Explanation: "(R1, decided on every path of propagateExecutabilityRecursive) the target's Executable bit is written only for File targets and only from (a) the source's bit on a path that established source≠nil ∧ source is a File ∧ digests of source and target are equal, (b) the ancestor's bit on a path that established ancestor≠nil ∧ File ∧ digest equal to the target's — and rule (a) failed, or (c) the source's bit where source and ancestor are both Files with equal digests — and rules (a) and (b) failed; the recursion pairs children by the target's names; " +
			"(R2) PropagateExecutability works on a Deep copy of the target and returns that copy; " +
			"(R3) the controller calls it only under portable permissions with exactly one side preserving executability: the source argument is the content of the snapshot whose PreservesExecutability was tested true, the target that of the snapshot tested false (and non-nil), the ancestor argument is the ancestor that is reconciled, and the result replaces the target content. " +
			"(R4, the bit reaches the disk) every permission-setting call made while a staged file is put in place — same-device route, cross-device intermediate, in-place swap, helpers included — uses the mode chosen on the entry's Executable bit (default mode, made executable when set); " +
			"Not decided: stability of bits across cycles and edit histories.",
		Assumptions: []string{"bytes.Equal on digests means equal content"},
		Run:         runC18,
	})
}

func runC18(c *eng.Ctx) {
	c18AppliedMode(c, "R4")
	fn := c.MustFunc("R1", corePkg, "propagateExecutabilityRecursive")
	if fn == nil {
		return
	}
	kinds, _ := c.P.ConstsOfType(corePkg, "EntryKind")
	kf := fmt.Sprint(kinds["EntryKind_File"])
	// stores to p2.Executable
	var stores []*ssa.Store
	eng.EachInstr(fn, func(i ssa.Instruction) {
		if st, ok := i.(*ssa.Store); ok {
			if fa, ok := st.Addr.(*ssa.FieldAddr); ok && eng.FieldOf(fa).Name() == "Executable" {
				stores = append(stores, st)
			}
		}
	})
	if len(stores) != 3 {
		c.Problem("R1", "expected three stores to Executable, found %d", len(stores))
	}
	for i, st := range stores {
		fa := st.Addr.(*ssa.FieldAddr)
		c.Check("R1", fmt.Sprintf("store#%d/target", i+1), st.Pos(), eng.Render(fa.X) == "p2", "only the target's bit is written", eng.Render(fa.X))
		paths, complete := eng.EnumPathsOpt(fn.Blocks[0], func(b *ssa.BasicBlock) bool { return b == st.Block() }, 20000, true)
		if !complete {
			c.Problem("R1", "too many paths to store #%d", i+1)
			continue
		}
		val := eng.Render(st.Val)
		n, bad := 0, 0
		var sample string
		for _, p := range paths {
			if p.Last() != st.Block() {
				continue
			}
			n++
			ex := p.ExpandedAtoms()
			has := func(expr string, pol bool) bool {
				for _, a := range ex {
					if a.Expr == expr && a.Pos == pol {
						return true
					}
				}
				return false
			}
			isFileT := has("(p2.Kind == "+kf+":EntryKind)", true)
			sOK := has("(p1 == nil)", false) && has("(p1.Kind == "+kf+":EntryKind)", true)
			aOK := has("(p0 == nil)", false) && has("(p0.Kind == "+kf+":EntryKind)", true)
			sT := has("bytes.Equal(p1.Digest, p2.Digest)", true) || has("bytes.Equal(p2.Digest, p1.Digest)", true)
			aT := has("bytes.Equal(p0.Digest, p2.Digest)", true) || has("bytes.Equal(p2.Digest, p0.Digest)", true)
			sA := has("bytes.Equal(p1.Digest, p0.Digest)", true) || has("bytes.Equal(p0.Digest, p1.Digest)", true)
			aTfalse := has("bytes.Equal(p0.Digest, p2.Digest)", false) || has("(p0 == nil)", true) || has("(p0.Kind == "+kf+":EntryKind)", false)
			sTfalse := has("bytes.Equal(p1.Digest, p2.Digest)", false) || has("(p1 == nil)", true) || has("(p1.Kind == "+kf+":EntryKind)", false)
			ok := false
			switch val {
			case "p1.Executable":
				ok = isFileT && sOK && (sT || (aOK && sA && sTfalse && aTfalse))
			case "p0.Executable":
				ok = isFileT && aOK && aT && sTfalse
			}
			if !ok {
				bad++
				sample = atomsShort(ex)
			}
		}
		c.Check("R1", fmt.Sprintf("store#%d/justified", i+1), st.Pos(), n > 0 && bad == 0, "the bit written ("+val+") is justified by content equality with the entry it is taken from, in rule order", fmt.Sprintf("%d of %d paths unjustified; e.g. %s", bad, n, sample))
	}
	// recursion pairs children by the target's names
	for _, call := range eng.CallsTo(fn, fn) {
		a := call.Common().Args
		key := "next(range((*synchronization/core.Entry).GetContents(p2)))#1"
		ok := eng.Render(a[0]) == "(*synchronization/core.Entry).GetContents(p0)["+key+"]" &&
			eng.Render(a[1]) == "(*synchronization/core.Entry).GetContents(p1)["+key+"]" &&
			(eng.Render(a[2]) == "(*synchronization/core.Entry).GetContents(p2)["+key+"]" ||
				// `for name, child := range targetContents`: the range value IS targetContents[name]
				eng.Render(a[2]) == "next(range((*synchronization/core.Entry).GetContents(p2)))#2")
		c.Check("R1", "recursion-by-name", call.Pos(), ok, "children are visited by the target's names with ancestor/source/target kept in their roles", eng.RenderCall(call.Common())[:min(200, len(eng.RenderCall(call.Common())))])
	}
	c.Floor("R1", 7)

	// R2.
	if pub := c.MustFunc("R2", corePkg, "PropagateExecutability"); pub != nil {
		beh, _ := c.P.ConstsOfType(corePkg, "EntryCopyBehavior")
		want := fmt.Sprintf("(*synchronization/core.Entry).Copy(p2, %d:EntryCopyBehavior)", beh["EntryCopyBehaviorDeep"])
		for _, call := range eng.CallsTo(pub, fn) {
			a := call.Common().Args
			c.Check("R2", "works-on-deep-copy", call.Pos(), eng.Render(a[2]) == want && eng.Render(a[0]) == "p0" && eng.Render(a[1]) == "p1", "the in-place propagation runs on a deep copy of the target, with ancestor and source passed through", eng.RenderCall(call.Common()))
		}
		for _, r := range eng.Returns(pub) {
			rv := eng.RetResults(r)[0]
			// (a nil target has a nil copy: returning nil under target == nil is the same value)
			nilForNil := eng.IsNilConst(rv) && eng.HasAtom(eng.Guards(r), `^\(p2 == nil\)$`, true)
			c.Check("R2", "returns-the-copy", r.Pos(), eng.Render(rv) == want || nilForNil, "the copy is returned")
		}
	}
	c.Floor("R2", 2)

	// R3.
	syn := c.MustFunc("R3", syncPkg, "controller.synchronize")
	if syn == nil {
		return
	}
	pmodes, _ := c.P.ConstsOfType(corePkg, "PermissionsMode")
	var rec *ssa.Call
	for _, call := range eng.CallsNamed(syn, "synchronization/core.Reconcile") {
		rec, _ = call.(*ssa.Call)
	}
	calls := eng.CallsNamed(syn, "synchronization/core.PropagateExecutability")
	if len(calls) != 2 {
		c.Problem("R3", "expected two PropagateExecutability calls in synchronize, found %d", len(calls))
	}
	for i, call := range calls {
		a := call.Common().Args
		g := eng.Guards(call)
		key := fmt.Sprintf("call#%d", i+1)
		c.Check("R3", key+"/portable", call.Pos(), eng.HasAtom(g, fmt.Sprintf(` == %d:PermissionsMode\)$`, pmodes["PermissionsMode_PermissionsModePortable"]), true), "propagation happens only under portable permissions")
		var preserving, nonPreserving string
		for _, at := range g {
			if strings.HasSuffix(at.Expr, ".PreservesExecutability") {
				base := strings.TrimSuffix(at.Expr, ".PreservesExecutability")
				if at.Pos {
					preserving = base
				} else {
					nonPreserving = base
				}
			}
		}
		// `a != b` on the two flags together with one of them decides the other
		for _, at := range g {
			b, ok := at.V.(*ssa.BinOp)
			if !ok || at.Pos || (b.Op != token.EQL && b.Op != token.NEQ) {
				continue
			}
			x, y := eng.Render(b.X), eng.Render(b.Y)
			if !strings.HasSuffix(x, ".PreservesExecutability") || !strings.HasSuffix(y, ".PreservesExecutability") {
				continue
			}
			xb, yb := strings.TrimSuffix(x, ".PreservesExecutability"), strings.TrimSuffix(y, ".PreservesExecutability")
			switch {
			case preserving == xb && nonPreserving == "":
				nonPreserving = yb
			case preserving == yb && nonPreserving == "":
				nonPreserving = xb
			case nonPreserving == xb && preserving == "":
				preserving = yb
			case nonPreserving == yb && preserving == "":
				preserving = xb
			}
		}
		if !c.Check("R3", key+"/exactly-one-preserves", call.Pos(), preserving != "" && nonPreserving != "" && preserving != nonPreserving, "one snapshot was tested to preserve executability and the other not to", atomsShort(g)) {
			continue
		}
		src, tgt := eng.Render(a[1]), eng.Render(a[2])
		c.Check("R3", key+"/source-is-preserving-side", call.Pos(), strings.Contains(src, preserving+".Content") && !strings.Contains(src, nonPreserving+".Content") || strings.Contains(src, preserving+".Content") && strings.Contains(src, "ReifyPhantomDirectories("), "the source argument is the preserving side's content", src[:min(160, len(src))])
		c.Check("R3", key+"/target-is-non-preserving-side", call.Pos(), strings.Contains(tgt, nonPreserving+".Content"), "the target argument is the non-preserving side's content", tgt[:min(160, len(tgt))])
		c.Check("R3", key+"/target-non-nil", call.Pos(), eng.HasAtom(g, `^\(`+eng.Q(tgt)+` == nil\)$`, false), "the target content is non-nil")
		if rec != nil {
			c.Check("R3", key+"/ancestor", call.Pos(), eng.Render(a[0]) == eng.Render(rec.Call.Args[0]) && !strings.Contains(eng.Render(a[0]), "Snapshot"), "the ancestor argument is the ancestor that is reconciled", eng.Render(a[0]))
			// result feeds Reconcile in the target's position
			cv, _ := call.(*ssa.Call)
			pos := 2
			if strings.Contains(nonPreserving, "α") || strings.Contains(strings.ToLower(nonPreserving), "alpha") {
				pos = 1
			}
			okUse := cv != nil && (eng.ReachesThroughPhis(cv, rec.Call.Args[1]) || eng.ReachesThroughPhis(cv, rec.Call.Args[2]))
			_ = pos
			c.Check("R3", key+"/result-reconciled", call.Pos(), okUse, "the propagated content is what gets reconciled")
		}
	}
	c.Floor("R3", 10)
}
