package rules

import (
	"strings"

	"golang.org/x/tools/go/ssa"

	"verif/sa/eng"
)

// c21Baseline decides R8: the serialized snapshot the client keeps as the
// baseline of the NEXT scan's delta owns its bytes. It is the result of a call
// that returns fresh storage (engine.PatchBytes) — not the contents of a buffer
// that lives in the client and is rewritten by the next scan: the next
// reconstruction reads block operations from the baseline while writing the new
// snapshot, and a shared buffer is overwritten under the reader.
func c21Baseline(c *eng.Ctx) {
	fld, err := c.P.Field(remotePkg, "endpointClient", "lastSnapshotBytes")
	if err != nil {
		c.Problem("R8", "%v", err)
		return
	}
	n := 0
	for _, st := range eng.StoresToField(c.P.ModuleFuncs(remotePkg), fld) {
		if eng.IsNilConst(st.Store.Val) {
			continue
		}
		n++
		v := eng.Unwrap(st.Store.Val)
		if ex, ok := v.(*ssa.Extract); ok {
			v = ex.Tuple
		}
		call, isCall := v.(*ssa.Call)
		ok, why := false, eng.Render(st.Store.Val)
		if isCall && !call.Call.IsInvoke() && call.Call.StaticCallee() != nil {
			ok = true
			if recv := call.Call.StaticCallee().Signature.Recv(); recv != nil && len(call.Call.Args) > 0 {
				r := eng.Render(call.Call.Args[0])
				if strings.HasPrefix(r, "p0.") || strings.HasPrefix(r, "&p0.") {
					ok, why = false, "a view handed out by "+r+", which the client keeps and rewrites"
				}
			}
		}
		c.Check("R8", "baseline-owns-its-bytes@"+eng.FuncName(st.Fn), st.Store.Pos(), ok, "the baseline kept for the next scan is freshly allocated by the call that produced it, not a view of a buffer the client reuses", why[:min(200, len(why))])
	}
	if n < 1 {
		c.Problem("R8", "no assignment of endpointClient.lastSnapshotBytes found")
	}
}
