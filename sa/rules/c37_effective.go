package rules

import (
	"strings"

	"golang.org/x/tools/go/ssa"

	"verif/sa/eng"
)

// c37EffectiveMode (C37.R5): Configuration.EnsureValid validates the default
// file and directory modes against the EFFECTIVE permissions mode: where the
// configured mode is unspecified (IsDefault) the session default
// (Version.DefaultPermissionsMode) is substituted, because that is the mode the
// endpoints will run in. Passing the raw field would let an executable default
// file mode through under the (portable) default.
func c37EffectiveMode(c *eng.Ctx) {
	fn := c.MustFunc("R5", syncPkg, "Configuration.EnsureValid")
	if fn == nil {
		return
	}
	n := 0
	for _, ci := range eng.Calls(fn) {
		name := eng.CalleeName(ci)
		if name != "synchronization/core.EnsureDefaultFileModeValid" && name != "synchronization/core.EnsureDefaultDirectoryModeValid" {
			continue
		}
		n++
		arg := ci.Common().Args[0]
		ok, why := true, ""
		hasDefault := false
		var visit func(v ssa.Value, viaPred *ssa.BasicBlock, to *ssa.BasicBlock, depth int)
		visit = func(v ssa.Value, viaPred, to *ssa.BasicBlock, depth int) {
			switch x := v.(type) {
			case *ssa.Phi:
				if depth > 4 {
					return
				}
				for j, e := range x.Edges {
					visit(e, x.Block().Preds[j], x.Block(), depth+1)
				}
			case *ssa.Call:
				if strings.HasSuffix(eng.CalleeName(x), ".DefaultPermissionsMode") {
					hasDefault = true
				}
			case *ssa.Extract:
				// a helper of the same package computing the effective mode
				call, isCall := x.Tuple.(*ssa.Call)
				if !isCall {
					return
				}
				callee := call.Call.StaticCallee()
				if callee == nil || callee.Blocks == nil || eng.FuncPkgRel(callee) != syncPkg {
					return
				}
				for _, r := range eng.Returns(callee) {
					res := eng.RetResults(r)
					if x.Index >= len(res) {
						continue
					}
					rv := res[x.Index]
					if cl, isCl := rv.(*ssa.Call); isCl && strings.HasSuffix(eng.CalleeName(cl), ".DefaultPermissionsMode") {
						hasDefault = true
					}
					if eng.Render(rv) == "p0.PermissionsMode" && !eng.HasAtom(eng.Guards(r), `\.IsDefault\(p0\.PermissionsMode\)$`, false) {
						ok, why = false, "helper "+eng.FuncName(callee)+" returns the configured mode where it may be unspecified"
					}
				}
			default:
				if eng.Render(v) == "p0.PermissionsMode" {
					// the raw field may be used only where it is known not to be the default
					guarded := false
					var ga []eng.Atom
					if viaPred != nil {
						ga = edgeGuards(viaPred, to)
					} else {
						ga = eng.Guards(ci)
					}
					for _, a := range ga {
						if strings.HasSuffix(a.Expr, ".IsDefault(p0.PermissionsMode)") && !a.Pos {
							guarded = true
						}
					}
					if !guarded {
						ok, why = false, "the configured mode is used where it may be unspecified"
					}
				}
			}
		}
		visit(arg, nil, nil, 0)
		if !hasDefault {
			ok, why = false, "the session default permissions mode is never substituted"
		}
		c.Check("R5", "mode-checked-against-effective-permissions:"+strings.TrimPrefix(name, "synchronization/core."), ci.Pos(), ok, "default file/directory modes are validated against the effective permissions mode (the session default where unspecified)", why+" — "+eng.Render(arg))
	}
	if n != 2 {
		c.Problem("R5", "expected two default-mode validations in Configuration.EnsureValid, found %d", n)
	}
}
