package rules

import (
	"fmt"
	"strings"

	"golang.org/x/tools/go/ssa"

	"verif/sa/eng"
)

// c23InitialWindow decides R6: a stream's send window starts as the receive
// window the PEER advertised (decoded from the open / accept message) — never as
// a local quantity. A writer whose window starts larger than the peer's buffer
// over-sends, the peer reports a window violation and every stream loses the
// bytes already accepted.
//
// Accepted wirings: the reader stores the decoded value into Stream.sendWindow
// itself, or passes it to newStream which initialises the field from exactly that
// parameter; any other initial value in the constructor must be absent (zero).
func c23InitialWindow(c *eng.Ctx) {
	read := c.MustFunc("R6", muxPkg, "Multiplexer.read")
	ctor := c.MustFunc("R6", muxPkg, "newStream")
	if read == nil || ctor == nil {
		return
	}
	fromWire := func(v ssa.Value) bool {
		return strings.HasPrefix(eng.Render(eng.Unwrap(v)), "encoding/binary.ReadUvarint(") && strings.HasSuffix(eng.Render(eng.Unwrap(v)), "#0")
	}
	// constructor: which parameter (if any) initialises sendWindow
	ctorParam := -1
	eng.EachInstr(ctor, func(i ssa.Instruction) {
		al, ok := i.(*ssa.Alloc)
		if !ok || !strings.HasSuffix(eng.TypeShort(al.Type()), "multiplexing.Stream") {
			return
		}
		if v, set := eng.LitFields(al)["sendWindow"]; set {
			ok := false
			for k, p := range ctor.Params {
				if v == ssa.Value(p) {
					ctorParam, ok = k, true
				}
			}
			if z, isC := eng.ConstInt64(v); isC && z == 0 {
				ok = true
			}
			c.Check("R6", "constructor-window-is-a-parameter", al.Pos(), ok, "newStream initialises the send window with nothing but a dedicated parameter (or leaves it zero)", eng.Render(v))
		}
	})
	// reader: direct stores of the initial window, and constructor calls
	nInit := 0
	eng.EachInstr(read, func(i ssa.Instruction) {
		switch x := i.(type) {
		case *ssa.Store:
			fa, ok := x.Addr.(*ssa.FieldAddr)
			if !ok || eng.FieldOf(fa).Name() != "sendWindow" {
				return
			}
			if b, isB := x.Val.(*ssa.BinOp); isB {
				_ = b // increments are C24.R1's business
				return
			}
			g := eng.Guards(x)
			if eng.HasAtom(g, `\.sendWindow == 0\)$`, true) {
				return // first increment of a zero window (same as +=)
			}
			nInit++
			c.Check("R6", fmt.Sprintf("initial-window-from-wire#%d", nInit), x.Pos(), fromWire(x.Val), "the initial send window is the value the peer advertised in its open/accept message", eng.Render(x.Val))
		case *ssa.Call:
			if eng.CalleeName(x) != "multiplexing.newStream" || ctorParam < 0 {
				return
			}
			nInit++
			c.Check("R6", fmt.Sprintf("initial-window-from-wire#%d", nInit), x.Pos(), fromWire(x.Call.Args[ctorParam]), "the window handed to the constructor is the value the peer advertised", eng.Render(x.Call.Args[ctorParam]))
		}
	})
	if nInit < 2 {
		c.Problem("R6", "expected the initial send window to be set for inbound (open) and outbound (accept) streams, found %d site(s)", nInit)
	}
	// other constructor callers (OpenStream) pass zero: the window is not known yet
	if ctorParam >= 0 {
		for _, fn := range c.P.ModuleFuncs(muxPkg) {
			if fn == read {
				continue
			}
			for _, call := range eng.CallsNamed(fn, "multiplexing.newStream") {
				z, isC := eng.ConstInt64(call.Common().Args[ctorParam])
				c.Check("R6", "unknown-window-is-zero@"+eng.FuncName(fn), call.Pos(), isC && z == 0, "a stream whose peer has not advertised a window yet starts with a zero send window", eng.Render(call.Common().Args[ctorParam]))
			}
		}
	}
}
