package rules

import (
	"fmt"
	"go/types"
	"strings"

	"golang.org/x/tools/go/ssa"

	"verif/sa/eng"
)

func init() {
	eng.Register(&eng.Property{
		ID:       "C21",
		Title:    "Remote endpoints behave exactly like local endpoints",
		Packages: []string{remotePkg, rsyncPkg},
		Explanation: "Client/server agreement of the endpoint protocol, decided structurally: " +
			"(R1, validate-after-decode typestate) in package remote, after a message M was decoded, every read of a field of M in that function is dominated by M.ensureValid(...) == nil; the serve* handlers read their request only after request.ensureValid() == nil; " +
			"(R2, request coverage) every arm of EndpointRequest is counted by ensureValid, dispatched by the server loop and constructed by the client; every exported field of each request type is set by the client from its own arguments/state and read by the server handler (so no argument — e.g. the full-scan flag — is silently dropped); " +
			"(R3) on the control stream every Encode is followed by a Flush before the peer's answer is awaited: raw encoder.Encode appears only in encodeAndFlush (which returns nil only if Flush succeeded), the initial handshake, and the rsync encoder that owns a flusher; " +
			"(R4) Poll/Scan/Transition have their completion message on both sides (the client sends X-CompletionRequest, the server handler decodes the same type); " +
			"(R5, staging compaction) the server omits the path list exactly when nothing was filtered (len(paths)==len(request.Paths)) and the client restores the full list exactly when the list is empty but signatures are present; the server then forwards exactly len(paths) transmissions — paths being what the endpoint's Stage returned — to the receiver the endpoint returned; the response carries Stage's signatures. " +
			"(R7, rejection reasons) every wire-message validator of package remote rejects for exactly the reasons read and confirmed on the pinned tree — a new reason (e.g. a bound on the number of problems, which one transition can legitimately exceed) makes the remote endpoint fail where the local one succeeds, a dropped reason lets malformed messages through; " +
			"(R8, baseline ownership) the serialized snapshot the client keeps as the baseline of the next scan's delta is the fresh result of the reconstructing call, never a view of a buffer that lives in the client and is rewritten by the next scan; " +
			"Not decided: equality of the values returned through both paths; snapshot delta reconstruction (rsync, C19).",
		Assumptions: []string{"protobuf encoding is lossless for valid messages"},
		Run:         runC21,
	})
}

func runC21(c *eng.Ctx) {
	c21Validators(c)
	c21Baseline(c)
	fns := c.P.ModuleFuncs(remotePkg)
	isPB := func(fn *ssa.Function) bool { return strings.Contains(c.P.Pos(fn.Pos()), ".pb.go:") }

	// R1.
	n1 := 0
	for _, fn := range fns {
		if isPB(fn) {
			continue
		}
		for _, call := range eng.Calls(fn) {
			cc := call.Common()
			_ = cc
			marg := decodedMessage(call)
			if marg == nil {
				continue
			}
			msg := eng.Unwrap(marg)
			al, ok := msg.(*ssa.Alloc)
			if !ok {
				continue
			}
			n1++
			c.Analysed(fn)
			mt := eng.TypeShort(al.Type())
			bad := 0
			var badPos ssa.Instruction
			reads := 0
			for _, ref := range *al.Referrers() {
				fa, ok := ref.(*ssa.FieldAddr)
				if !ok {
					continue
				}
				// only reads after the decode
				if !(call.Block().Dominates(fa.Block()) && (call.Block() != fa.Block() || eng.InstrIndex(call) < eng.InstrIndex(fa))) {
					continue
				}
				reads++
				g := eng.Guards(fa)
				valid := false
				for _, a := range g {
					if a.Pos && strings.Contains(a.Expr, ").ensureValid(&local:") && strings.HasSuffix(a.Expr, " == nil)") || a.Pos && strings.Contains(a.Expr, ").EnsureValid(&local:") {
						valid = true
					}
				}
				if !valid {
					bad++
					badPos = fa
				}
			}
			pos := call.Pos()
			if badPos != nil {
				pos = badPos.Pos()
			}
			c.Check("R1", fmt.Sprintf("decoded-then-validated:%s@%s#%d", strings.TrimPrefix(mt, "*synchronization/endpoint/remote."), eng.FuncName(fn), n1), pos, bad == 0, "fields of a decoded message are read only after it validated", fmt.Sprintf("%d of %d field reads unvalidated", bad, reads))
		}
	}
	if n1 < 7 {
		c.Problem("R1", "expected ≥7 decode sites in package remote, found %d", n1)
	}
	for _, h := range []string{"servePoll", "serveScan", "serveStage", "serveSupply", "serveTransition"} {
		fn := c.MustFunc("R1", remotePkg, "endpointServer."+h)
		if fn == nil {
			continue
		}
		bad, reads := 0, 0
		eng.EachInstr(fn, func(i ssa.Instruction) {
			fa, ok := i.(*ssa.FieldAddr)
			if !ok || fa.X != ssa.Value(fn.Params[1]) {
				return
			}
			reads++
			if !eng.HasAtom(eng.Guards(fa), `\.ensureValid\(p1\) == nil\)$`, true) {
				bad++
			}
		})
		c.Check("R1", "handler-validates-request:"+h, fn.Pos(), bad == 0, "the handler reads its request only after request.ensureValid() succeeded", fmt.Sprintf("%d of %d reads unvalidated", bad, reads))
	}

	// R2.
	er, err := c.P.Named(remotePkg, "EndpointRequest")
	if err != nil {
		c.Problem("R2", "%v", err)
		return
	}
	serve := c.MustFunc("R2", remotePkg, "endpointServer.serve")
	erValid := c.MustFunc("R2", remotePkg, "EndpointRequest.ensureValid")
	st := er.Underlying().(*types.Struct)
	arms := 0
	for i := 0; i < st.NumFields(); i++ {
		f := st.Field(i)
		if !f.Exported() {
			continue
		}
		arms++
		arm := f.Name()
		// validator mentions it
		inValid := false
		if erValid != nil {
			inValid = len(eng.FieldAddrsOf([]*ssa.Function{erValid}, f)) > 0
		}
		c.Check("R2", "arm-validated:"+arm, er.Obj().Pos(), inValid, "EndpointRequest.ensureValid accounts for the "+arm+" arm")
		// server dispatches it
		disp := false
		if serve != nil {
			for _, call := range eng.Calls(serve) {
				if strings.HasSuffix(eng.CalleeName(call), ".serve"+arm) {
					a := call.Common().Args
					if strings.HasSuffix(eng.Render(a[1]), "."+arm) && eng.HasAtom(eng.Guards(call), `\.`+arm+` == nil\)$`, false) {
						disp = true
					}
				}
			}
		}
		c.Check("R2", "arm-dispatched:"+arm, er.Obj().Pos(), disp, "the server loop dispatches a non-nil "+arm+" request to serve"+arm+" with that request")
		// client constructs it
		built := false
		var reqLit *ssa.Alloc
		var clientFn *ssa.Function
		for _, fn := range fns {
			if !strings.Contains(eng.FuncName(fn), "endpointClient)") {
				continue
			}
			eng.EachInstr(fn, func(in ssa.Instruction) {
				if s, ok := in.(*ssa.Store); ok {
					if fa, ok := s.Addr.(*ssa.FieldAddr); ok && eng.FieldOf(fa) == f {
						if lit := eng.LitOf(s.Val); lit != nil {
							built = true
							reqLit = lit
							clientFn = fn
						}
					}
				}
			})
		}
		c.Check("R2", "arm-constructed:"+arm, er.Obj().Pos(), built, "the client constructs "+arm+" requests")
		// field coverage of the request type
		rt, err := c.P.Named(remotePkg, arm+"Request")
		if err != nil {
			c.Problem("R2", "%v", err)
			continue
		}
		rst := rt.Underlying().(*types.Struct)
		handler, _ := c.P.Func(remotePkg, "endpointServer.serve"+arm)
		for j := 0; j < rst.NumFields(); j++ {
			rf := rst.Field(j)
			if !rf.Exported() {
				continue
			}
			if reqLit != nil {
				v := eng.LitFields(reqLit)[rf.Name()]
				okV := v != nil
				d := "<unset>"
				if v != nil {
					d = eng.Render(v)
					// the value must come from the client method's arguments or state, not a constant
					if _, isConst := eng.Unwrap(v).(*ssa.Const); isConst {
						okV = false
					}
				}
				c.Check("R2", "client-sets:"+arm+"Request."+rf.Name(), reqLit.Pos(), okV, "the client fills "+rf.Name()+" from its arguments/state ("+eng.FuncName(clientFn)+")", d)
			}
			if handler != nil {
				used := len(eng.FieldAddrsOf(eng.WithClosures(handler), rf)) > 0
				c.Check("R2", "server-reads:"+arm+"Request."+rf.Name(), handler.Pos(), used, "the server handler uses "+rf.Name())
			}
		}
	}
	if arms != 5 {
		c.Problem("R2", "expected five request arms, found %d", arms)
	}

	// R3.
	allowedRaw := map[string]string{
		"(*synchronization/endpoint/remote.endpointClient).encodeAndFlush": "flushes",
		"(*synchronization/endpoint/remote.endpointServer).encodeAndFlush": "flushes",
		"(*synchronization/endpoint/remote.protobufRsyncEncoder).Encode":   "rsync stream, flushed by Finalize (owns the flusher)",
		"synchronization/endpoint/remote.NewEndpoint":                      "handshake, followed by an explicit Flush (checked)",
		"synchronization/endpoint/remote.ServeEndpoint":                    "handshake, followed by an explicit Flush (checked)",
	}
	n3 := 0
	for _, fn := range fns {
		if isPB(fn) {
			continue
		}
		for _, call := range eng.Calls(fn) {
			cc := call.Common()
			name := eng.CalleeName(call)
			isEnc := (cc.IsInvoke() && cc.Method.Name() == "Encode") || strings.HasSuffix(name, "ProtobufEncoder).Encode")
			if !isEnc {
				continue
			}
			if strings.Contains(eng.Render(cc.Args[len(cc.Args)-1]), "rsync.Transmission") || strings.HasSuffix(eng.TypeShort(cc.Args[len(cc.Args)-1].Type()), "rsync.Transmission") {
				continue
			}
			n3++
			top := fn
			for top.Parent() != nil {
				top = top.Parent()
			}
			_, ok := allowedRaw[eng.FuncName(top)]
			c.Check("R3", "raw-encode@"+eng.FuncName(fn), call.Pos(), ok, "control messages are encoded only where a flush follows", allowedRaw[eng.FuncName(top)])
			if strings.HasSuffix(eng.FuncName(top), "Endpoint") {
				// explicit flush afterwards on the success path
				flushed := false
				for _, c2 := range eng.Calls(fn) {
					if c2.Common().IsInvoke() && c2.Common().Method.Name() == "Flush" || strings.HasSuffix(eng.CalleeName(c2), ".Flush") {
						if call.Block().Dominates(c2.Block()) {
							flushed = true
						}
					}
				}
				c.Check("R3", "handshake-flushed@"+eng.FuncName(fn), call.Pos(), flushed, "the handshake message is flushed")
			}
		}
	}
	for _, side := range []string{"endpointClient", "endpointServer"} {
		if fn := c.MustFunc("R3", remotePkg, side+".encodeAndFlush"); fn != nil {
			requireAtNilReturns(c, "R3", "encodeAndFlush-flushes:"+side, fn, `Flush\(.*\) == nil\)$`, true, "encodeAndFlush reports success only if the flush succeeded")
			requireAtNilReturns(c, "R3", "encodeAndFlush-encodes:"+side, fn, `Encode\(.*\) == nil\)$`, true, "… and the encode succeeded")
		}
	}
	if n3 < 4 {
		c.Problem("R3", "expected ≥4 raw encodes, found %d", n3)
	}

	// R4.
	for _, op := range []string{"Poll", "Scan", "Transition"} {
		typ := "*synchronization/endpoint/remote." + op + "CompletionRequest"
		cl, _ := c.P.Func(remotePkg, "endpointClient."+op)
		sv, _ := c.P.Func(remotePkg, "endpointServer.serve"+op)
		sent, recvd := false, false
		if cl != nil {
			for _, f := range eng.WithClosures(cl) {
				for _, call := range eng.Calls(f) {
					if strings.HasSuffix(eng.CalleeName(call), ".encodeAndFlush") && eng.TypeShort(eng.Unwrap(call.Common().Args[1]).Type()) == typ {
						sent = true
					}
				}
			}
		}
		if sv != nil {
			for _, f := range eng.WithClosures(sv) {
				for _, call := range eng.Calls(f) {
					cc := call.Common()
					_ = cc
					if m := decodedMessage(call); m != nil && eng.TypeShort(eng.Unwrap(m).Type()) == typ {
						recvd = true
					}
				}
			}
		}
		c.Check("R4", "completion-pair:"+op, er.Obj().Pos(), sent && recvd, "the "+op+" completion message is sent by the client and awaited by the server", fmt.Sprintf("client sends=%v server decodes=%v", sent, recvd))
	}

	// R5.
	if sv := c.MustFunc("R5", remotePkg, "endpointServer.serveStage"); sv != nil {
		var stage *ssa.Call
		for _, call := range eng.InvokesOf(sv, "Stage") {
			stage, _ = call.(*ssa.Call)
		}
		if stage == nil {
			c.Problem("R5", "serveStage does not call Endpoint.Stage")
		} else {
			sr := eng.Render(stage)
			c.Check("R5", "stage-arguments", stage.Pos(), eng.Render(stage.Call.Args[0]) == "p1.Paths" && eng.Render(stage.Call.Args[1]) == "p1.Digests", "the endpoint stages exactly the requested paths and digests")
			for _, call := range eng.CallsNamed(sv, "synchronization/rsync.DecodeToReceiver") {
				a := call.Common().Args
				c.Check("R5", "forward-count", call.Pos(), eng.Render(a[1]) == "conv:uint64(len("+sr+"#0))", "exactly one transmission stream per path that still needs staging is forwarded", eng.Render(a[1]))
				c.Check("R5", "forward-receiver", call.Pos(), eng.Render(a[2]) == sr+"#2", "… to the receiver the endpoint returned", eng.Render(a[2]))
			}
			// response literal
			eng.EachInstr(sv, func(i ssa.Instruction) {
				st, ok := i.(*ssa.Store)
				if !ok {
					return
				}
				fa, ok := st.Addr.(*ssa.FieldAddr)
				if !ok || !strings.HasSuffix(eng.TypeShort(fa.X.Type()), "remote.StageResponse") {
					return
				}
				switch eng.FieldOf(fa).Name() {
				case "Signatures":
					c.Check("R5", "response-signatures", st.Pos(), eng.Render(st.Val) == sr+"#1", "the response carries the endpoint's signatures", eng.Render(st.Val))
				case "Paths":
					phi, ok := st.Val.(*ssa.Phi)
					okP := false
					if ok && len(phi.Edges) == 2 {
						for k, e := range phi.Edges {
							if eng.IsNilConst(e) {
								g := eng.GuardsOfBlock(phi.Block().Preds[k])
								if eng.HasAtom(g, `^\(len\(`+eng.Q(sr)+`#0\) == len\(p1\.Paths\)\)$`, true) {
									okP = true
								}
							}
						}
					}
					c.Check("R5", "compaction-condition", st.Pos(), okP, "the path list is omitted exactly when every requested path still needs staging", eng.Render(st.Val)[:min(160, len(eng.Render(st.Val)))])
				}
			})
		}
	}
	if cl := c.MustFunc("R5", remotePkg, "endpointClient.Stage"); cl != nil {
		for _, r := range eng.Returns(cl) {
			res := eng.RetResults(r)
			if !eng.IsNilConst(res[3]) || eng.IsNilConst(res[0]) {
				continue
			}
			phi, ok := res[0].(*ssa.Phi)
			okE := false
			if ok {
				for k, e := range phi.Edges {
					if eng.Render(e) == "p1" {
						// full list restored under: len(response.Paths)==0 && len(response.Signatures)>0
						pred := phi.Block().Preds[k]
						g := eng.GuardsOfBlock(pred)
						if eng.HasAtom(g, `^\(len\(local:complit\.Paths\) == 0\)$`, true) || eng.HasAtom(g, `\.Paths\) == 0\)$`, true) {
							if eng.HasAtom(g, `\.Signatures\) > 0\)$`, true) || blockIsTrueSuccOfRe(pred, `\.Signatures\) > 0\)$`) {
								okE = true
							}
						}
					}
				}
			}
			c.Check("R5", "expansion-condition", r.Pos(), okE, "the client restores the full path list exactly when the response has no paths but has signatures", eng.Render(res[0])[:min(160, len(eng.Render(res[0])))])
			c.Check("R5", "client-returns-signatures", r.Pos(), strings.HasSuffix(eng.Render(res[1]), ".Signatures"), "the client returns the response's signatures")
		}
	}
	c.Floor("R5", 7)
}

// decodedMessage returns the message argument of a control-stream Decode call
// (interface or concrete decoder), or nil.
func decodedMessage(call ssa.CallInstruction) ssa.Value {
	cc := call.Common()
	if cc.IsInvoke() {
		if cc.Method.Name() == "Decode" && len(cc.Args) == 1 {
			return cc.Args[0]
		}
		return nil
	}
	if strings.HasSuffix(eng.CalleeName(call), "ProtobufDecoder).Decode") && len(cc.Args) == 2 {
		return cc.Args[1]
	}
	return nil
}

func blockIsTrueSuccOfRe(b *ssa.BasicBlock, re string) bool {
	for _, p := range b.Preds {
		if iff, ok := p.Instrs[len(p.Instrs)-1].(*ssa.If); ok && p.Succs[0] == b {
			if eng.HasAtom([]eng.Atom{eng.MkAtom(iff.Cond, true)}, re, true) {
				return true
			}
		}
	}
	return false
}
