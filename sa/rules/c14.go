package rules

import (
	"fmt"
	"go/token"
	"regexp"
	"sort"
	"strings"

	"golang.org/x/tools/go/ssa"

	"verif/sa/eng"
)

const (
	ignorePkg   = "pkg/synchronization/core/ignore"
	mutIgnPkg   = "pkg/synchronization/core/ignore/mutagen"
	dockIgnPkg  = "pkg/synchronization/core/ignore/docker"
	pmPkg       = "pkg/synchronization/core/ignore/docker/internal/third_party/patternmatcher"
	pmShortName = "synchronization/core/ignore/docker/internal/third_party/patternmatcher"
)

func init() {
	eng.Register(&eng.Property{
		ID:       "C14",
		Title:    "Mutagen-style ignores follow last-match-wins and prune ignored directories",
		Packages: []string{mutIgnPkg, ignorePkg, corePkg, localEPPkg},
		Explanation: "(R1–R3, decided on every path of one loop iteration of ignorer.Ignore) a pattern is skipped without calling matches only when it has the polarity of the current status; a matching negated pattern sets Unignored and a matching plain pattern sets Ignored, a non-match keeps the status; the remaining-negations counter decreases exactly for negated patterns; the loop breaks early only under Ignored ∧ counter==0; NewIgnorer stores every parsed pattern at its own index (none dropped or reordered) and counts exactly the negated ones; " +
			"(R4) newIgnorePattern: negated ⇔ leading '!', directoryOnly ⇔ trailing '/', matchLeaf = ¬absolute ∧ ¬containsSlash [truth table], matches() returns false for directory-only patterns on non-directories before any glob match and tries the base name only for leaf patterns; " +
			"(R5, scan decision table) in scanner.directory the outcome per (status, ignoreMask, continueTraversal) equals the specification table: Ignored∧¬continue → Untracked without descent; Nominal∧mask∧¬continue → Untracked; Ignored∧continue → descend with mask; Unignored → descend without mask; Nominal otherwise → descend with the inherited mask; the recursive scan receives exactly that mask; " +
			"(R6) VCS ignores: the table contains .git .svn .hg .bzr _darcs, applies to directories only, wins before the wrapped ignorer is asked, and the endpoint wraps the ignorer exactly when the effective VCS mode is Ignore. " +
			"(R7, ignore cache) scanner.directory looks a verdict up, and records it, under the key {the very path the ignorer is asked about, the same directory flag} — so an accelerated rescan reuses a verdict only for the question it answered; " +
			"Not decided: doublestar's glob semantics (third party).",
		Assumptions: []string{"doublestar.Match implements the documented glob language"},
		Run:         runC14,
	})
}

func runC14(c *eng.Ctx) {
	statuses, _ := c.P.ConstsOfType(ignorePkg, "IgnoreStatus")
	if fn := c.MustFunc("R1", mutIgnPkg, "ignorer.Ignore"); fn != nil {
		lastMatchWinsLoop(c, "R1", fn, lmwSpec{
			negField: "negated", countField: "negatedPatternCount",
			matchCall:  "(*synchronization/core/ignore/mutagen.ignorePattern).matches",
			matched:    statuses["IgnoreStatusIgnored"],
			inverted:   statuses["IgnoreStatusUnignored"],
			statusType: "ignore.IgnoreStatus",
		})
		// the result is the accumulated status, traversal never continues
		for _, r := range eng.Returns(fn) {
			res := eng.RetResults(r)
			_, isPhi := res[0].(*ssa.Phi)
			v, isC := eng.ConstBool(res[1])
			c.Check("R1", "returns-accumulated-status", r.Pos(), isPhi && isC && !v, "Ignore returns the accumulated status and never asks to continue below an ignored directory", eng.Render(res[0])[:min(120, len(eng.Render(res[0])))])
		}
		c.Floor("R1", 12)
	}
	// R3: NewIgnorer.
	if fn := c.MustFunc("R3", mutIgnPkg, "NewIgnorer"); fn != nil {
		c14NewIgnorer(c, fn)
	}
	c14Pattern(c)
	scanIgnoreTable(c, "R5")
	c14VCS(c)
	c14CacheKey(c, "R7")
}

func c14NewIgnorer(c *eng.Ctx, fn *ssa.Function) {
	// make([]*ignorePattern, len(p0))
	var slice *ssa.MakeSlice
	eng.EachInstr(fn, func(i ssa.Instruction) {
		if ms, ok := i.(*ssa.MakeSlice); ok {
			slice = ms
		}
	})
	if slice == nil || eng.Render(slice.Len) != "len(p0)" {
		c.Check("R3", "pattern-slice-length", fn.Pos(), false, "the pattern slice has one slot per input pattern")
		return
	}
	c.Check("R3", "pattern-slice-length", slice.Pos(), true, "the pattern slice has one slot per input pattern")
	// loop over p0: each non-error path stores exactly once at the range index
	var idxPhi *ssa.Phi
	for _, b := range fn.Blocks {
		for _, in := range b.Instrs {
			if phi, ok := in.(*ssa.Phi); ok && phi.Comment == "rangeindex" {
				idxPhi = phi
			}
		}
	}
	if idxPhi == nil {
		c.Problem("R3", "range loop not found in NewIgnorer")
		return
	}
	loop := eng.FindLoop(idxPhi.Block())
	var bodyEntry *ssa.BasicBlock
	for _, s := range idxPhi.Block().Succs {
		if loop.Body[s] {
			bodyEntry = s
		}
	}
	paths, _ := eng.EnumPaths(bodyEntry, func(b *ssa.BasicBlock) bool { return b == idxPhi.Block() || !loop.Body[b] }, 5000)
	var count *ssa.Phi
	for _, in := range idxPhi.Block().Instrs {
		if phi, ok := in.(*ssa.Phi); ok && phi != idxPhi {
			count = phi
		}
	}
	n := 0
	for _, p := range paths {
		if p.Last() != idxPhi.Block() {
			// leaving the loop from the body: must be an error return
			if r, ok := p.Last().Instrs[len(p.Last().Instrs)-1].(*ssa.Return); ok {
				res := eng.RetResults(r)
				c.Check("R3", "only-errors-leave", r.Pos(), !eng.IsNilConst(res[1]), "the construction loop is left early only with an error")
			}
			continue
		}
		n++
		stores := 0
		okIdx := false
		for _, b := range p.Blocks {
			for _, st := range storesInBlock(b) {
				if ia, ok := st.Addr.(*ssa.IndexAddr); ok && ia.X == ssa.Value(slice) {
					stores++
					// index = rangeindex + 1 (go/ssa's rotated range loop)
					if d, ok := p.IntDelta(ia.Index, idxPhi); ok && d == 1 {
						okIdx = true
					}
					c.Check("R3", "stores-parsed-pattern", st.Pos(), strings.HasPrefix(eng.Render(st.Val), "synchronization/core/ignore/mutagen.newIgnorePattern(p0["), "the stored pattern is the parse of the input pattern at that index", eng.Render(st.Val)[:min(120, len(eng.Render(st.Val)))])
				}
			}
		}
		c.Check("R3", "every-pattern-kept", idxPhi.Pos(), stores == 1 && okIdx, "each input pattern is stored exactly once, at its own position (none dropped, none reordered)", fmt.Sprintf("stores=%d index-ok=%v", stores, okIdx))
		if count != nil {
			d, ok := p.IntDelta(p.PhiOn(count), count)
			negd := pathHas(p, `\.negated$`, true)
			want := int64(0)
			if negd {
				want = 1
			}
			c.Check("R3", "negated-count", idxPhi.Pos(), ok && d == want, "the negated-pattern count grows by one exactly for negated patterns", fmt.Sprintf("delta=%d", d))
		}
	}
	if n < 2 {
		c.Problem("R3", "expected ≥2 continuing paths in NewIgnorer, found %d", n)
	}
}

func c14Pattern(c *eng.Ctx) {
	fn := c.MustFunc("R4", mutIgnPkg, "newIgnorePattern")
	if fn == nil {
		return
	}
	for _, r := range eng.Returns(fn) {
		res := eng.RetResults(r)
		lit := eng.LitOf(res[0])
		if lit == nil {
			continue
		}
		f := eng.LitFields(lit)
		for name, v := range map[string]ssa.Value{"negated": f["negated"], "directoryOnly": f["directoryOnly"], "matchLeaf": f["matchLeaf"]} {
			if v == nil {
				c.Check("R4", "field:"+name, r.Pos(), false, "pattern field is set")
				continue
			}
			be, err := eng.BoolExprOf(v)
			if err != nil {
				c.Problem("R4", "%v", err)
				continue
			}
			atoms := be.AtomNames()
			switch name {
			case "negated":
				ok := len(atoms) == 1 && atomFirstByteIs(atoms[0], '!') && (strings.Contains(atoms[0], "(p0[0]") || strings.Contains(atoms[0], "(p0, "))
				if ok {
					eq, _, _ := eng.TruthTableEqual(be, atoms, func(e map[string]bool) bool { return e[atoms[0]] })
					ok = eq
				}
				c.Check("R4", "negated", r.Pos(), ok, "negated ⇔ the pattern begins with '!'", be.String())
			case "directoryOnly":
				ok := len(atoms) == 1 && atomLastByteIs(atoms[0], '/')
				if ok {
					eq, _, _ := eng.TruthTableEqual(be, atoms, func(e map[string]bool) bool { return e[atoms[0]] })
					ok = eq
				}
				c.Check("R4", "directoryOnly", r.Pos(), ok, "directoryOnly ⇔ the (cleaned) pattern ends with '/'", be.String()[:min(160, len(be.String()))])
			case "matchLeaf":
				var abs, slash string
				for _, a := range atoms {
					if atomFirstByteIs(a, '/') {
						abs = a
					}
					if atomContainsByte(a, '/') {
						slash = a
					}
				}
				eq := false
				if abs != "" && slash != "" {
					eq, _, _ = eng.TruthTableEqual(be, []string{abs, slash}, func(e map[string]bool) bool { return !e[abs] && !e[slash] })
				}
				c.Check("R4", "matchLeaf", r.Pos(), eq, "matchLeaf = ¬(leading '/') ∧ ¬(contains '/') [truth table]", be.String()[:min(200, len(be.String()))])
			}
		}
	}
	if m := c.MustFunc("R4", mutIgnPkg, "ignorePattern.matches"); m != nil {
		calls := eng.CallsNamed(m, "github.com/bmatcuk/doublestar/v4.Match")
		for i, call := range calls {
			g := eng.Guards(call)
			dirOK := false
			// every glob match is reached only if ¬(directoryOnly ∧ ¬directory): paths — use path enumeration to the call block
			paths, _ := eng.EnumPaths(m.Blocks[0], func(b *ssa.BasicBlock) bool { return b == call.Block() }, 2000)
			dirOK = true
			for _, p := range paths {
				if p.Last() != call.Block() {
					continue
				}
				if pathHas(p, `^p0\.directoryOnly$`, true) && !pathHas(p, `^p2$`, true) {
					dirOK = false
				}
			}
			c.Check("R4", fmt.Sprintf("match#%d/dir-only-first", i), call.Pos(), dirOK, "a directory-only pattern is never glob-matched against a non-directory")
			arg := eng.Render(call.Common().Args[1])
			if arg != "p1" {
				c.Check("R4", fmt.Sprintf("match#%d/leaf", i), call.Pos(), arg == "path.Base(p1)" && eng.HasAtom(g, `^p0\.matchLeaf$`, true), "the base name is tried only for leaf patterns", arg+" | "+atomsShort(g))
			}
			c.Check("R4", fmt.Sprintf("match#%d/pattern", i), call.Pos(), eng.Render(call.Common().Args[0]) == "p0.pattern", "the glob is the stored pattern")
		}
		if len(calls) != 2 {
			c.Problem("R4", "expected two glob matches in matches(), found %d", len(calls))
		}
	}
	c.Floor("R4", 7)
}

// scanIgnoreTable decides the (status, mask, continue) decision table of
// scanner.directory (shared by C14.R5 and C15.R3).
func scanIgnoreTable(c *eng.Ctx, rule string) {
	dir := c.MustFunc(rule, corePkg, "scanner.directory")
	if dir == nil {
		return
	}
	statuses, _ := c.P.ConstsOfType(ignorePkg, "IgnoreStatus")
	kinds, _ := c.P.ConstsOfType(corePkg, "EntryKind")
	// start: the block that records the behaviour in the new ignore cache
	var start *ssa.BasicBlock
	eng.EachInstr(dir, func(i ssa.Instruction) {
		if mu, ok := i.(*ssa.MapUpdate); ok && eng.Render(mu.Map) == "p0.newIgnoreCache" {
			start = mu.Block()
		}
	})
	// end: the block holding the mask phi passed to the recursive call
	var maskPhi *ssa.Phi
	for _, call := range eng.CallsTo(dir, dir) {
		if phi, ok := call.Common().Args[6].(*ssa.Phi); ok {
			maskPhi = phi
		}
	}
	if start == nil || maskPhi == nil {
		c.Problem(rule, "ignore decision region not found in scanner.directory (start=%v mask=%v)", start != nil, maskPhi != nil)
		return
	}
	var contents *ssa.MakeMap
	eng.EachInstr(dir, func(i ssa.Instruction) {
		if mm, ok := i.(*ssa.MakeMap); ok && strings.HasSuffix(eng.TypeShort(mm.Type()), "map[string]*synchronization/core.Entry") {
			contents = mm
		}
	})
	isUntrackedStore := func(b *ssa.BasicBlock) bool {
		for _, in := range b.Instrs {
			if mu, ok := in.(*ssa.MapUpdate); ok && mu.Map == ssa.Value(contents) {
				if lit := eng.LitOf(mu.Value); lit != nil {
					if k, ok := eng.ConstInt64(eng.LitFields(lit)["Kind"]); ok && k == kinds["EntryKind_Untracked"] {
						return true
					}
				}
			}
		}
		return false
	}
	paths, complete := eng.EnumPaths(start, func(b *ssa.BasicBlock) bool {
		return b == maskPhi.Block() || isUntrackedStore(b) || len(b.Succs) == 0
	}, 5000)
	if !complete {
		c.Problem(rule, "too many paths in the ignore decision region")
		return
	}
	type row struct{ status, mask, cont string }
	got := map[string]string{}
	for _, p := range paths {
		if p.Last() == start {
			continue
		}
		st, mask, cont := "?", "*", "*"
		for _, a := range p.Atoms {
			switch {
			case strings.HasSuffix(a.Expr, ".Status == "+fmt.Sprint(statuses["IgnoreStatusNominal"])+":IgnoreStatus)"):
				if a.Pos {
					st = "Nominal"
				}
			case strings.HasSuffix(a.Expr, ".Status == "+fmt.Sprint(statuses["IgnoreStatusIgnored"])+":IgnoreStatus)"):
				if a.Pos {
					st = "Ignored"
				}
			case strings.HasSuffix(a.Expr, ".Status == "+fmt.Sprint(statuses["IgnoreStatusUnignored"])+":IgnoreStatus)"):
				if a.Pos {
					st = "Unignored"
				}
			case a.Expr == "p6":
				mask = fmt.Sprint(a.Pos)
			case strings.HasSuffix(a.Expr, ".ContinueTraversal"):
				cont = fmt.Sprint(a.Pos)
			}
		}
		var outcome string
		last := p.Last()
		switch {
		case last == maskPhi.Block():
			v := p.Resolve(p.PhiOn(maskPhi))
			if cv, ok := eng.ConstBool(v); ok {
				outcome = fmt.Sprintf("descend mask=%v", cv)
			} else if eng.Render(v) == "p6" {
				outcome = "descend mask=inherited"
			} else {
				outcome = "descend mask=" + eng.Render(v)
			}
		case isUntrackedStore(last):
			// must continue the loop without reaching file/dir/symlink handling
			outcome = "untracked"
			for _, s := range last.Succs {
				if s != last && !strings.Contains(s.Comment, "rangeindex") {
					outcome = "untracked-but-continues-to-" + s.Comment
				}
			}
		default:
			outcome = "panic"
		}
		key := fmt.Sprintf("status=%s mask=%s continue=%s", st, mask, cont)
		if prev, dup := got[key]; dup && prev != outcome {
			outcome = prev + " / " + outcome
		}
		got[key] = outcome
	}
	want := map[string]string{
		"status=Nominal mask=true continue=false": "untracked",
		"status=Nominal mask=true continue=true":  "descend mask=inherited",
		"status=Nominal mask=false continue=*":    "descend mask=inherited",
		"status=Ignored mask=* continue=false":    "untracked",
		"status=Ignored mask=* continue=true":     "descend mask=true",
		"status=Unignored mask=* continue=*":      "descend mask=false",
		"status=? mask=* continue=*":              "panic",
	}
	var ks []string
	for k := range want {
		ks = append(ks, k)
	}
	for k := range got {
		if _, ok := want[k]; !ok {
			ks = append(ks, k)
		}
	}
	sort.Strings(ks)
	for _, k := range ks {
		c.Check(rule, "scan-table:"+k, start.Instrs[0].Pos(), got[k] == want[k] && want[k] != "", "the scan's ignore decision for ("+k+") is: "+want[k], "found: "+got[k])
	}
	// the behaviour consulted is the ignorer's answer (or its cached copy) for (contentPath, isDirectory)
	for _, call := range eng.InvokesOf(dir, "Ignore") {
		args := call.Common().Args
		isDir := eng.Render(args[1])
		c.Check(rule, "ignorer-arguments", call.Pos(), strings.Contains(eng.Render(args[0]), " + ") && strings.HasSuffix(isDir, fmt.Sprintf(" == %d:EntryKind)", kinds["EntryKind_Directory"])), "the ignorer is asked about the child's full path and whether it is a directory", eng.Render(args[0])[:min(100, len(eng.Render(args[0])))]+", "+isDir[:min(100, len(isDir))])
	}
	// names that are not valid UTF-8: Untracked under a mask, Problematic otherwise
	maskedUntracked, unmaskedProblematic := false, false
	eng.EachInstr(dir, func(i ssa.Instruction) {
		mu, ok := i.(*ssa.MapUpdate)
		if !ok || mu.Map != ssa.Value(contents) || !strings.Contains(eng.Render(mu.Key), "ToValidUTF8") {
			return
		}
		lit := eng.LitOf(mu.Value)
		if lit == nil {
			return
		}
		k, _ := eng.ConstInt64(eng.LitFields(lit)["Kind"])
		g := eng.Guards(mu)
		if k == kinds["EntryKind_Untracked"] && eng.HasAtom(g, "^p6$", true) {
			maskedUntracked = true
		}
		if k == kinds["EntryKind_Problematic"] && eng.HasAtom(g, "^p6$", false) {
			unmaskedProblematic = true
		}
	})
	c.Check(rule, "non-utf8-under-mask-untracked", start.Instrs[0].Pos(), maskedUntracked && unmaskedProblematic, "an undecodable name is Untracked beneath an ignored directory (so it cannot make a phantom directory tracked) and Problematic elsewhere")
	// phantom kind iff mask
	for _, r := range eng.Returns(dir) {
		lit := eng.LitOf(eng.RetResults(r)[0])
		if lit == nil {
			continue
		}
		f := eng.LitFields(lit)
		if f["Contents"] == nil {
			continue
		}
		phi, ok := f["Kind"].(*ssa.Phi)
		okK := false
		if ok && len(phi.Edges) == 2 {
			okK = true
			for i, e := range phi.Edges {
				k, _ := eng.ConstInt64(e)
				pred := phi.Block().Preds[i]
				masked := eng.HasAtom(eng.GuardsOfBlock(pred), "^p6$", true)
				// the edge from the If block itself carries the false atom
				if k == kinds["EntryKind_PhantomDirectory"] && !masked {
					okK = false
				}
				if k != kinds["EntryKind_PhantomDirectory"] && k != kinds["EntryKind_Directory"] {
					okK = false
				}
			}
		}
		c.Check(rule, "phantom-iff-masked", r.Pos(), okK, "a scanned directory is a phantom directory exactly when it was reached under an ignore mask", eng.Render(f["Kind"]))
	}
}

func c14VCS(c *eng.Ctx) {
	// table: keys stored into the vcsDirectoryNames map in the package initializer
	pkg := c.P.Pkg(ignorePkg)
	if pkg == nil {
		c.Problem("R6", "package %s not loaded", ignorePkg)
		return
	}
	initFn := pkg.Func("init")
	keysFound := map[string]bool{}
	if initFn != nil {
		eng.EachInstr(initFn, func(i ssa.Instruction) {
			if mu, ok := i.(*ssa.MapUpdate); ok {
				if s, ok := eng.ConstString(mu.Key); ok {
					if v, ok := eng.ConstBool(mu.Value); ok && v {
						keysFound[s] = true
					}
				}
			}
		})
	}
	for _, k := range []string{".git", ".svn", ".hg", ".bzr", "_darcs"} {
		c.Check("R6", "vcs-name:"+k, pkg.Func("IgnoreVCS").Pos(), keysFound[k], "the VCS directory table contains "+k)
	}
	if fn := c.MustFunc("R6", ignorePkg, "vcsIgnorer.Ignore"); fn != nil {
		for _, r := range eng.Returns(fn) {
			res := eng.RetResults(r)
			if v, ok := eng.ConstInt64(res[0]); ok {
				g := eng.Guards(r)
				statuses, _ := c.P.ConstsOfType(ignorePkg, "IgnoreStatus")
				c.Check("R6", "vcs-ignored-directories-only", r.Pos(), v == statuses["IgnoreStatusIgnored"] && eng.HasAtom(g, "^p2$", true) && eng.HasAtom(g, `^&?synchronization/core/ignore\.vcsDirectoryNames\[synchronization/core/fastpath\.Base\(p1\)\]$`, true), "a path is VCS-ignored only if it is a directory whose base name is in the table", atomsShort(g))
			} else {
				c.Check("R6", "vcs-delegates", r.Pos(), regexp.MustCompile(`^invoke:Ignore\(p0\.\w+, p1, p2\)`).MatchString(eng.Render(res[0])), "everything else is decided by the wrapped ignorer with unchanged arguments", eng.Render(res[0]))
			}
		}
		// The VCS verdict wins: the wrapped ignorer is consulted only on ways
		// through the function on which the path is not a VCS directory (so a
		// negated user pattern can never un-ignore one).
		tableAtom := regexp.MustCompile(`^&?synchronization/core/ignore\.vcsDirectoryNames\[synchronization/core/fastpath\.Base\(p1\)\]$`)
		for _, in := range eng.Calls(fn) {
			if cc := in.Common(); !cc.IsInvoke() || cc.Method.Name() != "Ignore" {
				continue
			}
			paths, complete := eng.EnumPaths(fn.Blocks[0], func(b *ssa.BasicBlock) bool { return b == in.Block() }, 200)
			n, bad := 0, 0
			for _, p := range paths {
				if p.Last() != in.Block() {
					continue
				}
				n++
				excluded := false
				for _, a := range p.Atoms {
					if !a.Pos && (a.Expr == "p2" || tableAtom.MatchString(a.Expr)) {
						excluded = true
					}
				}
				if !excluded {
					bad++
				}
			}
			c.Check("R6", "vcs-verdict-wins", in.Pos(), complete && n > 0 && bad == 0, "the wrapped ignorer is asked only where the path is not a directory named in the VCS table", fmt.Sprintf("%d of %d ways reach the wrapped ignorer without that exclusion", bad, n))
		}
	}
	if ne := c.MustFunc("R6", localEPPkg, "NewEndpoint"); ne != nil {
		modes, _ := c.P.ConstsOfType(ignorePkg, "IgnoreVCSMode")
		n := 0
		for _, call := range eng.CallsNamed(ne, "synchronization/core/ignore.IgnoreVCS") {
			n++
			g := eng.Guards(call)
			ok := false
			for _, a := range g {
				if a.Pos && strings.HasSuffix(a.Expr, fmt.Sprintf(" == %d:IgnoreVCSMode)", modes["IgnoreVCSMode_IgnoreVCSModeIgnore"])) && strings.Contains(a.Expr, "p4.IgnoreVCSMode") && strings.Contains(a.Expr, "DefaultIgnoreVCSMode(p3)") {
					ok = true
				}
			}
			c.Check("R6", "vcs-wrap-iff-mode", call.Pos(), ok, "the ignorer is wrapped exactly under effective VCS mode = Ignore (configured value, else the version default)", atomsShort(g))
		}
		if n != 1 {
			c.Problem("R6", "expected one IgnoreVCS call in NewEndpoint, found %d", n)
		}
	}
	c.Floor("R6", 8)
	_ = token.NoPos
}
