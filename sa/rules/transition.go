package rules

import (
	"fmt"
	"go/token"
	"go/types"
	"regexp"
	"strings"

	"golang.org/x/tools/go/ssa"

	"verif/sa/eng"
)

// Shared rules over pkg/synchronization/core/transition.go used by C03, C08
// and C09. Each function emits obligations under the rule id it is given.

const (
	fnRemoveFile    = "(*synchronization/core.transitioner).removeFile"
	fnRemoveSymlink = "(*synchronization/core.transitioner).removeSymbolicLink"
	fnRemoveDir     = "(*synchronization/core.transitioner).removeDirectory"
	fnCreateFile    = "(*synchronization/core.transitioner).createFile"
	fnCreateSymlink = "(*synchronization/core.transitioner).createSymbolicLink"
	fnCreateDir     = "(*synchronization/core.transitioner).createDirectory"
	fnEnsureFile    = "(*synchronization/core.transitioner).ensureExpectedFile"
	fnEnsureSymlink = "(*synchronization/core.transitioner).ensureExpectedSymbolicLink"
	dirRemoveFile   = "(*filesystem.Directory).RemoveFile"
	dirRemoveLink   = "(*filesystem.Directory).RemoveSymbolicLink"
	dirRemoveDir    = "(*filesystem.Directory).RemoveDirectory"
)

func isBoolPhi(i ssa.Instruction) (*ssa.Phi, bool) {
	phi, ok := i.(*ssa.Phi)
	if !ok {
		return nil, false
	}
	b, ok := phi.Type().Underlying().(*types.Basic)
	return phi, ok && b.Kind() == types.Bool
}

// contentLoop finds the loop of fn that contains a call to callee.
func contentLoop(fn *ssa.Function, callee string) *eng.LoopOf {
	var blk *ssa.BasicBlock
	for _, call := range eng.CallsNamed(fn, callee) {
		blk = call.Block()
	}
	if blk == nil {
		return nil
	}
	var best *eng.LoopOf
	for _, b := range fn.Blocks {
		if l := eng.FindLoop(b); l != nil && l.Body[blk] {
			if best == nil || len(l.Body) < len(best.Body) {
				best = l
			}
		}
	}
	return best
}

// trRemoveDirectoryFlags decides the flag discipline of removeDirectory.
func trRemoveDirectoryFlags(c *eng.Ctx, rule string) {
	fn := c.MustFunc(rule, corePkg, "transitioner.removeDirectory")
	if fn == nil {
		return
	}
	loop := contentLoop(fn, fnRemoveFile)
	if loop == nil {
		c.Problem(rule, "content loop of removeDirectory not found")
		return
	}
	// Flags: bool phis in the loop header, and bool phis in exit blocks of the loop.
	var headerFlags, exitFlags []*ssa.Phi
	for _, in := range loop.Header.Instrs {
		if phi, ok := isBoolPhi(in); ok {
			headerFlags = append(headerFlags, phi)
		}
	}
	for b := range loop.Body {
		for _, s := range b.Succs {
			if loop.Body[s] {
				continue
			}
			for _, in := range s.Instrs {
				if phi, ok := isBoolPhi(in); ok {
					dup := false
					for _, e := range exitFlags {
						if e == phi {
							dup = true
						}
					}
					if !dup {
						exitFlags = append(exitFlags, phi)
					}
				}
			}
		}
	}
	if len(headerFlags) < 2 || len(exitFlags) < 1 {
		c.Problem(rule, "expected ≥2 loop-carried failure flags and ≥1 exit (cancellation) flag in removeDirectory, found %d/%d", len(headerFlags), len(exitFlags))
	}
	// (a) RemoveDirectory is guarded by all flags being false.
	nrm := 0
	for _, call := range eng.CallsNamed(fn, dirRemoveDir) {
		nrm++
		g := eng.Guards(call)
		for _, fl := range append(append([]*ssa.Phi{}, headerFlags...), exitFlags...) {
			ok := false
			for _, a := range g {
				if !a.Pos && flagDerivesFrom(a.V, fl) {
					ok = true
				}
			}
			c.Check(rule, "rmdir-guard:"+fl.Comment, call.Pos(), ok, "the directory itself is removed only if flag `"+fl.Comment+"` is false (nothing unknown, failed or cancelled below it)", eng.AtomsText(g))
		}
		args := call.Common().Args
		c.Check(rule, "rmdir-target", call.Pos(), eng.Render(args[0]) == "p1" && eng.Render(args[1]) == "p2", "the directory removed is (parent, name)", eng.RenderCall(call.Common()))
	}
	if nrm != 1 {
		c.Problem(rule, "expected one RemoveDirectory call in removeDirectory, found %d", nrm)
	}
	// Flags are monotone: only ever assigned constant true (or carried).
	for _, fl := range headerFlags {
		mono := true
		for _, e := range fl.Edges {
			if e == ssa.Value(fl) {
				continue
			}
			if v, ok := eng.ConstBool(e); ok {
				_ = v
				continue
			}
			if p, ok := e.(*ssa.Phi); ok && flagDerivesFrom(p, fl) {
				continue
			}
			mono = false
		}
		// No edge from inside the loop may reset the flag to false.
		for i, e := range fl.Edges {
			if v, ok := eng.ConstBool(e); ok && !v && loop.Body[loop.Header.Preds[i]] {
				mono = false
			}
		}
		c.Check(rule, "flag-monotone:"+fl.Comment, fl.Pos(), mono, "flag `"+fl.Comment+"` is never cleared inside the loop")
	}
	// (b) per-iteration paths.
	var bodyEntry *ssa.BasicBlock
	for _, s := range loop.Header.Succs {
		if loop.Body[s] {
			bodyEntry = s
		}
	}
	paths, complete := eng.EnumPaths(bodyEntry, func(b *ssa.BasicBlock) bool { return b == loop.Header || !loop.Body[b] }, 20000)
	if !complete {
		c.Problem(rule, "too many paths in removeDirectory's content loop")
	}
	failRe := regexp.MustCompile(`^(\(\(\*synchronization/core\.transitioner\)\.remove(File|SymbolicLink)\(.*\) == nil\)|\(\*synchronization/core\.transitioner\)\.removeDirectory\(.*\))$`)
	nMiss, nFail, nUnknownKind, nOK := 0, 0, 0, 0
	for _, p := range paths {
		if p.Last() != loop.Header {
			continue // break/cancel: handled by the exit flag
		}
		setsFlag := false
		for _, fl := range headerFlags {
			if v, ok := eng.ConstBool(p.Resolve(p.PhiOn(fl))); ok && v {
				setsFlag = true
			}
		}
		miss, failed, succeeded := false, false, false
		kindTests := 0
		for _, a := range p.Atoms {
			if strings.HasPrefix(a.Expr, "lookupok(p4.Contents,") && strings.HasSuffix(a.Expr, "#1") && !a.Pos {
				miss = true
			}
			if failRe.MatchString(a.Expr) {
				if a.Pos {
					succeeded = true
				} else {
					failed = true
				}
			}
			if strings.Contains(a.Expr, ".Kind == ") && !a.Pos {
				kindTests++
			}
		}
		removes := 0
		deletes := 0
		for _, b := range p.Blocks {
			for _, in := range b.Instrs {
				if call, ok := in.(*ssa.Call); ok {
					switch eng.CalleeName(call) {
					case fnRemoveFile, fnRemoveSymlink, fnRemoveDir, dirRemoveFile, dirRemoveLink, dirRemoveDir:
						removes++
					case "builtin:delete":
						deletes++
					}
				}
			}
		}
		switch {
		case miss:
			nMiss++
			c.Check(rule, "unknown-content", p.Blocks[len(p.Blocks)-2].Instrs[0].Pos(), setsFlag && removes == 0, "content on disk that the expected entry does not list sets a flag and is not touched", fmt.Sprintf("flag set=%v remove calls=%d", setsFlag, removes))
		case failed:
			nFail++
			c.Check(rule, "failed-removal", p.Blocks[len(p.Blocks)-2].Instrs[0].Pos(), setsFlag && deletes == 0, "a failed child removal sets a flag and leaves the child in the expected entry", fmt.Sprintf("flag set=%v deletes=%d", setsFlag, deletes))
		case removes == 0:
			nUnknownKind++
			c.Check(rule, "unknown-kind", p.Blocks[len(p.Blocks)-2].Instrs[0].Pos(), setsFlag && deletes == 0 && kindTests >= 3, "an expected child of a kind other than directory/file/link is not removed and sets a flag", fmt.Sprintf("flag set=%v kind tests failed=%d", setsFlag, kindTests))
		default:
			nOK++
			c.Check(rule, "successful-removal", p.Blocks[len(p.Blocks)-2].Instrs[0].Pos(), succeeded && deletes == 1 && removes == 1, "only a successfully removed child is deleted from the expected entry (exactly one removal, one delete)", fmt.Sprintf("succeeded=%v deletes=%d removes=%d", succeeded, deletes, removes))
		}
	}
	if nMiss < 1 || nFail < 3 || nUnknownKind < 1 || nOK < 3 {
		c.Problem(rule, "removeDirectory loop classes incomplete: miss=%d fail=%d unknown-kind=%d ok=%d", nMiss, nFail, nUnknownKind, nOK)
	}
	// `expected.Contents = nil` only when not cancelled and no removal failed.
	eng.EachInstr(fn, func(i ssa.Instruction) {
		st, ok := i.(*ssa.Store)
		if !ok || !eng.IsNilConst(st.Val) {
			return
		}
		if fa, ok := st.Addr.(*ssa.FieldAddr); ok && eng.FieldOf(fa).Name() == "Contents" {
			g := eng.Guards(st)
			neg := 0
			for _, a := range g {
				if _, isPhi := a.V.(*ssa.Phi); isPhi && !a.Pos {
					neg++
				}
			}
			c.Check(rule, "contents-cleared", st.Pos(), neg >= 2, "the expected entry's contents are dropped wholesale only when not cancelled and no child removal failed", eng.AtomsText(g))
		}
	})
}

// flagDerivesFrom reports whether v is the flag phi fl or a phi merging it.
func flagDerivesFrom(v ssa.Value, fl *ssa.Phi) bool {
	seen := map[ssa.Value]bool{}
	var walk func(x ssa.Value) bool
	walk = func(x ssa.Value) bool {
		if x == ssa.Value(fl) {
			return true
		}
		if seen[x] {
			return false
		}
		seen[x] = true
		if p, ok := x.(*ssa.Phi); ok {
			for _, e := range p.Edges {
				if walk(e) {
					return true
				}
			}
		}
		return false
	}
	return walk(v)
}

// trRemovalsGuarded: every Directory.RemoveFile / RemoveSymbolicLink call in
// package core either removes a temporary created in the same function or is
// guarded by the matching ensureExpected* success on the same (parent, name).
func trRemovalsGuarded(c *eng.Ctx, rule string) {
	n := 0
	for _, fn := range c.P.ModuleFuncs(corePkg) {
		for _, call := range eng.Calls(fn) {
			name := eng.CalleeName(call)
			var ensure string
			switch name {
			case dirRemoveFile:
				ensure = fnEnsureFile
			case dirRemoveLink:
				ensure = fnEnsureSymlink
			default:
				continue
			}
			n++
			c.Analysed(fn)
			args := call.Common().Args
			par, nm := eng.Render(args[0]), eng.Render(args[1])
			key := strings.TrimPrefix(name, "(*filesystem.Directory).") + "@" + eng.FuncName(fn)
			if strings.Contains(nm, "CreateTemporaryFile(") && strings.HasSuffix(nm, "#0") {
				c.Check(rule, key+"/temporary", call.Pos(), true, "removes a temporary file this function created (exempt by provenance)", nm)
				continue
			}
			re := `^\(` + eng.Q(ensure) + `\(p0, ` + eng.Q(par) + `, ` + eng.Q(nm) + `, [^()]*, [^()]*\) == nil\)$`
			g := eng.Guards(call)
			c.Check(rule, key, call.Pos(), eng.HasAtom(g, re, true), "content is removed only after the just-in-time check of the same (parent, name) succeeded", eng.AtomsText(g))
		}
	}
	if n < 5 {
		c.Problem(rule, "expected ≥5 RemoveFile/RemoveSymbolicLink calls in package core, found %d", n)
	}
}

// trSwapFile: swapFile's permission change and replacing move are guarded by
// ensureExpectedFile; replace=true reaches Rename only from swapFile.
func trSwapFile(c *eng.Ctx, rule string) {
	sw := c.MustFunc(rule, corePkg, "transitioner.swapFile")
	mv := c.MustFunc(rule, corePkg, "transitioner.findAndMoveStagedFileIntoPlace")
	if sw == nil || mv == nil {
		return
	}
	walk := eng.Q("(*synchronization/core.transitioner).walkToParentAndComputeLeafName(p0, p1, true)")
	re := `^\(` + eng.Q(fnEnsureFile) + `\(p0, ` + walk + `#0, ` + walk + `#1, p1, p2\) == nil\)$`
	n := 0
	for _, call := range eng.Calls(sw) {
		name := eng.CalleeName(call)
		if name == "(*filesystem.Directory).SetPermissions" || eng.Callee(call) == mv {
			n++
			callGuardedBy(c, rule, "swap:"+strings.TrimPrefix(name, "(*"), call, re, true, "the existing file is modified/replaced only after the just-in-time check against the OLD entry succeeded")
		}
	}
	if n < 2 {
		c.Problem(rule, "swapFile: expected SetPermissions and the staged move, found %d", n)
	}
	// replace flag.
	for _, fn := range c.P.ModuleFuncs(corePkg) {
		for _, call := range eng.CallsTo(fn, mv) {
			args := call.Common().Args
			v, isC := eng.ConstBool(args[len(args)-1])
			if isC && v {
				c.Check(rule, "replace-true-caller:"+eng.FuncName(fn), call.Pos(), fn == sw, "only swapFile asks for a replacing move", eng.FuncName(fn))
			} else {
				c.Check(rule, "replace-false-caller:"+eng.FuncName(fn), call.Pos(), isC && !v, "creation never replaces existing content", eng.Render(args[len(args)-1]))
			}
		}
	}
	for _, call := range eng.CallsNamed(mv, "filesystem.Rename") {
		args := call.Common().Args
		c.Check(rule, "rename-replace-arg", call.Pos(), eng.Render(args[4]) == "p5", "every rename into (parent, name) honours the caller's replace flag", eng.Render(args[4]))
		c.Check(rule, "rename-destination", call.Pos(), eng.Render(args[2]) == "p3" && eng.Render(args[3]) == "p4", "renames target (parent, name)", eng.Render(args[2])+", "+eng.Render(args[3]))
	}
}

// trEnsureExpected decides the acceptance conditions of ensureExpectedFile and
// ensureExpectedSymbolicLink.
func trEnsureExpected(c *eng.Ctx, rule string) {
	if fn := c.MustFunc(rule, corePkg, "transitioner.ensureExpectedFile"); fn != nil {
		paths := pathsToNilReturns(c, rule, fn, 20000)
		type req struct{ name, re string }
		reqs := []req{
			{"cache-hit", `^lookupok\(p0\.cache\.Entries,p3\)#1$`},
			{"mode", `^\(.*ReadContentMetadata\(p1, p2\)#0\.Mode == (conv:[\w./]+\()?lookupok\(p0\.cache\.Entries,p3\)#0\.Mode\)?\)$`},
			{"mtime", `^\(time\.Time\)\.Equal\(.*ReadContentMetadata\(p1, p2\)#0\.ModificationTime, \(\*google\.golang\.org/protobuf/types/known/timestamppb\.Timestamp\)\.AsTime\(lookupok\(p0\.cache\.Entries,p3\)#0\.ModificationTime\)\)$`},
			{"size", `^\(.*ReadContentMetadata\(p1, p2\)#0\.Size == lookupok\(p0\.cache\.Entries,p3\)#0\.Size\)$`},
			{"file-id", `^\(.*ReadContentMetadata\(p1, p2\)#0\.FileID == lookupok\(p0\.cache\.Entries,p3\)#0\.FileID\)$`},
			{"digest", `^bytes\.Equal\(lookupok\(p0\.cache\.Entries,p3\)#0\.Digest, p4\.Digest\)$`},
			{"stat-ok", `^\(.*ReadContentMetadata\(p1, p2\)#1 == nil\)$`},
		}
		if len(paths) == 0 {
			c.Problem(rule, "ensureExpectedFile has no accepting path")
		}
		for _, r := range reqs {
			bad := 0
			var sample string
			for _, p := range paths {
				if !eng.HasAtom(p.ExpandedAtoms(), r.re, true) {
					bad++
					sample = eng.AtomsText(p.ExpandedAtoms())
				}
			}
			c.Check(rule, "file-accept-requires:"+r.name, fn.Pos(), bad == 0, "ensureExpectedFile accepts only if '"+r.name+"' held (full-precision comparison with the scan-time cache)", fmt.Sprintf("%d of %d accepting paths lack it; e.g. %s", bad, len(paths), sample))
		}
	}
	if fn := c.MustFunc(rule, corePkg, "transitioner.ensureExpectedSymbolicLink"); fn != nil {
		modes, _ := c.P.ConstsOfType(corePkg, "SymbolicLinkMode")
		portable := fmt.Sprintf(`^\(p0\.symbolicLinkMode == %d:SymbolicLinkMode\)$`, modes["SymbolicLinkMode_SymbolicLinkModePortable"])
		paths := pathsToNilReturns(c, rule, fn, 20000)
		if len(paths) == 0 {
			c.Problem(rule, "ensureExpectedSymbolicLink has no accepting path")
		}
		for i, p := range paths {
			// find the comparison atom: (X == p4.Target) true
			var cmp ssa.Value
			for _, a := range p.Atoms {
				if b, ok := a.V.(*ssa.BinOp); ok && a.Pos && (b.Op == token.EQL || b.Op == token.NEQ) {
					if eng.Render(b.Y) == "p4.Target" {
						cmp = b.X
					} else if eng.Render(b.X) == "p4.Target" {
						cmp = b.Y
					}
				}
			}
			key := fmt.Sprintf("link-accept-path%d", i)
			if !c.Check(rule, key+"/compared", fn.Pos(), cmp != nil, "ensureExpectedSymbolicLink accepts only after comparing the on-disk target with the expected target (in every mode)", atomsOf(p)) {
				continue
			}
			rv := eng.Render(p.Resolve(cmp))
			if pathHas(p, portable, true) {
				c.Check(rule, key+"/portable-normalised", fn.Pos(), strings.HasPrefix(rv, "synchronization/core.normalizeSymbolicLinkAndEnsurePortable(p3, (*filesystem.Directory).ReadSymbolicLink(p1, p2)#0)#0"), "in portable mode the re-read target is normalised before the comparison", rv)
			} else {
				c.Check(rule, key+"/raw", fn.Pos(), rv == "(*filesystem.Directory).ReadSymbolicLink(p1, p2)#0", "the compared value is the target re-read from (parent, name)", rv)
			}
		}
	}
}

// trKindDispatch: remove*/create* helpers are called only under the matching
// entry.Kind test on the entry they are given.
func trKindDispatch(c *eng.Ctx, rule string) {
	kinds, _ := c.P.ConstsOfType(corePkg, "EntryKind")
	want := map[string]int64{
		fnRemoveFile:    kinds["EntryKind_File"],
		fnRemoveSymlink: kinds["EntryKind_SymbolicLink"],
		fnRemoveDir:     kinds["EntryKind_Directory"],
		fnCreateFile:    kinds["EntryKind_File"],
		fnCreateSymlink: kinds["EntryKind_SymbolicLink"],
		fnCreateDir:     kinds["EntryKind_Directory"],
	}
	n := 0
	for _, fn := range c.P.ModuleFuncs(corePkg) {
		if !strings.Contains(eng.FuncName(fn), "core.transitioner)") {
			continue
		}
		for _, call := range eng.Calls(fn) {
			name := eng.CalleeName(call)
			k, ok := want[name]
			if !ok {
				continue
			}
			n++
			args := call.Common().Args
			ev := eng.Unwrap(args[len(args)-1])
			// removeDirectory in `remove` receives a copy of the entry tested.
			if cp, ok := ev.(*ssa.Call); ok && eng.CalleeName(cp) == "(*synchronization/core.Entry).Copy" {
				ev = cp.Call.Args[0]
			}
			g := eng.Guards(call)
			tested := false
			for _, a := range g {
				b, ok := a.V.(*ssa.BinOp)
				if !ok || !a.Pos || b.Op != token.EQL {
					continue
				}
				if kv, ok := eng.ConstInt64(b.Y); !ok || kv != k {
					continue
				}
				if u, ok := b.X.(*ssa.UnOp); ok && u.Op == token.MUL {
					if fa, ok := u.X.(*ssa.FieldAddr); ok && fa.X == ev && eng.FieldOf(fa).Name() == "Kind" {
						tested = true
					}
				}
			}
			c.Check(rule, "kind:"+strings.TrimPrefix(name, "(*synchronization/core.transitioner).")+"@"+strings.TrimPrefix(eng.FuncName(fn), "(*synchronization/core.transitioner)."), call.Pos(),
				tested, fmt.Sprintf("the helper runs only for an entry whose Kind was tested to be %d", k), "entry="+eng.Render(ev))
		}
	}
	if n < 12 {
		c.Problem(rule, "expected ≥12 kind-dispatched helper calls, found %d", n)
	}
}
