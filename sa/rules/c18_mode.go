package rules

import (
	"strings"

	"golang.org/x/tools/go/ssa"

	"verif/sa/eng"
)

// c18AppliedMode decides R4: on the endpoint that CAN store executability the
// propagated bit has to reach the disk. Every permission-setting call made while
// a staged file is put in place (same-device and cross-device route alike, and
// the in-place swap) uses the mode that was chosen on target.Executable —
// φ(defaultFileMode, markExecutableForReaders(defaultFileMode)) under a test of
// the entry's Executable field — either directly or through a helper's
// parameter that every caller supplies with that value.
func c18AppliedMode(c *eng.Ctx, rule string) {
	mv := c.MustFunc(rule, corePkg, "transitioner.findAndMoveStagedFileIntoPlace")
	sw := c.MustFunc(rule, corePkg, "transitioner.swapFile")
	if mv == nil || sw == nil {
		return
	}
	chosenOnExecutable := func(v ssa.Value) bool {
		phi, ok := eng.Unwrap(v).(*ssa.Phi)
		if !ok {
			return false
		}
		// the base of both alternatives is the endpoint's default file mode (which
		// is validated to carry no executable bits): a base that may already
		// contain them — e.g. the file's existing mode — could never be made
		// non-executable again
		for _, e := range phi.Edges {
			if call, ok := e.(*ssa.Call); ok && eng.CalleeName(call) == "synchronization/core.markExecutableForReaders" {
				if eng.Render(call.Call.Args[0]) != "p0.defaultFileMode" {
					return false
				}
			} else if eng.Render(e) != "p0.defaultFileMode" {
				return false
			}
		}
		for i, e := range phi.Edges {
			call, ok := e.(*ssa.Call)
			if !ok || eng.CalleeName(call) != "synchronization/core.markExecutableForReaders" {
				continue
			}
			for _, a := range eng.GuardsOfBlock(phi.Block().Preds[i]) {
				if a.Pos && strings.HasSuffix(a.Expr, ".Executable") {
					return true
				}
			}
			// the call's own block may be the guarded one
			for _, a := range eng.GuardsOfBlock(call.Block()) {
				if a.Pos && strings.HasSuffix(a.Expr, ".Executable") {
					return true
				}
			}
		}
		return false
	}
	funcs := []*ssa.Function{mv, sw}
	seen := map[*ssa.Function]bool{mv: true, sw: true}
	for _, root := range []*ssa.Function{mv, sw} {
		for _, call := range eng.Calls(root) {
			if f := eng.Callee(call); f != nil && !seen[f] && eng.IsModuleFunc(f) && strings.HasPrefix(eng.FuncName(f), "(*synchronization/core.transitioner).") {
				seen[f] = true
				funcs = append(funcs, f)
			}
		}
	}
	n := 0
	for _, fn := range funcs {
		c.Analysed(fn)
		for _, call := range eng.Calls(fn) {
			name := eng.CalleeName(call)
			if name != "(*filesystem.Directory).SetPermissions" && name != "filesystem.SetPermissionsByPath" {
				continue
			}
			args := call.Common().Args
			mode := args[len(args)-1]
			n++
			ok, how := chosenOnExecutable(mode), eng.Render(mode)
			if p, isP := eng.Unwrap(mode).(*ssa.Parameter); isP && !ok {
				idx := -1
				for k, q := range fn.Params {
					if q == p {
						idx = k
					}
				}
				callers, all := 0, true
				for _, caller := range funcs {
					for _, site := range eng.CallsTo(caller, fn) {
						callers++
						if idx < 0 || !chosenOnExecutable(site.Common().Args[idx]) {
							all = false
						}
					}
				}
				ok = callers > 0 && all
				how += " (parameter; checked at its callers)"
			}
			c.Check(rule, "file-mode-carries-executability:"+strings.TrimPrefix(eng.FuncName(fn), "(*synchronization/core.transitioner).")+"/"+strings.TrimPrefix(name, "(*filesystem.Directory)."), call.Pos(), ok, "a file put in place gets the mode chosen on the entry's Executable bit (default mode, made executable when the bit is set)", how[:min(200, len(how))])
		}
	}
	if n < 3 {
		c.Problem(rule, "expected ≥3 permission-setting calls while placing files (staged path, cross-device intermediate, in-place swap), found %d", n)
	}
}
