package rules

import (
	"fmt"
	"strings"

	"golang.org/x/tools/go/ssa"

	"verif/sa/eng"
)

const promptPkg = "pkg/prompting"

func init() {
	eng.Register(&eng.Property{
		ID:       "C31",
		Title:    "Coalesced signals are never lost",
		Packages: []string{statePkg},
		Explanation: "Shape of the coalescer decided from its select instructions: " +
			"(R1) the signal channel has capacity exactly 1 and the strobe channel is unbuffered (a strobe is a rendezvous with the run loop); (R2) the only send on the signal channel is the non-blocking select in the timer arm (at most one buffered signal, never blocks the loop); " +
			"(R3, debounce) the strobe arm, on every path, stops the timer, drains a possibly already-fired tick without blocking, and re-arms the timer with the window — so the window is measured from the LAST strobe; the timer is re-armed nowhere else; " +
			"(R4) Strobe blocks until the loop took the strobe or the coalescer is done: a blocking select over exactly {send strobes, receive done} with no default arm (a strobe is never dropped while the loop is busy); the loop's select has the context, strobe and timer arms and the cancellation arm closes done. " +
			"(R5) no function of the package receives from the signal channel — a buffered, earned signal is taken out only by the coalescer's user (Terminate does not discard it); " +
			"Not decided: timing.",
		Assumptions: []string{"time.Timer semantics (Stop/Reset/C)"},
		Run:         runC31,
	})
}

func runC31(c *eng.Ctx) {
	c31NobodyDrainsSignals(c)
	ctor := c.MustFunc("R1", statePkg, "NewCoalescer")
	run := c.MustFunc("R2", statePkg, "Coalescer.run")
	strobe := c.MustFunc("R4", statePkg, "Coalescer.Strobe")
	if ctor == nil || run == nil || strobe == nil {
		return
	}
	caps := map[string]string{}
	eng.EachInstr(ctor, func(i ssa.Instruction) {
		if st, ok := i.(*ssa.Store); ok {
			if mc, ok := st.Val.(*ssa.MakeChan); ok {
				if fa, ok := st.Addr.(*ssa.FieldAddr); ok {
					caps[eng.FieldOf(fa).Name()] = eng.Render(mc.Size)
				}
			}
		}
	})
	c.Check("R1", "signals-capacity-1", ctor.Pos(), caps["signals"] == "1", "the signal channel buffers exactly one signal", caps["signals"])
	c.Check("R1", "strobes-unbuffered", ctor.Pos(), caps["strobes"] == "0", "strobes are handed to the run loop synchronously", caps["strobes"])

	sigF, _ := c.P.Field(statePkg, "Coalescer", "signals")
	strF, _ := c.P.Field(statePkg, "Coalescer", "strobes")
	doneF, _ := c.P.Field(statePkg, "Coalescer", "done")
	// R2.
	nSend := 0
	for _, fn := range c.P.ModuleFuncs(statePkg) {
		for _, op := range eng.ChanOps(fn) {
			if op.Send && eng.ChanField(op.Chan) == sigF {
				nSend++
				ok := fn == run && op.Select != nil && !op.Select.Blocking && len(op.Select.States) == 1
				// it sits in the timer arm of the main select
				inTimerArm := false
				for _, a := range eng.Guards(op.Instr) {
					if a.Pos && strings.HasPrefix(a.Expr, "(select(") && strings.Contains(a.Expr, ".C") {
						inTimerArm = true
					}
				}
				c.Check("R2", "signal-send-nonblocking", eng.InstrPos(op.Instr), ok && inTimerArm, "the signal is sent without blocking, from the timer arm only", eng.FuncName(fn))
			}
		}
	}
	c.Check("R2", "single-signal-send", run.Pos(), nSend == 1, "there is exactly one place that emits signals", fmt.Sprint(nSend))

	// main select
	var main *ssa.Select
	eng.EachInstr(run, func(i ssa.Instruction) {
		if s, ok := i.(*ssa.Select); ok && s.Blocking {
			main = s
		}
	})
	if main == nil {
		c.Problem("R3", "run has no blocking select")
		return
	}
	var arms []string
	strobeIdx, ctxIdx, timerIdx := -1, -1, -1
	for i, st := range main.States {
		r := eng.Render(st.Chan)
		arms = append(arms, r)
		switch {
		case eng.ChanField(st.Chan) == strF:
			strobeIdx = i
		case strings.HasPrefix(r, "invoke:Done("):
			ctxIdx = i
		case strings.HasSuffix(r, ".C"):
			timerIdx = i
		}
	}
	c.Check("R4", "loop-select-arms", main.Pos(), len(main.States) == 3 && strobeIdx >= 0 && ctxIdx >= 0 && timerIdx >= 0, "the loop waits on cancellation, strobes and the timer", strings.Join(arms, " | "))
	// R3: strobe arm.
	if strobeIdx >= 0 {
		blk := eng.SelectCaseBlock(main, strobeIdx)
		if blk == nil {
			c.Problem("R3", "strobe arm not located")
		} else {
			paths, _ := eng.EnumPaths(blk, func(b *ssa.BasicBlock) bool { return b == main.Block() }, 500)
			n, bad := 0, 0
			for _, p := range paths {
				if p.Last() != main.Block() {
					continue
				}
				n++
				var seq []string
				for _, b := range p.Blocks[:len(p.Blocks)-1] {
					for _, in := range b.Instrs {
						switch x := in.(type) {
						case *ssa.Call:
							nm := eng.CalleeName(x)
							if nm == "(*time.Timer).Stop" || nm == "(*time.Timer).Reset" {
								seq = append(seq, strings.TrimPrefix(nm, "(*time.Timer)."))
								if nm == "(*time.Timer).Reset" && eng.Render(x.Call.Args[1]) != "p2" && !strings.HasPrefix(eng.Render(x.Call.Args[1]), "phi(") {
									seq = append(seq, "reset-with-other-duration")
								}
							}
						case *ssa.Select:
							if !x.Blocking && len(x.States) == 1 && strings.HasSuffix(eng.Render(x.States[0].Chan), ".C") {
								seq = append(seq, "drain")
							}
						}
					}
				}
				if strings.Join(seq, ",") != "Stop,drain,Reset" {
					bad++
				}
			}
			c.Check("R3", "strobe-arm-stop-drain-reset", blk.Instrs[0].Pos(), n > 0 && bad == 0, "every strobe stops the timer, drains a stale tick without blocking and re-arms the full window", fmt.Sprintf("%d of %d paths differ", bad, n))
		}
	}
	nReset := 0
	for _, call := range eng.CallsNamed(run, "(*time.Timer).Reset") {
		nReset++
		in := false
		if strobeIdx >= 0 {
			if blk := eng.SelectCaseBlock(main, strobeIdx); blk != nil && blk.Dominates(call.Block()) {
				in = true
			}
		}
		c.Check("R3", "reset-only-in-strobe-arm", call.Pos(), in, "the timer is armed only by the strobe arm")
	}
	if nReset != 1 {
		c.Problem("R3", "expected one timer Reset in run, found %d", nReset)
	}
	// cancellation arm closes done
	if ctxIdx >= 0 {
		blk := eng.SelectCaseBlock(main, ctxIdx)
		closes := false
		if blk != nil {
			for _, in := range blk.Instrs {
				if call, ok := in.(*ssa.Call); ok && eng.CalleeName(call) == "builtin:close" && eng.ChanField(call.Call.Args[0]) == doneF {
					closes = true
				}
			}
		}
		// equivalent: a `defer close(done)` registered in the entry block, with the
		// cancellation arm returning (the deferred close then runs at that return)
		if !closes && blk != nil {
			deferred := false
			// registered on every way into the loop: its block dominates the select
			eng.EachInstr(run, func(in ssa.Instruction) {
				if d, ok := in.(*ssa.Defer); ok && eng.CalleeName(d) == "builtin:close" && eng.ChanField(d.Call.Args[0]) == doneF && d.Block().Dominates(main.Block()) {
					deferred = true
				}
			})
			returns := false
			for _, b := range dominatedBlocks(blk) {
				if _, ok := b.Instrs[len(b.Instrs)-1].(*ssa.Return); ok {
					returns = true
				}
			}
			closes = deferred && returns
		}
		c.Check("R4", "cancellation-closes-done", main.Pos(), closes, "termination closes done (releasing blocked Strobe callers)")
	}
	// R4: Strobe.
	var ss *ssa.Select
	eng.EachInstr(strobe, func(i ssa.Instruction) {
		if s, ok := i.(*ssa.Select); ok {
			ss = s
		}
	})
	okS := ss != nil && ss.Blocking && len(ss.States) == 2
	if okS {
		send, recv := false, false
		for _, st := range ss.States {
			if eng.ChanField(st.Chan) == strF && st.Send != nil {
				send = true
			}
			if eng.ChanField(st.Chan) == doneF && st.Send == nil {
				recv = true
			}
		}
		okS = send && recv
	}
	c.Check("R4", "strobe-blocks-until-taken-or-done", strobe.Pos(), okS, "Strobe blocks until the loop took the strobe or the coalescer terminated — it has no default arm that could drop a strobe")
}
