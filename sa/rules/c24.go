package rules

import (
	"fmt"
	"go/token"
	"regexp"
	"sort"
	"strings"

	"golang.org/x/tools/go/ssa"

	"verif/sa/eng"
)

const muxPkg = "pkg/multiplexing"

func init() {
	eng.Register(&eng.Property{
		ID:       "C24",
		Title:    "Conforming multiplexers never tear each other down",
		Packages: []string{muxPkg},
		Explanation: "Sender-meets-receiver agreement, decided on every path: the reader (Multiplexer.read) rejects certain decoded values as protocol violations; for each such rejection the local senders must be unable to produce the value. " +
			"(R1) read rejects a zero window increment ⇒ every send on Multiplexer.enqueueWindowIncrement carries an amount that is guarded non-zero at the send, and the aggregation in enqueue only ever adds received amounts (map update = old + amount) and encodes map values; " +
			"(R2) read rejects zero-length data ⇒ every encodeStreamDataMessage call passes data[:w] under the loop guard len(data)>0 with w=min(sendWindow,…) computed after the non-zero send-window token was taken; " +
			"(R3) every messageKind constant has an encoder writing exactly that kind byte and an arm in read; read's upper bound is the largest constant; " +
			"(R4) enqueue's close case cancels pending window increments and write-closes of the stream (read rejects both for a closed stream). " +
			"(R5) the stream-open goroutine never closes the stream unconditionally; (R6, teardown reasons) the reader returns an error for exactly the reasons (per message kind) that were read and confirmed on the pinned tree and covered by R1–R4 — a new reason, such as refusing window increments on a half-closed stream, is reported, as is a dropped one; " +
			"(R7) read rejects data for a write-closed stream ⇒ closeWrite queues the close-write message only after it took the write-deadline semaphore, i.e. after every in-flight Write has queued its data (shared with C23.R5); likewise read rejects a window increment for a closed stream ⇒ close queues the close message only after a blocking receive of the read-deadline semaphore, which an in-flight Read holds until its increment is queued; " +
			"Not decided: absence of protocol violations that depend on message interleavings between the two sides (e.g. data racing a close), timing, and the readiness-channel invariant sendWindowReady⇔sendWindow>0 (assumed for R2).",
		Assumptions: []string{
			"sendWindowReady holds a token iff sendWindow > 0 (maintained under sendWindowLock; lockset part is C23)",
			"both sides run the same code (the property is about two conforming multiplexers)",
		},
		Run: runC24,
	})
}

func runC24(c *eng.Ctx) {
	c24ReaderReasons(c)
	// R7 (shared with C23.R5): read rejects data for a write-closed stream ⇒ the
	// close-write message is queued only once no Write is in flight.
	closeWriteAfterWriters(c, "R7")
	// … and read rejects a window increment for a closed stream ⇒ the close
	// message is queued only after a BLOCKING receive of the read-deadline
	// semaphore, which an in-flight Read holds until it has queued its increment.
	streamBarrier(c, "R7", "close-after-readers-drained", "Stream.close", "readDeadline", "enqueueClose",
		"the close message is enqueued only after the read-deadline semaphore was taken with a blocking receive (no reader is about to queue a window increment)")
	c.Floor("R7", 2)
	read := c.MustFunc("R1", muxPkg, "Multiplexer.read")
	enq := c.MustFunc("R1", muxPkg, "Multiplexer.enqueue")
	if read == nil || enq == nil {
		return
	}
	kinds, err := c.P.ConstsOfType(muxPkg, "messageKind")
	if err != nil {
		c.Problem("R3", "%v", err)
		return
	}
	kindOf := func(name string) int64 { return kinds["messageKind"+name] }

	// Reader-side rejections of zero values, per kind arm.
	rejectsZero := func(kind int64) bool {
		kre := regexp.MustCompile(fmt.Sprintf(`== %d:messageKind\)`, kind))
		for _, ret := range eng.Returns(read) {
			if len(eng.RetResults(ret)) != 1 || eng.IsNilConst(eng.RetResults(ret)[0]) {
				continue
			}
			g := eng.Guards(ret)
			inArm := false
			zero := false
			for _, a := range g {
				if a.Pos && kre.MatchString(a.Expr) {
					inArm = true
				}
				if a.Pos && strings.HasSuffix(a.Expr, " == 0)") && !strings.Contains(a.Expr, "sendWindow") {
					zero = true
				}
			}
			if inArm && zero {
				return true
			}
		}
		return false
	}

	// R1: window increments.
	if rejectsZero(kindOf("StreamWindowIncrement")) {
		fld, err := c.P.Field(muxPkg, "Multiplexer", "enqueueWindowIncrement")
		if err != nil {
			c.Problem("R1", "%v", err)
			return
		}
		n := 0
		for _, fn := range c.P.ModuleFuncs(muxPkg) {
			for _, op := range eng.ChanOps(fn) {
				if !op.Send || eng.ChanField(op.Chan) != fld {
					continue
				}
				n++
				c.Analysed(fn)
				key := "send:" + eng.FuncName(fn)
				lit := eng.LitOf(op.Val)
				if lit == nil {
					c.Check("R1", key, eng.InstrPos(op.Instr), false, "window increment sent is a literal whose amount can be traced", eng.Render(op.Val))
					continue
				}
				amt := eng.LitFields(lit)["amount"]
				if amt == nil {
					c.Check("R1", key, eng.InstrPos(op.Instr), false, "window increment literal sets amount exactly once")
					continue
				}
				c.Check("R1", key, eng.InstrPos(op.Instr), nonZeroGuarded(eng.Guards(op.Instr), amt),
					"the reader rejects a zero window increment, so the amount sent must be guarded non-zero",
					"amount="+eng.Render(amt)+"; guards: "+eng.AtomsText(eng.Guards(op.Instr)))
			}
		}
		if n == 0 {
			c.Problem("R1", "no send on enqueueWindowIncrement found")
		}
		// Aggregation: map updates in enqueue on the increments map.
		var incMap ssa.Value
		eng.EachInstr(enq, func(i ssa.Instruction) {
			if mu, ok := i.(*ssa.MapUpdate); ok {
				if strings.HasSuffix(eng.Render(mu.Value), ".amount)") || strings.Contains(eng.Render(mu.Value), ".amount") {
					incMap = mu.Map
				}
			}
		})
		if incMap == nil {
			c.Problem("R1", "aggregation map update not found in enqueue")
		} else {
			eng.EachInstr(enq, func(i ssa.Instruction) {
				mu, ok := i.(*ssa.MapUpdate)
				if !ok || mu.Map != incMap {
					return
				}
				b, isAdd := mu.Value.(*ssa.BinOp)
				good := false
				if isAdd && b.Op == token.ADD {
					l, r := b.X, b.Y
					isOld := func(v ssa.Value) bool {
						lk, ok := v.(*ssa.Lookup)
						return ok && lk.X == incMap && eng.Render(lk.Index) == eng.Render(mu.Key)
					}
					isAmt := func(v ssa.Value) bool { return strings.HasSuffix(eng.Render(v), ".amount") }
					good = (isOld(l) && isAmt(r)) || (isOld(r) && isAmt(l))
				}
				c.Check("R1", "aggregate", mu.Pos(), good, "pending increments are aggregated as old + received amount for the same stream", eng.Render(mu.Value))
			})
			// Encoded amounts come from ranging over that map.
			for _, call := range eng.CallsNamed(enq, "(*multiplexing.messageBuffer).encodeStreamWindowIncrement") {
				args := call.Common().Args
				rs := eng.Render(args[2])
				c.Check("R1", "encode-amount", call.Pos(), strings.HasPrefix(rs, "next(range(") && strings.HasSuffix(rs, "#2"), "the encoded amount is the aggregated map value", rs)
			}
		}
		c.Floor("R1", 3)
	} else {
		c.Check("R1", "reader-accepts-zero", read.Pos(), true, "the reader does not reject zero window increments: no sender obligation")
	}

	// R2: data messages.
	if rejectsZero(kindOf("StreamData")) {
		n := 0
		for _, fn := range c.P.ModuleFuncs(muxPkg) {
			for _, call := range eng.CallsNamed(fn, "(*multiplexing.messageBuffer).encodeStreamDataMessage") {
				n++
				c.Analysed(fn)
				arg := call.Common().Args[2]
				sl, ok := arg.(*ssa.Slice)
				key := "data:" + eng.FuncName(fn)
				if !ok || sl.High == nil || sl.Low != nil {
					c.Check("R2", key, call.Pos(), false, "data message payload is data[:w]", eng.Render(arg))
					continue
				}
				g := eng.Guards(call)
				base := eng.Render(sl.X)
				lenOK := eng.HasAtom(g, `^\(len\(`+eng.Q(base)+`\) > 0\)$`, true) || eng.HasAtom(g, `^\(len\(`+eng.Q(base)+`\) == 0\)$`, false)
				c.Check("R2", key+"/len", call.Pos(), lenOK, "payload is cut from a slice guarded non-empty", "base="+base)
				// w = min(sendWindow, min(len(data), max)) with the window token taken.
				hs := eng.Render(sl.High)
				wOK := strings.Contains(hs, "multiplexing.min(p0.sendWindow, multiplexing.min(conv:uint64(len("+base+"))") || strings.Contains(hs, "min(p0.sendWindow, conv:uint64(len("+base+"))")
				c.Check("R2", key+"/width", call.Pos(), wOK, "payload width is min(sendWindow, len(data), block limit)", hs)
				tokOK, why := c24WindowToken(c, fn, call)
				c.Check("R2", key+"/window-token", call.Pos(), tokOK, "a write buffer (needed to encode) can only be obtained after the non-zero send-window token was taken", why)
			}
		}
		if n == 0 {
			c.Problem("R2", "no encodeStreamDataMessage call found")
		}
		c.Floor("R2", 3)
	} else {
		c.Check("R2", "reader-accepts-empty", read.Pos(), true, "the reader does not reject empty data messages: no sender obligation")
	}

	// R3: kind table.
	var names []string
	var maxKind int64
	for n, v := range kinds {
		names = append(names, n)
		if v > maxKind {
			maxKind = v
		}
	}
	sort.Strings(names)
	fns := c.P.ModuleFuncs(muxPkg)
	for _, n := range names {
		k := kinds[n]
		// encoder: a WriteByte/byte-slice literal with const k:byte in the package.
		enc := ""
		for _, fn := range fns {
			for _, call := range eng.Calls(fn) {
				if strings.HasSuffix(eng.CalleeName(call), ".WriteByte") {
					if v, ok := eng.ConstInt64(call.Common().Args[len(call.Common().Args)-1]); ok && v == k {
						enc = eng.FuncName(fn)
					}
				}
			}
			eng.EachInstr(fn, func(i ssa.Instruction) {
				if st, ok := i.(*ssa.Store); ok {
					if _, isIdx := st.Addr.(*ssa.IndexAddr); isIdx {
						if v, ok := eng.ConstInt64(st.Val); ok && v == k && strings.HasSuffix(eng.FuncName(fn), ".write") {
							enc = eng.FuncName(fn)
						}
					}
				}
			})
		}
		c.Check("R3", "encoder:"+n, read.Pos(), enc != "", "message kind has an encoder that writes its kind byte", enc)
		arm := false
		re := regexp.MustCompile(fmt.Sprintf(`== %d:messageKind\)$`, k))
		eng.EachInstr(read, func(i ssa.Instruction) {
			if iff, ok := i.(*ssa.If); ok && re.MatchString(eng.Render(iff.Cond)) {
				arm = true
			}
		})
		c.Check("R3", "reader-arm:"+n, read.Pos(), arm, "message kind has an arm in the reader")
	}
	bound := false
	eng.EachInstr(read, func(i ssa.Instruction) {
		if iff, ok := i.(*ssa.If); ok {
			if strings.HasSuffix(eng.Render(iff.Cond), fmt.Sprintf(" > %d:messageKind)", maxKind)) {
				bound = true
			}
		}
	})
	c.Check("R3", "reader-bound", read.Pos(), bound, fmt.Sprintf("the reader's kind bound is the largest kind constant (%d)", maxKind))
	c.Floor("R3", 15)

	// R5: a failed OpenStream sends a close only for a stream whose open message went out
	// (the reader rejects messages for identifiers it never saw opened).
	if open := c.MustFunc("R5", muxPkg, "Multiplexer.OpenStream"); open != nil {
		var enc ssa.Instruction
		for _, call := range eng.CallsNamed(open, "(*multiplexing.messageBuffer).encodeOpenMessage") {
			enc = call
		}
		n := 0
		for _, f := range eng.WithClosures(open) {
			for _, call := range eng.Calls(f) {
				switch eng.CalleeName(call) {
				case "(*multiplexing.Stream).Close":
					n++
					c.Check("R5", "no-unconditional-close:"+eng.FuncName(f), call.Pos(), false, "OpenStream's cleanup must not send a close message unconditionally", "Stream.Close() always announces the close to the peer")
				case "(*multiplexing.Stream).close":
					n++
					flag := call.Common().Args[1]
					ok := false
					why := eng.Render(flag)
					if v, isC := eng.ConstBool(flag); isC {
						ok = !v
					} else if u, isU := flag.(*ssa.UnOp); isU {
						// a captured local: every store of true lies after the open message was encoded
						var cell ssa.Value = u.X
						if fv, isFV := u.X.(*ssa.FreeVar); isFV {
							cell = eng.FreeVarBinding(fv)
						}
						if al, isAl := cell.(*ssa.Alloc); isAl && enc != nil {
							ok = true
							for _, ref := range *al.Referrers() {
								if st, isSt := ref.(*ssa.Store); isSt {
									if v, isC := eng.ConstBool(st.Val); isC && v {
										if !(enc.Block().Dominates(st.Block()) && (enc.Block() != st.Block() || eng.InstrIndex(enc) < eng.InstrIndex(st))) {
											ok = false
										}
									} else if !isC {
										ok = false
									}
								}
							}
						}
					}
					c.Check("R5", "close-announced-only-after-open:"+eng.FuncName(f), call.Pos(), ok, "the cleanup announces the close to the peer only if the open message was actually encoded", why)
				}
			}
		}
		if n == 0 {
			c.Problem("R5", "OpenStream has no cleanup close")
		}
	}

	// R4: close cancels pending messages.
	cf, err := c.P.Field(muxPkg, "Multiplexer", "enqueueClose")
	if err != nil {
		c.Problem("R4", "%v", err)
		return
	}
	found := false
	for _, op := range eng.ChanOps(enq) {
		if op.Send || op.Select == nil || eng.ChanField(op.Chan) != cf {
			continue
		}
		found = true
		blk := eng.SelectCaseBlock(op.Select, op.Index)
		if blk == nil {
			c.Problem("R4", "cannot locate the enqueueClose case body")
			continue
		}
		deleted := map[string]bool{}
		var closesSet bool
		for _, b := range enq.Blocks {
			if !blk.Dominates(b) {
				continue
			}
			for _, in := range b.Instrs {
				if call, ok := in.(*ssa.Call); ok && eng.CalleeName(call) == "builtin:delete" {
					deleted[eng.Render(call.Call.Args[0])] = true
				}
				if mu, ok := in.(*ssa.MapUpdate); ok {
					if v, ok := eng.ConstBool(mu.Value); ok && v {
						closesSet = true
					}
				}
			}
		}
		// Maps that the write-buffer case encodes increments / close-writes from.
		var incMap, cwMap string
		for _, call := range eng.CallsNamed(enq, "(*multiplexing.messageBuffer).encodeStreamWindowIncrement") {
			r := eng.Render(call.Common().Args[1])
			incMap = strings.TrimSuffix(strings.TrimPrefix(r, "next(range("), "))#1")
		}
		for _, call := range eng.CallsNamed(enq, "(*multiplexing.messageBuffer).encodeStreamCloseWrite") {
			r := eng.Render(call.Common().Args[1])
			cwMap = strings.TrimSuffix(strings.TrimPrefix(r, "next(range("), "))#1")
		}
		c.Check("R4", "close-cancels-increment", blk.Instrs[0].Pos(), incMap != "" && deleted[incMap], "a close cancels the stream's pending window increment (the reader rejects increments for closed streams)", fmt.Sprintf("deleted=%v inc=%s", keys(deleted), incMap))
		c.Check("R4", "close-cancels-close-write", blk.Instrs[0].Pos(), cwMap != "" && deleted[cwMap], "a close cancels the stream's pending write-close (the reader rejects close-write for closed streams)", fmt.Sprintf("deleted=%v cw=%s", keys(deleted), cwMap))
		c.Check("R4", "close-recorded", blk.Instrs[0].Pos(), closesSet, "the close itself is recorded for transmission")
	}
	if !found {
		c.Problem("R4", "enqueue has no receive on enqueueClose")
	}
	c.Floor("R4", 3)
}

func keys(m map[string]bool) []string {
	var out []string
	for k := range m {
		out = append(out, k)
	}
	sort.Strings(out)
	return out
}

// nonZeroGuarded reports whether guards establish v != 0 (v or the operand of
// its integer conversion).
func nonZeroGuarded(g []eng.Atom, v ssa.Value) bool {
	cands := []string{eng.Render(v)}
	if cv, ok := v.(*ssa.Convert); ok {
		cands = append(cands, eng.Render(cv.X))
	}
	for _, s := range cands {
		q := eng.Q(s)
		if eng.HasAtom(g, `^\(`+q+` > 0\)$`, true) || eng.HasAtom(g, `^\(`+q+` == 0\)$`, false) ||
			eng.HasAtom(g, `^\(`+q+` <= 0\)$`, false) || eng.HasAtom(g, `^\(`+q+` >= 1\)$`, true) || eng.HasAtom(g, `^\(0 < `+q+`\)$`, true) {
			return true
		}
	}
	return false
}

// c24WindowToken decides that the message buffer used by an encode call can
// only have been received from a channel operand that is disabled (nil) unless
// the send-window token flag is set, and that the flag is only set by receiving
// from sendWindowReady.
func c24WindowToken(c *eng.Ctx, fn *ssa.Function, call ssa.CallInstruction) (bool, string) {
	recvBuf := call.Common().Args[0] // receiver: the message buffer
	// The buffer must be guarded non-nil and be a phi of {nil, self, recv}.
	g := eng.Guards(call)
	if !eng.HasAtom(g, `^\(`+eng.Q(eng.Render(recvBuf))+` == nil\)$`, false) {
		return false, "encode is not guarded by buffer != nil: " + eng.Render(recvBuf)
	}
	phi, ok := recvBuf.(*ssa.Phi)
	if !ok {
		return false, "buffer is not loop carried"
	}
	var sel *ssa.Select
	selIdx := -1
	var walk func(v ssa.Value, seen map[ssa.Value]bool) bool
	walk = func(v ssa.Value, seen map[ssa.Value]bool) bool {
		if seen[v] {
			return true
		}
		seen[v] = true
		switch x := v.(type) {
		case *ssa.Phi:
			for _, e := range x.Edges {
				if !walk(e, seen) {
					return false
				}
			}
			return true
		case *ssa.Const:
			return x.Value == nil
		case *ssa.Extract:
			if s, ok := x.Tuple.(*ssa.Select); ok {
				// Extract index k ≥ 2 is the received value of the (k-2)-th receive state.
				sel = s
				r := 0
				for i, st := range s.States {
					if st.Dir == 2 { // types.RecvOnly
						if r == x.Index-2 {
							selIdx = i
						}
						r++
					}
				}
				return true
			}
		}
		return false
	}
	if !walk(phi, map[ssa.Value]bool{}) || sel == nil || selIdx < 0 {
		return false, "buffer has a source other than nil or a select receive"
	}
	chPhi, ok := sel.States[selIdx].Chan.(*ssa.Phi)
	if !ok {
		return false, "buffer channel operand is not conditionally disabled: " + eng.Render(sel.States[selIdx].Chan)
	}
	hasNil := false
	var flag ssa.Value
	for i, e := range chPhi.Edges {
		if eng.IsNilConst(e) {
			hasNil = true
			continue
		}
		// Edge carrying the real channel: the edge from its predecessor must
		// establish the flag.
		pred := chPhi.Block().Preds[i]
		for _, a := range eng.GuardsOfBlock(pred) {
			_ = a
		}
		for si, s := range pred.Succs {
			if s == chPhi.Block() {
				if iff, ok := pred.Instrs[len(pred.Instrs)-1].(*ssa.If); ok {
					a := eng.MkAtom(iff.Cond, si == 0)
					if a.Pos {
						flag = a.V
					}
				}
			}
		}
	}
	if !hasNil || flag == nil {
		return false, "channel operand is not nil-ed out under a flag"
	}
	// The flag: phi over {false, self, true}, the true edge coming from the
	// case body of a receive on sendWindowReady.
	fphi, ok := flag.(*ssa.Phi)
	if !ok {
		return false, "flag is not loop carried: " + eng.Render(flag)
	}
	swr, err := c.P.Field(muxPkg, "Stream", "sendWindowReady")
	if err != nil {
		return false, err.Error()
	}
	var readyCase *ssa.BasicBlock
	for i, st := range sel.States {
		if eng.ChanField(st.Chan) == swr && st.Dir == 2 {
			readyCase = eng.SelectCaseBlock(sel, i)
		}
	}
	if readyCase == nil {
		return false, "select has no receive on sendWindowReady"
	}
	var check func(p *ssa.Phi, seen map[*ssa.Phi]bool) (bool, string)
	check = func(p *ssa.Phi, seen map[*ssa.Phi]bool) (bool, string) {
		if seen[p] {
			return true, ""
		}
		seen[p] = true
		for i, e := range p.Edges {
			if q, ok := e.(*ssa.Phi); ok {
				if ok2, why := check(q, seen); !ok2 {
					return false, why
				}
				continue
			}
			v, isC := eng.ConstBool(e)
			if !isC {
				return false, "flag has a non-constant source " + eng.Render(e)
			}
			if v && !readyCase.Dominates(p.Block().Preds[i]) {
				return false, "flag set to true outside the sendWindowReady case"
			}
		}
		return true, ""
	}
	if ok, why := check(fphi, map[*ssa.Phi]bool{}); !ok {
		return false, why
	}
	return true, "buffer ⇐ receive on channel that is nil unless flag; flag ⇐ receive on sendWindowReady"
}
