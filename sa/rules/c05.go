package rules

import (
	"fmt"
	"go/token"
	"go/types"
	"strings"

	"golang.org/x/tools/go/ssa"

	"verif/sa/eng"
)

func init() {
	eng.Register(&eng.Property{
		ID:       "C05",
		Title:    "Saved sync state stays valid and faithful under any transition outcome",
		Packages: []string{syncPkg, corePkg, remotePkg},
		Explanation: "(R1, validate-before-save) in controller.synchronize the archive is written (MarshalAndSaveProtobuf(c.archivePath, archive)) only on paths where core.Apply returned no error and the applied tree passed EnsureValid(true); the archive's Content is exactly that applied tree; " +
			"(R2) Apply receives Reconcile's ancestor changes followed by the alpha and the beta result changes (append order), and the apply-and-save block is entered on len(that combined list) > 0; every transition result is folded in unconditionally with Path/New at matching indices (shared with C01.R7); " +
			"(R3) the archive loaded at the start of synchronize is used only after LoadAndUnmarshalProtobuf and EnsureValid(true) succeeded; " +
			"(R4, who-may-write) the archive path is written only through MarshalAndSaveProtobuf from newSession, reset and synchronize, and removed only by halt's terminate mode; " +
			"(R5) result arity: the remote TransitionResponse is accepted only if len(Results) equals the number of transitions sent (the local side: C09.R1); " +
			"(R6) core.Apply mutates only its own copy: every map update/delete targets memory derived from base.Copy(…)/change.New.Copy(…), inserted subtrees are copies, and a content map is allocated only when inserting (change.New != nil), never when deleting; a missing parent is an error. " +
			"(R6 additions) Apply applies every change: no way through an iteration of its loop is without effect, a helper that walks to the parent is followed, and a tree pointer carried across iterations is re-derived when the root is replaced; " +
			"(R7, shared with C03.R5) Entry.synchronizable — the filter every planned New value passes through — returns the receiver only where there is nothing to filter and otherwise a fresh entry holding exactly the non-nil synchronizable() images of the children, so no unsynchronizable content at any depth can reach the ancestor through a reported result; " +
			"(R8) Entry.EnsureValid and Archive.EnsureValid — the validators the new ancestor must pass before it is saved — reject for exactly the reasons confirmed on the pinned tree (multiset of deciding conditions; a new reason is a new way for Apply's tree to be refused, a dropped one lets an invalid archive be saved); " +
			"Not decided: that Apply succeeds for every possible outcome mix (needs reasoning over trees), content of the serialized bytes.",
		Assumptions: []string{"Entry.Copy(DeepPreservingLeaves) returns fresh directory nodes (C07.R1)"},
		Run:         runC05,
	})
}

func runC05(c *eng.Ctx) {
	syn, apply, rec, load := c05SaveRule(c, "R1")
	if syn == nil {
		return
	}
	c05ApplyList(c, "R2", syn, apply, rec)
	c05Rest(c, syn, load)
}

// c05SaveRule: the archive written at the end of a cycle holds the tree Apply
// produced and EnsureValid accepted. Shared with C11 (the safety checks of the
// first cycle after a restart run against the SAVED ancestor; an archive that
// lags behind makes «root emptied / deleted» invisible to them).
func c05SaveRule(c *eng.Ctx, r1 string) (syn *ssa.Function, apply, rec, load *ssa.Call) {
	syn = c.MustFunc(r1, syncPkg, "controller.synchronize")
	if syn == nil {
		return nil, nil, nil, nil
	}
	var save ssa.CallInstruction
	for _, call := range eng.Calls(syn) {
		switch eng.CalleeName(call) {
		case "synchronization/core.Apply":
			apply, _ = call.(*ssa.Call)
		case "synchronization/core.Reconcile":
			rec, _ = call.(*ssa.Call)
		case "encoding.MarshalAndSaveProtobuf":
			save = call
		case "encoding.LoadAndUnmarshalProtobuf":
			load, _ = call.(*ssa.Call)
		}
	}
	if apply == nil || rec == nil || save == nil || load == nil {
		c.Problem(r1, "Apply/Reconcile/save/load calls not all found in synchronize")
		return nil, nil, nil, nil
	}
	var applied ssa.Value
	for _, ref := range *apply.Referrers() {
		if ex, ok := ref.(*ssa.Extract); ok && ex.Index == 0 {
			applied = ex
		}
	}
	g := eng.Guards(save)
	applyOK, validOK := false, false
	for _, a := range g {
		b, ok := a.V.(*ssa.BinOp)
		if !ok || !a.Pos || !strings.HasSuffix(a.Expr, " == nil)") {
			continue
		}
		if ex, ok := b.X.(*ssa.Extract); ok && ex.Tuple == ssa.Value(apply) && ex.Index == 1 {
			applyOK = true
		}
		if cl, ok := b.X.(*ssa.Call); ok && eng.CalleeName(cl) == "(*synchronization/core.Entry).EnsureValid" {
			if eng.Deref(cl.Call.Args[0]) == applied || p0IsPhiOf(cl.Call.Args[0], applied) {
				if v, ok := eng.ConstBool(cl.Call.Args[1]); ok && v {
					validOK = true
				}
			}
		}
	}
	c.Check(r1, "save-after-apply-ok", save.Pos(), applyOK, "the archive is saved only if core.Apply succeeded")
	c.Check(r1, "save-after-validate", save.Pos(), validOK, "the archive is saved only if the applied ancestor passed EnsureValid(true)", eng.AtomsText(g)[:min(300, len(eng.AtomsText(g)))])
	c.Check(r1, "save-path", save.Pos(), eng.Render(save.Common().Args[0]) == "p0.archivePath", "the save targets the session's archive path", eng.Render(save.Common().Args[0]))
	// archive.Content = applied tree
	contentOK := false
	eng.EachInstr(syn, func(i ssa.Instruction) {
		if st, ok := i.(*ssa.Store); ok {
			if fa, ok := st.Addr.(*ssa.FieldAddr); ok && eng.FieldOf(fa).Name() == "Content" && strings.HasSuffix(eng.TypeShort(fa.X.Type()), "core.Archive") {
				if st.Block().Dominates(save.Block()) && (eng.Deref(st.Val) == applied || p0IsPhiOf(st.Val, applied)) {
					contentOK = true
				}
			}
		}
	})
	c.Check(r1, "saved-content-is-applied-tree", save.Pos(), contentOK, "the archive's Content is the tree returned by Apply (and validated)")
	// The archive object saved is the one loaded.
	c.Check(r1, "same-archive-object", save.Pos(), eng.Render(save.Common().Args[1]) == eng.Render(load.Call.Args[1]), "the archive object saved is the one loaded and updated", eng.Render(save.Common().Args[1]))

	return syn, apply, rec, load
}

func c05Rest(c *eng.Ctx, syn *ssa.Function, load *ssa.Call) {
	// R3.
	var firstUse ssa.Instruction
	var lg []eng.Atom
	for _, fn := range eng.WithClosures(syn) {
		for _, call := range eng.Calls(fn) {
			if firstUse == nil && call.Common().IsInvoke() && call.Common().Method.Name() == "Scan" {
				firstUse = call
				if fn == syn {
					lg = eng.Guards(call)
				} else {
					lg = closureSiteGuards(syn, fn)
				}
			}
		}
	}
	if firstUse != nil {
		okL, okV := false, false
		for _, a := range lg {
			if a.Pos && a.V != nil {
				if b, ok := a.V.(*ssa.BinOp); ok {
					if b.X == ssa.Value(load) {
						okL = true
					}
					if cl, ok := b.X.(*ssa.Call); ok && eng.CalleeName(cl) == "(*synchronization/core.Archive).EnsureValid" && eng.Render(cl.Call.Args[0]) == eng.Render(load.Call.Args[1]) {
						if v, ok := eng.ConstBool(cl.Call.Args[1]); ok && v {
							okV = true
						}
					}
				}
			}
		}
		c.Check("R3", "load-ok-before-use", firstUse.Pos(), okL, "the cycle starts only if the archive was read successfully")
		c.Check("R3", "loaded-archive-validated", firstUse.Pos(), okV, "the loaded archive passed EnsureValid(true) before it is used")
	} else {
		c.Problem("R3", "no Scan invocation found in synchronize")
	}

	// R4.
	allowedSavers := map[string]bool{"synchronization.newSession": true, "(*synchronization.controller).reset": true, "(*synchronization.controller).synchronize": true}
	n := 0
	for _, fn := range c.P.ModuleFuncs(syncPkg) {
		for _, call := range eng.Calls(fn) {
			name := eng.CalleeName(call)
			args := call.Common().Args
			if len(args) == 0 {
				continue
			}
			a0 := eng.Render(args[0])
			if !strings.Contains(a0, "archivePath") && !strings.Contains(a0, "pathForArchive(") {
				continue
			}
			switch name {
			case "encoding.MarshalAndSaveProtobuf":
				n++
				top := fn
				for top.Parent() != nil {
					top = top.Parent()
				}
				c.Check("R4", "archive-writer:"+eng.FuncName(top), call.Pos(), allowedSavers[eng.FuncName(top)], "the archive is written only by session creation, reset and the synchronization loop")
			case "encoding.LoadAndUnmarshalProtobuf", "filepath.Join", "path/filepath.Join":
			case "os.Remove":
				n++
				c.Check("R4", "archive-remover:"+eng.FuncName(fn), call.Pos(), strings.HasSuffix(eng.FuncName(fn), "controller).halt"), "the archive is removed only when the session is terminated")
			default:
				c.Check("R4", "archive-path-use:"+name, call.Pos(), false, "unexpected use of the archive path", eng.FuncName(fn))
			}
		}
	}
	if n < 4 {
		c.Problem("R4", "expected ≥4 archive writers/removers, found %d", n)
	}

	// R5.
	if fn := c.MustFunc("R5", remotePkg, "TransitionResponse.ensureValid"); fn != nil {
		requireAtNilReturns(c, "R5", "result-arity", fn, `^\(len\(p0\.Results\) == p1\)$`, true, "a transition response is accepted only if it has one result per transition")
	}
	if cl := c.MustFunc("R5", remotePkg, "endpointClient.Transition"); cl != nil {
		found := false
		for _, f := range eng.WithClosures(cl) {
			for _, call := range eng.CallsNamed(f, "(*synchronization/endpoint/remote.TransitionResponse).ensureValid") {
				found = true
				r := eng.Render(call.Common().Args[1])
				c.Check("R5", "client-checks-arity", call.Pos(), r == "len(p2)" || r == "len(*fv:transitions)" || r == "len(fv:transitions)", "the client validates the response against the number of transitions it sent", r)
			}
		}
		if !found {
			c.Check("R5", "client-checks-arity", cl.Pos(), false, "the client validates the transition response")
		}
	}

	c05Apply(c, "R6")

	// R7: what a transition may report is a prefix-closed part of what was
	// planned, and what is planned is X.synchronizable(): the filter must remove
	// unsynchronizable content at every depth (shared with C03.R5), or the tree
	// Apply produces fails EnsureValid(true) and the archive is never saved.
	kinds, _ := c.P.ConstsOfType(corePkg, "EntryKind")
	c03Synchronizable(c, "R7", kinds)

	// R8: the validator the new ancestor must pass before it is saved rejects
	// for exactly the reasons confirmed on the pinned tree. Every one of those
	// is a shape core.Apply cannot produce from valid inputs (read against
	// apply.go); a NEW reason is a new way for the tree Apply returns to be
	// refused, after which nothing is saved and every retry fails the same way.
	validatorReasons(c, "R8", corePkg, "Entry.EnsureValid", "Entry", c05EntryReasons)
	validatorReasons(c, "R8", corePkg, "Archive.EnsureValid", "Archive", c05ArchiveReasons)
	c.Floor("R8", 2)
}

// generated with VERIF_C21_DUMP=1 and read against entry.go / archive.go.
var c05EntryReasons = []string{
	"",
	"",
	"(len(p0.Digest) == 0)",
	"(next(range(p0.Contents))#1 == \"\")",
	"(next(range(p0.Contents))#1 == \"\")",
	"(next(range(p0.Contents))#2 == nil)",
	"(next(range(p0.Contents))#2 == nil)",
	"(p0.Problem == \"\")",
	"(p0.Target == \"\")",
	"p0.Executable",
	"p0.Executable",
	"p0.Executable",
	"p0.Executable",
	"p0.Executable",
	"p1",
	"p1",
	"p1",
	"¬((*synchronization/core.Entry).EnsureValid(next(range(p0.Contents))#2, p1) == nil)",
	"¬((*synchronization/core.Entry).EnsureValid(next(range(p0.Contents))#2, p1) == nil)",
	"¬(p0.Contents == nil)",
	"¬(p0.Contents == nil)",
	"¬(p0.Contents == nil)",
	"¬(p0.Contents == nil)",
	"¬(p0.Digest == nil)",
	"¬(p0.Digest == nil)",
	"¬(p0.Digest == nil)",
	"¬(p0.Digest == nil)",
	"¬(p0.Digest == nil)",
	"¬(p0.Kind == 102:EntryKind)",
	"¬(p0.Problem == \"\")",
	"¬(p0.Problem == \"\")",
	"¬(p0.Problem == \"\")",
	"¬(p0.Problem == \"\")",
	"¬(p0.Problem == \"\")",
	"¬(p0.Target == \"\")",
	"¬(p0.Target == \"\")",
	"¬(p0.Target == \"\")",
	"¬(p0.Target == \"\")",
	"¬(p0.Target == \"\")",
	"¬(strings.IndexByte(next(range(p0.Contents))#1, 47) == -1)",
	"¬(strings.IndexByte(next(range(p0.Contents))#1, 47) == -1)",
}
var c05ArchiveReasons = []string{
	"(p0 == nil)",
	"¬((*synchronization/core.Entry).EnsureValid(p0.Content, p1) == nil)",
}

func p0IsPhiOf(v, want ssa.Value) bool {
	if rs := eng.ReachingStore(v); rs != nil && eng.Unwrap(rs) == want {
		return true
	}
	v = eng.Deref(v)
	if v == want {
		return true
	}
	if phi, ok := v.(*ssa.Phi); ok {
		for _, e := range phi.Edges {
			if eng.Deref(e) == want {
				return true
			}
		}
	}
	return false
}

func c05Apply(c *eng.Ctx, rule string) {
	fn := c.MustFunc(rule, corePkg, "Apply")
	if fn == nil {
		return
	}
	// paramSources: the parameters of callee f from which v derives through
	// loads of fields, map lookups, φs and slices only (a helper that walks
	// down a tree it was given returns a pointer into that tree).
	var paramSources func(v ssa.Value, seen map[ssa.Value]bool, out map[int]bool) bool
	paramSources = func(v ssa.Value, seen map[ssa.Value]bool, out map[int]bool) bool {
		v = eng.Unwrap(v)
		if seen[v] {
			return true
		}
		seen[v] = true
		switch x := v.(type) {
		case *ssa.Parameter:
			for i, p := range x.Parent().Params {
				if p == x {
					out[i] = true
				}
			}
			return true
		case *ssa.Phi:
			for _, e := range x.Edges {
				if !paramSources(e, seen, out) {
					return false
				}
			}
			return true
		case *ssa.UnOp:
			if x.Op == token.MUL {
				if fa, ok := x.X.(*ssa.FieldAddr); ok {
					return paramSources(fa.X, seen, out)
				}
			}
		case *ssa.Extract:
			return paramSources(x.Tuple, seen, out)
		case *ssa.Lookup:
			return paramSources(x.X, seen, out)
		case *ssa.Const:
			return true
		}
		return false
	}
	// provenance: does a value derive (through .Contents loads, lookups, φs and
	// tree-walking helpers of this package) from a Copy call only?
	var fromCopy func(v ssa.Value, idx int, seen map[ssa.Value]bool) (bool, string)
	fromCopy = func(v ssa.Value, idx int, seen map[ssa.Value]bool) (bool, string) {
		v = eng.Unwrap(v)
		if seen[v] {
			return true, ""
		}
		seen[v] = true
		switch x := v.(type) {
		case *ssa.Call:
			if eng.CalleeName(x) == "(*synchronization/core.Entry).Copy" {
				return true, ""
			}
			if callee := x.Call.StaticCallee(); callee != nil && callee.Blocks != nil && eng.FuncPkgRel(callee) == corePkg {
				srcs := map[int]bool{}
				for _, r := range eng.Returns(callee) {
					res := eng.RetResults(r)
					if idx >= len(res) {
						return false, "call " + eng.CalleeName(x)
					}
					if !paramSources(res[idx], map[ssa.Value]bool{}, srcs) {
						return false, "helper " + eng.CalleeName(x) + " returns a value that is not a walk from its parameters"
					}
				}
				for i := range srcs {
					if ok, why := fromCopy(x.Call.Args[i], 0, seen); !ok {
						return false, why
					}
				}
				return true, ""
			}
			return false, "call " + eng.CalleeName(x)
		case *ssa.Phi:
			for _, e := range x.Edges {
				if ok, why := fromCopy(e, idx, seen); !ok {
					return false, why
				}
			}
			return true, ""
		case *ssa.UnOp:
			if x.Op == token.MUL {
				if fa, ok := x.X.(*ssa.FieldAddr); ok {
					return fromCopy(fa.X, 0, seen)
				}
			}
		case *ssa.Extract:
			return fromCopy(x.Tuple, x.Index, seen)
		case *ssa.Lookup:
			return fromCopy(x.X, 0, seen)
		case *ssa.Parameter:
			return false, "parameter " + x.Name() + " (caller-owned tree)"
		case *ssa.Const:
			return true, ""
		case *ssa.MakeMap:
			return true, ""
		}
		return false, "unrecognised source " + eng.Render(v)
	}
	n := 0
	eng.EachInstr(fn, func(i ssa.Instruction) {
		switch x := i.(type) {
		case *ssa.MapUpdate:
			n++
			ok, why := fromCopy(x.Map, 0, map[ssa.Value]bool{})
			c.Check(rule, "mutates-own-copy:update", x.Pos(), ok, "Apply inserts only into its own copy of the tree", why)
			vr := eng.Render(x.Value)
			c.Check(rule, "inserts-copy", x.Pos(), strings.HasPrefix(vr, "(*synchronization/core.Entry).Copy(") && strings.Contains(vr, ".New,"), "the inserted subtree is a copy of change.New", vr)
			c.Check(rule, "insert-only-non-nil", x.Pos(), newNilGuard(eng.Guards(x), false), "insertion happens only for change.New != nil", eng.AtomsText(eng.Guards(x)))
		case *ssa.Call:
			if eng.CalleeName(x) == "builtin:delete" {
				n++
				ok, why := fromCopy(x.Call.Args[0], 0, map[ssa.Value]bool{})
				c.Check(rule, "mutates-own-copy:delete", x.Pos(), ok, "Apply deletes only from its own copy of the tree", why)
				c.Check(rule, "delete-only-nil", x.Pos(), newNilGuard(eng.Guards(x), true), "deletion happens only for change.New == nil", eng.AtomsText(eng.Guards(x)))
			}
		case *ssa.Store:
			if fa, ok := x.Addr.(*ssa.FieldAddr); ok && eng.FieldOf(fa).Name() == "Contents" {
				n++
				ok, why := fromCopy(fa.X, 0, map[ssa.Value]bool{})
				c.Check(rule, "mutates-own-copy:contents", x.Pos(), ok, "a content map is installed only in Apply's own copy", why)
				c.Check(rule, "allocate-only-on-insert", x.Pos(), newNilGuard(eng.Guards(x), false), "a content map is allocated only when inserting (never while deleting)", eng.AtomsText(eng.Guards(x)))
			}
		}
	})
	if n < 3 {
		c.Problem(rule, "expected ≥3 mutations in Apply, found %d", n)
	}
	// Missing parent → error (in Apply itself or in a tree-walking helper whose
	// error Apply returns).
	nMissing := 0
	missing := func(f *ssa.Function, viaHelper *ssa.Call) {
		for _, r := range eng.Returns(f) {
			res := eng.RetResults(r)
			for _, a := range eng.Guards(r) {
				if strings.HasPrefix(a.Expr, "lookupok(") && strings.HasSuffix(a.Expr, "#1") && !a.Pos {
					ok := !eng.IsNilConst(res[len(res)-1])
					if viaHelper == nil {
						ok = ok && eng.IsNilConst(res[0])
					} else {
						// Apply fails when the helper failed
						prop := false
						for _, ar := range eng.Returns(fn) {
							ares := eng.RetResults(ar)
							for _, g := range eng.Guards(ar) {
								if b, isB := g.V.(*ssa.BinOp); isB && !g.Pos && eng.IsNilConst(b.Y) {
									if ex, isEx := b.X.(*ssa.Extract); isEx && ex.Tuple == ssa.Value(viaHelper) && !eng.IsNilConst(ares[1]) && eng.IsNilConst(ares[0]) {
										prop = true
									}
								}
							}
						}
						ok = ok && prop
					}
					nMissing++
					c.Check(rule, "missing-parent-is-error", r.Pos(), ok, "an unresolvable parent path fails the whole Apply")
				}
			}
		}
	}
	missing(fn, nil)
	for _, ci := range eng.Calls(fn) {
		if cl, ok := ci.(*ssa.Call); ok {
			if callee := cl.Call.StaticCallee(); callee != nil && callee.Blocks != nil && eng.FuncPkgRel(callee) == corePkg && callee.Signature.Recv() == nil {
				missing(callee, cl)
			}
		}
	}
	if nMissing == 0 {
		c.Check(rule, "missing-parent-is-error", fn.Pos(), false, "an unresolvable parent path fails the whole Apply")
	}

	// Every change of the list is applied: each way through one iteration of
	// the change loop replaces the root, deletes a name or inserts a copy —
	// there is no path that skips a change.
	var hdr *ssa.BasicBlock
	for _, b := range fn.Blocks {
		if b.Comment == "rangeindex.loop" {
			if iff, ok := b.Instrs[len(b.Instrs)-1].(*ssa.If); ok && strings.HasSuffix(eng.Render(iff.Cond), "< len(p1))") {
				hdr = b
			}
		}
	}
	if hdr == nil {
		c.Problem(rule, "change loop of Apply not found")
		return
	}
	var treePhi *ssa.Phi
	var others []*ssa.Phi
	for _, in := range hdr.Instrs {
		phi, ok := in.(*ssa.Phi)
		if !ok {
			continue
		}
		if phi.Comment == "rangeindex" {
			continue
		}
		if eng.TypeShort(phi.Type()) == "*synchronization/core.Entry" && treePhi == nil {
			isTree := false
			for _, e := range phi.Edges {
				if cl, ok := eng.Unwrap(e).(*ssa.Call); ok && eng.CalleeName(cl) == "(*synchronization/core.Entry).Copy" && eng.Render(cl.Call.Args[0]) == "p0" {
					isTree = true
				}
			}
			if isTree {
				treePhi = phi
				continue
			}
		}
		others = append(others, phi)
	}
	body := hdr.Succs[0]
	paths, complete := eng.EnumPaths(body, func(b *ssa.BasicBlock) bool { return b == hdr || len(b.Succs) == 0 }, 5000)
	if !complete {
		c.Problem(rule, "too many paths through the change loop of Apply")
	}
	nIter, skipped, stale := 0, 0, ""
	for _, p := range paths {
		if p.Last() != hdr {
			continue // error exits
		}
		nIter++
		effects := 0
		pred := p.Blocks[len(p.Blocks)-2]
		var predIdx int
		for j, q := range hdr.Preds {
			if q == pred {
				predIdx = j
			}
		}
		rootReplaced := treePhi != nil && treePhi.Edges[predIdx] != ssa.Value(treePhi)
		if rootReplaced {
			effects++
		}
		for _, b := range p.Blocks {
			for _, in := range b.Instrs {
				switch x := in.(type) {
				case *ssa.MapUpdate:
					effects++
				case *ssa.Call:
					if eng.CalleeName(x) == "builtin:delete" {
						effects++
					}
				}
			}
		}
		if effects == 0 {
			skipped++
		}
		// a pointer into the tree that survives an iteration must be re-derived when the root is replaced
		if rootReplaced {
			for _, o := range others {
				if _, isPtr := o.Type().Underlying().(*types.Pointer); isPtr && o.Edges[predIdx] == ssa.Value(o) {
					stale = o.Comment
				}
			}
		}
	}
	c.Check(rule, "every-change-applied", hdr.Instrs[0].Pos(), nIter > 0 && skipped == 0, "every change of the list is applied: no way through an iteration skips the change (no 'already up to date' shortcut)", fmt.Sprintf("%d of %d ways through an iteration have no effect", skipped, nIter))
	c.Check(rule, "no-stale-tree-pointer-across-root-replacement", hdr.Instrs[0].Pos(), stale == "", "a pointer into the tree that is carried from one change to the next is re-derived when a change replaces the root", stale)
	// Each change's parent is resolved from the root of the working copy. A
	// directory remembered from the previous change could only be reused if the
	// next path lies under it component-wise ('lib' is not a parent of 'lib64/a');
	// that is a fact about string values this analysis cannot establish, so a
	// carried directory pointer is reported as undecided rather than accepted.
	for _, o := range others {
		if eng.TypeShort(o.Type()) == "*synchronization/core.Entry" {
			c.Problem(rule, "Apply carries a directory of the tree (%s) from one change to the next; whether the next change's path lies under it is not decidable from the code's shape", o.Comment)
		}
	}
	c.Floor(rule, 10)
}

// newNilGuard reports whether guards contain (X.New == nil) with polarity pol.
func newNilGuard(g []eng.Atom, pol bool) bool {
	for _, a := range g {
		if strings.HasSuffix(a.Expr, ".New == nil)") && a.Pos == pol {
			return true
		}
	}
	return false
}

var _ = fmt.Sprintf

// c05ApplyList decides what Apply is given and when (shared with C04).
func c05ApplyList(c *eng.Ctx, rule string, syn *ssa.Function, apply, rec *ssa.Call) {
	lst := eng.Deref(apply.Call.Args[1])
	okOrder := false
	var detail string
	if outer, ok := lst.(*ssa.Call); ok && eng.CalleeName(outer) == "builtin:append" {
		if inner, ok := eng.Deref(outer.Call.Args[0]).(*ssa.Call); ok && eng.CalleeName(inner) == "builtin:append" {
			base := eng.Deref(inner.Call.Args[0])
			if ex, ok := base.(*ssa.Extract); ok && ex.Tuple == ssa.Value(rec) && ex.Index == 0 {
				a, b := eng.Render(inner.Call.Args[1]), eng.Render(outer.Call.Args[1])
				detail = a + " then " + b
				okOrder = a != b
			}
		}
	}
	c.Check(rule, "apply-list", apply.Pos(), okOrder, "Apply receives Reconcile's ancestor changes followed by the two result-change lists", detail)
	c.Check(rule, "apply-base", apply.Pos(), eng.Deref(apply.Call.Args[0]) == eng.Deref(rec.Call.Args[0]) || eng.Render(apply.Call.Args[0]) == eng.Render(rec.Call.Args[0]), "Apply starts from the ancestor that was reconciled")
	ag := eng.Guards(apply)
	lenOK := false
	for _, a := range ag {
		if b, ok := a.V.(*ssa.BinOp); ok && b.Op == token.GTR && a.Pos {
			if cl, ok := b.X.(*ssa.Call); ok && eng.CalleeName(cl) == "builtin:len" && eng.Deref(cl.Call.Args[0]) == lst {
				lenOK = true
			}
		}
	}
	c.Check(rule, "apply-when-any-change", apply.Pos(), lenOK, "the apply-and-save block runs whenever the combined change list is non-empty (ancestor-only plans included)")
	c01FoldResults(c, rule, syn)
}
