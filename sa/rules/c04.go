package rules

import (
	"strings"

	"golang.org/x/tools/go/ssa"

	"verif/sa/eng"
)

func init() {
	eng.Register(&eng.Property{
		ID:       "C04",
		Title:    "A fully applied cycle is a fixpoint and two-way endpoints converge",
		Packages: []string{corePkg, syncPkg},
		Explanation: "Only the mechanisms that make the recorded ancestor catch up are decided (structural necessary conditions; the fixpoint/convergence theorem itself is an algebraic fact about Reconcile∘Apply and is NOT decided): " +
			"(F1) every transition result is folded into the ancestor: Change{Path: transitions[i].Path, New: results[i]} appended unconditionally for both sides, and Apply runs (and the archive is saved) whenever the combined list — ancestor-only plans included — is non-empty; " +
			"(F2) both-modified-same: where alpha and beta agree and the ancestor differs, reconcile records Change{Path: path, New: alpha.Copy(Slim)} and then treats the ancestor's children as absent (so stale children are re-recorded rather than diffed against); " +
			"(F3) where both sides are nil/untracked, and where one-way-safe untracks beta-only content, a nil-New ancestor change at `path` is recorded exactly when the ancestor is non-nil; " +
			"(F4) child paths are formed with Joinable(path) whenever the ancestor, alpha or beta has contents, so ancestor changes for nested paths land at the nested path; " +
			"(F6–F8, shared with C01.R1/R2/R6) every change the bidirectional handler plans for a side installs the OTHER side's synchronizable() content (never the unfiltered subtree) at `path`, under the overwrite guard; " +
			"(F9, shared with C03.R5) Entry.synchronizable keeps, for each child, the child's own synchronizable() image (not the child itself), so no unsynchronizable content at any depth is planned and then found again by the next cycle; " +
			"(F5) core.Apply applies every change of the list it is given — no way through an iteration of its loop is without effect (no «already equal» shortcut), insertions are copies of change.New into Apply's own copy of the tree, and a tree pointer carried across iterations is re-derived when the root is replaced. " +
			"Not decided: Reconcile(Apply(plan)) plans nothing; convergence of endpoints; anything about real sessions.",
		Assumptions: []string{"see C01/C05/C06 for the shared rules"},
		Run:         runC04,
	})
}

func runC04(c *eng.Ctx) {
	syn := c.MustFunc("F1", syncPkg, "controller.synchronize")
	rec := c.MustFunc("F2", corePkg, "reconciler.reconcile")
	if syn == nil || rec == nil {
		return
	}
	var apply, recCall *ssa.Call
	for _, call := range eng.Calls(syn) {
		switch eng.CalleeName(call) {
		case "synchronization/core.Apply":
			apply, _ = call.(*ssa.Call)
		case "synchronization/core.Reconcile":
			recCall, _ = call.(*ssa.Call)
		}
	}
	if apply == nil || recCall == nil {
		c.Problem("F1", "Apply/Reconcile not found in synchronize")
	} else {
		c05ApplyList(c, "F1", syn, apply, recCall)
	}
	c.Floor("F1", 7)

	// F5: Apply itself records every change it is given (shared with C05.R6 and
	// C07.R2): a change skipped or written into a stale subtree leaves the
	// ancestor behind the endpoints, and the next cycle is not a fixpoint.
	c05Apply(c, "F5")

	// F6/F7: what is planned for a side is the other side's synchronizable
	// content, and only where that side may be overwritten (shared with C01).
	c01Planner(c, "F6", "F7", "F8")

	// F9 (shared with C03.R5/C05.R7): synchronizable() — the New value of every
	// planned change — filters at every depth. An unfiltered grandchild that is
	// applied exactly makes the next Reconcile plan its removal from the
	// ancestor: not a fixpoint.
	kinds, _ := c.P.ConstsOfType(corePkg, "EntryKind")
	c03Synchronizable(c, "F9", kinds)

	// F2/F3: ancestor emissions in reconcile.
	nBoth, nNil := 0, 0
	for _, b := range rec.Blocks {
		for _, e := range emissionsIn(b) {
			if e.list != "ancestorChanges" || e.fields == nil {
				continue
			}
			g := eng.Guards(e.store)
			pathOK := e.fields["Path"] != nil && eng.Render(e.fields["Path"]) == "p1"
			if nv := e.fields["New"]; nv != nil {
				nBoth++
				r := eng.Render(nv)
				agree := eng.HasAtom(g, `^\(\*synchronization/core\.Entry\)\.Equal\(p3, p4, false\)$`, true)
				differs := eng.HasAtom(g, `^\(\*synchronization/core\.Entry\)\.Equal\(p2, p3, false\)$`, false)
				c.Check("F2", "both-modified-same/guard", e.store.Pos(), agree && differs, "recorded where alpha and beta agree and the ancestor differs", eng.AtomsText(g)[:min(240, len(eng.AtomsText(g)))])
				c.Check("F2", "both-modified-same/value", e.store.Pos(), pathOK && strings.HasPrefix(r, "(*synchronization/core.Entry).Copy(p3, ") || strings.HasPrefix(r, "(*synchronization/core.Entry).Copy(p4, "), "the ancestor receives a (slim) copy of the agreed entry at `path`", r)
				// After recording, ancestor children are treated as absent: the
				// recursive call's ancestor argument is indexed from a phi with a nil edge
				// coming from this block.
				okNil := false
				for _, call := range eng.CallsTo(rec, rec) {
					a := call.Common().Args[2] // ancestor child
					if lk, ok := eng.Unwrap(a).(*ssa.Lookup); ok {
						if phi, ok := lk.X.(*ssa.Phi); ok {
							for i, ed := range phi.Edges {
								if eng.IsNilConst(ed) && e.store.Block().Dominates(phi.Block().Preds[i]) {
									okNil = true
								}
							}
						}
					}
				}
				c.Check("F2", "both-modified-same/ancestor-children-dropped", e.store.Pos(), okNil, "after replacing the ancestor entry its old children are not reconciled against (they no longer exist in the new ancestor)")
			} else {
				nNil++
				nonNil := eng.HasAtom(g, `^\(p2 == nil\)$`, false)
				c.Check("F3", "clear-ancestor@reconcile", e.store.Pos(), pathOK && nonNil, "the ancestor entry is cleared (nil New at `path`) only when there is one", eng.AtomsText(g)[:min(240, len(eng.AtomsText(g)))])
			}
		}
	}
	if nBoth != 1 || nNil != 1 {
		c.Problem("F2", "expected one both-modified-same and one clear-ancestor emission in reconcile, found %d/%d", nBoth, nNil)
	}
	if ows := c.MustFunc("F3", corePkg, "reconciler.handleDisagreementOneWaySafe"); ows != nil {
		n := 0
		for _, hp := range handlerPaths(c, "F3", ows) {
			for _, e := range hp.emits {
				if e.list != "ancestorChanges" {
					continue
				}
				n++
				ok := e.fields != nil && e.fields["New"] == nil && e.fields["Path"] != nil && eng.Render(e.fields["Path"]) == "p1" && pathAtomEq(hp.path, "(p2 == nil)", false)
				c.Check("F3", "untrack-beta@one-way-safe", e.store.Pos(), ok, "one-way-safe untracking clears the ancestor at `path` when it is non-nil", atomsOf(hp.path)[:min(240, len(atomsOf(hp.path)))])
			}
		}
		if n == 0 {
			c.Problem("F3", "one-way-safe handler records no ancestor change")
		}
	}

	c06PrefixRule(c, "F4", rec)
	c.Floor("F4", 1)
}
