package rules

import (
	"fmt"
	"go/token"
	"strings"

	"golang.org/x/tools/go/ssa"

	"verif/sa/eng"
)

func init() {
	eng.Register(&eng.Property{
		ID:       "C41",
		Title:    "Staging requests only what is missing and enforces limits",
		Packages: []string{localEPPkg, storePkg},
		Explanation: "(R1, filter) in endpoint.Stage the single append to the filtered list adds paths[i] and lies under: stager.Contains(paths[i], digests[i]) succeeded and said no, and stageFromRoot(paths[i], digests[i], …) said no — same index for path and digest; the loop skips a path only on the two «available» edges; a Contains error is returned; the filtered list starts empty and is what is returned (so the result is an in-order subset); " +
			"(R2, local sourcing is verified) stageFromRoot looks up the requested digest, writes to the sink of the requested path, and the only non-false value it returns is the stager's own Contains(path, digest) answer obtained after the copy — a copy whose content no longer has the digest is not reported as available; every failure returns false; " +
			"(R3, scan-before-stage/transition) Stage and Transition return an error when their scanned-since flag is false, clear the flag before doing anything else, and the flag is set only by Scan; " +
			"(R4, limits) Scan sets the two flags only after its entry-count test passed (so lastScanEntryCount ≤ maximumEntryCount whenever a flag is set and the unsigned subtraction in Stage cannot wrap); Stage refuses when maximum−lastScan < len(paths) (for a non-zero maximum) before it generates the lookup map or touches the stager; Transition's running count starts at lastScanEntryCount, refuses removals larger than the count, adds New.Count(), and core.Transition is reached only on the edges «maximum == 0» or «¬(maximum < resulting count)»; the over-limit exit returns the old entries, a problem and no error; " +
			"(R5) the flag and count fields are read and written in Stage/Transition only while the scan lock is held (lockScanLock … unlockScanLock). " +
			"(R6) the store's Contains may answer «not staged» from its in-memory prefix index only because Initialize rebuilds that index by listing the existing staging root — content staged before an interruption is found again and not requested twice; " +
			"(R8) Store.Contains reports true only on a way on which os.Lstat of the content's target path has just succeeded — the directory's verdict now, not a record of earlier commits (which would outlive Finalize); " +
			"Not decided: what Sink does; Entry.Count arithmetic.",
		Assumptions: []string{"stager.Contains reports whether content with that digest is staged for that path"},
		Run:         runC41,
	})
}

// edgeGuards returns the must-guards of block p plus the condition of the edge p→s.
func edgeGuards(p, s *ssa.BasicBlock) []eng.Atom {
	ga := append([]eng.Atom(nil), eng.GuardsOfBlock(p)...)
	if iff, ok := p.Instrs[len(p.Instrs)-1].(*ssa.If); ok && len(p.Succs) == 2 && p.Succs[0] != p.Succs[1] {
		ga = append(ga, eng.MkAtom(iff.Cond, p.Succs[0] == s))
	}
	return ga
}

func runC41(c *eng.Ctx) {
	c41PrefixIndexComplete(c)
	c41ContainsAsksTheDisk(c)
	st := c.MustFunc("R1", localEPPkg, "endpoint.Stage")
	sfr := c.MustFunc("R2", localEPPkg, "endpoint.stageFromRoot")
	tr := c.MustFunc("R3", localEPPkg, "endpoint.Transition")
	sc := c.MustFunc("R4", localEPPkg, "endpoint.Scan")
	if st == nil || sfr == nil || tr == nil || sc == nil {
		return
	}

	// ---- R1 ----
	var app *ssa.Call
	nApp := 0
	for _, call := range eng.Calls(st) {
		if eng.CalleeName(call) == "builtin:append" {
			if cl, ok := call.(*ssa.Call); ok && eng.TypeShort(cl.Type()) == "[]string" {
				app = cl
				nApp++
			}
		}
	}
	if app == nil || nApp != 1 {
		c.Problem("R1", "expected one append of a path in Stage, found %d", nApp)
		return
	}
	el := eng.AppendElems(app)
	idxOf := func(v ssa.Value, base string) (string, bool) { // v == base[idx]
		u, ok := eng.Unwrap(v).(*ssa.UnOp)
		if !ok || u.Op != token.MUL {
			return "", false
		}
		ia, ok := u.X.(*ssa.IndexAddr)
		if !ok || eng.Render(ia.X) != base {
			return "", false
		}
		return eng.Render(ia.Index), true
	}
	idx, okEl := "", false
	if len(el) == 1 {
		idx, okEl = idxOf(el[0], "p1")
	}
	c.Check("R1", "appends-requested-path", app.Pos(), okEl && strings.Contains(idx, "rangeindex"), "what is appended is the requested path of the current iteration", idx)
	g := eng.Guards(app)
	var contains, fromRoot *ssa.Call
	okContains, okRoot := false, false
	for _, a := range g {
		switch v := a.V.(type) {
		case *ssa.Extract:
			if call, ok := v.Tuple.(*ssa.Call); ok && v.Index == 0 && !a.Pos && call.Call.IsInvoke() && call.Call.Method.Name() == "Contains" && eng.Render(call.Call.Value) == "p0.stager" {
				pi, ok1 := idxOf(call.Call.Args[0], "p1")
				di, ok2 := idxOf(call.Call.Args[1], "p2")
				if ok1 && ok2 && pi == idx && di == idx {
					contains, okContains = call, true
				}
			}
		case *ssa.Call:
			if eng.CalleeName(v) == "(*synchronization/endpoint/local.endpoint).stageFromRoot" && !a.Pos {
				pi, ok1 := idxOf(v.Call.Args[1], "p1")
				di, ok2 := idxOf(v.Call.Args[2], "p2")
				if ok1 && ok2 && pi == idx && di == idx {
					fromRoot, okRoot = v, true
				}
			}
		}
	}
	c.Check("R1", "only-when-not-already-staged", app.Pos(), okContains, "a path is requested only if the stager does not already hold content with its digest (path and digest taken at the same index)", atomsShort(g))
	c.Check("R1", "only-when-not-sourced-from-root", app.Pos(), okRoot, "a path is requested only if it could not be staged from a file in the root with its digest (same index)", atomsShort(g))
	if contains != nil {
		errChecked := false
		for _, a := range g {
			if b, ok := a.V.(*ssa.BinOp); ok {
				if ex, ok := b.X.(*ssa.Extract); ok && ex.Tuple == ssa.Value(contains) && ex.Index == 1 && eng.IsNilConst(b.Y) && a.Pos {
					errChecked = true
				}
			}
		}
		c.Check("R1", "contains-error-not-ignored", contains.Pos(), errChecked, "a failed staging-status query does not fall through to a decision")
	}
	// skip edges: back edges of the loop other than the append block
	var hdr *ssa.BasicBlock
	for b := app.Block(); b != nil; b = b.Idom() {
		if b.Comment == "rangeindex.loop" {
			hdr = b
			break
		}
	}
	if hdr == nil {
		c.Problem("R1", "request loop not found")
		return
	}
	var listPhi *ssa.Phi
	for _, in := range hdr.Instrs {
		if phi, ok := in.(*ssa.Phi); ok && eng.TypeShort(phi.Type()) == "[]string" {
			listPhi = phi
		}
	}
	nSkip := 0
	for j, p := range hdr.Preds {
		if !hdr.Dominates(p) {
			if listPhi != nil {
				e := listPhi.Edges[j]
				okInit := false
				if sl, ok := e.(*ssa.Slice); ok && sl.High != nil && constIs(sl.High, 0) && sl.Low == nil {
					okInit = true
				}
				if ms, ok := e.(*ssa.MakeSlice); ok && constIs(ms.Len, 0) {
					okInit = true
				}
				if eng.IsNilConst(e) {
					okInit = true
				}
				c.Check("R1", "filtered-list-starts-empty", listPhi.Pos(), okInit, "the filtered list starts empty", eng.Render(e))
			}
			continue
		}
		if p == app.Block() {
			if listPhi != nil {
				c.Check("R1", "append-extends-filtered-list", app.Pos(), listPhi.Edges[j] == ssa.Value(app) && eng.Unwrap(app.Call.Args[0]) == ssa.Value(listPhi), "the append extends the filtered list")
			}
			continue
		}
		nSkip++
		ga := edgeGuards(p, hdr)
		why := ""
		for _, a := range ga {
			if !a.Pos {
				continue
			}
			if ex, ok := a.V.(*ssa.Extract); ok && ex.Tuple == ssa.Value(contains) && ex.Index == 0 {
				why = "already staged"
			}
			if a.V == ssa.Value(fromRoot) && fromRoot != nil {
				why = "staged from root"
			}
		}
		c.Check("R1", fmt.Sprintf("skip#%d-only-when-available", nSkip), eng.InstrPos(p.Instrs[len(p.Instrs)-1]), why != "" && (listPhi == nil || listPhi.Edges[j] == ssa.Value(listPhi)), "a requested path is left out only when its content is already staged or was staged from the root", atomsShort(ga))
	}
	if nSkip != 2 {
		c.Problem("R1", "expected two skip edges in the request loop, found %d", nSkip)
	}
	// returned list
	for _, r := range eng.Returns(st) {
		res := eng.RetResults(r)
		if eng.IsNilConst(res[0]) {
			continue
		}
		c.Check("R1", "returns-filtered-list", r.Pos(), eng.Unwrap(res[0]) == ssa.Value(listPhi) && eng.IsNilConst(res[3]), "the list returned is the filtered list", eng.Render(res[0]))
	}

	// ---- R2 ----
	var lookup, sink, verify *ssa.Call
	for _, ci := range eng.Calls(sfr) {
		call, ok := ci.(*ssa.Call)
		if !ok {
			continue
		}
		switch {
		case eng.CalleeName(call) == "(*synchronization/core.ReverseLookupMap).Lookup":
			lookup = call
		case call.Call.IsInvoke() && call.Call.Method.Name() == "Sink":
			sink = call
		case call.Call.IsInvoke() && call.Call.Method.Name() == "Contains":
			verify = call
		}
	}
	c.Check("R2", "looks-up-requested-digest", sfr.Pos(), lookup != nil && eng.Render(lookup.Call.Args[1]) == "p2", "the root is searched for the requested digest")
	c.Check("R2", "sinks-to-requested-path", sfr.Pos(), sink != nil && eng.Render(sink.Call.Value) == "p0.stager" && eng.Render(sink.Call.Args[0]) == "p1", "the copy is staged under the requested path")
	nTrue := 0
	for _, r := range eng.Returns(sfr) {
		res := eng.RetResults(r)
		if b, isB := eng.ConstBool(res[0]); isB {
			c.Check("R2", "constant-results-are-false", r.Pos(), !b, "stageFromRoot never claims success unconditionally")
			continue
		}
		nTrue++
		ex, ok := eng.Unwrap(res[0]).(*ssa.Extract)
		okV := ok && verify != nil && ex.Tuple == ssa.Value(verify) && ex.Index == 0 &&
			eng.Render(verify.Call.Value) == "p0.stager" && eng.Render(verify.Call.Args[0]) == "p1" && eng.Render(verify.Call.Args[1]) == "p2"
		c.Check("R2", "success-is-the-stagers-verdict", r.Pos(), okV, "success is reported only as the stager's Contains(path, digest) answer (the staged copy is verified against the digest)", eng.Render(res[0]))
		if okV {
			// the verification follows the copy and the sink's closing
			var cp, cl ssa.Instruction
			for _, ci := range eng.Calls(sfr) {
				if eng.CalleeName(ci) == "io.Copy" {
					cp = ci
				}
				if cc := ci.Common(); cc.IsInvoke() && cc.Method.Name() == "Close" {
					if ex, ok := eng.Unwrap(cc.Value).(*ssa.Extract); ok && ex.Tuple == ssa.Value(sink) {
						if _, isDefer := ci.(*ssa.Defer); !isDefer {
							cl = ci
						}
					}
				}
			}
			dom := func(a, b ssa.Instruction) bool {
				return a != nil && b != nil && a.Block().Dominates(b.Block()) && (a.Block() != b.Block() || eng.InstrIndex(a) < eng.InstrIndex(b))
			}
			c.Check("R2", "verified-after-copy-and-close", verify.Pos(), dom(cp, cl) && dom(cl, verify), "the verification happens after the copy finished and the sink was closed")
			gv := eng.Guards(verify)
			c.Check("R2", "copy-error-is-failure", verify.Pos(), eng.HasAtom(gv, `^\(io\.Copy\(.*\)#1 == nil\)$`, true), "a failed copy is reported as failure", atomsShort(gv))
		}
	}
	if nTrue != 1 {
		c.Problem("R2", "expected one non-constant return in stageFromRoot, found %d", nTrue)
	}

	// ---- R3 ----
	c41Flag(c, st, "Stage", "scannedSinceLastStageCall", 3)
	c41Flag(c, tr, "Transition", "scannedSinceLastTransitionCall", 3)
	// only Scan sets the flags
	for _, f := range []string{"scannedSinceLastStageCall", "scannedSinceLastTransitionCall"} {
		fld, err := c.P.Field(localEPPkg, "endpoint", f)
		if err != nil {
			c.Problem("R3", "%v", err)
			continue
		}
		setters := map[string]bool{}
		for _, s := range eng.StoresToField(c.P.ModuleFuncs(localEPPkg), fld) {
			if constBoolIs(s.Store.Val, true) {
				setters[eng.FuncName(s.Fn)] = true
			} else if !constBoolIs(s.Store.Val, false) {
				setters[eng.FuncName(s.Fn)+"(non-constant)"] = true
			}
		}
		c.Check("R3", f+"/set-only-by-scan", sc.Pos(), len(setters) == 1 && setters["(*synchronization/endpoint/local.endpoint).Scan"], "only Scan marks a scan as performed", fmt.Sprint(keys(setters)))
	}

	// ---- R4 ----
	nSet := 0
	eng.EachInstr(sc, func(i ssa.Instruction) {
		s, ok := i.(*ssa.Store)
		if !ok {
			return
		}
		fa, ok := s.Addr.(*ssa.FieldAddr)
		if !ok || !strings.HasPrefix(eng.FieldOf(fa).Name(), "scannedSinceLast") {
			return
		}
		nSet++
		gs := eng.Guards(s)
		ok1 := eng.HasAtom(gs, `^\(p0\.lastScanEntryCount > p0\.maximumEntryCount\)$`, false) || eng.HasAtom(gs, `^\(p0\.maximumEntryCount < p0\.lastScanEntryCount\)$`, false) ||
			eng.HasAtom(gs, `^\(p0\.lastScanEntryCount <= p0\.maximumEntryCount\)$`, true)
		c.Check("R4", "scan-flag-set-after-count-check:"+eng.FieldOf(fa).Name(), s.Pos(), ok1, "Scan marks itself as performed only after the entry count passed the limit (a failed scan does not license staging/transition, and maximum−count cannot wrap)", atomsShort(gs))
	})
	if nSet != 2 {
		c.Problem("R4", "expected two flag stores in Scan, found %d", nSet)
	}
	// no store to lastScanEntryCount between the check and the flags: the count is written only by scan(), called before the check
	for _, r := range eng.Returns(sc) {
		res := eng.RetResults(r)
		if eng.IsNilConst(res[1]) {
			gs := eng.Guards(r)
			c.Check("R4", "scan-success-within-limit", r.Pos(), eng.HasAtom(gs, `^\(p0\.lastScanEntryCount > p0\.maximumEntryCount\)$`, false), "Scan succeeds only within the limit", atomsShort(gs))
		}
	}
	// Stage's limit
	var limErr *ssa.Return
	for _, r := range eng.Returns(st) {
		gs := eng.Guards(r)
		for _, a := range gs {
			if b, ok := a.V.(*ssa.BinOp); ok && b.Op == token.LSS && a.Pos {
				if sub, ok := b.X.(*ssa.BinOp); ok && sub.Op == token.SUB && eng.Render(sub.X) == "p0.maximumEntryCount" && eng.Render(sub.Y) == "p0.lastScanEntryCount" && eng.Render(b.Y) == "conv:uint64(len(p1))" {
					limErr = r
				}
			}
		}
	}
	okLim := limErr != nil && !eng.IsNilConst(eng.RetResults(limErr)[3]) && eng.IsNilConst(eng.RetResults(limErr)[0])
	c.Check("R4", "stage-refuses-over-limit", st.Pos(), okLim, "Stage returns an error when maximum − lastScanCount < number of requested paths")
	// everything that touches the stager or the lookup map is reached only through «max == 0» or «¬(max-last < n)»
	for _, ci := range eng.Calls(st) {
		cc := ci.Common()
		isWork := eng.CalleeName(ci) == "(*synchronization/core.Cache).GenerateReverseLookupMap" || (cc.IsInvoke() && eng.Render(cc.Value) == "p0.stager")
		if !isWork {
			continue
		}
		// walk up to the join block whose predecessor edges carry the limit test
		okAll := c41ReachedOnlyWithinLimit(ci.Block(), func(a eng.Atom) bool {
			if a.Expr == "(p0.maximumEntryCount == 0)" && a.Pos {
				return true
			}
			if b, ok := a.V.(*ssa.BinOp); ok && b.Op == token.LSS && !a.Pos {
				if sub, ok := b.X.(*ssa.BinOp); ok && sub.Op == token.SUB && eng.Render(sub.X) == "p0.maximumEntryCount" && eng.Render(sub.Y) == "p0.lastScanEntryCount" && eng.Render(b.Y) == "conv:uint64(len(p1))" {
					return true
				}
			}
			return false
		})
		name := eng.CalleeName(ci)
		if cc.IsInvoke() {
			name = "stager." + cc.Method.Name()
		}
		c.Check("R4", "stage-work-within-limit:"+name, ci.Pos(), okAll, "staging work is reached only when the request fits within the limit (or there is no limit)")
	}
	// Transition's limit
	c41TransitionLimit(c, tr)
	c.Floor("R4", 12)

	// ---- R5 ----
	ops := eng.LockOps{
		Acquire: func(call ssa.CallInstruction) (string, bool) {
			if eng.CalleeName(call) == "(*synchronization/endpoint/local.endpoint).lockScanLock" {
				return "scanLock", true
			}
			return "", false
		},
		Release: func(call ssa.CallInstruction) (string, bool) {
			if eng.CalleeName(call) == "(*synchronization/endpoint/local.endpoint).unlockScanLock" {
				return "scanLock", true
			}
			return "", false
		},
	}
	for _, fn := range []*ssa.Function{st, tr} {
		held := eng.HeldLocks(fn, ops, nil)
		n := 0
		eng.EachInstr(fn, func(i ssa.Instruction) {
			fa, ok := i.(*ssa.FieldAddr)
			if !ok || eng.Render(fa.X) != "p0" {
				return
			}
			name := eng.FieldOf(fa).Name()
			if name != "lastScanEntryCount" && !strings.HasPrefix(name, "scannedSinceLast") {
				return
			}
			n++
			c.Check("R5", fmt.Sprintf("%s/%s#%d-under-scan-lock", eng.FuncName(fn), name, n), fa.Pos(), held[i]["scanLock"], "the scan bookkeeping is accessed while the scan lock is held")
		})
	}
	c.Floor("R5", 6)
}

// c41ReachedOnlyWithinLimit: walking up the dominator tree from b, find the
// first block all of whose predecessor edges satisfy ok on some atom.
func c41ReachedOnlyWithinLimit(b *ssa.BasicBlock, ok func(eng.Atom) bool) bool {
	for d := b; d != nil; d = d.Idom() {
		if len(d.Preds) == 0 {
			continue
		}
		all := true
		for _, p := range d.Preds {
			if d.Dominates(p) {
				continue // back edge
			}
			found := false
			for _, a := range edgeGuards(p, d) {
				if ok(a) {
					found = true
				}
			}
			if !found {
				all = false
			}
		}
		if all {
			return true
		}
	}
	return false
}

func c41Flag(c *eng.Ctx, fn *ssa.Function, name, field string, _ int) {
	// error return when the flag is false
	found := false
	for _, r := range eng.Returns(fn) {
		res := eng.RetResults(r)
		g := eng.Guards(r)
		if eng.HasAtom(g, `^p0\.`+field+`$`, false) {
			found = true
			c.Check("R3", name+"/refused-without-scan", r.Pos(), !eng.IsNilConst(res[len(res)-1]) && eng.IsNilConst(res[0]), "without a preceding scan the operation fails and returns nothing", atomsShort(g))
		}
	}
	if !found {
		c.Check("R3", name+"/refused-without-scan", fn.Pos(), false, "without a preceding scan the operation fails and returns nothing")
	}
	// the clearing store, and everything else of substance after the test
	var clear *ssa.Store
	eng.EachInstr(fn, func(i ssa.Instruction) {
		if s, ok := i.(*ssa.Store); ok {
			if fa, ok := s.Addr.(*ssa.FieldAddr); ok && eng.FieldOf(fa).Name() == field && constBoolIs(s.Val, false) {
				clear = s
			}
		}
	})
	okClear := false
	if clear != nil {
		okClear = eng.HasAtom(eng.Guards(clear), `^p0\.`+field+`$`, true)
	}
	c.Check("R3", name+"/flag-consumed", fn.Pos(), okClear, "a successful check consumes the flag (one operation per scan)")
	// the real work is dominated by the clearing store
	for _, ci := range eng.Calls(fn) {
		n := eng.CalleeName(ci)
		cc := ci.Common()
		work := n == "synchronization/core.Transition" || n == "(*synchronization/core.Cache).GenerateReverseLookupMap" || (cc.IsInvoke() && eng.Render(cc.Value) == "p0.stager" && (cc.Method.Name() == "Initialize" || cc.Method.Name() == "Contains" || cc.Method.Name() == "Sink"))
		if !work || clear == nil {
			continue
		}
		if cc.IsInvoke() {
			n = "stager." + cc.Method.Name()
		}
		c.Check("R3", name+"/work-after-flag-check:"+n, ci.Pos(), clear.Block().Dominates(ci.Block()), "the operation's work happens only after the scan flag was checked and consumed")
	}
}

func c41TransitionLimit(c *eng.Ctx, tr *ssa.Function) {
	var ct *ssa.Call
	for _, ci := range eng.CallsNamed(tr, "synchronization/core.Transition") {
		ct, _ = ci.(*ssa.Call)
	}
	if ct == nil {
		c.Problem("R4", "core.Transition call not found")
		return
	}
	// the running count φ
	var cnt *ssa.Phi
	eng.EachInstr(tr, func(i ssa.Instruction) {
		if phi, ok := i.(*ssa.Phi); ok && eng.TypeShort(phi.Type()) == "uint64" {
			for _, e := range phi.Edges {
				if eng.Render(e) == "p0.lastScanEntryCount" {
					cnt = phi
				}
			}
		}
	})
	if cnt == nil {
		c.Check("R4", "transition-count-starts-at-last-scan", tr.Pos(), false, "the projected entry count starts from the last scan's count")
		return
	}
	c.Check("R4", "transition-count-starts-at-last-scan", cnt.Pos(), true, "the projected entry count starts from the last scan's count")
	// step: (cnt - Old.Count()) + New.Count()
	okStep := false
	var oldCount ssa.Value
	for j, e := range cnt.Edges {
		if !cnt.Block().Dominates(cnt.Block().Preds[j]) {
			continue
		}
		add, ok := e.(*ssa.BinOp)
		if !ok || add.Op != token.ADD {
			continue
		}
		sub, ok := add.X.(*ssa.BinOp)
		nw := add.Y
		if !ok {
			sub, ok = add.Y.(*ssa.BinOp)
			nw = add.X
		}
		if !ok || sub.Op != token.SUB || sub.X != ssa.Value(cnt) {
			continue
		}
		ro, rn := eng.Render(sub.Y), eng.Render(nw)
		if strings.HasPrefix(ro, "(*synchronization/core.Entry).Count(p2[") && strings.HasSuffix(ro, "].Old)") &&
			strings.HasPrefix(rn, "(*synchronization/core.Entry).Count(p2[") && strings.HasSuffix(rn, "].New)") &&
			strings.TrimSuffix(ro, ".Old)") == strings.TrimSuffix(rn, ".New)") {
			okStep = true
			oldCount = sub.Y
		}
	}
	c.Check("R4", "transition-count-step", cnt.Pos(), okStep, "each transition contributes − Old.Count() + New.Count() of the same change")
	// removal larger than the count is an error
	okNeg := false
	for _, r := range eng.Returns(tr) {
		res := eng.RetResults(r)
		if eng.IsNilConst(res[3]) {
			continue
		}
		for _, a := range eng.Guards(r) {
			if b, ok := a.V.(*ssa.BinOp); ok && a.Pos && oldCount != nil {
				if (b.Op == token.GTR && b.X == oldCount && b.Y == ssa.Value(cnt)) || (b.Op == token.LSS && b.Y == oldCount && b.X == ssa.Value(cnt)) {
					okNeg = true
				}
			}
		}
	}
	c.Check("R4", "transition-count-never-negative", tr.Pos(), okNeg, "removing more entries than exist is an error (the unsigned count cannot wrap)")
	// core.Transition reached only within limit
	okIn := c41ReachedOnlyWithinLimit(ct.Block(), func(a eng.Atom) bool {
		if a.Expr == "(p0.maximumEntryCount == 0)" && a.Pos {
			return true
		}
		if b, ok := a.V.(*ssa.BinOp); ok {
			if b.Op == token.LSS && !a.Pos && eng.Render(b.X) == "p0.maximumEntryCount" && b.Y == ssa.Value(cnt) {
				return true
			}
			if b.Op == token.GTR && !a.Pos && eng.Render(b.Y) == "p0.maximumEntryCount" && b.X == ssa.Value(cnt) {
				return true
			}
		}
		return false
	})
	c.Check("R4", "transition-applied-only-within-limit", ct.Pos(), okIn, "changes are applied only when the projected count stays within the limit (or there is no limit)")
	// over-limit exit
	okExit := false
	for _, r := range eng.Returns(tr) {
		res := eng.RetResults(r)
		over := false
		for _, a := range eng.Guards(r) {
			if b, ok := a.V.(*ssa.BinOp); ok && a.Pos && b.Op == token.LSS && eng.Render(b.X) == "p0.maximumEntryCount" && b.Y == ssa.Value(cnt) {
				over = true
			}
			// `count > maximum` is the same test
			if b, ok := a.V.(*ssa.BinOp); ok && a.Pos && b.Op == token.GTR && eng.Render(b.Y) == "p0.maximumEntryCount" && b.X == ssa.Value(cnt) {
				over = true
			}
		}
		if !over {
			continue
		}
		_, isMk := eng.Unwrap(res[0]).(*ssa.MakeSlice)
		okExit = isMk && !eng.IsNilConst(res[1]) && constBoolIs(res[2], false) && eng.IsNilConst(res[3])
	}
	c.Check("R4", "transition-over-limit-reports-problem", tr.Pos(), okExit, "an over-limit transition returns the old entries and a problem, with no error and without applying anything")
}
