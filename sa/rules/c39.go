package rules

import (
	"fmt"
	"go/constant"
	"go/token"
	"math"
	"strings"

	"golang.org/x/tools/go/ssa"

	"verif/sa/eng"
)

const (
	identPkg     = "pkg/identifier"
	selectionPkg = "pkg/selection"
	randomPkg    = "pkg/random"
)

func init() {
	eng.Register(&eng.Property{
		ID:       "C39",
		Title:    "Session identifiers are well formed and distinct",
		Packages: []string{identPkg, selectionPkg, randomPkg, encodingPkg},
		Explanation: "(R1, construction) identifier.New writes to one builder, in dominance order: the prefix (under the guard len(prefix)==requiredPrefixLength and the per-rune range test), the separator, a padding of exactly targetBase62Length−len(encoded) copies of one alphabet character (counting loop from that difference down to 0 by 1, or strings.Repeat with that count), then the encoded value; it returns the builder's string; encoded values longer than the target are cut off by a panic — so the length is always requiredPrefixLength+1+targetBase62Length; " +
			"(R2, generator ⊑ validator, decided on the constants) the validation pattern is anchored, has exactly that length, admits at the prefix positions every rune New's range test admits, the separator New writes at its position, and every character of the Base62 alphabet (62 distinct characters, pad character included) at the remaining positions; targetBase62Length ≥ ceil(8·collisionResistantLength·ln2/ln62), so the panic is unreachable; " +
			"(R3, distinctness — necessary part) the random value has collisionResistantLength (≥32) bytes, comes from crypto/rand.Read over the whole buffer with the error propagated, and is the value encoded; " +
			"(R4) Truncated returns only \"\" or a slice of its argument starting at index 0 whose constant length does not exceed the fixed length of the pattern that guards it; " +
			"(R5, names) EnsureNameValid continues scanning only after a letter, a (non-leading) number or '-' (so '_' — hence every new-style identifier — is rejected), every '-' sets the dash flag, a flagged name is rejected when uuid.Parse accepts it (or when it matches a fixed-length pattern that covers the legacy identifier pattern position by position), and \"defaults\" is rejected. " +
			"Not decided: actual distinctness of random draws (probabilistic); injectivity of the third-party base-x encoder.",
		Assumptions: []string{"crypto/rand yields independent uniform bytes", "basex.Encode is injective on equal-length inputs and emits only alphabet characters"},
		Run:         runC39,
	})
}

func runC39(c *eng.Ctx) {
	fn := c.MustFunc("R1", identPkg, "New")
	if fn == nil {
		return
	}
	prefLen, e1 := c.P.ConstInt(identPkg, "requiredPrefixLength")
	target, e2 := c.P.ConstInt(identPkg, "targetBase62Length")
	crl, e3 := c.P.ConstInt(identPkg, "collisionResistantLength")
	if e1 != nil || e2 != nil || e3 != nil {
		c.Problem("R1", "identifier constants not found: %v %v %v", e1, e2, e3)
		return
	}
	alphaV, _, e4 := c.P.Const(encodingPkg, "Base62Alphabet")
	if e4 != nil {
		c.Problem("R2", "Base62Alphabet: %v", e4)
		return
	}
	alphabet := constant.StringVal(alphaV)

	// --- R1 ---
	var enc *ssa.Call
	for _, call := range eng.CallsNamed(fn, "encoding.EncodeBase62") {
		enc, _ = call.(*ssa.Call)
	}
	if enc == nil {
		c.Problem("R1", "New does not call EncodeBase62")
		return
	}
	type write struct {
		call   *ssa.Call
		method string
	}
	var writes []write
	var builder ssa.Value
	var str *ssa.Call
	sameBuilder := true
	for _, ci := range eng.Calls(fn) {
		call, isCall := ci.(*ssa.Call)
		if !isCall {
			continue
		}
		n := eng.CalleeName(call)
		if !strings.HasPrefix(n, "(*strings.Builder).") {
			continue
		}
		recv := eng.Unwrap(call.Common().Args[0])
		if builder == nil {
			builder = recv
		} else if recv != builder {
			sameBuilder = false
		}
		m := strings.TrimPrefix(n, "(*strings.Builder).")
		if m == "String" {
			str = call
		} else {
			writes = append(writes, write{call, m})
		}
	}
	domOrder := func(a, b ssa.Instruction) bool {
		if a.Block().Dominates(b.Block()) && (a.Block() != b.Block() || eng.InstrIndex(a) < eng.InstrIndex(b)) {
			return true
		}
		// a sits in the body of a counting loop whose header dominates b, and b
		// lies after the loop (cannot reach the body again)
		ab := a.Block()
		if len(ab.Preds) == 1 {
			return ab.Preds[0].Dominates(b.Block()) && !eng.Reachable(b.Block(), nil)[ab]
		}
		return false
	}
	okSeq := sameBuilder && len(writes) == 4 && str != nil
	if okSeq {
		for i := 0; i+1 < len(writes); i++ {
			if !domOrder(writes[i].call, writes[i+1].call) {
				okSeq = false
			}
		}
		okSeq = okSeq && domOrder(writes[3].call, str)
	}
	c.Check("R1", "four-writes-in-order-one-builder", fn.Pos(), okSeq, "prefix, separator, padding and value are written in that order to one builder whose string is returned", fmt.Sprintf("writes=%d sameBuilder=%v", len(writes), sameBuilder))
	if !okSeq {
		return
	}
	w := writes
	g0 := eng.Guards(w[0].call)
	c.Check("R1", "prefix-written-under-length-guard", w[0].call.Pos(), w[0].method == "WriteString" && eng.Render(w[0].call.Call.Args[1]) == "p0" &&
		eng.HasAtom(g0, fmt.Sprintf(`^\(len\(p0\) == %d\)$`, prefLen), true), "the prefix is written, and only when its length is requiredPrefixLength", atomsShort(g0))
	sep, sepOK := eng.ConstInt64(w[1].call.Call.Args[1])
	c.Check("R1", "separator-written", w[1].call.Pos(), (w[1].method == "WriteRune" || w[1].method == "WriteByte") && sepOK, "one separator character follows the prefix")
	// padding
	padOK, padDetail := false, ""
	var padChar rune = -1
	encLen := func(v ssa.Value) bool { // v == len(enc)
		call, ok := eng.Unwrap(v).(*ssa.Call)
		return ok && eng.CalleeName(call) == "builtin:len" && eng.Unwrap(call.Call.Args[0]) == ssa.Value(enc)
	}
	isDiff := func(v ssa.Value) bool { // target - len(enc)
		b, ok := eng.Unwrap(v).(*ssa.BinOp)
		return ok && b.Op == token.SUB && constIs(b.X, target) && encLen(b.Y)
	}
	switch w[2].method {
	case "WriteByte", "WriteRune":
		// counting loop: the write's block is a loop body whose header tests phi > 0, phi = φ(target-len(enc), phi-1)
		body := w[2].call.Block()
		nWritesInBody := 0
		for _, in := range body.Instrs {
			if cl, ok := in.(*ssa.Call); ok && strings.HasPrefix(eng.CalleeName(cl), "(*strings.Builder).") {
				nWritesInBody++
			}
		}
		if len(body.Preds) == 1 && len(body.Succs) == 1 && body.Succs[0] == body.Preds[0] && nWritesInBody == 1 {
			hdr := body.Preds[0]
			if iff, ok := hdr.Instrs[len(hdr.Instrs)-1].(*ssa.If); ok && hdr.Succs[0] == body {
				// counting up: φ(0, φ+1) < target-len(enc)
				if b, ok := iff.Cond.(*ssa.BinOp); ok && b.Op == token.LSS && isDiff(b.Y) {
					if phi, ok := b.X.(*ssa.Phi); ok && len(phi.Edges) == 2 {
						init, step := false, false
						for j, e := range phi.Edges {
							if hdr.Preds[j] == body {
								if sb, ok := e.(*ssa.BinOp); ok && sb.Op == token.ADD && sb.X == ssa.Value(phi) && constIs(sb.Y, 1) {
									step = true
								}
							} else if constIs(e, 0) {
								init = true
							}
						}
						padOK = init && step
						padDetail = fmt.Sprintf("counting up: init=%v step=%v", init, step)
					}
				}
				if b, ok := iff.Cond.(*ssa.BinOp); ok && b.Op == token.GTR && constIs(b.Y, 0) {
					if phi, ok := b.X.(*ssa.Phi); ok && len(phi.Edges) == 2 {
						init, step := false, false
						for j, e := range phi.Edges {
							if hdr.Preds[j] == body {
								if sb, ok := e.(*ssa.BinOp); ok && sb.Op == token.SUB && sb.X == ssa.Value(phi) && constIs(sb.Y, 1) {
									step = true
								}
							} else if isDiff(e) {
								init = true
							}
						}
						padOK = init && step
						padDetail = fmt.Sprintf("init=%v step=%v", init, step)
					}
				}
			}
		}
		if ix, ok := eng.Unwrap(w[2].call.Call.Args[1]).(*ssa.Index); ok {
			if s, isS := eng.ConstString(ix.X); isS {
				if k, isK := eng.ConstInt64(ix.Index); isK && int(k) < len(s) {
					padChar = rune(s[k])
				}
			}
		} else if k, isK := eng.ConstInt64(w[2].call.Call.Args[1]); isK {
			padChar = rune(k)
		}
	case "WriteString":
		if rep, ok := eng.Unwrap(w[2].call.Call.Args[1]).(*ssa.Call); ok && eng.CalleeName(rep) == "strings.Repeat" {
			if s, isS := eng.ConstString(rep.Call.Args[0]); isS && len(s) == 1 && isDiff(rep.Call.Args[1]) {
				padOK = true
				padChar = rune(s[0])
			}
		}
	}
	c.Check("R1", "padding-count-exact", w[2].call.Pos(), padOK, "the padding consists of exactly targetBase62Length − len(encoded) characters", padDetail)
	c.Check("R1", "value-written-last", w[3].call.Pos(), w[3].method == "WriteString" && eng.Unwrap(w[3].call.Call.Args[1]) == ssa.Value(enc), "the encoded value is written after the padding")
	// overlong guard: the writes are reached only with len(enc) <= target
	gw := eng.Guards(w[2].call)
	over := false
	for _, a := range gw {
		if b, ok := a.V.(*ssa.BinOp); ok {
			if b.Op == token.GTR && encLen(b.X) && constIs(b.Y, target) && !a.Pos {
				over = true
			}
			if b.Op == token.LEQ && encLen(b.X) && constIs(b.Y, target) && a.Pos {
				over = true
			}
			if b.Op == token.LSS && isDiff(b.X) && constIs(b.Y, 0) && !a.Pos {
				over = true // ¬(target − len < 0)
			}
			if b.Op == token.GEQ && isDiff(b.X) && constIs(b.Y, 0) && a.Pos {
				over = true
			}
		}
	}
	c.Check("R1", "overlong-value-excluded", w[2].call.Pos(), over, "an encoded value longer than the target never reaches the builder (the padding count is non-negative)", atomsShort(gw))
	for _, r := range eng.Returns(fn) {
		res := eng.RetResults(r)
		if eng.IsNilConst(res[1]) {
			c.Check("R1", "returns-builder-string", r.Pos(), eng.Unwrap(res[0]) == ssa.Value(str), "the successful return is the builder's content", eng.Render(res[0]))
		} else {
			s, isS := eng.ConstString(res[0])
			c.Check("R1", "error-returns-empty", r.Pos(), isS && s == "", "an error return carries no identifier")
		}
	}
	// rune range of the prefix test
	// Every continuation of the prefix scan (back edge of the range loop over
	// p0) carries a constant lower and a constant upper bound on the rune, in any
	// of the equivalent forms ('a' <= r, r >= 'a', ¬(r < 'a'), ¬('a' > r), …).
	lo, hi := int64(-1), int64(-1)
	isRune := func(v ssa.Value) bool { return strings.Contains(eng.Render(v), "range(p0)") }
	bounds := func(ga []eng.Atom) (l, h int64) {
		l, h = -1, -1
		for _, a := range ga {
			bo, ok := a.V.(*ssa.BinOp)
			if !ok {
				continue
			}
			kx, xC := eng.ConstInt64(bo.X)
			ky, yC := eng.ConstInt64(bo.Y)
			switch {
			case xC && isRune(bo.Y): // K op r
				switch {
				case bo.Op == token.LEQ && a.Pos, bo.Op == token.GTR && !a.Pos:
					l = kx
				case bo.Op == token.LSS && a.Pos:
					l = kx + 1
				case bo.Op == token.GEQ && a.Pos, bo.Op == token.LSS && !a.Pos:
					h = kx
				case bo.Op == token.GTR && a.Pos:
					h = kx - 1
				}
			case yC && isRune(bo.X): // r op K
				switch {
				case bo.Op == token.GEQ && a.Pos, bo.Op == token.LSS && !a.Pos:
					l = ky
				case bo.Op == token.GTR && a.Pos:
					l = ky + 1
				case bo.Op == token.LEQ && a.Pos, bo.Op == token.GTR && !a.Pos:
					h = ky
				case bo.Op == token.LSS && a.Pos:
					h = ky - 1
				}
			}
		}
		return
	}
	rangeOK := false
	for _, b := range fn.Blocks {
		if b.Comment != "rangeiter.loop" {
			continue
		}
		rangeOK = true
		for _, p := range b.Preds {
			if !b.Dominates(p) {
				continue
			}
			l, h := bounds(edgeGuards(p, b))
			if l < 0 || h < l || (lo >= 0 && (l != lo || h != hi)) {
				rangeOK = false
			}
			lo, hi = l, h
		}
	}
	rangeOK = rangeOK && lo >= 0 && hi >= lo
	c.Check("R1", "prefix-rune-range-enforced", fn.Pos(), rangeOK, "scanning of the prefix continues only for runes inside one constant range", fmt.Sprintf("[%d,%d]", lo, hi))

	// --- R2 ---
	pat, ok := c.P.GlobalRegexPattern(identPkg, "matcher")
	if !ok {
		c.Problem("R2", "pattern of identifier.matcher not found")
		return
	}
	pos, anchored, err := eng.FixedRegex(pat)
	if err != nil {
		c.Problem("R2", "identifier.matcher %q is not a fixed-length pattern: %v", pat, err)
		return
	}
	total := int(prefLen + 1 + target)
	c.Check("R2", "pattern-anchored-and-length", fn.Pos(), anchored && len(pos) == total, "the validation pattern is anchored and as long as a generated identifier", fmt.Sprintf("pattern=%q positions=%d generated=%d", pat, len(pos), total))
	if len(pos) == total && rangeOK {
		okP := true
		for i := 0; i < int(prefLen); i++ {
			if !pos[i].Covers(eng.RuneSet{rune(lo), rune(hi)}) {
				okP = false
			}
		}
		c.Check("R2", "pattern-admits-prefix-runes", fn.Pos(), okP, "every prefix New accepts is accepted by the pattern")
		c.Check("R2", "pattern-admits-separator", fn.Pos(), sepOK && pos[prefLen].Covers(eng.RuneSet{rune(sep), rune(sep)}), "the separator New writes is the one the pattern expects", fmt.Sprintf("%q", rune(sep)))
		okA := true
		as := eng.RuneSetOf(alphabet)
		for i := int(prefLen) + 1; i < total; i++ {
			if !pos[i].Covers(as) {
				okA = false
			}
		}
		c.Check("R2", "pattern-admits-alphabet", fn.Pos(), okA, "every Base62 alphabet character is accepted at every value position")
		c.Check("R2", "pad-character-in-alphabet", fn.Pos(), padChar >= 0 && strings.ContainsRune(alphabet, padChar), "the pad character is an alphabet character (the alphabet's zero digit)", fmt.Sprintf("%q", padChar))
	}
	distinct := map[rune]bool{}
	for _, r := range alphabet {
		distinct[r] = true
	}
	c.Check("R2", "alphabet-62-distinct", fn.Pos(), len(alphabet) == 62 && len(distinct) == 62, "the alphabet has 62 distinct characters", fmt.Sprint(len(distinct)))
	need := int64(math.Ceil(float64(crl) * 8 * math.Ln2 / math.Log(62)))
	c.Check("R2", "target-length-sufficient", fn.Pos(), target >= need, "targetBase62Length accommodates every collisionResistantLength-byte value (the length panic is unreachable)", fmt.Sprintf("target=%d needed=%d", target, need))
	// IsValid uses the matcher
	if iv := c.MustFunc("R2", identPkg, "IsValid"); iv != nil {
		be, berr := eng.FuncBoolExpr(iv)
		uses := false
		for _, call := range eng.Calls(iv) {
			if eng.CalleeName(call) == "(*regexp.Regexp).MatchString" && eng.Render(call.Common().Args[0]) == "identifier.matcher" && eng.Render(call.Common().Args[1]) == "p0" {
				uses = true
			}
		}
		positive := false
		if berr == nil {
			am, al := "(*regexp.Regexp).MatchString(identifier.matcher, p0)", "(*regexp.Regexp).MatchString(identifier.legacyMatcher, p0)"
			positive, _, berr = eng.TruthTableEqual(be, []string{am, al}, func(env map[string]bool) bool { return env[am] || env[al] })
		}
		c.Check("R2", "isvalid-accepts-pattern", iv.Pos(), uses && positive, "IsValid accepts exactly what the new or the legacy pattern accepts", fmt.Sprint(berr))
	}

	// --- R3 ---
	var rnd *ssa.Call
	for _, call := range eng.CallsNamed(fn, "random.New") {
		rnd, _ = call.(*ssa.Call)
	}
	okR := rnd != nil && constIs(rnd.Call.Args[0], crl) && crl >= 32
	c.Check("R3", "random-length", fn.Pos(), okR, "the identifier is made from collisionResistantLength (≥32) random bytes", fmt.Sprint(crl))
	if rnd != nil {
		ex, isEx := eng.Unwrap(enc.Call.Args[0]).(*ssa.Extract)
		c.Check("R3", "encodes-the-random-value", enc.Pos(), isEx && ex.Tuple == ssa.Value(rnd) && ex.Index == 0, "the value encoded is the random value", eng.Render(enc.Call.Args[0]))
		ge := eng.Guards(enc)
		c.Check("R3", "random-error-checked", enc.Pos(), eng.HasAtom(ge, `^\(random\.New\(\d+\)#1 == nil\)$`, true), "the value is used only if generating it succeeded", atomsShort(ge))
	}
	if rn := c.MustFunc("R3", randomPkg, "New"); rn != nil {
		var rd *ssa.Call
		for _, call := range eng.Calls(rn) {
			if eng.CalleeName(call) == "crypto/rand.Read" {
				rd, _ = call.(*ssa.Call)
			}
		}
		okRead := false
		var buf ssa.Value
		if rd != nil {
			if sl, ok := eng.Unwrap(rd.Call.Args[0]).(*ssa.Slice); ok && sl.Low == nil && sl.High == nil {
				buf = eng.Unwrap(sl.X)
			} else {
				buf = eng.Unwrap(rd.Call.Args[0])
			}
			if ms, ok := buf.(*ssa.MakeSlice); ok && eng.Render(ms.Len) == "p0" {
				okRead = true
			}
		}
		c.Check("R3", "crypto-rand-fills-whole-buffer", rn.Pos(), okRead, "random.New fills a buffer of the requested length from crypto/rand")
		for _, r := range eng.Returns(rn) {
			res := eng.RetResults(r)
			if eng.IsNilConst(res[1]) {
				g := eng.Guards(r)
				c.Check("R3", "random-success-return", r.Pos(), eng.Unwrap(res[0]) == buf && eng.HasAtom(g, `^\(crypto/rand\.Read\(.*\)#1 == nil\)$`, true), "the buffer is returned only when the read succeeded", atomsShort(g))
			}
		}
	}

	// --- R4 ---
	if tr := c.MustFunc("R4", identPkg, "Truncated"); tr != nil {
		n := 0
		for _, r := range eng.Returns(tr) {
			res := eng.RetResults(r)
			if s, isS := eng.ConstString(res[0]); isS {
				c.Check("R4", fmt.Sprintf("return#%d", n), r.Pos(), s == "", "a constant result is the empty string")
				n++
				continue
			}
			n++
			sl, ok := eng.Unwrap(res[0]).(*ssa.Slice)
			okS := ok && sl.Low == nil && eng.Render(sl.X) == "p0"
			var high int64 = -1
			if okS && sl.High != nil {
				high, _ = eng.ConstInt64(sl.High)
			}
			// the pattern guarding this return
			minLen := -1
			for _, a := range eng.Guards(r) {
				if !a.Pos {
					continue
				}
				if call, ok := a.V.(*ssa.Call); ok && eng.CalleeName(call) == "(*regexp.Regexp).MatchString" && eng.Render(call.Call.Args[1]) == "p0" {
					if g, ok := eng.Unwrap(call.Call.Args[0]).(*ssa.UnOp); ok {
						if gl, ok := g.X.(*ssa.Global); ok {
							if p, ok := c.P.GlobalRegexPattern(identPkg, gl.Name()); ok {
								if ps, anch, err := eng.FixedRegex(p); err == nil && anch {
									minLen = len(ps)
								}
							}
						}
					}
				}
			}
			c.Check("R4", fmt.Sprintf("return#%d", n-1), r.Pos(), okS && high > 0 && int(high) <= minLen, "the truncated form is identifier[:k] with k no larger than the length the guarding pattern guarantees", fmt.Sprintf("k=%d guaranteed=%d", high, minLen))
		}
		c.Floor("R4", 3)
	}

	// --- R5 ---
	c39Names(c)
}

func c39Names(c *eng.Ctx) {
	fn := c.MustFunc("R5", selectionPkg, "EnsureNameValid")
	if fn == nil {
		return
	}
	var hdr *ssa.BasicBlock
	for _, b := range fn.Blocks {
		if b.Comment == "rangeiter.loop" {
			hdr = b
		}
	}
	if hdr == nil {
		c.Problem("R5", "character loop not found")
		return
	}
	// the dash flag: a header phi of boolean type
	var flag *ssa.Phi
	for _, in := range hdr.Instrs {
		if phi, ok := in.(*ssa.Phi); ok && eng.TypeShort(phi.Type()) == "bool" {
			flag = phi
		}
	}
	nCont := 0
	dashSets := false
	for j, p := range hdr.Preds {
		if !hdr.Dominates(p) {
			continue
		}
		nCont++
		ga := eng.GuardsOfBlock(p)
		if last, isIf := p.Instrs[len(p.Instrs)-1].(*ssa.If); isIf {
			ga = append(ga, eng.MkAtom(last.Cond, p.Succs[0] == hdr))
		}
		why := ""
		for _, a := range ga {
			if !a.Pos {
				continue
			}
			switch {
			case strings.HasPrefix(a.Expr, "unicode.IsLetter(next(range(p0))#2)"):
				why = "letter"
			case strings.HasPrefix(a.Expr, "unicode.IsNumber(next(range(p0))#2)") || strings.HasPrefix(a.Expr, "unicode.IsDigit(next(range(p0))#2)"):
				why = "number"
			case a.Expr == "(next(range(p0))#2 == 45)":
				why = "dash"
			}
		}
		c.Check("R5", fmt.Sprintf("continue#%d-only-on-allowed-rune", nCont), eng.InstrPos(p.Instrs[len(p.Instrs)-1]), why != "", "scanning continues only after a letter, a number or '-'", atomsShort(ga))
		if why == "number" {
			c.Check("R5", "number-not-leading", eng.InstrPos(p.Instrs[len(p.Instrs)-1]), eng.HasAtom(ga, `^\(next\(range\(p0\)\)#1 == 0\)$`, false), "a number is accepted only after the first position", atomsShort(ga))
		}
		if why == "dash" && flag != nil {
			if b, isB := eng.ConstBool(flag.Edges[j]); isB && b {
				dashSets = true
			}
		}
		if why != "dash" && flag != nil {
			// other continuations keep the flag
			keep := flag.Edges[j] == ssa.Value(flag)
			if b, isB := eng.ConstBool(flag.Edges[j]); isB && b {
				keep = true
			}
			c.Check("R5", fmt.Sprintf("continue#%d-keeps-dash-flag", nCont), hdr.Instrs[0].Pos(), keep, "a non-dash character does not clear the dash flag")
		}
	}
	c.Check("R5", "dash-sets-flag", fn.Pos(), flag != nil && dashSets, "every '-' sets the dash flag")
	// UUID rejection
	nUUID, nDef := 0, 0
	for _, r := range eng.Returns(fn) {
		res := eng.RetResults(r)
		if eng.IsNilConst(res[0]) {
			// success: after the loop, not a UUID (if flagged), not "defaults"
			g := eng.Guards(r)
			c.Check("R5", "success-excludes-defaults", r.Pos(), eng.HasAtom(g, `^\(p0 == "defaults"\)$`, false), "success is returned only for names other than \"defaults\"", atomsShort(g))
			continue
		}
		g := eng.Guards(r)
		for _, a := range g {
			if !a.Pos {
				continue
			}
			if a.Expr == `(p0 == "defaults")` {
				nDef++
			}
			if a.Expr == "(github.com/google/uuid.Parse(p0)#1 == nil)" {
				nUUID++
				c39UUIDGuards(c, r, g, flag)
			}
			if call, ok := a.V.(*ssa.Call); ok && eng.CalleeName(call) == "(*regexp.Regexp).MatchString" && eng.Render(call.Call.Args[1]) == "p0" {
				// regexp alternative: must cover the legacy identifier pattern
				covers := false
				detail := ""
				if u, ok := eng.Unwrap(call.Call.Args[0]).(*ssa.UnOp); ok {
					if gl, ok := u.X.(*ssa.Global); ok {
						rel := eng.FuncPkgRel(fn)
						if gl.Pkg != nil && gl.Pkg != fn.Pkg {
							rel = strings.TrimPrefix(gl.Pkg.Pkg.Path(), "github.com/mutagen-io/mutagen/")
						}
						if p, ok := c.P.GlobalRegexPattern(rel, gl.Name()); ok {
							detail = p
							legacy, lok := c.P.GlobalRegexPattern(identPkg, "legacyMatcher")
							ps, _, e1 := eng.FixedRegex(p)
							ls, _, e2 := eng.FixedRegex(legacy)
							if lok && e1 == nil && e2 == nil && len(ps) == len(ls) {
								covers = true
								for i := range ls {
									if !ps[i].Covers(ls[i]) {
										covers = false
										detail = fmt.Sprintf("%s: position %d does not admit every legacy-identifier character", p, i)
										break
									}
								}
							}
						}
					}
				}
				nUUID++
				c.Check("R5", "uuid-pattern-covers-legacy-identifiers", r.Pos(), covers, "a pattern used to reject identifier-like names matches every legacy (UUID) identifier", detail)
				c39UUIDGuards(c, r, g, flag)
			}
		}
	}
	c.Check("R5", "uuid-names-rejected", fn.Pos(), nUUID >= 1, "names that parse as UUIDs are rejected", fmt.Sprint(nUUID))
	c.Check("R5", "defaults-rejected", fn.Pos(), nDef == 1, "the reserved name \"defaults\" is rejected", fmt.Sprint(nDef))
	c.Floor("R5", 8)
}

// c39UUIDGuards: the UUID rejection is conditional on nothing but the end of
// the scan and the dash flag.
func c39UUIDGuards(c *eng.Ctx, r *ssa.Return, g []eng.Atom, flag *ssa.Phi) {
	extra := ""
	for _, a := range g {
		switch {
		case strings.Contains(a.Expr, "uuid.Parse(p0)"), strings.Contains(a.Expr, "MatchString("):
		case a.Expr == "next(range(p0))#0" && !a.Pos:
		case flag != nil && a.V == ssa.Value(flag) && a.Pos:
		case a.Via != "":
			// facts imported from a verdict helper (e.g. isUUID) are part of the UUID test
		case !a.Pos && a.EqLHS == "p0" && a.EqConst != "" && !strings.Contains(a.EqConst, "-"):
			// «the name is not <a reserved word without a dash>», tested first: it
			// excludes no dashed name, so every dashed name still reaches the UUID test
		default:
			// the verdict helper's own call is the UUID test when it only computes a verdict
			if call, ok := a.V.(*ssa.Call); ok {
				if callee := call.Call.StaticCallee(); callee != nil && eng.IsModuleFunc(callee) && len(eng.CallsNamed(callee, "github.com/google/uuid.Parse")) > 0 {
					continue
				}
			}
			extra = a.String()
		}
	}
	c.Check("R5", "uuid-rejection-unconditional-for-dashed-names", r.Pos(), extra == "", "the UUID test applies to every name that contains '-'", extra)
}
