package rules

// c21ValidatorTable: generated once from the pinned tree with VERIF_C21_DUMP=1 and
// read against protocol.go; see c21_validators.go.
var c21ValidatorTable = map[string][]string{
	"InitializeSynchronizationRequest": {
		"(p0 == nil)",
		"(p0.Root == \"\")",
		"(p0.Session == \"\")",
		"¬((*synchronization.Configuration).EnsureValid(p0.Configuration, false) == nil)",
		"¬(synchronization.Version).Supported(p0.Version)",
	},
	"InitializeSynchronizationResponse": {
		"(p0 == nil)",
	},
	"PollRequest": {
		"(p0 == nil)",
	},
	"PollCompletionRequest": {
		"(p0 == nil)",
	},
	"PollResponse": {
		"(p0 == nil)",
	},
	"ScanRequest": {
		"(p0 == nil)",
		"¬((*synchronization/rsync.Signature).EnsureValid(p0.BaselineSnapshotSignature) == nil)",
	},
	"ScanCompletionRequest": {
		"(p0 == nil)",
	},
	"ScanResponse": {
		"(len(p0.SnapshotDelta) > 0)",
		"(p0 == nil)",
		"¬((*synchronization/rsync.Operation).EnsureValid(p0.SnapshotDelta[(phi((phi@rangeindex + 1)|-1) + 1)]) == nil)",
	},
	"StageRequest": {
		"(len(p0.Paths) == 0)",
		"(p0 == nil)",
		"¬(len(p0.Digests) == len(p0.Paths))",
	},
	"StageResponse": {
		"(len(p0.Paths) > 0)",
		"(p0 == nil)",
		"(phi(len(p0.Paths)|len(p0.Signatures)) > len(p1))",
		"¬((*synchronization/rsync.Signature).EnsureValid(p0.Signatures[(phi((phi@rangeindex + 1)|-1) + 1)]) == nil)",
		"¬(len(p0.Signatures) == len(p1))",
		"¬(phi(len(p0.Paths)|len(p0.Signatures)) == len(p0.Signatures))",
	},
	"SupplyRequest": {
		"(p0 == nil)",
		"¬((*synchronization/rsync.Signature).EnsureValid(p0.Signatures[(phi((phi@rangeindex + 1)|-1) + 1)]) == nil)",
		"¬(len(p0.Paths) == len(p0.Signatures))",
	},
	"TransitionRequest": {
		"(p0 == nil)",
		"¬((*synchronization/core.Change).EnsureValid(p0.Transitions[(phi((phi@rangeindex + 1)|-1) + 1)], true) == nil)",
	},
	"TransitionCompletionRequest": {
		"(p0 == nil)",
	},
	"TransitionResponse": {
		"(p0 == nil)",
		"¬((*synchronization/core.Archive).EnsureValid(p0.Results[(phi((phi@rangeindex + 1)|-1) + 1)], true) == nil)",
		"¬((*synchronization/core.Problem).EnsureValid(p0.Problems[(phi((phi@rangeindex + 1)|-1) + 1)]) == nil)",
		"¬(len(p0.Results) == p1)",
	},
	"EndpointRequest": {
		"(p0 == nil)",
		"¬(phi((phi((phi((phi((phi((0 + 1)|0) + 1)|phi((0 + 1)|0)) + 1)|phi((phi((0 + 1)|0) + 1)|phi((0 + 1)|0))) + 1)|phi((phi((phi((0 + 1)|0) + 1)|phi((0 + 1)|0)) + 1)|phi((phi((0 + 1)|0) + 1)|phi((0 + 1)|0)))) + 1)|phi((phi((phi((phi((0 + 1)|0) + 1)|phi((0 + 1)|0)) + 1)|phi((phi((0 + 1)|0) + 1)|phi((0 + 1)|0))) + 1)|phi((phi((phi((0 + 1)|0) + 1)|phi((0 + 1)|0)) + 1)|phi((phi((0 + 1)|0) + 1)|phi((0 + 1)|0))))) == 1)",
	},
}
