package rules

import (
	"fmt"
	"strings"

	"golang.org/x/tools/go/ssa"

	"verif/sa/eng"
)

func init() {
	eng.Register(&eng.Property{
		ID:       "C38",
		Title:    "Endpoint URLs round-trip through their text form",
		Packages: []string{urlPkg},
		Explanation: "Only agreement between the sibling functions of package url is decided; the string-level equation Parse∘Format∘Parse = Parse over the URL grammar is NOT decided. " +
			"(R1, field coverage) every URL field a parser sets in the literal it returns (other than Kind/Protocol, which drive dispatch) is read by the formatter of the same protocol; " +
			"(R2, faithful inclusion) a formatter includes an optional component (user, port) under that component's own emptiness test only — no further value-dependent condition that the parser does not mirror (e.g. hiding a default port); " +
			"(R3, dispatch) Parse, Format and EnsureValid cover the same protocol set (Local, SSH, Docker) and Format/EnsureValid reject anything else; " +
			"(R4, parser ⊑ validator) for the components a parser produces, each rejection EnsureValid applies to that protocol has a counterpart on every accepting path of the parser: non-empty host/container, no leading '-' in host and user, 16-bit port (ParseUint bit size), Docker/Local never set a port, SSH/Local never set an environment; and the validator's absolute-path requirement for Unix-socket forwarding endpoints is limited to local URLs (remote parsers accept relative sockets). " +
			"(R5, unambiguity) a component the formatter leaves out when empty is never produced «explicitly empty» by the parser: a user cut out in front of '@' is non-empty, and an explicit zero SSH port cannot silently disappear (the parser refuses it or the formatter prints it when the path could be read as a port); " +
			"(R6, delimited host) every value parseSCPSSH can return as Host is the text in front of the first ':' — formatSSH prints host + ':' verbatim, so a host that could contain ':' (e.g. the inside of a bracketed literal) would not read back; " +
			"(R7, Docker path) parseDocker shortens the path by its first byte only in the cases formatDocker undoes ('/~…', '/<windows path>', the ':' of a forwarding endpoint) — any other normalisation of the path is not restored by the formatter and the text is then re-read by those same tests; " +
			"(R8, local paths) parseLocal returns a URL only with a path that filesystem.Normalize produced on a way on which it succeeded (what EnsureValid then accepts as absolute) — a failed normalisation is an error, not a pass-through; " +
			"Not decided: the round-trip equation itself; forwarding.Parse's grammar.",
		Assumptions: []string{"fmt.Sprintf renders strings and integers losslessly"},
		Run:         runC38,
	})
}

func runC38(c *eng.Ctx) {
	type proto struct {
		name, parser, formatter string
	}
	protos := []proto{{"Local", "parseLocal", "URL.formatLocal"}, {"SSH", "parseSCPSSH", "URL.formatSSH"}, {"Docker", "parseDocker", "URL.formatDocker"}}
	urlT, err := c.P.Named(urlPkg, "URL")
	if err != nil {
		c.Problem("R1", "%v", err)
		return
	}
	_ = urlT
	parsedFields := map[string]map[string]ssa.Value{}
	for _, p := range protos {
		pf := c.MustFunc("R1", urlPkg, p.parser)
		ff := c.MustFunc("R1", urlPkg, p.formatter)
		if pf == nil || ff == nil {
			continue
		}
		var lit *ssa.Alloc
		for _, r := range eng.Returns(pf) {
			res := eng.RetResults(r)
			if eng.IsNilConst(res[1]) {
				lit = eng.LitOf(res[0])
			}
		}
		if lit == nil {
			c.Problem("R1", "%s returns no URL literal", p.parser)
			continue
		}
		fields := eng.LitFields(lit)
		parsedFields[p.name] = fields
		for name := range fields {
			if name == "Kind" || name == "Protocol" {
				continue
			}
			read := false
			eng.EachInstr(ff, func(i ssa.Instruction) {
				if fa, ok := i.(*ssa.FieldAddr); ok && eng.Render(fa.X) == "p0" && eng.FieldOf(fa).Name() == name {
					read = true
				}
			})
			c.Check("R1", p.name+"/formatter-reads:"+name, ff.Pos(), read, "the "+p.name+" formatter uses the "+name+" component that the parser sets")
		}
		// R2: optional components.
		for _, comp := range []string{"User", "Port"} {
			if _, set := fields[comp]; !set {
				continue
			}
			for _, call := range eng.CallsNamed(ff, "fmt.Sprintf") {
				uses := false
				for _, e := range eng.VarargElems(call.Common()) {
					r := eng.Render(e)
					if r == "p0."+comp || r == "conv:uint32(p0."+comp+")" {
						uses = true
					}
				}
				if !uses {
					continue
				}
				// The component may be LEFT OUT only when it is empty: every way
				// through the formatter that bypasses the printing block carries
				// the component's own emptiness fact. (Printing it in further
				// cases — e.g. an explicit zero port in front of a port-like
				// path — is allowed; hiding a non-empty value is not.)
				blk := call.Block()
				paths, complete := eng.EnumPaths(ff.Blocks[0], nil, 2000)
				if !complete {
					c.Problem("R2", "too many paths in %s", p.formatter)
				}
				bypass, lacking := 0, 0
				sample := ""
				for _, pt := range paths {
					if pt.Contains(blk) {
						continue
					}
					if _, isRet := pt.Last().Instrs[len(pt.Last().Instrs)-1].(*ssa.Return); !isRet {
						continue
					}
					bypass++
					if !pathHas(pt, `^\(p0\.`+comp+` == (0|"")\)$`, true) {
						lacking++
						sample = eng.AtomsText(pt.Atoms)
					}
				}
				c.Check("R2", p.name+"/faithful-inclusion:"+comp, call.Pos(), bypass > 0 && lacking == 0, comp+" is left out only when it is empty — no other value-dependent condition hides it", fmt.Sprintf("%d of %d bypassing paths lack the emptiness fact; e.g. %s", lacking, bypass, sample))
			}
		}
	}
	c.Floor("R1", 8)
	c.Floor("R2", 3)

	// R3.
	protoConsts, _ := c.P.ConstsOfType(urlPkg, "Protocol")
	want := map[int64]string{protoConsts["Protocol_Local"]: "Local", protoConsts["Protocol_SSH"]: "SSH", protoConsts["Protocol_Docker"]: "Docker"}
	for _, fnName := range []string{"URL.Format", "URL.EnsureValid"} {
		fn := c.MustFunc("R3", urlPkg, fnName)
		if fn == nil {
			continue
		}
		seen := map[string]bool{}
		eng.EachInstr(fn, func(i ssa.Instruction) {
			if iff, ok := i.(*ssa.If); ok {
				a := eng.MkAtom(iff.Cond, true)
				if a.EqLHS == "p0.Protocol" {
					if b, ok := a.V.(*ssa.BinOp); ok {
						k, _ := eng.ConstInt64(b.Y)
						seen[want[k]] = true
					}
				}
			}
		})
		c.Check("R3", "protocols-covered:"+fnName, fn.Pos(), seen["Local"] && seen["SSH"] && seen["Docker"] && len(seen) == 3, fnName+" handles exactly Local, SSH and Docker", fmt.Sprint(keys(seen)))
	}
	if parse := c.MustFunc("R3", urlPkg, "Parse"); parse != nil {
		called := map[string]bool{}
		for _, call := range eng.Calls(parse) {
			n := eng.CalleeName(call)
			if strings.HasPrefix(n, "url.parse") {
				called[n] = true
			}
		}
		c.Check("R3", "parse-dispatch", parse.Pos(), called["url.parseLocal"] && called["url.parseSCPSSH"] && called["url.parseDocker"] && len(called) == 3, "Parse dispatches to the three protocol parsers", fmt.Sprint(keys(called)))
	}

	// R4.
	ev := c.MustFunc("R4", urlPkg, "URL.EnsureValid")
	if ssh := c.MustFunc("R4", urlPkg, "parseSCPSSH"); ssh != nil {
		c38ParserRejects(c, ssh, "SSH", parsedFields["SSH"])
		for _, call := range eng.CallsNamed(ssh, "strconv.ParseUint") {
			bits, _ := eng.ConstInt64(call.Common().Args[2])
			base, _ := eng.ConstInt64(call.Common().Args[1])
			c.Check("R4", "SSH/port-16-bit", call.Pos(), bits == 16 && base == 10, "the parser accepts only ports that fit 16 bits (the validator's bound)", fmt.Sprintf("base=%d bits=%d", base, bits))
		}
		_, hasEnv := parsedFields["SSH"]["Environment"]
		c.Check("R4", "SSH/no-environment", ssh.Pos(), !hasEnv, "the SSH parser never sets an environment (the validator forbids it)")
	}
	if dk := c.MustFunc("R4", urlPkg, "parseDocker"); dk != nil {
		c38ParserRejects(c, dk, "Docker", parsedFields["Docker"])
		_, hasPort := parsedFields["Docker"]["Port"]
		c.Check("R4", "Docker/no-port", dk.Pos(), !hasPort, "the Docker parser never sets a port (the validator forbids it)")
	}
	if lc := c.MustFunc("R4", urlPkg, "parseLocal"); lc != nil {
		f := parsedFields["Local"]
		ok := true
		for _, n := range []string{"User", "Host", "Port", "Environment", "Parameters"} {
			if _, set := f[n]; set {
				ok = false
			}
		}
		c.Check("R4", "Local/only-path", lc.Pos(), ok, "the local parser sets nothing but the path (the validator forbids the rest)")
	}
	if ev != nil {
		// the absolute-socket requirement is restricted to local URLs
		n := 0
		for _, r := range eng.Returns(ev) {
			res := eng.RetResults(r)
			if eng.IsNilConst(res[0]) {
				continue
			}
			g := eng.Guards(r)
			isSocket := false
			for _, a := range g {
				if strings.Contains(a.Expr, `#0 == "unix")`) && a.Pos {
					isSocket = true
				}
			}
			if !isSocket {
				continue
			}
			n++
			c.Check("R4", "socket-rule-local-only", r.Pos(), eng.HasAtom(g, fmt.Sprintf(`^\(p0\.Protocol == %d:Protocol\)$`, protoConsts["Protocol_Local"]), true), "the validator demands an absolute Unix-socket path only of local URLs (remote parsers accept relative ones)", atomsShort(g))
		}
		if n != 1 {
			c.Problem("R4", "expected one Unix-socket rejection in EnsureValid, found %d", n)
		}
	}
	c.Floor("R4", 9)
	c38Unambiguous(c, parsedFields)
	c38Delimited(c, parsedFields)
	c38DockerPathStrip(c, parsedFields)
	c38LocalNormalizes(c)
}

// c38ParserRejects: on every accepting path of a parser the host is non-empty
// and neither host nor (non-empty) user begins with '-'.
func c38ParserRejects(c *eng.Ctx, fn *ssa.Function, name string, fields map[string]ssa.Value) {
	host, user := fields["Host"], fields["User"]
	if host == nil {
		c.Problem("R4", "%s parser sets no Host", name)
		return
	}
	hr := eng.Render(host)
	ur := ""
	if user != nil {
		ur = eng.Render(user)
	}
	// collect accepting returns and use must-guards (parsers have loops: no path enumeration)
	n := 0
	for _, r := range eng.Returns(fn) {
		res := eng.RetResults(r)
		if !eng.IsNilConst(res[1]) {
			continue
		}
		n++
		g := eng.Guards(r)
		c.Check("R4", name+"/host-non-empty", r.Pos(), eng.HasAtom(g, `^\(`+eng.Q(hr)+` == ""\)$`, false), "an accepted URL has a non-empty host/container", atomsShort(g))
		c.Check("R4", name+"/host-no-leading-hyphen", r.Pos(), c38HyphenAtom(g, host, false), "an accepted URL's host does not begin with '-' (the validator rejects it)", hr+" :: "+atomsShort(g))
		if ur != "" {
			// `username != "" && username[0] == '-'` → reject: continuing needs (user == "") or (user[0] != '-'): path-insensitive
			// must-atoms cannot express the disjunction; check the rejecting return exists instead.
			// The test block B (`user[0] == '-'`) must send its true edge to a
			// block that only returns an error, and B is either a dominator of
			// the accepting return or the non-empty successor of a dominating
			// `user == ""` test.
			rej := false
			eng.EachInstr(fn, func(i ssa.Instruction) {
				iff, ok := i.(*ssa.If)
				if !ok {
					return
				}
				a := eng.MkAtom(iff.Cond, true)
				if !c38HyphenAtom([]eng.Atom{a}, user, true) {
					return
				}
				b := iff.Block()
				t := b.Succs[0]
				if len(t.Succs) != 0 {
					return
				}
				ret, ok := t.Instrs[len(t.Instrs)-1].(*ssa.Return)
				if !ok || eng.IsNilConst(eng.RetResults(ret)[1]) {
					return
				}
				if b.Dominates(r.Block()) {
					rej = true
					return
				}
				if len(b.Preds) == 1 {
					p := b.Preds[0]
					if pif, ok := p.Instrs[len(p.Instrs)-1].(*ssa.If); ok && p.Dominates(r.Block()) {
						pa := eng.MkAtom(pif.Cond, true)
						// the edge p→b is the "user is non-empty" edge
						nonEmptyEdge := (p.Succs[0] == b) != pa.Pos
						if pa.Expr == `(`+ur+` == "")` && nonEmptyEdge {
							rej = true
						}
					}
				}
			})
			c.Check("R4", name+"/user-no-leading-hyphen", r.Pos(), rej, "a non-empty user beginning with '-' is rejected before a URL can be accepted")
		}
	}
	if n == 0 {
		c.Problem("R4", "%s parser has no accepting return", name)
	}
}

// c38HyphenAtom: the guard set contains `v[0] == '-'` with the given polarity
// (matched on SSA values, not rendered text).
func c38HyphenAtom(g []eng.Atom, v ssa.Value, pol bool) bool {
	for _, a := range g {
		if a.Pos != pol {
			continue
		}
		b, ok := a.V.(*ssa.BinOp)
		if !ok {
			continue
		}
		var base, idx ssa.Value
		switch lk := b.X.(type) {
		case *ssa.Index:
			base, idx = lk.X, lk.Index
		case *ssa.Lookup:
			base, idx = lk.X, lk.Index
		default:
			continue
		}
		if eng.Unwrap(base) != eng.Unwrap(v) || !constIs(idx, 0) {
			continue
		}
		if k, isC := eng.ConstInt64(b.Y); isC && k == 45 {
			return true
		}
	}
	return false
}
