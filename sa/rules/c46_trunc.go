package rules

import (
	"fmt"
	"strings"
	"syscall"

	"verif/sa/eng"
)

// c46OutputTruncated (C46.R4): the extracted agent is byte-for-byte the archive
// entry only if the output file starts empty: every os.OpenFile for writing in
// the bundle code creates AND truncates (a stale longer file would keep its
// tail), or the output is a fresh temporary file.
func c46OutputTruncated(c *eng.Ctx) {
	n := 0
	for _, fn := range c.P.ModuleFuncs(agentPkg) {
		if !strings.Contains(c.P.Pos(fn.Pos()), "pkg/agent/bundle.go:") {
			continue
		}
		for _, ci := range eng.CallsNamed(fn, "os.OpenFile") {
			flags, ok := eng.ConstInt64(ci.Common().Args[1])
			if !ok {
				c.Check("R4", "output-open-flags-constant@"+eng.FuncName(fn), ci.Pos(), false, "the flags of a file opened by the bundle code are constant")
				continue
			}
			if flags&int64(syscall.O_WRONLY|syscall.O_RDWR) == 0 {
				continue
			}
			n++
			c.Check("R4", "output-created-and-truncated@"+eng.FuncName(fn), ci.Pos(), flags&int64(syscall.O_CREAT) != 0 && flags&int64(syscall.O_TRUNC) != 0, "an output file opened for writing is created and truncated", fmt.Sprintf("flags=%#x", flags))
		}
	}
	if n < 1 {
		c.Problem("R4", "no writable os.OpenFile found in pkg/agent/bundle.go")
	}
}
