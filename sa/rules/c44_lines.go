package rules

import (
	"go/token"

	"golang.org/x/tools/go/ssa"

	"verif/sa/eng"
)

// c44LinesHaveNoNewline (C44.R6): the relay callback of Logger.Writer assumes
// that the line processor hands it ONE line. Every invocation of the callback in
// LineProcessor.Write must therefore pass string(trimCarriageReturn(r[:i]))
// where i = bytes.IndexByte(r, '\n') was found (≠ -1) — text up to the FIRST
// newline of r, which cannot contain one. (A fast path passing a whole chunk
// «minus its final newline» forwards embedded newlines to the log.)
func c44LinesHaveNoNewline(c *eng.Ctx) {
	fn := c.MustFunc("R6", streamPkg, "LineProcessor.Write")
	if fn == nil {
		return
	}
	n := 0
	for _, ci := range eng.Calls(fn) {
		cc := ci.Common()
		if cc.IsInvoke() || cc.StaticCallee() != nil {
			continue
		}
		u, ok := cc.Value.(*ssa.UnOp)
		if !ok || u.Op != token.MUL || eng.Render(cc.Value) != "p0.Callback" {
			continue
		}
		n++
		okArg := false
		if cv, ok := cc.Args[0].(*ssa.Convert); ok {
			var sl *ssa.Slice
			switch x := cv.X.(type) {
			case *ssa.Call:
				if eng.CalleeName(x) == "stream.trimCarriageReturn" {
					sl, _ = x.Call.Args[0].(*ssa.Slice)
				}
			case *ssa.Slice:
				sl = x
			}
			if sl != nil && sl.Low == nil {
				if idx, ok := sl.High.(*ssa.Call); ok && eng.CalleeName(idx) == "bytes.IndexByte" && idx.Call.Args[0] == sl.X && constIs(idx.Call.Args[1], '\n') {
					for _, a := range eng.Guards(ci) {
						b, ok := a.V.(*ssa.BinOp)
						if !ok || b.X != ssa.Value(idx) {
							continue
						}
						// «a newline was found»: idx != -1, written in any of its forms
						switch {
						case b.Op == token.EQL && constIs(b.Y, -1) && !a.Pos,
							b.Op == token.NEQ && constIs(b.Y, -1) && a.Pos,
							b.Op == token.LSS && constIs(b.Y, 0) && !a.Pos,
							b.Op == token.GEQ && constIs(b.Y, 0) && a.Pos:
							okArg = true
						}
					}
				}
			}
		}
		c.Check("R6", "callback-text-ends-before-first-newline", ci.Pos(), okArg, "what the line processor hands to its callback is the text before the first newline of the remaining data — it never contains a newline", eng.Render(cc.Args[0]))
	}
	if n < 1 {
		c.Problem("R6", "no callback invocation found in LineProcessor.Write")
	}
}
