package rules

import (
	"fmt"
	"strings"

	"golang.org/x/tools/go/ssa"

	"verif/sa/eng"
)

const (
	urlPkg     = "pkg/url"
	syncPkg    = "pkg/synchronization"
	fwdPkg     = "pkg/forwarding"
	svcSyncPkg = "pkg/service/synchronization"
	svcFwdPkg  = "pkg/service/forwarding"
)

func init() {
	eng.Register(&eng.Property{
		ID:       "C36",
		Title:    "Endpoint URL components are never treated as command-line options",
		Packages: []string{urlPkg, syncPkg, fwdPkg, svcSyncPkg, svcFwdPkg, "pkg/agent/transport/ssh", "pkg/agent/transport/docker", "pkg/synchronization/protocols/ssh", "pkg/synchronization/protocols/docker", "pkg/forwarding/protocols/ssh", "pkg/forwarding/protocols/docker"},
		Explanation: "Sanitise-then-use, decided on every path: " +
			"(R1) URL.EnsureValid returns nil for an SSH or Docker URL only on paths where the host's first byte was tested not to be '-' and the user is empty or its first byte was tested not to be '-' (path enumeration over the validator; the only components that reach ssh/scp/docker argv positionally); " +
			"(R2) every way a URL enters a controller passes that validator first: Session.EnsureValid (synchronization and forwarding) and the services' CreationSpecification.ensureValid return nil only under EnsureValid()==nil of both URLs; CreateRequest.ensureValid requires the specification's; the Create RPC handlers call Manager.Create only under request.ensureValid()==nil; loadSession uses the stored session only under session.EnsureValid()==nil; " +
			"(R3) the transports' user/host/container fields are written only by their constructors, and the constructors are called only by the protocol handlers with the URL's User/Host; (thorough) Manager.Create is called only by the service handlers. " +
			"(R4) inside the ssh/docker transports no value computed from a URL component is passed to strings.Split/Fields (word splitting would turn a user like «root --privileged» into options although it does not begin with a hyphen); " +
			"Not decided: quoting inside the remote shell command line (the agent path is not URL-derived), Windows argument quoting.",
		Assumptions: []string{"an argv element is option-like to ssh/scp/docker only if it begins with '-'", "user@host: with a non-empty validated user the host is not at the start of the element"},
		Run:         runC36,
	})
}

func runC36(c *eng.Ctx) {
	c36NoLexing(c)
	// R1: the validator.
	ev := c.MustFunc("R1", urlPkg, "URL.EnsureValid")
	if ev != nil {
		protos, err := c.P.ConstsOfType(urlPkg, "Protocol")
		if err != nil {
			c.Problem("R1", "%v", err)
		}
		paths := pathsToNilReturns(c, "R1", ev, 200000)
		hostDash := `^(\(p0\.Host\[0\] == 45\)|strings\.HasPrefix\(p0\.Host, "-"\))$`
		userDash := `^(\(p0\.User\[0\] == 45\)|strings\.HasPrefix\(p0\.User, "-"\))$`
		userEmpty := `^(\(p0\.User == ""\)|\(len\(p0\.User\) == 0\))$`
		for _, pn := range []string{"Protocol_SSH", "Protocol_Docker"} {
			pv, ok := protos[pn]
			if !ok {
				c.Problem("R1", "protocol constant %s not found", pn)
				continue
			}
			protoAtom := fmt.Sprintf(`^\(p0\.Protocol == %d:Protocol\)$`, pv)
			n := 0
			hostBad, userBad := 0, 0
			var sample string
			for _, p := range paths {
				if !pathHas(p, protoAtom, true) {
					continue
				}
				n++
				if !pathHas(p, hostDash, false) {
					hostBad++
					sample = atomsOf(p)
				}
				if !(pathHas(p, userDash, false) || pathHas(p, userEmpty, true)) {
					userBad++
					sample = atomsOf(p)
				}
			}
			c.Check("R1", pn+"/accepting-paths", ev.Pos(), n > 0, fmt.Sprintf("accepting paths for %s found: %d", pn, n))
			c.Check("R1", pn+"/host", ev.Pos(), n > 0 && hostBad == 0, "every accepting path tested that the host does not begin with '-'", fmt.Sprintf("%d of %d accepting paths lack the test; e.g. %s", hostBad, n, sample))
			c.Check("R1", pn+"/user", ev.Pos(), n > 0 && userBad == 0, "every accepting path tested that the user is empty or does not begin with '-'", fmt.Sprintf("%d of %d accepting paths lack the test; e.g. %s", userBad, n, sample))
		}
		c.Floor("R1", 6)
	}

	// R2: validators are applied on every entry path.
	ue := `\(\*url\.URL\)\.EnsureValid\(p0\.%s\)`
	type vf struct {
		pkg, fn string
		urls    []string
	}
	for _, v := range []vf{
		{syncPkg, "Session.EnsureValid", []string{"Alpha", "Beta"}},
		{fwdPkg, "Session.EnsureValid", []string{"Source", "Destination"}},
		{svcSyncPkg, "CreationSpecification.ensureValid", []string{"Alpha", "Beta"}},
		{svcFwdPkg, "CreationSpecification.ensureValid", []string{"Source", "Destination"}},
	} {
		fn := c.MustFunc("R2", v.pkg, v.fn)
		if fn == nil {
			continue
		}
		for _, u := range v.urls {
			requireAtNilReturns(c, "R2", eng.FuncName(fn)+"/"+u, fn, successAtom(fmt.Sprintf(ue, u)), true,
				"accepts only if the "+u+" URL passed URL.EnsureValid")
		}
	}
	for _, pk := range []string{svcSyncPkg, svcFwdPkg} {
		short := strings.TrimPrefix(pk, "pkg/")
		if fn := c.MustFunc("R2", pk, "CreateRequest.ensureValid"); fn != nil {
			requireAtNilReturns(c, "R2", eng.FuncName(fn)+"/spec", fn,
				successAtom(`\(\*`+eng.Q(short)+`\.CreationSpecification\)\.ensureValid\(p0\.Specification\)`), true,
				"a create request is accepted only if its specification is valid")
		}
		if fn := c.MustFunc("R2", pk, "Server.Create"); fn != nil {
			n := 0
			for _, call := range eng.Calls(fn) {
				if strings.HasSuffix(eng.CalleeName(call), ".Manager).Create") {
					n++
					callGuardedBy(c, "R2", eng.FuncName(fn)+"/create-after-validate", call,
						successAtom(`\(\*`+eng.Q(short)+`\.CreateRequest\)\.ensureValid\(p2\)`), true,
						"Manager.Create is reached only after the request validated")
					// The URLs passed are the validated specification's.
					args := call.Common().Args
					for i, a := range args {
						r := eng.Render(a)
						if strings.HasPrefix(eng.TypeShort(a.Type()), "*url.URL") {
							c.Check("R2", fmt.Sprintf("%s/url-arg%d", eng.FuncName(fn), i), call.Pos(), strings.HasPrefix(r, "p2.Specification."), "URL argument comes from the validated specification", r)
						}
					}
				}
			}
			if n == 0 {
				c.Problem("R2", "no Manager.Create call in %s", eng.FuncName(fn))
			}
		}
	}
	for _, pk := range []string{syncPkg, fwdPkg} {
		short := strings.TrimPrefix(pk, "pkg/")
		fn := c.MustFunc("R2", pk, "loadSession")
		if fn == nil {
			continue
		}
		// Every controller literal construction / goroutine start is guarded by session validity.
		re := successAtom(`\(\*` + eng.Q(short) + `\.Session\)\.EnsureValid\([^()]*\)`)
		n := 0
		eng.EachInstr(fn, func(i ssa.Instruction) {
			if g, ok := i.(*ssa.Go); ok {
				n++
				callGuardedBy(c, "R2", eng.FuncName(fn)+"/go", g, re, true, "the loaded session's run loop starts only after Session.EnsureValid succeeded")
			}
		})
		for _, r := range eng.Returns(fn) {
			if len(eng.RetResults(r)) == 2 && eng.IsNilConst(eng.RetResults(r)[1]) {
				n++
				callGuardedBy(c, "R2", eng.FuncName(fn)+"/return", r, re, true, "a loaded controller is returned only after Session.EnsureValid succeeded")
			}
		}
		if n == 0 {
			c.Problem("R2", "no exits found in %s", eng.FuncName(fn))
		}
	}
	c.Floor("R2", 18)

	// R3: transports.
	type tf struct {
		pkg, typ string
		fields   []string
	}
	for _, t := range []tf{
		{"pkg/agent/transport/ssh", "sshTransport", []string{"user", "host"}},
		{"pkg/agent/transport/docker", "dockerTransport", []string{"container", "user"}},
	} {
		for _, f := range t.fields {
			fld, err := c.P.Field(t.pkg, t.typ, f)
			if err != nil {
				c.Problem("R3", "%v", err)
				continue
			}
			stores := eng.StoresToField(c.P.ModuleFuncs(), fld)
			for _, st := range stores {
				ok := eng.FuncName(st.Fn) == strings.TrimPrefix(t.pkg, "pkg/")+".NewTransport"
				c.Check("R3", "field-writer:"+t.typ+"."+f, st.Store.Pos(), ok, "transport "+f+" is written only by the constructor", eng.FuncName(st.Fn))
				_, isParam := st.Store.Val.(*ssa.Parameter)
				c.Check("R3", "field-value:"+t.typ+"."+f, st.Store.Pos(), isParam, "the constructor stores its argument unchanged (no transformation after validation)", eng.Render(st.Store.Val))
			}
			if len(stores) == 0 {
				c.Problem("R3", "no store to %s.%s found", t.typ, f)
			}
		}
		ctor := c.MustFunc("R3", t.pkg, "NewTransport")
		if ctor == nil {
			continue
		}
		n := 0
		for _, fn := range c.P.ModuleFuncs() {
			for _, call := range eng.CallsTo(fn, ctor) {
				n++
				args := call.Common().Args
				a0, a1 := eng.Render(args[0]), eng.Render(args[1])
				ok := strings.HasSuffix(a0, ".User") && strings.HasSuffix(a1, ".Host") || strings.HasSuffix(a0, ".Host") && strings.HasSuffix(a1, ".User")
				ok = ok && strings.HasSuffix(eng.FuncName(fn), "protocolHandler).Connect")
				c.Check("R3", "ctor-call:"+eng.FuncName(fn), call.Pos(), ok, "transport constructors are called by protocol handlers with the URL's User/Host", a0+", "+a1)
			}
		}
		if n < 2 {
			c.Problem("R3", "expected ≥2 callers of %s.NewTransport, found %d", t.pkg, n)
		}
	}
	// Manager.Create callers.
	for _, pk := range []string{syncPkg, fwdPkg} {
		mc := c.MustFunc("R3", pk, "Manager.Create")
		if mc == nil {
			continue
		}
		for _, fn := range c.P.ModuleFuncs() {
			for _, call := range eng.CallsTo(fn, mc) {
				ok := strings.HasSuffix(eng.FuncName(fn), ".Server).Create")
				c.Check("R3", "manager-create-caller:"+eng.FuncName(fn), call.Pos(), ok, "Manager.Create is called only from the validating RPC handler", eng.FuncName(fn))
			}
		}
	}
	c.Floor("R3", 10)
}
