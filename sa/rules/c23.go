package rules

import (
	"fmt"
	"go/constant"
	"strings"

	"golang.org/x/tools/go/ssa"

	"verif/sa/eng"
)

func init() {
	eng.Register(&eng.Property{
		ID:       "C23",
		Title:    "Multiplexed streams deliver bytes reliably and in order",
		Packages: []string{muxPkg, ringPkg},
		Explanation: "(R1, lockset) Stream.receiveBuffer is touched only under receiveBufferLock, Stream.sendWindow only under sendWindowLock, Multiplexer.streams and nextOutboundStreamIdentifier only under streamLock (exceptions: constructors and writes to a stream not yet published, each listed with its reason); " +
			"(R2) Stream.Read returns the 'data remains' token to receiveBufferReady whenever the buffer is non-empty after the read — regardless of how many bytes this read consumed — and reports exactly the count the ring buffer returned; io.EOF is returned only from the default arm of a non-blocking receive on receiveBufferReady after the peer closed (so buffered data is always drained first); " +
			"(R3) every message a Stream method encodes or enqueues carries that stream's own identifier; " +
			"(R4) Stream.Write sends data[:w], advances by w and subtracts w from sendWindow — the same value w — under sendWindowLock; the data-block limit fits the 16-bit length field (maximumStreamDataBlockSize ≤ 65535) and the encoder writes len(data) in 16 bits; " +
			"(R5) the reader appends received data to the addressed stream's buffer with exactly the announced length, under that stream's lock, and signals readiness exactly when the buffer went from empty to non-empty; the close-write message is enqueued only after the write-deadline semaphore was taken (all writers drained). " +
			"(R6, initial window) a stream's send window starts as the receive window the peer advertised: Multiplexer.read stores the value decoded from the open/accept message (or hands exactly it to newStream, which initialises the field from that parameter and nothing else); other constructor callers pass zero; " +
			"(R7) in Multiplexer.enqueue the close-write case cancels no pending window increment (only a full close does, C24.R4): after a half-close the peer may still write and needs every credit for bytes already consumed; " +
			"Not decided: ordering/no-loss under schedules (needs execution), TCP-like semantics of the carrier.",
		Assumptions: []string{"ring.Buffer is a FIFO (C26)", "the carrier delivers bytes in order"},
		Run:         runC23,
	})
}

func runC23(c *eng.Ctx) {
	c23InitialWindow(c)
	c23HalfCloseKeepsCredits(c)
	unpublished := func(fa *ssa.FieldAddr) (bool, string) {
		base := eng.Unwrap(fa.X)
		if call, ok := base.(*ssa.Call); ok && eng.CalleeName(call) == "multiplexing.newStream" {
			return true, "the stream was created in this function and is not registered yet"
		}
		br := eng.Render(base)
		for _, a := range eng.Guards(fa) {
			if !a.Pos && a.Expr == "multiplexing.isClosed("+br+".established)" {
				return true, "the outbound stream is not established yet: OpenStream has not returned it to any user"
			}
		}
		return false, ""
	}
	locksetRuleX(c, "R1", []string{muxPkg},
		[]fieldGuard{
			{muxPkg, "Stream", "receiveBuffer", "receiveBufferLock", false},
			{muxPkg, "Stream", "sendWindow", "sendWindowLock", false},
			{muxPkg, "Multiplexer", "streams", "streamLock", false},
			{muxPkg, "Multiplexer", "nextOutboundStreamIdentifier", "streamLock", false},
		},
		[]lockExemption{
			{"multiplexing.newStream", "constructor: the stream is not shared yet"},
			{"multiplexing.Multiplex", "constructor: the multiplexer is not shared yet"},
		},
		map[string][]string{}, eng.DefaultLockOps(), unpublished)

	read := c.MustFunc("R2", muxPkg, "Stream.Read")
	write := c.MustFunc("R4", muxPkg, "Stream.Write")
	if read == nil || write == nil {
		return
	}
	// R2.
	var rb *ssa.Call
	for _, call := range eng.CallsNamed(read, "(*multiplexing/ring.Buffer).Read") {
		rb, _ = call.(*ssa.Call)
	}
	if rb == nil {
		c.Problem("R2", "Stream.Read does not read from the ring buffer")
	} else {
		// token return: a send on receiveBufferReady guarded exactly by Used() > 0
		fld, _ := c.P.Field(muxPkg, "Stream", "receiveBufferReady")
		n := 0
		for _, op := range eng.ChanOps(read) {
			if !op.Send || eng.ChanField(op.Chan) != fld {
				continue
			}
			n++
			g := eng.Guards(op.Instr)
			// guards after the ring read: only Used() > 0
			extra := 0
			usedOK := false
			for _, a := range g {
				if bi, ok := a.V.(ssa.Instruction); ok && bi.Block() != nil && rb.Block().Dominates(bi.Block()) && bi.Block() != rb.Block() || strings.Contains(a.Expr, ".Used(p0.receiveBuffer)") || strings.Contains(a.Expr, "Read(p0.receiveBuffer, p1)#0") {
					if a.Pos && a.Expr == "((*multiplexing/ring.Buffer).Used(p0.receiveBuffer) > 0)" {
						usedOK = true
					} else if strings.Contains(a.Expr, "Read(p0.receiveBuffer, p1)#0") {
						extra++
					}
				}
			}
			c.Check("R2", "token-returned-iff-data-remains", eng.InstrPos(op.Instr), usedOK && extra == 0, "the readiness token goes back whenever data remains, independent of this read's byte count", atomsShort(g))
		}
		if n != 1 {
			c.Problem("R2", "expected one readiness-token return in Stream.Read, found %d", n)
		}
		for _, r := range eng.Returns(read) {
			res := eng.RetResults(r)
			if eng.IsNilConst(res[1]) {
				c.Check("R2", "returns-ring-count", r.Pos(), eng.Render(res[0]) == eng.Render(rb)+"#0", "a successful read reports the ring buffer's count", eng.Render(res[0]))
			}
			if eng.Render(res[1]) == "io.EOF" {
				g := eng.Guards(r)
				ok := false
				for _, a := range g {
					if a.Pos && strings.HasPrefix(a.Expr, "(selectnb(recv:p0.receiveBufferReady)#0 == 0)") {
						ok = false
					}
					if !a.Pos && strings.HasPrefix(a.Expr, "(selectnb(recv:p0.receiveBufferReady)#0 == 0)") {
						ok = true
					}
				}
				peer := false
				for _, a := range g {
					if a.Pos && strings.HasPrefix(a.Expr, "(select(") && strings.Contains(a.Expr, "recv:p0.remoteClosed") {
						peer = true
					}
				}
				c.Check("R2", "eof-after-drain", r.Pos(), ok && peer, "io.EOF is returned only when the peer closed and no buffered data is ready", atomsShort(g))
			}
		}
	}

	// R3: identifiers.
	nid := 0
	for _, fn := range c.P.ModuleFuncs(muxPkg) {
		if !strings.HasPrefix(eng.FuncName(fn), "(*multiplexing.Stream).") && !(fn.Parent() != nil && strings.HasPrefix(eng.FuncName(fn.Parent()), "(*multiplexing.Stream).")) {
			continue
		}
		self := "p0.identifier"
		if fn.Parent() != nil {
			self = "*fv:s.identifier"
		}
		for _, call := range eng.Calls(fn) {
			n := eng.CalleeName(call)
			if strings.HasPrefix(n, "(*multiplexing.messageBuffer).encode") {
				nid++
				r := eng.Render(call.Common().Args[1])
				c.Check("R3", "encode-own-id:"+eng.FuncName(fn), call.Pos(), r == self || r == "fv:s.identifier", "a stream encodes messages with its own identifier", r)
			}
		}
		for _, op := range eng.ChanOps(fn) {
			if !op.Send {
				continue
			}
			f := eng.ChanField(op.Chan)
			if f == nil || !strings.HasPrefix(f.Name(), "enqueue") {
				continue
			}
			nid++
			r := eng.Render(op.Val)
			if lit := eng.LitOf(op.Val); lit != nil {
				if v := eng.LitFields(lit)["stream"]; v != nil {
					r = eng.Render(v)
				}
			}
			c.Check("R3", "enqueue-own-id:"+f.Name()+"@"+eng.FuncName(fn), eng.InstrPos(op.Instr), r == self || r == "fv:s.identifier" || strings.HasSuffix(r, "s.identifier"), "a stream enqueues control messages for its own identifier", r)
		}
	}
	if nid < 4 {
		c.Problem("R3", "expected ≥4 identifier-carrying sends in Stream methods, found %d", nid)
	}

	// R4.
	for _, call := range eng.CallsNamed(write, "(*multiplexing.messageBuffer).encodeStreamDataMessage") {
		sl, ok := call.Common().Args[2].(*ssa.Slice)
		if !ok || sl.High == nil {
			continue
		}
		w := sl.High
		// sendWindow -= w
		subOK, advOK := false, false
		eng.EachInstr(write, func(i ssa.Instruction) {
			if st, ok := i.(*ssa.Store); ok {
				if fa, ok := st.Addr.(*ssa.FieldAddr); ok && eng.FieldOf(fa).Name() == "sendWindow" {
					if b, ok := st.Val.(*ssa.BinOp); ok && b.Y == w && strings.HasSuffix(eng.Render(b.X), "p0.sendWindow") {
						subOK = true
					}
				}
			}
			if s2, ok := i.(*ssa.Slice); ok && s2.Low == w && s2.X == sl.X && s2.High == nil {
				advOK = true
			}
		})
		c.Check("R4", "window-debited-by-sent-amount", call.Pos(), subOK, "the send window is reduced by exactly the number of bytes sent")
		c.Check("R4", "data-advanced-by-sent-amount", call.Pos(), advOK, "the remaining data starts right after the bytes sent")
	}
	if v, _, err := c.P.Const(muxPkg, "maximumStreamDataBlockSize"); err == nil {
		x, _ := constant.Int64Val(constant.ToInt(v))
		c.Check("R4", "block-size-fits-length-field", write.Pos(), x > 0 && x <= 65535, "the largest data block fits the 16-bit length field on the wire", fmt.Sprint(x))
	} else {
		c.Problem("R4", "%v", err)
	}
	if enc := c.MustFunc("R4", muxPkg, "messageBuffer.encodeStreamDataMessage"); enc != nil {
		ok := false
		for _, call := range eng.CallsNamed(enc, "(*multiplexing.messageBuffer).writeUint16") {
			if eng.Render(call.Common().Args[1]) == "conv:uint16(len(p2))" {
				ok = true
			}
		}
		c.Check("R4", "length-field-is-len", enc.Pos(), ok, "the encoded length is len(data) in 16 bits")
	}
	c.Floor("R4", 4)

	// R5: reader side and close-write ordering.
	if rd := c.MustFunc("R5", muxPkg, "Multiplexer.read"); rd != nil {
		for _, call := range eng.CallsNamed(rd, "(*multiplexing/ring.Buffer).ReadNFrom") {
			a := call.Common().Args
			c.Check("R5", "append-announced-length", call.Pos(), strings.HasSuffix(eng.Render(a[0]), ".receiveBuffer") && strings.Contains(eng.Render(a[2]), "Uint16("), "received data is appended to the addressed stream's buffer with exactly the announced length", eng.Render(a[2])[:min(120, len(eng.Render(a[2])))])
		}
		fld, _ := c.P.Field(muxPkg, "Stream", "receiveBufferReady")
		for _, op := range eng.ChanOps(rd) {
			if op.Send && eng.ChanField(op.Chan) == fld {
				g := eng.Guards(op.Instr)
				ok := false
				for _, a := range g {
					if a.Pos && strings.Contains(a.Expr, ".Used(") && strings.Contains(a.Expr, " == ") {
						ok = true
					}
				}
				c.Check("R5", "ready-on-empty-to-nonempty", eng.InstrPos(op.Instr), ok, "readiness is signalled exactly when the buffer went from empty to non-empty (Used() == length just read)", atomsShort(g))
			}
		}
	}
	closeWriteAfterWriters(c, "R5")
	c.Floor("R5", 3)
}

// closeWriteAfterWriters: shared by C23.R5 and C24.R6 — a data message sent
// after the stream's close-write message is both a reordering (C23) and a
// protocol violation the peer tears the connection down for (C24).
func closeWriteAfterWriters(c *eng.Ctx, rule string) {
	if cw := c.MustFunc(rule, muxPkg, "Stream.closeWrite"); cw != nil {
		fldD, _ := c.P.Field(muxPkg, "Stream", "writeDeadline")
		fldE, _ := c.P.Field(muxPkg, "Multiplexer", "enqueueCloseWrite")
		for _, f := range eng.WithClosures(cw) {
			var recvI, sendI ssa.Instruction
			for _, op := range eng.ChanOps(f) {
				if !op.Send && eng.ChanField(op.Chan) == fldD {
					recvI = op.Instr
				}
				if op.Send && eng.ChanField(op.Chan) == fldE {
					sendI = op.Instr
				}
			}
			if sendI != nil {
				ok := recvI != nil && (recvI.Block().Dominates(sendI.Block()) && (recvI.Block() != sendI.Block() || eng.InstrIndex(recvI) < eng.InstrIndex(sendI)))
				c.Check(rule, "close-write-after-writers-drained", eng.InstrPos(sendI), ok, "the close-write message is enqueued only after the write-deadline semaphore was taken (no writer is mid-write)")
			}
		}
	}
}
