package rules

import (
	"strings"

	"golang.org/x/tools/go/ssa"

	"verif/sa/eng"
)

// c25CloseMessages (C25.R6): a peer blocked in Read (or waiting for the write
// side to end) returns only when it learns of the closure, so the close and
// close-write messages must be queued whenever the caller asked for them —
// conditional on nothing but the request flag. (A "the remote has already
// closed" shortcut that tests the wrong half leaves the peer blocked forever.)
// Also: Close and CloseWrite ask for the message.
func c25CloseMessages(c *eng.Ctx) {
	for _, it := range []struct{ closure, channel, flag, api, apiCallee string }{
		{"Stream.close$1", "enqueueClose", "sendCloseMessage", "Stream.Close", "(*multiplexing.Stream).close"},
		{"Stream.closeWrite$1", "enqueueCloseWrite", "sendCloseWriteMessage", "Stream.CloseWrite", "(*multiplexing.Stream).closeWrite"},
	} {
		fn := c.MustFunc("R6", muxPkg, it.closure)
		if fn == nil {
			continue
		}
		n := 0
		eng.EachInstr(fn, func(i ssa.Instruction) {
			sel, ok := i.(*ssa.Select)
			if !ok {
				return
			}
			sends := false
			for _, st := range sel.States {
				if strings.HasSuffix(eng.Render(st.Chan), ".multiplexer."+it.channel) {
					sends = true
				}
			}
			if !sends {
				return
			}
			n++
			g := eng.WithoutImplied(eng.Guards(sel))
			okG := len(g) == 1 && g[0].Pos && g[0].Expr == "*fv:"+it.flag
			escape := false
			for _, st := range sel.States {
				if strings.HasSuffix(eng.Render(st.Chan), ".multiplexer.closed") {
					escape = true
				}
			}
			c.Check("R6", it.channel+"/queued-whenever-requested", sel.Pos(), okG && sel.Blocking && escape, "the "+it.channel+" message is queued (blocking, with the multiplexer-closed escape) whenever it was requested — under no further condition", atomsShort(g))
		})
		if n != 1 {
			c.Problem("R6", "%s: expected one send on %s, found %d", it.closure, it.channel, n)
		}
		if api := c.MustFunc("R6", muxPkg, it.api); api != nil {
			asks := false
			for _, ci := range eng.CallsNamed(api, it.apiCallee) {
				if constBoolIs(ci.Common().Args[1], true) && len(eng.Guards(ci)) == 0 {
					asks = true
				}
			}
			c.Check("R6", it.api+"/requests-message", api.Pos(), asks, "the public method always requests the message")
		}
	}
	c.Floor("R6", 4)
}
