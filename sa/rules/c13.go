package rules

import (
	"fmt"
	"go/token"
	"strings"

	"golang.org/x/tools/go/ssa"

	"verif/sa/eng"
)

func init() {
	eng.Register(&eng.Property{
		ID:       "C13",
		Title:    "Accelerated scans equal full scans",
		Packages: []string{corePkg, localEPPkg},
		Explanation: "(R1, reuse keys — truth tables) scanner.file's cache-match flag is exactly cacheHit ∧ type-bits equal ∧ ModificationTime.Equal(cached) at full precision ∧ Size equal ∧ FileID equal, and the entry-reuse flag adds full Mode equality; the digest is reused only under the first flag (C12.R5) and the cache entry only under the second; " +
			"(R2, baseline reuse) a baseline subtree is stored into the new snapshot only where its content path was looked up in dirtyPaths and found clean (the dirty flag may be forced to true, never to false); the recursive scan of a dirty child receives that child's own baseline (baseline.Contents[name], nil unless a directory), never the parent's; a reused file without a cache entry is an error; scanner.directory passes its baseline to no other function (that reuse site is the only door for baseline content); " +
			"(R3, dirty closure) Scan marks every recheck path and each of its ancestors: the loop stores dirtyPaths[path]=true before testing path==\"\" and steps with fastpath.Dir; " +
			"(R4) the whole-baseline shortcut returns the baseline only under baseline≠nil (after invalidation against root kind and probed behaviours) ∧ len(recheckPaths)==0; " +
			"(R5) the endpoint resets recheckPaths only on the success edge of the accelerated scan it passed them to, and passes its own snapshot/recheckPaths/cache/ignoreCache to core.Scan; full scans pass nil baseline and nil recheck paths. " +
			"(R2 additions) no child entry taken out of the baseline is passed to any function but the recursive scan and the carry-over walk of a reused subtree; the new digest cache is filled only by scanner.file (for the file just examined) and by that carry-over walk — never by copying the old cache wholesale; " +
			"Not decided: equality of accelerated and cold snapshots over edit histories; completeness of watcher reports.",
		Assumptions: []string{"every content change alters size, mtime, identity or type (the property's own premise)"},
		Run:         runC13,
	})
}

func runC13(c *eng.Ctx) {
	file := c.MustFunc("R1", corePkg, "scanner.file")
	dir := c.MustFunc("R2", corePkg, "scanner.directory")
	scan := c.MustFunc("R3", corePkg, "Scan")
	if file == nil || dir == nil || scan == nil {
		return
	}
	// R1: find the two flag phis by their use: the first guards the digest choice, the second the cache reuse.
	var reuseUpdate *ssa.MapUpdate
	eng.EachInstr(file, func(i ssa.Instruction) {
		if mu, ok := i.(*ssa.MapUpdate); ok && eng.Render(mu.Map) == "p0.newCache.Entries" {
			if strings.HasPrefix(eng.Render(mu.Value), "lookupok(p0.cache.Entries,p1)#0") {
				reuseUpdate = mu
			}
		}
	})
	if reuseUpdate == nil {
		c.Problem("R1", "cache-entry reuse store not found in scanner.file")
	} else {
		g := eng.Guards(reuseUpdate)
		var reusable *ssa.Phi
		for _, a := range g {
			if phi, ok := a.V.(*ssa.Phi); ok && a.Pos {
				reusable = phi
			}
		}
		if reusable == nil {
			c.Problem("R1", "cache-entry reuse is not guarded by a computed flag: %s", eng.AtomsText(g))
		} else {
			be, err := eng.BoolExprOf(reusable)
			if err != nil {
				c.Problem("R1", "%v", err)
			} else {
				atoms := be.AtomNames()
				find := func(sub ...string) string {
					for _, a := range atoms {
						ok := true
						for _, s := range sub {
							if !strings.Contains(a, s) {
								ok = false
							}
						}
						if ok {
							return a
						}
					}
					return "<missing:" + strings.Join(sub, "+") + ">"
				}
				hit := find("lookupok(p0.cache.Entries,p1)#1")
				typ := find(".Mode & ", ") == (")
				mt := find("(time.Time).Equal(", ".ModificationTime", "AsTime(")
				sz := find(".Size == ", "#0.Size")
				id := find(".FileID == ", "#0.FileID")
				var mode string
				for _, a := range atoms {
					if strings.Contains(a, ".Mode == ") && !strings.Contains(a, " & ") {
						mode = a
					}
				}
				spec := []string{hit, typ, mt, sz, id, mode}
				eq, cex, err := eng.TruthTableEqual(be, spec, func(e map[string]bool) bool { return e[hit] && e[typ] && e[mt] && e[sz] && e[id] && e[mode] })
				if err != nil {
					c.Problem("R1", "%v", err)
				} else {
					c.Check("R1", "entry-reuse-flag", reusable.Pos(), eq && mode != "", "cache-entry reuse ⇔ hit ∧ type ∧ mtime(full precision) ∧ size ∧ file-id ∧ mode [truth table]", fmt.Sprintf("atoms=%d counterexample=%v", len(atoms), cex))
				}
				// the content-match flag: the same without the mode atom; it is the phi tested for the digest choice
				var match *ssa.Phi
				eng.EachInstr(file, func(i ssa.Instruction) {
					if iff, ok := i.(*ssa.If); ok {
						if phi, ok := iff.Cond.(*ssa.Phi); ok && phi != reusable && strings.Contains(eng.Render(phi), ".FileID == ") {
							match = phi
						}
					}
				})
				if match == nil {
					c.Problem("R1", "content-match flag not found")
				} else if mb, err := eng.BoolExprOf(match); err == nil {
					eq, cex, _ := eng.TruthTableEqual(mb, []string{hit, typ, mt, sz, id}, func(e map[string]bool) bool { return e[hit] && e[typ] && e[mt] && e[sz] && e[id] })
					c.Check("R1", "content-match-flag", match.Pos(), eq, "digest reuse ⇔ hit ∧ type ∧ mtime(full precision) ∧ size ∧ file-id [truth table]", fmt.Sprintf("atoms=%v counterexample=%v", len(mb.AtomNames()), cex))
				}
			}
		}
	}
	c.Floor("R1", 2)

	// R2.
	var reuse *ssa.MapUpdate
	eng.EachInstr(dir, func(i ssa.Instruction) {
		if mu, ok := i.(*ssa.MapUpdate); ok {
			if phi, ok := mu.Value.(*ssa.Phi); ok && isChildBaseline(phi, map[ssa.Value]bool{}) {
				reuse = mu
			}
		}
	})
	if reuse == nil {
		c.Problem("R2", "baseline reuse store not found in scanner.directory")
	} else {
		base := reuse.Value.(*ssa.Phi)
		g := eng.Guards(reuse)
		// dirty flag: a negative atom on a phi whose edges are the dirtyPaths lookup and constant true only
		okDirty := false
		for _, a := range g {
			if a.Pos {
				continue
			}
			vals := []ssa.Value{a.V}
			if phi, ok := a.V.(*ssa.Phi); ok {
				vals = phi.Edges
			}
			lookup, bad := false, false
			for _, v := range vals {
				if lk, ok := v.(*ssa.Lookup); ok && eng.Render(lk.X) == "p0.dirtyPaths" {
					// key must be the content path of this child
					if strings.Contains(eng.Render(lk.Index), " + ") {
						lookup = true
					} else {
						bad = true
					}
				} else if cv, ok := eng.ConstBool(v); ok {
					if !cv {
						bad = true
					}
				} else {
					bad = true
				}
			}
			if lookup && !bad {
				okDirty = true
			}
		}
		c.Check("R2", "reuse-only-if-clean", reuse.Pos(), okDirty, "a baseline subtree is reused only if dirtyPaths[contentPath] is false (the flag can only be forced to true)", atomsShort(g))
		c.Check("R2", "reuse-non-nil-directory", reuse.Pos(), eng.HasAtom(g, `^\(`+eng.Q(eng.Render(base))+` == nil\)$`, false), "only an existing directory baseline is reused")
		// child baseline = baseline.Contents[contentName] or nil, keyed by the same name as the store
		okBase := true
		var checkKey func(x ssa.Value, seen map[ssa.Value]bool)
		checkKey = func(x ssa.Value, seen map[ssa.Value]bool) {
			if seen[x] {
				return
			}
			seen[x] = true
			switch y := x.(type) {
			case *ssa.Phi:
				for _, e := range y.Edges {
					checkKey(e, seen)
				}
			case *ssa.Lookup:
				if y.Index != reuse.Key && eng.Render(y.Index) != eng.Render(reuse.Key) {
					okBase = false
				}
			}
		}
		checkKey(base, map[ssa.Value]bool{})
		c.Check("R2", "child-baseline-by-name", reuse.Pos(), okBase, "the child's baseline is the parent's baseline entry of the same name (or nil)", eng.Render(base)[:min(200, len(eng.Render(base)))])
		// recursive call gets that same value
		for _, call := range eng.CallsTo(dir, dir) {
			a := call.Common().Args[5]
			c.Check("R2", "recursion-gets-child-baseline", call.Pos(), a == ssa.Value(base), "a dirty child directory is rescanned against its own baseline, not the parent's", eng.Render(a)[:min(160, len(eng.Render(a)))])
		}
	}
	// missing cache entries → error
	okMissing := false
	for _, r := range eng.Returns(dir) {
		res := eng.RetResults(r)
		if eng.IsNilConst(res[0]) && !eng.IsNilConst(res[1]) {
			for _, a := range eng.Guards(r) {
				if a.Pos && strings.Contains(a.Expr, "missingCacheEntries") {
					okMissing = true
				}
			}
		}
	}
	c.Check("R2", "reused-file-needs-cache-entry", dir.Pos(), okMissing, "reusing a baseline file that has no cache entry fails the scan")
	// who may fill the new digest cache: scanner.file for the file it has just
	// examined, and the walk over a reused subtree for the files of that subtree —
	// nothing copies the old cache wholesale (entries of paths that no longer
	// exist would survive and vouch for a later file at the same path)
	nFill := 0
	for _, fn := range c.P.ModuleFuncs(corePkg) {
		eng.EachInstr(fn, func(i ssa.Instruction) {
			mu, ok := i.(*ssa.MapUpdate)
			if !ok || !strings.HasSuffix(eng.TypeShort(mu.Map.Type()), "core.CacheEntry") {
				return
			}
			nFill++
			name := eng.FuncName(fn)
			okSite := name == "(*synchronization/core.scanner).file" || (fn.Parent() != nil && eng.FuncName(fn.Parent()) == "(*synchronization/core.scanner).directory")
			c.Check("R2", "new-cache-filled-per-file@"+name, mu.Pos(), okSite, "the new digest cache receives entries only for files scanned now or carried over with a reused subtree", name)
		})
	}
	if nFill < 2 {
		c.Problem("R2", "expected the two fill sites of the new digest cache, found %d", nFill)
	}
	// the reuse site above is the ONLY door through which baseline content
	// enters the new snapshot: scanner.directory hands its baseline to no other
	// function (a helper that swaps freshly scanned entries for baseline ones
	// would bypass the clean-path test)
	if len(dir.Params) > 5 {
		var leaks []string
		for _, ref := range *dir.Params[5].Referrers() {
			if call, ok := ref.(ssa.CallInstruction); ok {
				for _, a := range call.Common().Args {
					if a == ssa.Value(dir.Params[5]) {
						leaks = append(leaks, eng.CalleeName(call))
					}
				}
			}
		}
		// … nor a child entry taken out of it, except to the recursive scan of that
		// child (a baseline FILE entry handed to scanner.file could be returned in
		// place of a fresh one without the clean-path test)
		for _, call := range eng.Calls(dir) {
			if eng.Callee(call) == dir || eng.CalleeName(call) == "(*synchronization/core.Entry).walk" {
				continue // the recursive scan; the walk over a REUSED subtree that carries its cache entries over
			}
			for _, a := range call.Common().Args {
				v := eng.Unwrap(a)
				isChild := false
				if lk, ok := v.(*ssa.Lookup); ok && strings.Contains(eng.Render(lk.X), "p5") {
					isChild = true
				}
				if phi, ok := v.(*ssa.Phi); ok && strings.HasSuffix(eng.TypeShort(phi.Type()), "core.Entry") && isChildBaseline(phi, map[ssa.Value]bool{}) {
					isChild = true
				}
				if isChild {
					leaks = append(leaks, eng.CalleeName(call)+" ← child of the baseline")
				}
			}
		}
		c.Check("R2", "baseline-read-only-at-the-reuse-site", dir.Pos(), len(leaks) == 0, "the parent's baseline is not passed to any other function from scanner.directory", strings.Join(leaks, ", "))
	}
	c.Floor("R2", 5)

	// R3: dirty closure in Scan.
	var dirty *ssa.MakeMap
	eng.EachInstr(scan, func(i ssa.Instruction) {
		if mm, ok := i.(*ssa.MakeMap); ok && eng.TypeShort(mm.Type()) == "map[string]bool" {
			dirty = mm
		}
	})
	if dirty == nil {
		c.Problem("R3", "dirtyPaths map not found in Scan")
	} else {
		n := 0
		eng.EachInstr(scan, func(i ssa.Instruction) {
			mu, ok := i.(*ssa.MapUpdate)
			if !ok || mu.Map != ssa.Value(dirty) {
				return
			}
			n++
			v, isC := eng.ConstBool(mu.Value)
			c.Check("R3", "mark-true", mu.Pos(), isC && v, "paths are only ever marked dirty")
			// key: phi(recheck path | fastpath.Dir(key))
			phi, ok := mu.Key.(*ssa.Phi)
			okKey := false
			if ok {
				hasRange, hasDir := false, false
				for _, e := range phi.Edges {
					r := eng.Render(e)
					if strings.HasPrefix(r, "next(range(p3))#1") {
						hasRange = true
					}
					if call, ok := e.(*ssa.Call); ok && eng.CalleeName(call) == "synchronization/core/fastpath.Dir" && call.Call.Args[0] == ssa.Value(phi) {
						hasDir = true
					}
				}
				okKey = hasRange && hasDir && len(phi.Edges) == 2
			}
			c.Check("R3", "closure-key", mu.Pos(), okKey, "the marked path starts at each recheck path and climbs with fastpath.Dir", eng.Render(mu.Key)[:min(160, len(eng.Render(mu.Key)))])
			// the mark happens before the root test: the block of the update ends with If (key == "")
			iff, isIf := mu.Block().Instrs[len(mu.Block().Instrs)-1].(*ssa.If)
			okOrder := false
			if isIf {
				if b, ok := iff.Cond.(*ssa.BinOp); ok && b.Op == token.EQL && b.X == mu.Key {
					if s, ok := eng.ConstString(b.Y); ok && s == "" {
						okOrder = true
					}
				}
			}
			c.Check("R3", "mark-before-root-test", mu.Pos(), okOrder, "a path is marked before the loop tests for the root (so the root itself is marked)")
		})
		if n != 1 {
			c.Problem("R3", "expected one dirtyPaths store, found %d", n)
		}
		// scanner receives that map
		eng.EachInstr(scan, func(i ssa.Instruction) {
			if st, ok := i.(*ssa.Store); ok {
				if fa, ok := st.Addr.(*ssa.FieldAddr); ok && eng.FieldOf(fa).Name() == "dirtyPaths" {
					okv := false
					if phi, ok := st.Val.(*ssa.Phi); ok {
						for _, e := range phi.Edges {
							if e == ssa.Value(dirty) {
								okv = true
							}
						}
					}
					c.Check("R3", "scanner-gets-closure", st.Pos(), okv || st.Val == ssa.Value(dirty), "the scanner works with the computed closure")
				}
			}
		})
	}

	// R4.
	for _, r := range eng.Returns(scan) {
		res := eng.RetResults(r)
		rv := eng.Render(res[0])
		if !strings.Contains(rv, "p2") || !eng.IsNilConst(res[3]) {
			continue
		}
		if _, isAlloc := eng.Unwrap(res[0]).(*ssa.Alloc); isAlloc {
			continue
		}
		g := eng.Guards(r)
		c.Check("R4", "shortcut-needs-empty-recheck", r.Pos(), eng.HasAtom(g, `^\(len\(p3\) == 0\)$`, true), "the whole baseline is returned only if there is nothing to recheck", atomsShort(g))
		c.Check("R4", "shortcut-needs-baseline", r.Pos(), eng.HasAtom(g, `^\(`+eng.Q(rv)+` == nil\)$`, false), "… and a (still valid) baseline exists")
		// the returned value is the baseline after invalidation: a phi of p2 and nil
		if phi, ok := res[0].(*ssa.Phi); ok {
			okInv := false
			for i, e := range phi.Edges {
				if eng.IsNilConst(e) {
					// nil edge is taken under the invalidation flag
					as := eng.GuardsOfBlock(phi.Block().Preds[i])
					for _, a := range as {
						if !a.Pos {
							continue
						}
						be, err := eng.BoolExprOf(a.V)
						if err != nil {
							continue
						}
						names := strings.Join(be.AtomNames(), " ")
						if strings.Contains(names, "p2.Content == nil") && strings.Contains(names, "p2.Content.Kind == ") && strings.Contains(names, "p2.PreservesExecutability == ") && strings.Contains(names, "p2.DecomposesUnicode == ") {
							okInv = true
						}
					}
				}
			}
			c.Check("R4", "baseline-invalidated-on-behaviour-change", r.Pos(), okInv, "the baseline is dropped when root kind or probed filesystem behaviours changed")
		}
	}

	// R5: endpoint.
	ep := c.MustFunc("R5", localEPPkg, "endpoint.Scan")
	es := c.MustFunc("R5", localEPPkg, "endpoint.scan")
	if ep != nil && es != nil {
		for _, call := range eng.CallsNamed(es, "synchronization/core.Scan") {
			a := call.Common().Args
			want := []string{"", "p0.root", "p2", "p3", "p0.hasher", "p0.cache", "p0.ignorer", "p0.ignoreCache"}
			ok := true
			for i := 1; i < len(want); i++ {
				if eng.Render(a[i]) != want[i] {
					ok = false
				}
			}
			c.Check("R5", "scan-arguments", call.Pos(), ok, "core.Scan receives the endpoint's root, the given baseline/recheck set, and the endpoint's own cache and ignore cache", eng.RenderCall(call.Common())[:min(200, len(eng.RenderCall(call.Common())))])
		}
		for _, call := range eng.CallsTo(ep, es) {
			a := call.Common().Args
			b, r := eng.Render(a[2]), eng.Render(a[3])
			g := eng.Guards(call)
			if eng.IsNilConst(a[2]) {
				c.Check("R5", "full-scan-args", call.Pos(), eng.IsNilConst(a[3]), "a full scan uses neither baseline nor recheck paths", r)
				continue
			}
			c.Check("R5", "accelerated-scan-args", call.Pos(), b == "p0.snapshot" && r == "p0.recheckPaths", "an accelerated scan uses the endpoint's own snapshot and recheck set", b+", "+r)
			c.Check("R5", "accelerated-only-when-allowed", call.Pos(), eng.HasAtom(g, `^p0\.accelerate$`, true) && eng.HasAtom(g, `^p3$`, false), "acceleration requires the accelerate flag and a non-full request", atomsShort(g))
		}
		eng.EachInstr(ep, func(i ssa.Instruction) {
			if st, ok := i.(*ssa.Store); ok {
				if fa, ok := st.Addr.(*ssa.FieldAddr); ok && eng.FieldOf(fa).Name() == "recheckPaths" {
					g := eng.Guards(st)
					c.Check("R5", "recheck-reset-on-success", st.Pos(), eng.HasAtom(g, `^\(\(\*synchronization/endpoint/local\.endpoint\)\.scan\(p0, p1, p0\.snapshot, p0\.recheckPaths\) == nil\)$`, true), "the recheck set is cleared only after the accelerated scan that consumed it succeeded", atomsShort(g))
				}
			}
		})
	}
	c.Floor("R5", 4)
}

// isChildBaseline: every leaf of the phi tree is nil or baseline.Contents[…]
// (p5 is scanner.directory's baseline parameter), with at least one lookup.
func isChildBaseline(v ssa.Value, seen map[ssa.Value]bool) bool {
	lookups := 0
	var walk func(x ssa.Value) bool
	walk = func(x ssa.Value) bool {
		if seen[x] {
			return true
		}
		seen[x] = true
		switch y := x.(type) {
		case *ssa.Phi:
			for _, e := range y.Edges {
				if !walk(e) {
					return false
				}
			}
			return true
		case *ssa.Const:
			return y.Value == nil
		case *ssa.Lookup:
			if eng.Render(y.X) == "p5.Contents" {
				lookups++
				return true
			}
		}
		return false
	}
	return walk(v) && lookups > 0
}
