package rules

import (
	"fmt"
	"go/token"
	"strings"

	"golang.org/x/tools/go/ssa"

	"verif/sa/eng"
)

const ringPkg = "pkg/multiplexing/ring"

func init() {
	eng.Register(&eng.Property{
		ID:       "C26",
		Title:    "The ring buffer behaves as a bounded FIFO byte queue",
		Packages: []string{ringPkg},
		Explanation: "Index arithmetic and accounting of ring.Buffer decided on every path (structural necessary conditions of FIFO behaviour, not the FIFO equivalence itself): " +
			"(R1) every `% size` is dominated by used≠size or used>0 (so size≠0); " +
			"(R2, exact accounting) in every transfer loop the amount added to/subtracted from `used`, added to `start` and added to the returned count is one and the same SSA value — the count returned by copy / reader.Read / writer.Write — and the accounting happens in the very block of that call (no exit between the I/O and its accounting, so short reads/writes with an error are still accounted); " +
			"(R3) every advance of `start` is followed in the same block by `start %= size`; the only other store is the constant 0 under used==0; " +
			"(R4) ErrBufferFull is returned only under used==size and io.EOF (from the buffer itself) only under used==0; " +
			"(R5) windows: writers fill storage[(start+used)%size : min(that+(size-used), size)], readers drain storage[start : min(start+used, size)]; byte operations index (start+used)%size and start. " +
			"(R6) inside a loop that changes used/start, no bound is computed from a value of used/start that was read before the loop (a hoisted free-space count is stale after the first partial read and lets a later segment run into unread data); " +
			"Not decided: equivalence with a queue model over operation sequences.",
		Assumptions: []string{"copy returns the number of bytes copied; io.Reader/io.Writer counts are within the slice length"},
		Run:         runC26,
	})
}

func runC26(c *eng.Ctx) {
	c26FreshOccupancy(c)
	fns := c.P.ModuleFuncs(ringPkg)
	isFieldLoad := func(v ssa.Value, field string) bool {
		u, ok := v.(*ssa.UnOp)
		if !ok || u.Op != token.MUL {
			return false
		}
		f := eng.FieldOf(u.X)
		return f != nil && f.Name() == field
	}
	nRem, nAcc, nNorm := 0, 0, 0
	foldedNorm := map[*ssa.BasicBlock]bool{}
	for _, fn := range fns {
		if !strings.HasPrefix(eng.FuncName(fn), "(*multiplexing/ring.Buffer).") {
			continue
		}
		c.Analysed(fn)
		short := strings.TrimPrefix(eng.FuncName(fn), "(*multiplexing/ring.Buffer).")
		eng.EachInstr(fn, func(i ssa.Instruction) {
			// R1
			if b, ok := i.(*ssa.BinOp); ok && b.Op == token.REM {
				nRem++
				g := eng.Guards(b)
				ok := eng.HasAtom(g, `^\(p0\.used == p0\.size\)$`, false) || eng.HasAtom(g, `^\(p0\.used > 0\)$`, true) || eng.HasAtom(g, `^\(p0\.used == 0\)$`, false)
				c.Check("R1", fmt.Sprintf("mod-guarded:%s#%d", short, nRem), b.Pos(), ok && isFieldLoad(b.Y, "size"), "the modulus is taken by `size` only where the buffer is known to be non-degenerate", atomsShort(g))
			}
		})
		// R2/R3 per block
		for _, blk := range fn.Blocks {
			var usedDelta ssa.Value
			var usedStore *ssa.Store
			var startAdds []ssa.Value
			startStores := storesTo(blk, "start")
			for _, st := range storesTo(blk, "used") {
				if b, ok := st.Val.(*ssa.BinOp); ok && (b.Op == token.ADD || b.Op == token.SUB) && isFieldLoad(b.X, "used") {
					usedDelta, usedStore = b.Y, st
				}
			}
			for _, st := range startStores {
				if b, ok := st.Val.(*ssa.BinOp); ok && b.Op == token.ADD && isFieldLoad(b.X, "start") {
					startAdds = append(startAdds, b.Y)
				}
				// folded form: start = (start + k) % size
				if b, ok := st.Val.(*ssa.BinOp); ok && b.Op == token.REM && isFieldLoad(b.Y, "size") {
					if ad, ok := b.X.(*ssa.BinOp); ok && ad.Op == token.ADD && isFieldLoad(ad.X, "start") {
						startAdds = append(startAdds, ad.Y)
						foldedNorm[blk] = true
					}
				}
			}
			if usedStore == nil {
				continue
			}
			if _, isConst := eng.ConstInt64(usedDelta); isConst {
				// byte operations: ±1
				v, _ := eng.ConstInt64(usedDelta)
				c.Check("R2", "byte-accounting:"+short, usedStore.Pos(), v == 1 && (len(startAdds) == 0 || constIs(startAdds[0], 1)), "a byte operation moves used (and start) by exactly one")
			} else {
				nAcc++
				// the delta is an I/O count defined in this block
				def, _ := usedDelta.(ssa.Instruction)
				src := eng.Render(usedDelta)
				isCount := strings.HasPrefix(src, "copy(") || strings.HasSuffix(src, "#0") && (strings.HasPrefix(src, "invoke:Read(") || strings.HasPrefix(src, "invoke:Write("))
				c.Check("R2", "delta-is-io-count:"+short, usedStore.Pos(), isCount, "`used` changes by the count the copy/read/write reported", src)
				sameBlock := def != nil && def.Block() == blk
				if ex, ok := usedDelta.(*ssa.Extract); ok {
					if tup, ok := ex.Tuple.(ssa.Instruction); ok {
						sameBlock = tup.Block() == blk
					}
				}
				c.Check("R2", "accounted-immediately:"+short, usedStore.Pos(), sameBlock, "the transfer is accounted in the same block as the I/O call (no early exit in between, e.g. on a short write with error)")
				for _, sa := range startAdds {
					c.Check("R2", "start-same-amount:"+short, usedStore.Pos(), sa == usedDelta, "`start` advances by the same amount", eng.Render(sa))
				}
				// result accumulator: a BinOp ADD in this block whose operand is the delta (possibly converted)
				resOK := false
				for _, in := range blk.Instrs {
					if b, ok := in.(*ssa.BinOp); ok && b.Op == token.ADD {
						y := b.Y
						if cv, ok := y.(*ssa.Convert); ok {
							y = cv.X
						}
						if _, isPhi := b.X.(*ssa.Phi); isPhi && y == usedDelta {
							resOK = true
						}
					}
				}
				c.Check("R2", "result-same-amount:"+short, usedStore.Pos(), resOK, "the returned count grows by the same amount")
			}
			// R3
			if len(startAdds) > 0 {
				nNorm++
				last := startStores[len(startStores)-1]
				norm := false
				if b, ok := last.Val.(*ssa.BinOp); ok && b.Op == token.REM && isFieldLoad(b.X, "start") && isFieldLoad(b.Y, "size") {
					norm = true
				}
				if foldedNorm[blk] {
					norm = true // advanced and reduced in one expression
				}
				c.Check("R3", "start-normalised:"+short, last.Pos(), norm, "after advancing, start is reduced modulo size in the same block", eng.Render(last.Val))
			}
		}
		// other stores to start: constant 0 under used == 0 (or Reset)
		eng.EachInstr(fn, func(i ssa.Instruction) {
			st, ok := i.(*ssa.Store)
			if !ok {
				return
			}
			if fa, ok := st.Addr.(*ssa.FieldAddr); !ok || eng.FieldOf(fa).Name() != "start" {
				return
			}
			if v, isC := eng.ConstInt64(st.Val); isC {
				g := eng.Guards(st)
				c.Check("R3", "start-reset:"+short, st.Pos(), v == 0 && (short == "Reset" || eng.HasAtom(g, `^\(p0\.used == 0\)$`, true)), "start is reset to 0 only when the buffer is empty", atomsShort(g))
			}
		})
		// R4
		for _, r := range eng.Returns(fn) {
			res := eng.RetResults(r)
			if len(res) == 0 || !isErrorType(res[len(res)-1].Type()) {
				continue
			}
			ev := res[len(res)-1]
			check := func(v ssa.Value, g []eng.Atom, where string) {
				switch eng.Render(v) {
				case "multiplexing/ring.ErrBufferFull":
					c.Check("R4", "full-only-when-full:"+short+where, r.Pos(), eng.HasAtom(g, `^\(p0\.used == p0\.size\)$`, true), "ErrBufferFull is reported only when used == size", atomsShort(g))
				case "io.EOF":
					c.Check("R4", "eof-only-when-empty:"+short+where, r.Pos(), eng.HasAtom(g, `^\(p0\.used == 0\)$`, true), "io.EOF is produced by the buffer only when it is empty", atomsShort(g))
				}
			}
			if phi, ok := ev.(*ssa.Phi); ok {
				for i, e := range phi.Edges {
					pred := phi.Block().Preds[i]
					g := eng.GuardsOfBlock(pred)
					check(e, g, "/phi")
				}
			} else {
				check(ev, eng.Guards(r), "")
			}
		}
		// R5
		eng.EachInstr(fn, func(i ssa.Instruction) {
			sl, ok := i.(*ssa.Slice)
			if !ok || eng.Render(sl.X) != "p0.storage" || sl.Low == nil || sl.High == nil {
				return
			}
			lo, hi := eng.Render(sl.Low), eng.Render(sl.High)
			switch short {
			case "Write", "ReadNFrom":
				ok := lo == "((p0.start + p0.used) % p0.size)" && hi == "multiplexing/ring.min(("+lo+" + (p0.size - p0.used)), p0.size)"
				c.Check("R5", "free-window:"+short, sl.Pos(), ok, "writers fill exactly the free window after the queued data", lo+" : "+hi)
			case "Read", "WriteTo":
				ok := lo == "p0.start" && hi == "multiplexing/ring.min((p0.start + p0.used), p0.size)"
				c.Check("R5", "data-window:"+short, sl.Pos(), ok, "readers drain exactly the queued window from start", lo+" : "+hi)
			}
		})
		if short == "WriteByte" || short == "ReadByte" {
			eng.EachInstr(fn, func(i ssa.Instruction) {
				ia, ok := i.(*ssa.IndexAddr)
				if !ok || eng.Render(ia.X) != "p0.storage" {
					return
				}
				want := "p0.start"
				if short == "WriteByte" {
					want = "((p0.start + p0.used) % p0.size)"
				}
				c.Check("R5", "byte-index:"+short, ia.Pos(), eng.Render(ia.Index) == want, "the byte operation touches "+want, eng.Render(ia.Index))
			})
		}
	}
	if nRem < 6 || nAcc < 4 || nNorm < 3 {
		c.Problem("R1", "ring buffer shapes incomplete: modulus sites=%d accounting blocks=%d normalisations=%d", nRem, nAcc, nNorm)
	}
	c.Floor("R5", 6)
	c.Floor("R4", 4)
}

func storesTo(b *ssa.BasicBlock, field string) []*ssa.Store {
	var out []*ssa.Store
	for _, st := range storesInBlock(b) {
		if fa, ok := st.Addr.(*ssa.FieldAddr); ok && eng.FieldOf(fa).Name() == field {
			out = append(out, st)
		}
	}
	return out
}

func constIs(v ssa.Value, k int64) bool {
	x, ok := eng.ConstInt64(v)
	return ok && x == k
}
