package rules

import (
	"fmt"
	"regexp"
	"sort"
	"strings"

	"golang.org/x/tools/go/ssa"

	"verif/sa/eng"
)

const (
	encodingPkg    = "pkg/encoding"
	compressionPkg = "pkg/synchronization/compression"
)

func init() {
	eng.Register(&eng.Property{
		ID:       "C22",
		Title:    "Control-stream framing delivers every flushed message intact",
		Packages: []string{encodingPkg, streamPkg, compressionPkg, remotePkg},
		Explanation: "(R1, flush chain — value provenance) on both the client and the server the multi-flusher is given (outbound buffer, compressor, compressed buffer) where the outbound buffer writes into that compressor and the compressor into that compressed buffer, so flushing in argument order pushes every byte to the transport; the encoder writes to the outbound buffer and the decoder reads from the buffered decompressor of the buffered transport; multiFlusher.Flush stops at and returns the first error and reports success only after all flushers succeeded; " +
			"(R2) ProtobufDecoder.Decode allocates and reads a message only if the declared length — compared as the unsigned 64-bit value read from the wire, before any conversion — is not above the limit constant; it then reads exactly that many bytes with ReadFull and unmarshals exactly them; " +
			"(R3) ProtobufEncoder.Encode appends the varint of the message's size and then the marshalled message to one buffer and hands it to the writer in a single Write; the buffer is reset to length zero afterwards on every path; " +
			"(R4, sibling agreement) Algorithm.Compress and Algorithm.Decompress handle exactly the same set of algorithm constants, which is exactly the set Algorithm.Supported can report. " +
			"(R5, io.Writer contract) no Write method of the compression, stream and encoding packages keeps a view of its argument in a field, global, map or channel — the layers above reuse their buffers, so a retained view (e.g. as a compressor's dictionary) would silently change under it; " +
			"Not decided: flate/zstd sync-flush behaviour (third party), arbitrary fragmentation (follows from ReadFull/ReadUvarint contracts).",
		Assumptions: []string{"bufio.Writer.Flush, compressors' Flush and io.ReadFull behave as documented"},
		Run:         runC22,
	})
}

func runC22(c *eng.Ctx) {
	c22NoRetain(c)
	// R1.
	for _, spec := range []struct{ fn, side string }{{"NewEndpoint", "client"}, {"ServeEndpoint", "server"}} {
		fn := c.MustFunc("R1", remotePkg, spec.fn)
		if fn == nil {
			continue
		}
		var mf *ssa.Call
		for _, call := range eng.CallsNamed(fn, "stream.NewMultiFlusher") {
			mf, _ = call.(*ssa.Call)
		}
		if mf == nil {
			c.Problem("R1", "%s does not build a multi-flusher", spec.fn)
			continue
		}
		el := eng.VarargElems(&mf.Call)
		ok := len(el) == 3
		why := fmt.Sprintf("%d flushers", len(el))
		var outbound ssa.Value
		if ok {
			e0, _ := eng.Unwrap(el[0]).(*ssa.Call)
			e1, _ := eng.Unwrap(el[1]).(*ssa.Call)
			e2, _ := eng.Unwrap(el[2]).(*ssa.Call)
			ok = e0 != nil && e1 != nil && e2 != nil &&
				eng.CalleeName(e0) == "bufio.NewWriterSize" && eng.Unwrap(e0.Call.Args[0]) == ssa.Value(e1) &&
				strings.HasSuffix(eng.CalleeName(e1), "compression.Algorithm).Compress") && eng.Unwrap(e1.Call.Args[1]) == ssa.Value(e2) &&
				eng.CalleeName(e2) == "bufio.NewWriterSize" && eng.Render(e2.Call.Args[0]) == "p1"
			outbound = e0
			if e0 != nil && e1 != nil && e2 != nil {
				why = eng.CalleeName(e0) + " → " + eng.CalleeName(e1) + " → " + eng.CalleeName(e2)
			}
		}
		c.Check("R1", "flush-order:"+spec.side, mf.Pos(), ok, "flushers are listed outermost first and each writes into the next (encoder buffer → compressor → transport buffer)", why)
		for _, call := range eng.CallsNamed(fn, "encoding.NewProtobufEncoder") {
			c.Check("R1", "encoder-writes-outermost:"+spec.side, call.Pos(), outbound != nil && eng.Unwrap(call.Common().Args[0]) == outbound, "the encoder writes into the outermost buffer of the flush chain")
		}
		for _, call := range eng.CallsNamed(fn, "encoding.NewProtobufDecoder") {
			r := eng.Render(call.Common().Args[0])
			okD := strings.HasPrefix(r, "bufio.NewReaderSize((synchronization/compression.Algorithm).Decompress(") && strings.Contains(r, "bufio.NewReaderSize(p1, ")
			c.Check("R1", "decoder-reads-decompressed:"+spec.side, call.Pos(), okD, "the decoder reads the buffered, decompressed, buffered transport", r[:min(200, len(r))])
		}
		// same algorithm both ways
		var algs []string
		for _, call := range eng.Calls(fn) {
			n := eng.CalleeName(call)
			if strings.HasSuffix(n, "Algorithm).Compress") || strings.HasSuffix(n, "Algorithm).Decompress") {
				algs = append(algs, eng.Render(call.Common().Args[0]))
			}
		}
		c.Check("R1", "same-algorithm-both-directions:"+spec.side, fn.Pos(), len(algs) == 2 && algs[0] == algs[1], "both directions use the same negotiated algorithm", strings.Join(algs, " / "))
	}
	if fl := c.MustFunc("R1", streamPkg, "multiFlusher.Flush"); fl != nil {
		for _, r := range eng.Returns(fl) {
			res := eng.RetResults(r)
			g := eng.Guards(r)
			if eng.IsNilConst(res[0]) {
				exhausted := false
				for _, a := range g {
					if !a.Pos && regexp.MustCompile(` < len\(p0\.\w+\)\)$`).MatchString(a.Expr) {
						exhausted = true
					}
				}
				c.Check("R1", "flush-all-before-success", r.Pos(), exhausted, "success is reported only after every flusher was flushed", atomsShort(g))
			} else {
				c.Check("R1", "flush-first-error", r.Pos(), regexp.MustCompile(`^invoke:Flush\(p0\.\w+\[`).MatchString(eng.Render(res[0])), "the first flusher error is returned as is", eng.Render(res[0]))
			}
		}
	}
	c.Floor("R1", 10)

	// R2.
	if dec := c.MustFunc("R2", encodingPkg, "ProtobufDecoder.Decode"); dec != nil {
		limit, err := c.P.ConstInt(encodingPkg, "protobufDecoderMaximumAllowedMessageSize")
		if err != nil {
			c.Problem("R2", "%v", err)
		}
		lenV := "encoding/binary.ReadUvarint(p0.reader)#0"
		limAtom := fmt.Sprintf(`^\(%s > %d\)$`, eng.Q(lenV), limit)
		for _, call := range eng.Calls(dec) {
			n := eng.CalleeName(call)
			switch n {
			case "(*encoding.ProtobufDecoder).bufferWithSize":
				g := eng.Guards(call)
				c.Check("R2", "limit-before-allocation", call.Pos(), eng.HasAtom(g, limAtom, false), "a buffer is sized only after the unsigned wire length was tested against the limit", atomsShort(g))
				c.Check("R2", "buffer-size-is-length", call.Pos(), eng.Render(call.Common().Args[1]) == "conv:int("+lenV+")", "the buffer has exactly the declared length", eng.Render(call.Common().Args[1]))
			case "io.ReadFull":
				c.Check("R2", "reads-exactly-length", call.Pos(), strings.HasPrefix(eng.Render(call.Common().Args[1]), "(*encoding.ProtobufDecoder).bufferWithSize(p0, conv:int("+lenV+"))") && eng.Render(call.Common().Args[0]) == "p0.reader", "exactly the declared number of bytes is read from the stream (ReadFull)")
			case "google.golang.org/protobuf/proto.Unmarshal", "(google.golang.org/protobuf/proto.UnmarshalOptions).Unmarshal":
				a := call.Common().Args
				if len(a) == 3 { // the options value is the receiver
					a = a[1:]
				}
				c.Check("R2", "unmarshals-what-was-read", call.Pos(), strings.HasPrefix(eng.Render(a[0]), "(*encoding.ProtobufDecoder).bufferWithSize(p0, ") && eng.Render(a[1]) == "p1", "the bytes read are unmarshalled into the caller's message")
			}
		}
		c.Check("R2", "limit-positive", dec.Pos(), limit > 0 && limit < 1<<31, "the size limit is a positive value that fits an int on every platform", fmt.Sprint(limit))
		c.Floor("R2", 5)
	}

	// R3.
	if enc := c.MustFunc("R3", encodingPkg, "ProtobufEncoder.Encode"); enc != nil {
		writes := 0
		for _, call := range eng.Calls(enc) {
			cc := call.Common()
			if cc.IsInvoke() && cc.Method.Name() == "Write" {
				writes++
				c.Check("R3", "single-write-of-frame", call.Pos(), eng.Render(cc.Value) == "p0.writer" && eng.Render(cc.Args[0]) == "p0.buffer", "prefix and payload leave in one Write of the frame buffer", eng.RenderCall(cc))
			}
			switch eng.CalleeName(call) {
			case "google.golang.org/protobuf/encoding/protowire.AppendVarint":
				r := eng.Render(cc.Args[1])
				c.Check("R3", "prefix-is-size", call.Pos(), strings.HasPrefix(r, "conv:uint64((google.golang.org/protobuf/proto.MarshalOptions).Size(") && strings.HasSuffix(r, ", p1))"), "the prefix is the message's encoded size", r)
			case "(google.golang.org/protobuf/proto.MarshalOptions).MarshalAppend":
				c.Check("R3", "payload-appended-after-prefix", call.Pos(), eng.Render(cc.Args[1]) == "p0.buffer" && eng.Render(cc.Args[2]) == "p1", "the message is appended to the buffer holding the prefix")
			}
		}
		if writes != 1 {
			c.Problem("R3", "expected exactly one Write in Encode, found %d", writes)
		}
		// deferred reset
		resets := 0
		for _, f := range enc.AnonFuncs {
			eng.EachInstr(f, func(i ssa.Instruction) {
				st, ok := i.(*ssa.Store)
				if !ok {
					return
				}
				fa, ok := st.Addr.(*ssa.FieldAddr)
				if !ok || eng.FieldOf(fa).Name() != "buffer" {
					return
				}
				resets++
				okz := false
				switch v := st.Val.(type) {
				case *ssa.MakeSlice:
					if z, isZ := eng.ConstInt64(v.Len); isZ && z == 0 {
						okz = true
					}
				case *ssa.Slice:
					if v.High != nil {
						if z, isZ := eng.ConstInt64(v.High); isZ && z == 0 {
							okz = true
						}
					}
				}
				c.Check("R3", fmt.Sprintf("buffer-reset-to-empty#%d", resets), st.Pos(), okz, "after a message the frame buffer is reset to length zero (so the next frame starts clean)", eng.Render(st.Val))
			})
		}
		if resets < 2 {
			c.Problem("R3", "expected two buffer resets in Encode's deferred function, found %d", resets)
		}
	}

	// R4.
	table := func(name string) map[int64]bool {
		fn := c.MustFunc("R4", compressionPkg, name)
		out := map[int64]bool{}
		if fn == nil {
			return out
		}
		for _, r := range eng.Returns(fn) {
			for _, a := range eng.Guards(r) {
				if a.Pos && a.EqLHS == "p0" {
					if b, ok := a.V.(*ssa.BinOp); ok {
						if k, ok := eng.ConstInt64(b.Y); ok {
							// for Supported: only count arms returning true
							if name == "Algorithm.SupportStatus" || name == "Algorithm.Supported" {
								res := eng.RetResults(r)
								if v, isC := eng.ConstBool(res[0]); isC && !v {
									continue
								}
							}
							out[k] = true
						}
					}
				}
			}
		}
		return out
	}
	comp, decomp := table("Algorithm.Compress"), table("Algorithm.Decompress")
	ks := func(m map[int64]bool) string {
		var s []string
		for k := range m {
			s = append(s, fmt.Sprint(k))
		}
		sort.Strings(s)
		return strings.Join(s, ",")
	}
	c.Check("R4", "compress-decompress-same-algorithms", c.P.Pkg(compressionPkg).Func("init").Pos(), len(comp) >= 2 && ks(comp) == ks(decomp), "Compress and Decompress handle the same algorithm constants", ks(comp)+" vs "+ks(decomp))
	if sup, err := c.P.Func(compressionPkg, "Algorithm.SupportStatus"); err == nil && sup != nil {
		c.Analysed(sup)
	}
}
