package rules

import (
	"fmt"
	"go/token"
	"sort"
	"strings"

	"golang.org/x/tools/go/ssa"

	"verif/sa/eng"
)

const corePkg = "pkg/synchronization/core"

func init() {
	eng.Register(&eng.Property{
		ID:       "C16",
		Title:    "Portable symbolic links never point outside the root",
		Packages: []string{corePkg},
		Explanation: "Decides, for every input at once, the finite decision table of the portable-symlink validator: " +
			"(R1) the component walk compares each '/'-separated component only with string constants and changes the depth counter by exactly " +
			"{\".\":0, \"\":0, \"..\":-1, other:+1} (the POSIX lexical resolution table), testing depth<0 after every update and rejecting on it; the counter starts at strings.Count(path,\"/\"); " +
			"(R2) a nil error is returned only when the target is non-empty, at most 247 bytes (constant < 248), has no ':' and (non-Windows) no '\\\\' and no leading '/'; " +
			"(R3) callers: the scan passes enforcePortable=true exactly under portable mode and stores the normalised target only on the validator's success edge; createSymbolicLink creates the link in portable mode only if the validator accepted and returned the target unchanged; every caller hands createSymbolicLink the path OF the link it creates — the walked path where parent and name come from walkToParentAndComputeLeafName, or Joinable(directory path)+name for an entry of a directory being created — so the depth the validator allows '..' to climb is the link's real depth. " +
			"Not decided: that the kernel resolves the link as the lexical table says (true for links inside a root without intermediate symlinks, which C17 covers), Windows reparse semantics.",
		Assumptions: []string{
			"strings.Split/Count/Index have their documented semantics",
			"lexical resolution of '.', '..', '' and names as in POSIX path_resolution(7)",
		},
		ThoroughGOOS: []string{"windows", "darwin"},
		Run:          runC16,
	})
}

func runC16(c *eng.Ctx) {
	fn := c.MustFunc("R1", corePkg, "normalizeSymbolicLinkAndEnsurePortable")
	if fn == nil {
		return
	}
	c16Walk(c, fn)
	c16Rejections(c, fn)
	c16Callers(c, fn)
}

// c16Walk decides R1.
func c16Walk(c *eng.Ctx, fn *ssa.Function) {
	// Locate the split call and the loop that ranges over it.
	var split *ssa.Call
	for _, call := range eng.CallsNamed(fn, "strings.Split") {
		if cv, ok := call.(*ssa.Call); ok {
			split = cv
		}
	}
	if split == nil {
		c.Problem("R1", "no strings.Split call in %s: component walk not recognised", eng.FuncName(fn))
		return
	}
	if sep, ok := eng.ConstString(split.Call.Args[1]); !c.Check("R1", "split-separator", split.Pos(), ok && sep == "/", "components are obtained by splitting on \"/\"", fmt.Sprintf("separator=%q", sep)) {
		return
	}
	// The depth counter: a header phi one of whose edges is strings.Count(p0,"/").
	var depth *ssa.Phi
	for _, b := range fn.Blocks {
		for _, in := range b.Instrs {
			phi, ok := in.(*ssa.Phi)
			if !ok {
				break
			}
			for _, e := range phi.Edges {
				if call, ok := e.(*ssa.Call); ok && eng.CalleeName(call) == "strings.Count" {
					if eng.Render(call) == `strings.Count(p0, "/")` {
						depth = phi
					}
				}
			}
		}
	}
	if depth == nil {
		c.Problem("R1", "depth counter initialised from strings.Count(path, \"/\") not found")
		return
	}
	c.Check("R1", "depth-init", depth.Pos(), true, "depth counter starts at strings.Count(path,\"/\") (link's own depth, dereference removes one level)")
	loop := eng.FindLoop(depth.Block())
	if loop == nil {
		c.Problem("R1", "depth counter is not a loop-carried value")
		return
	}
	// Component value: element of the split result.
	isComponent := func(v ssa.Value) bool {
		v = eng.Unwrap(v)
		if u, ok := v.(*ssa.UnOp); ok && u.Op == token.MUL {
			if ia, ok := u.X.(*ssa.IndexAddr); ok {
				return ia.X == ssa.Value(split)
			}
		}
		if ix, ok := v.(*ssa.Index); ok {
			return ix.X == ssa.Value(split)
		}
		if ex, ok := v.(*ssa.Extract); ok { // range over slice with Next (not used for slices)
			_ = ex
		}
		return false
	}
	// Enumerate one iteration: from the in-loop successor of the header to the
	// header again (continue) or to a block outside the loop (exit).
	var bodyEntry *ssa.BasicBlock
	for _, s := range depth.Block().Succs {
		if loop.Body[s] && s != depth.Block() {
			bodyEntry = s
		}
	}
	if bodyEntry == nil {
		c.Problem("R1", "loop body not found")
		return
	}
	paths, complete := eng.EnumPaths(bodyEntry, func(b *ssa.BasicBlock) bool {
		return b == depth.Block() || !loop.Body[b]
	}, 5000)
	if !complete {
		c.Problem("R1", "too many paths through the component loop body")
		return
	}
	spec := map[string]int64{".": 0, "": 0, "..": -1, "<name>": +1}
	classes := []string{".", "", "..", "<name>"}
	covered := map[string]bool{}
	for _, p := range paths {
		// Classify by atoms on the component.
		type cmp struct {
			lit string
			pol bool
		}
		var cmps []cmp
		var foreign []string
		for _, a := range p.Atoms {
			b, ok := a.V.(*ssa.BinOp)
			if ok && (b.Op == token.EQL || b.Op == token.NEQ) {
				var lit string
				var isLit, isComp bool
				if isComponent(b.X) {
					lit, isLit = eng.ConstString(b.Y)
					isComp = true
				} else if isComponent(b.Y) {
					lit, isLit = eng.ConstString(b.X)
					isComp = true
				}
				if isComp {
					if !isLit {
						foreign = append(foreign, a.String())
						continue
					}
					cmps = append(cmps, cmp{lit, a.Pos})
					continue
				}
			}
			foreign = append(foreign, a.String())
		}
		var consistent []string
		for _, cl := range classes {
			ok := true
			for _, cm := range cmps {
				eq := cm.lit == cl // for "<name>" never equal to a literal tested
				if cl == "<name>" {
					eq = false
				}
				if eq != cm.pol {
					ok = false
				}
			}
			if ok {
				consistent = append(consistent, cl)
			}
		}
		// A literal other than the three known ones tested positively puts the
		// path outside every class: undecided.
		for _, cm := range cmps {
			if cm.pol && cm.lit != "." && cm.lit != "" && cm.lit != ".." {
				c.Check("R1", "class:"+cm.lit, p.Last().Instrs[0].Pos(), false, "component compared with an unexpected literal", fmt.Sprintf("literal %q", cm.lit))
			}
		}
		last := p.Last()
		if last == depth.Block() {
			// Continuing path: find the value flowing into the depth phi.
			nv := p.PhiOn(depth)
			if nv == nil {
				c.Problem("R1", "cannot resolve depth value on back edge")
				continue
			}
			d, ok := p.IntDelta(nv, depth)
			if !ok {
				c.Check("R1", "delta", depth.Pos(), false, "depth update is not depth±const on some path", "value="+eng.Render(nv))
				continue
			}
			// The depth<0 test must have been taken (false) on the updated value.
			tested := false
			for _, a := range p.Atoms {
				if b, ok := a.V.(*ssa.BinOp); ok && b.Op == token.LSS {
					if z, isZ := eng.ConstInt64(b.Y); isZ && z == 0 {
						if dd, ok2 := p.IntDelta(b.X, depth); ok2 && dd == d && !a.Pos {
							tested = true
						}
					}
				}
				if b, ok := a.V.(*ssa.BinOp); ok && b.Op == token.GEQ {
					if z, isZ := eng.ConstInt64(b.Y); isZ && z == 0 {
						if dd, ok2 := p.IntDelta(b.X, depth); ok2 && dd == d && a.Pos {
							tested = true
						}
					}
				}
			}
			for _, cl := range consistent {
				covered[cl] = true
				key := "class:" + cl
				c.Check("R1", key, depth.Pos(), d == spec[cl],
					fmt.Sprintf("component class %q changes depth by %+d", cl, spec[cl]),
					fmt.Sprintf("found %+d on path with atoms [%s]", d, atomsOf(p)))
				c.Check("R1", key+"/tested", depth.Pos(), tested,
					fmt.Sprintf("after updating depth for class %q the walk continues only if depth<0 is false", cl),
					fmt.Sprintf("atoms [%s]", atomsOf(p)))
			}
			if len(consistent) == 0 {
				c.Problem("R1", "a loop path matches no component class: atoms [%s]", atomsOf(p))
			}
		} else {
			// Exit from inside the body: must be a rejection (non-nil error).
			ret, ok := last.Instrs[len(last.Instrs)-1].(*ssa.Return)
			if !ok {
				c.Problem("R1", "loop exit that is not a return at %s", c.P.Pos(last.Instrs[0].Pos()))
				continue
			}
			nonNil := len(eng.RetResults(ret)) == 2 && !eng.IsNilConst(eng.RetResults(ret)[1])
			c.Check("R1", "in-loop-exit", ret.Pos(), nonNil, "a return from inside the component loop is a rejection (non-nil error)", eng.Render(eng.RetResults(ret)[len(eng.RetResults(ret))-1]))
		}
		_ = foreign
	}
	for _, cl := range classes {
		if !covered[cl] {
			c.Check("R1", "class:"+cl, depth.Pos(), false, fmt.Sprintf("component class %q has a continuing path", cl), "no path found")
		}
	}
	c.Floor("R1", 9)
}

func atomsOf(p eng.Path) string {
	var s []string
	for _, a := range p.Atoms {
		s = append(s, a.String())
	}
	sort.Strings(s)
	return strings.Join(s, " ∧ ")
}

// c16Rejections decides R2: atoms that must hold at every nil-error return.
func c16Rejections(c *eng.Ctx, fn *ssa.Function) {
	maxLen, err := c.P.ConstInt(corePkg, "maximumPortableSymbolicLinkTargetLength")
	if err != nil {
		c.Problem("R2", "%v", err)
		return
	}
	c.Check("R2", "const:maximumPortableSymbolicLinkTargetLength", fn.Pos(), maxLen > 0 && maxLen < 248, "the length limit is below 248 (Windows extended-path conversion threshold)", fmt.Sprintf("value=%d", maxLen))
	n := 0
	for _, ret := range eng.Returns(fn) {
		if len(eng.RetResults(ret)) != 2 || !eng.IsNilConst(eng.RetResults(ret)[1]) {
			continue
		}
		n++
		g := eng.Guards(ret)
		type req struct {
			name string
			re   string
			pol  bool
			skip bool
		}
		reqs := []req{
			{"non-empty", `^\(p1 == ""\)$`, false, false},
			{"length", fmt.Sprintf(`^\(len\(p1\) > %d\)$`, maxLen), false, false},
			{"no-colon", `^\(strings\.Index\(p1, ":"\) == -1\)$`, true, false},
			{"no-backslash", `^\(strings\.Index\(p1, "\\\\"\) == -1\)$`, true, c.P.GOOS == "windows"},
			{"relative", `\[0\] == 47\)$`, false, false},
		}
		for _, r := range reqs {
			if r.skip {
				continue
			}
			ok := eng.HasAtom(g, r.re, r.pol)
			if !ok && r.name == "no-colon" {
				ok = eng.HasAtom(g, `^strings\.Contains(Rune)?\(p1, (":"|58)\)$`, false)
			}
			if !ok && r.name == "no-backslash" {
				ok = eng.HasAtom(g, `^strings\.Contains(Rune)?\(p1, ("\\\\"|92)\)$`, false)
			}
			if !ok && r.name == "length" {
				ok = eng.HasAtom(g, fmt.Sprintf(`^\(len\(p1\) <= %d\)$`, maxLen), true) || eng.HasAtom(g, fmt.Sprintf(`^\(len\(p1\) >= %d\)$`, maxLen+1), false)
			}
			if !ok && r.name == "non-empty" {
				ok = eng.HasAtom(g, `^\(len\(p1\) == 0\)$`, false)
			}
			c.Check("R2", "accept-requires:"+r.name, ret.Pos(), ok, "a nil error is returned only if the target passed the '"+r.name+"' test", "guards: "+eng.AtomsText(g))
		}
		// The accepted value is the (possibly separator-normalised) target.
		rv := eng.Render(eng.RetResults(ret)[0])
		okv := rv == "p1" || (c.P.GOOS == "windows" && strings.Contains(rv, "strings.ReplaceAll(p1"))
		if c.P.GOOS != "windows" {
			// go/ssa keeps the phi even though the windows edge is dead.
			okv = okv || strings.HasPrefix(rv, "phi(p1|strings.ReplaceAll(p1")
		}
		c.Check("R2", "accepted-value", ret.Pos(), okv, "the accepted target is the input target (with separators normalised on Windows only)", rv)
	}
	if n == 0 {
		c.Problem("R2", "no accepting return found")
	}
	c.Floor("R2", 6)
}

// c16Callers decides R3.
func c16Callers(c *eng.Ctx, norm *ssa.Function) {
	modes, err := c.P.ConstsOfType(corePkg, "SymbolicLinkMode")
	if err != nil {
		c.Problem("R3", "%v", err)
		return
	}
	portable, ok := modes["SymbolicLinkMode_SymbolicLinkModePortable"]
	if !ok {
		c.Problem("R3", "portable mode constant not found")
		return
	}
	kinds, _ := c.P.ConstsOfType(corePkg, "EntryKind")
	kindLink := kinds["EntryKind_SymbolicLink"]
	portableAtom := fmt.Sprintf(`^\(p0\.symbolicLinkMode == %d:SymbolicLinkMode\)$`, portable)

	// R3a: scanner.symbolicLink.
	if fn := c.MustFunc("R3", corePkg, "scanner.symbolicLink"); fn != nil {
		if len(fn.Params) != 5 {
			c.Problem("R3", "scanner.symbolicLink signature changed")
		} else {
			enforce := fn.Params[4]
			paths, complete := eng.EnumPaths(fn.Blocks[0], nil, 5000)
			if !complete {
				c.Problem("R3", "too many paths in scanner.symbolicLink")
			}
			for _, p := range paths {
				ret, ok := p.Last().Instrs[len(p.Last().Instrs)-1].(*ssa.Return)
				if !ok || len(eng.RetResults(ret)) != 2 {
					continue
				}
				alloc, ok := eng.Unwrap(eng.RetResults(ret)[0]).(*ssa.Alloc)
				if !ok {
					continue
				}
				// Find Kind and Target stores into this literal on the path.
				var kind int64 = -1
				var target ssa.Value
				for _, b := range p.Blocks {
					for _, in := range b.Instrs {
						st, ok := in.(*ssa.Store)
						if !ok {
							continue
						}
						fa, ok := st.Addr.(*ssa.FieldAddr)
						if !ok || fa.X != ssa.Value(alloc) {
							continue
						}
						switch eng.FieldOf(fa).Name() {
						case "Kind":
							if k, ok := eng.ConstInt64(st.Val); ok {
								kind = k
							}
						case "Target":
							target = st.Val
						}
					}
				}
				if kind != kindLink {
					continue
				}
				enf := p.HasAtomOn(enforce, true)
				raw := p.HasAtomOn(enforce, false)
				switch {
				case enf:
					var call *ssa.Call
					okEdge := false
					for _, a := range p.Atoms {
						if b, ok := a.V.(*ssa.BinOp); ok {
							if ex, ok := b.X.(*ssa.Extract); ok && ex.Index == 1 && eng.IsNilConst(b.Y) {
								if cl, ok := ex.Tuple.(*ssa.Call); ok && eng.Callee(cl) == norm {
									succ := (b.Op == token.EQL && a.Pos) || (b.Op == token.NEQ && !a.Pos)
									// MkAtom normalises != into == already.
									if a.Pos && strings.Contains(a.Expr, "== nil") {
										succ = true
									}
									if succ {
										okEdge = true
										call = cl
									}
								}
							}
						}
					}
					c.Check("R3", "scan:portable-validated", ret.Pos(), okEdge, "under enforcePortable a symbolic-link entry is produced only on the validator's success edge", "atoms: "+atomsOf(p))
					if okEdge {
						tv := p.Resolve(target)
						ex, isEx := tv.(*ssa.Extract)
						c.Check("R3", "scan:portable-target", ret.Pos(), isEx && ex.Tuple == ssa.Value(call) && ex.Index == 0, "the recorded target is the validator's normalised result", eng.Render(tv))
						c.Check("R3", "scan:validator-args", call.Pos(), eng.Render(call.Call.Args[0]) == "p1", "the validator receives the link's own root-relative path", eng.Render(call.Call.Args[0]))
					}
				case raw:
					c.Check("R3", "scan:raw", ret.Pos(), true, "raw (non-portable) mode path: no portability requirement")
				default:
					c.Check("R3", "scan:mode-tested", ret.Pos(), false, "every symbolic-link entry is produced after testing enforcePortable", "atoms: "+atomsOf(p))
				}
			}
		}
		// Call sites of scanner.symbolicLink.
		for _, caller := range c.P.ModuleFuncs(corePkg) {
			for _, call := range eng.CallsTo(caller, fn) {
				args := call.Common().Args
				g := eng.Guards(call)
				isPortable := eng.HasAtom(g, portableAtom, true)
				notPortable := eng.HasAtom(g, portableAtom, false)
				cv, isConst := eng.ConstBool(args[4])
				key := "scan-call:" + eng.FuncName(caller)
				switch {
				case isPortable:
					c.Check("R3", key+"/portable", call.Pos(), isConst && cv, "in portable mode the scan enforces portability", "enforcePortable="+eng.Render(args[4]))
				case notPortable:
					c.Check("R3", key+"/non-portable", call.Pos(), true, "non-portable mode call", "enforcePortable="+eng.Render(args[4]))
				default:
					c.Check("R3", key+"/unguarded", call.Pos(), isConst && cv, "a call not guarded by a mode test must enforce portability", "guards: "+eng.AtomsText(g))
				}
				c.Analysed(caller)
			}
		}
	}

	// R3c: createSymbolicLink.
	if fn := c.MustFunc("R3", corePkg, "transitioner.createSymbolicLink"); fn != nil {
		creates := eng.CallsNamed(fn, "(*filesystem.Directory).CreateSymbolicLink")
		if len(creates) == 0 {
			c.Problem("R3", "no CreateSymbolicLink call in createSymbolicLink")
		}
		for _, cr := range creates {
			tgt := eng.Render(cr.Common().Args[2])
			paths, complete := eng.EnumPaths(fn.Blocks[0], func(b *ssa.BasicBlock) bool { return b == cr.Block() }, 5000)
			if !complete {
				c.Problem("R3", "too many paths in createSymbolicLink")
			}
			for _, p := range paths {
				if p.Last() != cr.Block() {
					continue
				}
				var isP, notP, accepted, unchanged bool
				for _, a := range p.Atoms {
					if m := eng.HasAtom([]eng.Atom{a}, portableAtom, true); m {
						isP = true
					}
					if m := eng.HasAtom([]eng.Atom{a}, portableAtom, false); m {
						notP = true
					}
					want := "synchronization/core.normalizeSymbolicLinkAndEnsurePortable(p3, " + tgt + ")"
					if a.Pos && a.Expr == "("+want+"#1 == nil)" {
						accepted = true
					}
					if a.Pos && (a.Expr == "("+want+"#0 == "+tgt+")" || a.Expr == "("+tgt+" == "+want+"#0)") {
						unchanged = true
					}
				}
				switch {
				case isP:
					c.Check("R3", "create:portable-accepted", cr.Pos(), accepted, "in portable mode a link is created only if the validator accepted (path, target)", "atoms: "+atomsOf(p))
					c.Check("R3", "create:portable-normalised", cr.Pos(), unchanged, "in portable mode a link is created only if the validator returned the target unchanged", "atoms: "+atomsOf(p))
				case notP:
					c.Check("R3", "create:non-portable", cr.Pos(), true, "non-portable mode path")
				default:
					c.Check("R3", "create:mode-tested", cr.Pos(), false, "link creation is reached only after testing for portable mode", "atoms: "+atomsOf(p))
				}
			}
		}
		// R3d: the path the validator measures the depth of is the path of the
		// link being created. Two wirings exist and they do not mix: (A) parent and
		// name come from walkToParentAndComputeLeafName(Y) and the path is that Y;
		// (B) the link is an entry of a directory being created: the parent is that
		// directory's handle (not a walk result) and the path is
		// Joinable(directory path) + name, with that same name.
		nSites := 0
		for _, caller := range c.P.ModuleFuncs(corePkg) {
			for _, call := range eng.CallsTo(caller, fn) {
				nSites++
				a := call.Common().Args // receiver, parent, name, path, target
				if len(a) != 5 {
					c.Problem("R3", "createSymbolicLink signature changed")
					continue
				}
				ok, how := false, ""
				if ex, isEx := eng.Unwrap(a[1]).(*ssa.Extract); isEx {
					if w, isCall := ex.Tuple.(*ssa.Call); isCall && strings.HasSuffix(eng.CalleeName(w), ".walkToParentAndComputeLeafName") {
						nm, isNm := eng.Unwrap(a[2]).(*ssa.Extract)
						ok = ex.Index == 0 && isNm && nm.Tuple == ex.Tuple && nm.Index == 1 && eng.Render(a[3]) == eng.Render(w.Call.Args[1])
						how = "parent from walk(" + eng.Render(w.Call.Args[1]) + "); name=" + eng.Render(a[2]) + " path=" + eng.Render(a[3])
					}
				} else if b, isB := eng.Unwrap(a[3]).(*ssa.BinOp); isB && b.Op == token.ADD {
					ok = (b.Y == a[2] || eng.Render(b.Y) == eng.Render(a[2])) && strings.Contains(eng.Render(b.X), "fastpath.Joinable(")
					how = "entry of a created directory; path=" + eng.Render(a[3])
				} else {
					how = "parent=" + eng.Render(a[1]) + " path=" + eng.Render(a[3])
				}
				c.Check("R3", "create:path-names-the-link@"+eng.FuncName(caller), call.Pos(), ok, "the root-relative path handed to createSymbolicLink (whose depth bounds the target's '..') is the path of (parent, name): the walked path itself, or Joinable(directory path)+name for an entry of a new directory", how[:min(220, len(how))])
			}
		}
		if nSites < 2 {
			c.Problem("R3", "expected ≥2 callers of createSymbolicLink, found %d", nSites)
		}
	}
	c.Floor("R3", 8)
}
