package rules

import (
	"fmt"
	"strings"

	"golang.org/x/tools/go/ssa"

	"verif/sa/eng"
)

var reconcileHandlers = []string{
	"reconciler.handleDisagreementBidirectional",
	"reconciler.handleDisagreementOneWaySafe",
	"reconciler.handleDisagreementOneWayReplica",
}

func init() {
	eng.Register(&eng.Property{
		ID:       "C06",
		Title:    "Every path receives at most one action and conflicts are well formed",
		Packages: []string{corePkg},
		Explanation: "(R1) the disagreement handlers never call back into reconcile, and reconcile recurses only in the branch where alpha and beta agree, with child paths formed as Joinable(path)+name whenever ANY of the three content maps is non-empty; " +
			"(R2) on every control-flow path each handler performs at most one emission among {alpha change, beta change, conflict}; reconcile itself emits only ancestor changes; " +
			"(R3) every Conflict literal has Root = the handler's path and both change lists provably non-empty on that path: a one-element literal, a list guarded len>0, or the side's ancestor diff on a path where the opposite side's diff is empty (disagreement invariant); " +
			"(R4) Conflict.EnsureValid rejects an empty list on either side; (R5) every change literal emitted carries Path = path. " +
			"(R3 addition) the lists stored in a Conflict are its own storage: a literal or the result of a package-level function, never a slice handed out by a method of the reconciler (a reused scratch buffer would be overwritten by the next conflict); " +
			"(R6, who may emit) the reconciler's four result lists are written only inside reconcile and the handlers — no later pass adds to or rewrites the plan, so R1/R2 cover every entry of it; " +
			"Not decided: semantic non-emptiness beyond those three derivations; that Root covers all paths inside the listed changes (follows from diff's path construction, C01.R5).",
		Assumptions: []string{"if alpha and beta disagree at a node and one side's synchronizable diff against the ancestor is empty, the other side's is not (argued in reconcile.go's comments)"},
		Run:         runC06,
	})
}

func runC06(c *eng.Ctx) {
	rec := c.MustFunc("R1", corePkg, "reconciler.reconcile")
	if rec == nil {
		return
	}
	var handlers []*ssa.Function
	for _, h := range reconcileHandlers {
		if fn := c.MustFunc("R1", corePkg, h); fn != nil {
			handlers = append(handlers, fn)
		}
	}
	c06WhoMayEmit(c, "R6", rec, handlers)
	// R1: no handler calls reconcile (directly or via closures).
	for _, h := range handlers {
		calls := false
		for _, fn := range eng.WithClosures(h) {
			for _, call := range eng.Calls(fn) {
				if eng.Callee(call) == rec {
					calls = true
				}
				for _, h2 := range handlers {
					if eng.Callee(call) == h2 {
						calls = true
					}
				}
			}
		}
		c.Check("R1", "no-reentry:"+eng.FuncName(h), h.Pos(), !calls, "a disagreement handler is terminal: it never re-enters reconcile or another handler")
	}
	// Recursion in reconcile only under alpha.Equal(beta,false).
	nrec := 0
	for _, call := range eng.CallsTo(rec, rec) {
		nrec++
		g := eng.Guards(call)
		c.Check("R1", "recurse-on-agreement", call.Pos(), eng.HasAtom(g, `^\(\*synchronization/core\.Entry\)\.Equal\(p3, p4, false\)$`, true), "reconcile descends only where alpha and beta agree", eng.AtomsText(g))
		// child path = prefix + name where prefix is "" or Joinable(path)
		args := call.Common().Args
		pr := eng.Render(args[1])
		c.Check("R1", "child-path", call.Pos(), strings.Contains(pr, "synchronization/core/fastpath.Joinable(p1)") && strings.Contains(pr, " + "), "the child path is Joinable(path)+name", pr)
	}
	if nrec != 1 {
		c.Problem("R1", "expected one recursive call in reconcile, found %d", nrec)
	}
	c06PrefixRule(c, "R1", rec)
	c.Floor("R1", 6)

	// R2: at most one action per handler path; reconcile emits only ancestor changes.
	for _, h := range handlers {
		hps := handlerPaths(c, "R2", h)
		worst := 0
		var worstAtoms string
		for _, hp := range hps {
			n := 0
			for _, e := range hp.emits {
				if e.list != "ancestorChanges" {
					n++
				}
			}
			if n > worst {
				worst = n
				worstAtoms = atomsOf(hp.path)
			}
		}
		c.Check("R2", "one-action:"+eng.FuncName(h), h.Pos(), worst <= 1, fmt.Sprintf("each of the %d paths performs at most one action", len(hps)), fmt.Sprintf("max=%d on %s", worst, worstAtoms))
	}
	for _, b := range rec.Blocks {
		for _, e := range emissionsIn(b) {
			c.Check("R2", "reconcile-emits-ancestor-only", e.store.Pos(), e.list == "ancestorChanges", "reconcile itself only records ancestor changes", e.list)
		}
	}
	c.Floor("R2", 4)

	// R3/R5: literals.
	nconf := 0
	for _, h := range handlers {
		sites := distinctEmitSites(h)
		for _, hp := range handlerPaths(c, "R3", h) {
			for _, e := range hp.emits {
				key := emitKey(h, sites[e.store], e)
				if e.fields == nil {
					c.Check("R3", key, e.store.Pos(), false, "emitted literal can be inspected")
					continue
				}
				switch e.list {
				case "conflicts":
					nconf++
					root := e.fields["Root"]
					c.Check("R3", key+"/root", e.store.Pos(), root != nil && eng.Render(root) == "p1", "the conflict is rooted at the handler's path")
					for _, side := range []string{"AlphaChanges", "BetaChanges"} {
						v := e.fields[side]
						ok, why := nonEmptyOnPath(hp.path, v)
						c.Check("R3", key+"/"+side, e.store.Pos(), ok, "the conflict's "+side+" list is provably non-empty on this path", why)
						fresh, fwhy := c06FreshList(v, 0)
						c.Check("R3", key+"/"+side+"/own-storage", e.store.Pos(), fresh, "the list stored in a conflict is this conflict's own (a literal or the result of a package-level function), not storage reachable from the reconciler that a later path could overwrite", fwhy)
					}
				case "alphaChanges", "betaChanges", "ancestorChanges":
					p := e.fields["Path"]
					c.Check("R5", key, e.store.Pos(), p != nil && eng.Render(p) == "p1", "the change targets the handler's path")
				}
			}
		}
	}
	if nconf < 10 {
		c.Problem("R3", "expected ≥10 conflict emissions over handler paths, found %d", nconf)
	}

	// R4.
	if ev := c.MustFunc("R4", corePkg, "Conflict.EnsureValid"); ev != nil {
		requireAtNilReturns(c, "R4", "alpha-nonempty", ev, `^\(len\(p0\.AlphaChanges\) == 0\)$`, false, "a conflict without alpha changes is invalid")
		requireAtNilReturns(c, "R4", "beta-nonempty", ev, `^\(len\(p0\.BetaChanges\) == 0\)$`, false, "a conflict without beta changes is invalid")
	}
}

func keysOf(m map[string]bool) []string { return keys(m) }

// nonEmptyOnPath decides whether a change-list value is provably non-empty on a
// handler path.
func nonEmptyOnPath(p eng.Path, v ssa.Value) (bool, string) {
	if v == nil {
		return false, "list not set"
	}
	if el := eng.SliceLitElems(v); len(el) > 0 {
		return true, fmt.Sprintf("literal with %d element(s)", len(el))
	}
	r := eng.Render(v)
	if lenZeroAtom(p, r, false) {
		return true, "guarded len>0: " + r
	}
	// disagreement invariant
	for _, pair := range [][2]string{{rAlpha, rBeta}, {rBeta, rAlpha}} {
		if r == sideDiff(pair[0]) && lenZeroAtom(p, sideDiff(pair[1]), true) {
			return true, "ancestor diff of one side where the other side's diff is empty"
		}
	}
	return false, "no non-emptiness fact for " + r + " among: " + atomsOf(p)
}

// c06PrefixRule decides that child paths are prefixed whenever any of the three
// content maps is non-empty (shared with C04).
func c06PrefixRule(c *eng.Ctx, rule string, rec *ssa.Function) {
	// The child prefix is φ("" | Joinable(path)). The "" edge may be taken only
	// where all three content maps are known to be empty — however the test is
	// written (three `> 0` tests, a De Morgan'd named boolean, `== 0` …): the
	// facts holding on that edge, including those implied by a boolean it
	// branches on, must say so for alpha's and beta's map and mention the
	// ancestor's (whose contents may have been replaced by nil just before).
	n := 0
	for _, call := range eng.CallsNamed(rec, "synchronization/core/fastpath.Joinable") {
		cl, ok := call.(*ssa.Call)
		if !ok {
			continue
		}
		for _, ref := range *cl.Referrers() {
			phi, ok := ref.(*ssa.Phi)
			if !ok {
				continue
			}
			for i, e := range phi.Edges {
				if k, isC := e.(*ssa.Const); !isC || k.Value == nil || k.Value.ExactString() != `""` {
					continue
				}
				n++
				pred := phi.Block().Preds[i]
				g := append([]eng.Atom(nil), eng.GuardsOfBlock(pred)...)
				if iff, ok := pred.Instrs[len(pred.Instrs)-1].(*ssa.If); ok && len(pred.Succs) == 2 && pred.Succs[0] != pred.Succs[1] {
					pol := pred.Succs[0] == phi.Block()
					g = append(g, eng.MkAtom(iff.Cond, pol))
					g = append(g, eng.ImpliedAtoms(iff.Cond, pol)...)
				}
				var missing []string
				for _, w := range []string{"p2", "p3", "p4"} {
					empty := false
					for _, a := range g {
						if !strings.Contains(a.Expr, "GetContents("+w+")") {
							continue
						}
						if w == "p2" {
							empty = true // ancestor contents may be overridden to nil after an ancestor change
						}
						if strings.HasSuffix(a.Expr, " > 0)") && !a.Pos || strings.HasSuffix(a.Expr, " == 0)") && a.Pos {
							empty = true
						}
					}
					if !empty {
						missing = append(missing, w)
					}
				}
				c.Check(rule, "prefix-when-any-contents", call.Pos(), len(missing) == 0, "the child prefix is computed when ancestor, alpha or beta has contents (the empty prefix is used only where all three content maps are empty)", fmt.Sprintf("not known empty on the \"\" edge: %v; facts: %s", missing, atomsShort(g)))
			}
		}
	}
	if n == 0 {
		c.Problem(rule, "child-prefix selection (\"\" vs Joinable(path)) not found in reconcile")
	}
}

// c06FreshList: v is a slice that no other conflict or later path can alias:
// a slice literal, the result of a package-level function of package core (diff,
// extractNonDeletionChanges — they build and return their own slice), or a φ
// of such values. A method of the reconciler, a field load or a parameter may
// hand out shared storage.
func c06FreshList(v ssa.Value, depth int) (bool, string) {
	if v == nil {
		return false, "list not set"
	}
	if depth > 4 {
		return false, "too deep"
	}
	switch x := eng.Unwrap(v).(type) {
	case *ssa.Slice:
		if _, ok := x.X.(*ssa.Alloc); ok {
			return true, ""
		}
		return c06FreshList(x.X, depth+1)
	case *ssa.Call:
		callee := x.Call.StaticCallee()
		if callee != nil && callee.Signature.Recv() == nil && eng.FuncPkgRel(callee) == corePkg {
			// the function must not return one of its parameters or a global
			for _, r := range eng.Returns(callee) {
				for _, rv := range eng.RetResults(r) {
					if _, isParam := eng.Unwrap(rv).(*ssa.Parameter); isParam {
						return false, eng.FuncName(callee) + " returns a parameter"
					}
				}
			}
			return true, ""
		}
		if eng.CalleeName(x) == "builtin:append" {
			return c06FreshList(x.Call.Args[0], depth+1)
		}
		return false, "result of " + eng.CalleeName(x)
	case *ssa.Phi:
		for _, e := range x.Edges {
			if ok, why := c06FreshList(e, depth+1); !ok {
				return false, why
			}
		}
		return true, ""
	case *ssa.Const:
		return true, ""
	case *ssa.MakeSlice:
		return true, ""
	}
	return false, eng.Render(v)
}

// c06WhoMayEmit (C06.R6, shared with C01 as R10): every write of the reconciler's
// result lists sits in reconcile or one of the disagreement handlers. For C01
// the reason is that R1–R9 analyse the emissions of those functions only: a
// deletion or replacement emitted anywhere else (a fast path in front of the
// mode switch, a post-pass) is planned without the safe-mode acceptance
// conditions having been applied to it.
func c06WhoMayEmit(c *eng.Ctx, rule string, rec *ssa.Function, handlers []*ssa.Function) {
	// R6 (who may emit): the one-emission-per-visited-path argument of R1/R2
	// covers the plan only if nothing else adds to it — every write of the
	// reconciler's result lists sits in reconcile or one of the handlers (a pass
	// that edits the lists afterwards can pair a change with a conflict at the
	// same path).
	allowed := map[*ssa.Function]bool{rec: true}
	for _, h := range handlers {
		for _, f := range eng.WithClosures(h) {
			allowed[f] = true
		}
	}
	nEmit := 0
	for _, list := range []string{"ancestorChanges", "alphaChanges", "betaChanges", "conflicts"} {
		fld, err := c.P.Field(corePkg, "reconciler", list)
		if err != nil {
			c.Problem(rule, "%v", err)
			continue
		}
		for _, st := range eng.StoresToField(c.P.ModuleFuncs(), fld) {
			nEmit++
			c.Check(rule, "emitter:"+list+"@"+eng.FuncName(st.Fn), st.Store.Pos(), allowed[st.Fn], "the plan's lists are written only by reconcile and the disagreement handlers", eng.FuncName(st.Fn))
		}
	}
	if nEmit < 8 {
		c.Problem(rule, "expected ≥8 writes of the reconciler's result lists, found %d", nEmit)
	}
}
