package rules

import (
	"fmt"
	"go/token"
	"go/types"
	"strings"

	"golang.org/x/tools/go/ssa"

	"verif/sa/eng"
)

func init() {
	eng.Register(&eng.Property{
		ID:       "C19",
		Title:    "rsync deltas reconstruct the target exactly",
		Packages: []string{rsyncPkg},
		Explanation: "Only shape conditions that exact reconstruction needs are decided; byte-exact reconstruction itself is arithmetic over runtime data and is NOT decided. " +
			"(R1, literal size bound) every transmitData argument is data[:min(len(data), maxDataOpSize)] or (a prefix of) a buffer allocated with exactly maxDataOpSize bytes; (R2) a zero maxDataOpSize is replaced by the default before any use; " +
			"(R3) transmitBlock is only called with a pending count tested > 0; (R4, coalescing) a matched block extends the pending run only when its index equals start+count exactly, otherwise the run is flushed and restarted at (index, 1); " +
			"(R5) the literal-only fast path is taken exactly when the base signature has no hashes; (R6) a block operation is emitted only for an index whose strong hash was compared equal with bytes.Equal against the signature's hash at that index; " +
			"(R7, Patch) a data operation writes exactly operation.Data; a block operation seeks to Start·BlockSize and copies Count blocks, using LastBlockSize exactly for the signature's last index and BlockSize otherwise, each read with ReadFull. " +
			"(R8, every base block can be found) the weak-hash lookup table is a multimap: each full-size block's index is appended, unconditionally, to the candidates of its weak hash, and the search compares the strong hash inside a loop over those candidates — 32-bit weak hashes collide, and a table that keeps one block per weak hash sends colliding unchanged blocks as literals; " +
			"(R9) Patch seeks the base for every block operation under no condition on the engine's own state (an engine is reused across bases; a remembered offset belongs to the previous one); " +
			"Not decided: Apply(base, Delta(base,target)) = target; absence of literals for unchanged targets beyond R5.",
		Assumptions: []string{"strong-hash equality means block equality (collision resistance)"},
		Run:         runC19,
	})
}

func runC19(c *eng.Ctx) {
	c19SeekEveryBlock(c)
	del := c.MustFunc("R1", rsyncPkg, "Engine.Deltify")
	chunk := c.MustFunc("R1", rsyncPkg, "Engine.chunkAndTransmitAll")
	if del == nil || chunk == nil {
		return
	}
	tdName := "(*synchronization/rsync.Engine).transmitData"
	tbName := "(*synchronization/rsync.Engine).transmitBlock"
	// R1.
	n := 0
	for _, fn := range append(eng.WithClosures(del), chunk) {
		for _, call := range eng.CallsNamed(fn, tdName) {
			n++
			a := call.Common().Args[1]
			r := eng.Render(a)
			ok := false
			why := r
			if sl, isS := a.(*ssa.Slice); isS && sl.Low == nil && sl.High != nil {
				if hc, isC := sl.High.(*ssa.Call); isC && strings.HasSuffix(eng.CalleeName(hc), "min") && len(hc.Call.Args) == 2 {
					lenOK := false
					if cv, isCv := hc.Call.Args[0].(*ssa.Convert); isCv {
						if lc, isL := cv.X.(*ssa.Call); isL && eng.CalleeName(lc) == "builtin:len" && lc.Call.Args[0] == sl.X {
							lenOK = true
						}
					}
					if lenOK && strings.Contains(eng.Render(hc.Call.Args[1]), "maxDataOpSize") {
						ok = true
					}
				}
				if strings.HasPrefix(eng.Render(sl.X), "(*synchronization/rsync.Engine).bufferWithSize(p0, ") {
					ok = true // prefix of a buffer of exactly maxDataOpSize bytes (checked below)
				}
			} else if strings.HasPrefix(r, "(*synchronization/rsync.Engine).bufferWithSize(p0, ") {
				ok = true
			}
			c.Check("R1", fmt.Sprintf("literal-bounded#%d@%s", n, eng.FuncName(fn)), call.Pos(), ok, "a literal operation carries at most maxDataOpSize bytes", why[:min(200, len(why))])
		}
	}
	if n < 3 {
		c.Problem("R1", "expected ≥3 transmitData calls, found %d", n)
	}
	for _, call := range eng.CallsNamed(chunk, "(*synchronization/rsync.Engine).bufferWithSize") {
		r := eng.Render(call.Common().Args[1])
		c.Check("R1", "chunk-buffer-size", call.Pos(), strings.HasPrefix(r, "phi(") && strings.Contains(r, "p2"), "the chunking buffer has exactly maxDataOpSize bytes", r)
	}
	// R2.
	for _, fn := range []*ssa.Function{del, chunk} {
		idx := 3
		if fn == chunk {
			idx = 2
		}
		p := fn.Params[idx]
		okPhi := false
		for _, ref := range *p.Referrers() {
			phi, ok := ref.(*ssa.Phi)
			if !ok {
				continue
			}
			for i, e := range phi.Edges {
				if _, isC := eng.ConstInt64(e); isC {
					// the constant edge is taken under (p == 0)
					pred := phi.Block().Preds[i]
					if eng.HasAtom(eng.GuardsOfBlock(pred), `^\(`+eng.Render(p)+` == 0\)$`, true) {
						okPhi = true
					}
				}
			}
			// every other use of the raw parameter is the zero test or this phi
		}
		rawUses := 0
		for _, ref := range *p.Referrers() {
			switch x := ref.(type) {
			case *ssa.Phi:
			case *ssa.BinOp:
				if z, isZ := eng.ConstInt64(x.Y); !(isZ && z == 0) {
					rawUses++
				}
			case *ssa.DebugRef:
			default:
				rawUses++
			}
		}
		if !okPhi {
			// the parameter is captured by a closure: it lives in a cell
			for _, ref := range *p.Referrers() {
				st, ok := ref.(*ssa.Store)
				if !ok {
					continue
				}
				cell, ok := st.Addr.(*ssa.Alloc)
				if !ok {
					continue
				}
				rawUses--
				for _, r2 := range *cell.Referrers() {
					if s2, ok := r2.(*ssa.Store); ok && s2 != st {
						if v, isC := eng.ConstInt64(s2.Val); isC && v > 0 && s2.Block().Idom() == fn.Blocks[0] {
							for _, a := range eng.Guards(s2) {
								if b, ok := a.V.(*ssa.BinOp); ok && a.Pos && isLoadOf(b.X, cell) {
									if z, isZ := eng.ConstInt64(b.Y); isZ && z == 0 {
										okPhi = true
									}
								}
							}
						}
					}
				}
			}
		}
		c.Check("R2", "zero-means-default:"+eng.FuncName(fn), fn.Pos(), okPhi && rawUses == 0, "a zero maximum is replaced by the default before the value is used anywhere", fmt.Sprintf("raw uses=%d", rawUses))
	}

	// R3/R4: the block coalescing.
	nb := 0
	for _, fn := range eng.WithClosures(del) {
		for _, call := range eng.CallsNamed(fn, tbName) {
			nb++
			g := eng.Guards(call)
			cnt := eng.Render(call.Common().Args[2])
			ok := eng.HasAtom(g, `^\(`+eng.Q(cnt)+` > 0\)$`, true) || eng.HasAtom(g, `^\(`+eng.Q(cnt)+` == 0\)$`, false)
			c.Check("R3", fmt.Sprintf("block-count-positive#%d", nb), call.Pos(), ok, "a block operation is transmitted only with a positive count", atomsShort(g))
		}
	}
	if nb < 3 {
		c.Problem("R3", "expected ≥3 transmitBlock calls, found %d", nb)
	}
	if len(del.AnonFuncs) < 2 {
		c.Problem("R4", "Deltify closures not found")
		return
	}
	var sendBlock *ssa.Function
	for _, f := range del.AnonFuncs {
		if len(f.Params) == 1 && strings.HasSuffix(eng.TypeShort(f.Params[0].Type()), "uint64") {
			sendBlock = f
		}
	}
	if sendBlock == nil {
		c.Problem("R4", "sendBlock closure not found")
	} else {
		c.Analysed(sendBlock)
		nInc, nRestart := 0, 0
		eng.EachInstr(sendBlock, func(i ssa.Instruction) {
			st, ok := i.(*ssa.Store)
			if !ok {
				return
			}
			fv, ok := st.Addr.(*ssa.FreeVar)
			if !ok {
				return
			}
			g := eng.Guards(st)
			switch fv.Name() {
			case "coalescedCount":
				r := eng.Render(st.Val)
				if r == "(*fv:coalescedCount + 1)" {
					nInc++
					adj := eng.HasAtom(g, `^\(\(\*fv:coalescedStart \+ \*fv:coalescedCount\) == p0\)$`, true)
					c.Check("R4", "extend-only-if-adjacent", st.Pos(), adj, "the pending run grows only when the new block index equals start+count exactly", atomsShort(g))
				} else if v, isC := eng.ConstInt64(st.Val); isC && v == 1 {
					nRestart++
				} else {
					c.Check("R4", "count-update-form", st.Pos(), false, "the pending count is only incremented or restarted at 1", r)
				}
			case "coalescedStart":
				c.Check("R4", "restart-at-index", st.Pos(), eng.Render(st.Val) == "p0", "a new run starts at the matched index", eng.Render(st.Val))
			}
		})
		c.Check("R4", "one-extend-one-restart", sendBlock.Pos(), nInc == 1 && nRestart == 1, "the closure has exactly one extension and one restart of the pending run", fmt.Sprintf("extend=%d restart=%d", nInc, nRestart))
		// the flush before a restart passes the pending (start, count)
		for _, call := range eng.CallsNamed(sendBlock, tbName) {
			a := call.Common().Args
			c.Check("R4", "flush-pending-run", call.Pos(), eng.Render(a[1]) == "*fv:coalescedStart" && eng.Render(a[2]) == "*fv:coalescedCount", "a non-adjacent match first flushes the pending (start, count)", eng.RenderCall(call.Common()))
		}
	}

	// R5.
	for _, call := range eng.CallsTo(del, chunk) {
		g := eng.Guards(call)
		c.Check("R5", "fast-path-iff-empty-base", call.Pos(), eng.HasAtom(g, `^\(len\(p2\.Hashes\) == 0\)$`, true), "the literal-only fast path is taken only for a base signature without hashes", atomsShort(g))
	}
	c.Floor("R5", 1)

	// R6: sendBlock call sites.
	if sendBlock != nil {
		n6 := 0
		for _, call := range eng.Calls(del) {
			cc := call.Common()
			mc, ok := cc.Value.(*ssa.MakeClosure)
			if !ok || mc.Fn != ssa.Value(sendBlock) {
				if u, isU := cc.Value.(*ssa.UnOp); !isU || !strings.Contains(eng.Render(u), "sendBlock") {
					continue
				}
			}
			n6++
			g := eng.Guards(call)
			ok = false
			for _, a := range g {
				if !a.Pos {
					continue
				}
				if strings.HasPrefix(a.Expr, "bytes.Equal(") && strings.Contains(a.Expr, ".Strong") {
					ok = true
				}
				if phi, isPhi := a.V.(*ssa.Phi); isPhi {
					// `match` flag: true only on the edge after bytes.Equal succeeded
					for i, e := range phi.Edges {
						if v, isC := eng.ConstBool(e); isC && v {
							if eng.HasAtom(eng.GuardsOfBlock(phi.Block().Preds[i]), `^bytes\.Equal\(.*\.Strong, `, true) || blockAfterEqual(phi.Block().Preds[i]) {
								ok = true
							}
						}
					}
				}
			}
			c.Check("R6", fmt.Sprintf("block-op-after-strong-match#%d", n6), call.Pos(), ok, "a block operation is emitted only after the strong hashes compared equal", atomsShort(g))
		}
		if n6 < 2 {
			c.Problem("R6", "expected two sendBlock call sites, found %d", n6)
		}
	}

	// R8: every full-size base block can be found again. The lookup table is
	// keyed by the 32-bit weak hash, which collides; each block index is therefore
	// ADDED to the entry of its weak hash (append to what is there), on every
	// iteration. A table that keeps one index per weak hash makes the other
	// colliding blocks unreachable and an unchanged target is sent with literals.
	nTab := 0
	eng.EachInstr(del, func(i ssa.Instruction) {
		mu, ok := i.(*ssa.MapUpdate)
		if !ok || !strings.HasSuffix(eng.Render(mu.Key), ".Weak") {
			return
		}
		nTab++
		// value = append(table[key], index)
		appends := false
		if call, ok := mu.Value.(*ssa.Call); ok && eng.CalleeName(call) == "builtin:append" && len(call.Call.Args) > 0 {
			if lk, ok := eng.Unwrap(call.Call.Args[0]).(*ssa.Lookup); ok && lk.X == mu.Map && eng.Render(lk.Index) == eng.Render(mu.Key) {
				appends = true
			}
		}
		g := eng.Guards(mu)
		cond := false
		for _, a := range g {
			if lk, ok := a.V.(*ssa.Lookup); ok && lk.X == mu.Map {
				cond = true // recorded only if (not) already present
			}
			if ex, ok := a.V.(*ssa.Extract); ok {
				if lk, ok := ex.Tuple.(*ssa.Lookup); ok && lk.X == mu.Map {
					cond = true
				}
			}
		}
		c.Check("R8", "table-keeps-every-block", mu.Pos(), appends && !cond, "each base block's index is appended to the candidates of its weak hash, unconditionally (colliding blocks all stay reachable)", eng.Render(mu.Value)[:min(160, len(eng.Render(mu.Value)))])
	})
	if nTab != 1 {
		c.Problem("R8", "expected one weak-hash table insertion in Deltify, found %d", nTab)
	}
	// … and the search tries every candidate of the weak hash: some strong
	// comparison sits in a range loop (over the table entry), innermost.
	nCmp, looped := 0, 0
	for _, call := range eng.CallsNamed(del, "bytes.Equal") {
		if !strings.Contains(eng.RenderCall(call.Common()), ".Strong") {
			continue
		}
		nCmp++
		var inner *eng.LoopOf
		for _, b := range del.Blocks {
			if l := eng.FindLoop(b); l != nil && l.Body[call.Block()] && (inner == nil || len(l.Body) < len(inner.Body)) {
				inner = l
			}
		}
		if inner != nil {
			for bb := range inner.Body {
				for _, in := range bb.Instrs {
					// the loop's bound is the length of a table entry — `for _, p := range
					// table[w]` and `for i := 0; i < len(table[w]); i++` both compare an
					// index against len(<map lookup>)
					b, ok := in.(*ssa.BinOp)
					if !ok || b.Op != token.LSS {
						continue
					}
					if ln, ok := eng.Unwrap(b.Y).(*ssa.Call); ok && eng.CalleeName(ln) == "builtin:len" {
						if lk, ok := eng.Unwrap(ln.Call.Args[0]).(*ssa.Lookup); ok {
							if _, isMap := lk.X.Type().Underlying().(*types.Map); isMap {
								looped++
							}
						}
					}
				}
			}
		}
	}
	c.Check("R8", "all-candidates-tried", del.Pos(), nCmp >= 1 && looped >= 1, "the strong hash is compared against every candidate block of the weak hash (a range loop over the table entry), not just one", fmt.Sprintf("strong comparisons=%d, inside a candidate loop=%d", nCmp, looped))

	// R7.
	if patch := c.MustFunc("R7", rsyncPkg, "Engine.Patch"); patch != nil {
		for _, call := range eng.Calls(patch) {
			cc := call.Common()
			if cc.IsInvoke() && cc.Method.Name() == "Write" {
				r := eng.Render(cc.Args[0])
				g := eng.Guards(call)
				if r == "p4.Data" {
					c.Check("R7", "data-op-writes-data", call.Pos(), eng.HasAtom(g, `^\(len\(p4\.Data\) > 0\)$`, true), "a data operation writes its own payload")
				} else {
					c.Check("R7", "block-op-writes-buffer", call.Pos(), strings.HasPrefix(r, "(*synchronization/rsync.Engine).bufferWithSize(p0, "), "a block operation writes the block just read", r)
				}
			}
			if cc.IsInvoke() && cc.Method.Name() == "Seek" {
				r := eng.Render(cc.Args[0])
				c.Check("R7", "seek-offset", call.Pos(), r == "(conv:int64(p4.Start) * conv:int64(p3.BlockSize))", "the base is positioned at Start·BlockSize", r)
			}
			if eng.CalleeName(call) == "io.ReadFull" {
				c.Check("R7", "full-block-read", call.Pos(), true, "blocks are read with ReadFull")
			}
			if eng.CalleeName(call) == "(*synchronization/rsync.Engine).bufferWithSize" {
				phi, ok := cc.Args[1].(*ssa.Phi)
				okLen := false
				if ok && len(phi.Edges) == 2 {
					okLen = true
					for i, e := range phi.Edges {
						r := eng.Render(e)
						pred := phi.Block().Preds[i]
						isLast := eng.HasAtom(eng.GuardsOfBlock(pred), `^\(\(p4\.Start \+ .*\) == conv:uint64\(\(len\(p3\.Hashes\) - 1\)\)\)$`, true)
						switch r {
						case "p3.LastBlockSize":
							if !isLast {
								okLen = false
							}
						case "p3.BlockSize":
						default:
							okLen = false
						}
					}
				}
				c.Check("R7", "copy-length", call.Pos(), okLen, "the copy length is LastBlockSize exactly for the signature's last block index, BlockSize otherwise", eng.Render(cc.Args[1]))
			}
		}
		// loop bound: c < operation.Count
		found := false
		eng.EachInstr(patch, func(i ssa.Instruction) {
			if iff, ok := i.(*ssa.If); ok {
				if b, ok := iff.Cond.(*ssa.BinOp); ok && b.Op == token.LSS && eng.Render(b.Y) == "p4.Count" {
					found = true
				}
			}
		})
		c.Check("R7", "copies-count-blocks", patch.Pos(), found, "exactly Count blocks are copied")
		c.Floor("R7", 6)
	}
}

// blockAfterEqual: the block is the true successor of a bytes.Equal(... .Strong ...) test.
func blockAfterEqual(b *ssa.BasicBlock) bool {
	for _, p := range b.Preds {
		if iff, ok := p.Instrs[len(p.Instrs)-1].(*ssa.If); ok && p.Succs[0] == b {
			r := eng.Render(iff.Cond)
			if strings.HasPrefix(r, "bytes.Equal(") && strings.Contains(r, ".Strong") {
				return true
			}
		}
	}
	return false
}
