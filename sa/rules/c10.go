package rules

import (
	"fmt"
	"strings"

	"golang.org/x/tools/go/ssa"

	"verif/sa/eng"
)

const (
	storePkg   = "pkg/synchronization/endpoint/local/staging/store"
	stagingPkg = "pkg/synchronization/endpoint/local/staging"
	streamPkg  = "pkg/stream"
)

func init() {
	eng.Register(&eng.Property{
		ID:       "C10",
		Title:    "Files written into a root always carry the planned content",
		Packages: []string{storePkg, stagingPkg, streamPkg, corePkg, localEPPkg, rsyncPkg},
		Explanation: "Content addressing decided by value provenance and ordering on every path: " +
			"(R1) Storage.Commit names the committed file after hasher.Sum(nil) — the digest of what was written — and renames the temporary to that name only on paths where the buffered writer's Flush and the file's Close both returned nil; " +
			"(R2) Store.Allocate wires buffer → HashedWriter(storage file, hasher) with the very file and hasher it records; Storage.Write writes only to the buffer and enforces the size limit before writing; the file handle is otherwise only closed/named; " +
			"(R3) the hashed writer digests exactly data[:n], n being the count the downstream writer reported, and returns the downstream result unchanged; " +
			"(R4) Stager.Provide/Contains/Sink go to the store with the caller's (path, digest); Sink.Close commits under the sink's own path; " +
			"(R5) in findAndMoveStagedFileIntoPlace the file renamed or copied into the root is the path returned by provider.Provide(path, target.Digest) for the same path and target; " +
			"(R6) stageFromRoot reports success only as the store's Contains(path, digest) verdict after a complete copy; " +
			"(R7) package rsync creates or opens no file for writing except through Sinker.Sink; " +
			"(R8) in the cross-device fallback the intermediate copy is chmod-ed and renamed into the root only on paths where io.CopyBuffer reported no error, and every error exit removes it (same rule as C09.R5). " +
			"(R4 addition) every return of Store.target yields a name and prefix computed from THIS call's digest (a remembered result keyed on the path alone would name other content); " +
			"Not decided: collision resistance of the digest; that bytes on disk equal bytes hashed (trusted: os.File.Write).",
		Assumptions: []string{"hash.Hash.Sum returns the digest of the bytes written to it", "os.File.Write/Close report failures"},
		Run:         runC10,
	})
}

func runC10(c *eng.Ctx) {
	// R1.
	if fn := c.MustFunc("R1", storePkg, "Storage.Commit"); fn != nil {
		var sum *ssa.Call
		for _, call := range eng.InvokesOf(fn, "Sum") {
			sum, _ = call.(*ssa.Call)
		}
		if sum == nil || eng.Render(sum.Call.Value) != "p0.hasher" {
			c.Problem("R1", "Commit does not call s.hasher.Sum")
		} else {
			for _, call := range eng.CallsNamed(fn, "(*synchronization/endpoint/local/staging/store.Store).target") {
				args := call.Common().Args
				c.Check("R1", "target-digest", call.Pos(), args[2] == ssa.Value(sum) && eng.Render(args[1]) == "p1", "the storage name is computed from (path, digest of the written bytes)", eng.Render(args[2]))
			}
			renames := eng.CallsNamed(fn, "filesystem.Rename")
			for _, call := range renames {
				args := call.Common().Args
				src, dst := eng.Render(args[1]), eng.Render(args[3])
				c.Check("R1", "rename-source", call.Pos(), src == "(*os.File).Name(p0.storage)", "the file committed is the temporary that was written", src)
				c.Check("R1", "rename-destination", call.Pos(), strings.HasSuffix(dst, ".target(p0.store, p1, invoke:Sum(p0.hasher, nil))#0"), "… and it is renamed to the content-addressed name", dst)
				g := eng.Guards(call)
				c.Check("R1", "flush-ok", call.Pos(), eng.HasAtom(g, `^\(\(\*bufio\.Writer\)\.Flush\(p0\.buffer\) == nil\)$`, true), "commit happens only if flushing the buffered data succeeded", eng.AtomsText(g)[:min(240, len(eng.AtomsText(g)))])
				c.Check("R1", "close-ok", call.Pos(), eng.HasAtom(g, `^\(\(\*os\.File\)\.Close\(p0\.storage\) == nil\)$`, true), "commit happens only if closing the file succeeded")
			}
			if len(renames) != 1 {
				c.Problem("R1", "expected one rename in Commit, found %d", len(renames))
			}
			// Sum is taken after the flush.
			for _, call := range eng.CallsNamed(fn, "(*bufio.Writer).Flush") {
				c.Check("R1", "sum-after-flush", sum.Pos(), call.Block().Dominates(sum.Block()) && call.Block() != sum.Block() || call.Block() == sum.Block() && eng.InstrIndex(call) < eng.InstrIndex(sum), "the digest is taken after all buffered data went through the hashed writer")
			}
		}
		c.Floor("R1", 6)
	}

	// R2.
	if fn := c.MustFunc("R2", storePkg, "Store.Allocate"); fn != nil {
		for _, r := range eng.Returns(fn) {
			res := eng.RetResults(r)
			lit := eng.LitOf(res[0])
			if lit == nil {
				continue
			}
			f := eng.LitFields(lit)
			rv := func(n string) string {
				if f[n] == nil {
					return "<unset>"
				}
				return eng.Render(f[n])
			}
			file, hasher := rv("storage"), rv("hasher")
			c.Check("R2", "file-is-fresh-temp", r.Pos(), strings.HasPrefix(file, "os.CreateTemp(p0.root, "), "the storage file is a fresh temporary inside the store", file)
			c.Check("R2", "writer-wiring", r.Pos(), rv("writer") == "stream.NewHashedWriter("+file+", "+hasher+")", "the hashed writer wraps exactly the recorded file and hasher", rv("writer"))
			okReset := false
			for _, call := range eng.CallsNamed(fn, "(*bufio.Writer).Reset") {
				a := call.Common().Args
				if eng.Render(a[0]) == rv("buffer") && eng.Render(a[1]) == rv("writer") {
					okReset = true
				}
			}
			c.Check("R2", "buffer-wiring", r.Pos(), okReset, "the buffer is reset onto the hashed writer")
			hres := false
			for _, call := range eng.InvokesOf(fn, "Reset") {
				if eng.Render(call.Common().Value) == hasher {
					hres = true
				}
			}
			c.Check("R2", "hasher-reset", r.Pos(), hres, "the pooled hasher is reset before use")
		}
	}
	if fn := c.MustFunc("R2", storePkg, "Storage.Write"); fn != nil {
		writes := 0
		for _, call := range eng.Calls(fn) {
			n := eng.CalleeName(call)
			if strings.HasSuffix(n, ".Write") || strings.HasSuffix(n, ".WriteString") {
				writes++
				c.Check("R2", "write-target", call.Pos(), n == "(*bufio.Writer).Write" && eng.Render(call.Common().Args[0]) == "p0.buffer" && eng.Render(call.Common().Args[1]) == "p1", "Storage.Write writes the caller's data to the buffer only", eng.RenderCall(call.Common()))
				g := eng.Guards(call)
				c.Check("R2", "size-limit-first", call.Pos(), eng.HasAtom(g, `^\(\(p0\.store\.maximumFileSize - p0\.currentSize\) < conv:uint64\(len\(p1\)\)\)$`, false), "the size limit is enforced before anything is written", eng.AtomsText(g))
			}
		}
		if writes != 1 {
			c.Problem("R2", "expected one write in Storage.Write, found %d", writes)
		}
	}
	if fld, err := c.P.Field(storePkg, "Storage", "storage"); err == nil {
		for _, in := range eng.FieldAddrsOf(c.P.ModuleFuncs(storePkg), fld) {
			v := in.(ssa.Value)
			for _, ref := range *v.Referrers() {
				switch x := ref.(type) {
				case *ssa.Store:
					c.Check("R2", "file-field-store", x.Pos(), strings.HasSuffix(eng.FuncName(x.Parent()), "Store).Allocate"), "the file handle is set only by Allocate")
				case *ssa.UnOp:
					for _, r2 := range *x.Referrers() {
						if call, ok := r2.(ssa.CallInstruction); ok {
							n := eng.CalleeName(call)
							c.Check("R2", "file-field-use:"+n, call.Pos(), n == "(*os.File).Close" || n == "(*os.File).Name", "the raw file handle is only closed or named (all content goes through the hashed writer)", n)
						}
					}
				}
			}
		}
	}
	c.Floor("R2", 9)

	// R3.
	if fn := c.MustFunc("R3", streamPkg, "hashedWriter.Write"); fn != nil {
		var down *ssa.Call
		for _, call := range eng.InvokesOf(fn, "Write") {
			if eng.Render(call.Common().Value) == "p0.writer" {
				down, _ = call.(*ssa.Call)
			}
		}
		if down == nil {
			c.Problem("R3", "hashedWriter.Write does not write downstream")
		} else {
			c.Check("R3", "downstream-data", down.Pos(), eng.Render(down.Call.Args[0]) == "p1", "the downstream writer receives the caller's data")
			n := 0
			for _, call := range eng.InvokesOf(fn, "Write") {
				if eng.Render(call.Common().Value) != "p0.hasher" {
					continue
				}
				n++
				c.Check("R3", "hash-what-was-written", call.Pos(), eng.Render(call.Common().Args[0]) == "p1[:invoke:Write(p0.writer, p1)#0]", "the hasher sees exactly the bytes the downstream writer accepted", eng.Render(call.Common().Args[0]))
			}
			if n != 1 {
				c.Problem("R3", "expected one hasher write, found %d", n)
			}
			for _, r := range eng.Returns(fn) {
				res := eng.RetResults(r)
				c.Check("R3", "result-passthrough", r.Pos(), eng.Render(res[0]) == "invoke:Write(p0.writer, p1)#0" && eng.Render(res[1]) == "invoke:Write(p0.writer, p1)#1", "the downstream count and error are returned unchanged")
			}
		}
	}

	// R4.
	type fw struct{ fn, callee, args string }
	for _, x := range []fw{
		{"Stager.Contains", "(*synchronization/endpoint/local/staging/store.Store).Contains", "p0.store, p1, p2"},
		{"Stager.Provide", "(*synchronization/endpoint/local/staging/store.Store).Path", "p0.store, p1, p2"},
		{"Sink.Close", "(*synchronization/endpoint/local/staging/store.Storage).Commit", "p0.storage, p0.path"},
		{"Sink.Write", "(*synchronization/endpoint/local/staging/store.Storage).Write", "p0.storage, p1"},
	} {
		fn := c.MustFunc("R4", stagingPkg, x.fn)
		if fn == nil {
			continue
		}
		calls := eng.CallsNamed(fn, x.callee)
		ok := len(calls) == 1 && eng.RenderCall(calls[0].Common()) == x.callee+"("+x.args+")"
		d := ""
		if len(calls) > 0 {
			d = eng.RenderCall(calls[0].Common())
		}
		c.Check("R4", "forward:"+x.fn, fn.Pos(), ok, x.fn+" forwards its own arguments to the store", d)
		for _, r := range eng.Returns(fn) {
			for _, rv := range eng.RetResults(r) {
				c.Check("R4", "forward-result:"+x.fn, r.Pos(), strings.HasPrefix(eng.Render(rv), x.callee+"("), "… and returns the store's answer", eng.Render(rv))
			}
		}
	}
	if fn := c.MustFunc("R4", stagingPkg, "Stager.Sink"); fn != nil {
		for _, r := range eng.Returns(fn) {
			res := eng.RetResults(r)
			if lit := eng.LitOf(res[0]); lit != nil {
				f := eng.LitFields(lit)
				ok := f["path"] != nil && eng.Render(f["path"]) == "p1" && f["storage"] != nil && strings.HasSuffix(eng.Render(f["storage"]), ".Allocate(p0.store)#0")
				c.Check("R4", "sink-binds-path", r.Pos(), ok, "a sink remembers the path it was opened for and a fresh storage")
			}
		}
	}
	if fn := c.MustFunc("R4", storePkg, "Store.Path"); fn != nil {
		for _, r := range eng.Returns(fn) {
			res := eng.RetResults(r)
			if !eng.IsNilConst(res[1]) {
				continue
			}
			c.Check("R4", "path-is-target", r.Pos(), strings.HasSuffix(eng.Render(res[0]), ".target(p0, p1, p2)#0"), "the provided path is the content-addressed name for (path, digest)", eng.Render(res[0]))
		}
	}
	// The content address is a function of the digest on every way it is
	// produced: no return of Store.target yields a name that was not computed
	// from the digest argument of THIS call (a remembered result for the same
	// path would name other content).
	if fn := c.MustFunc("R4", storePkg, "Store.target"); fn != nil && len(fn.Params) == 3 {
		digest := fn.Params[2]
		for k, r := range eng.Returns(fn) {
			res := eng.RetResults(r)
			for j, what := range []string{"name", "prefix"} {
				if j >= len(res) {
					continue
				}
				c.Check("R4", fmt.Sprintf("target-%s-depends-on-digest#%d", what, k+1), r.Pos(), eng.DependsOnAll(res[j], digest), "the storage "+what+" returned is computed from this call's digest on every path", eng.Render(res[j]))
			}
		}
	}
	c.Floor("R4", 12)

	// R5.
	if fn := c.MustFunc("R5", corePkg, "transitioner.findAndMoveStagedFileIntoPlace"); fn != nil {
		prov := "invoke:Provide(p0.provider, p1, p2.Digest)#0"
		n := 0
		for _, call := range eng.Calls(fn) {
			name := eng.CalleeName(call)
			args := call.Common().Args
			switch name {
			case "filesystem.Rename":
				if eng.IsNilConst(args[0]) {
					n++
					c.Check("R5", "rename-source", call.Pos(), eng.Render(args[1]) == prov, "the file moved into the root is the one the provider named for (path, target digest)", eng.Render(args[1]))
				}
			case "os.Open":
				n++
				c.Check("R5", "copy-source", call.Pos(), eng.Render(args[0]) == prov, "the cross-device copy reads the provider's file", eng.Render(args[0]))
			case "filesystem.SetPermissionsByPath":
				n++
				c.Check("R5", "chmod-target", call.Pos(), eng.Render(args[0]) == prov, "permissions are set on the provider's file", eng.Render(args[0]))
			}
		}
		if n < 3 {
			c.Problem("R5", "expected rename, open and chmod of the staged file, found %d", n)
		}
		for _, call := range eng.InvokesOf(fn, "Provide") {
			g := eng.Guards(call)
			_ = g
			c.Check("R5", "provide-args", call.Pos(), eng.RenderCall(call.Common()) == "invoke:Provide(p0.provider, p1, p2.Digest)", "the provider is asked for this transition's path and the planned digest", eng.RenderCall(call.Common()))
		}
	}

	// R8: an incomplete cross-device copy never reaches the root (shared with C09.R5).
	c09CrossDevice(c, "R8")

	// R6.
	if fn := c.MustFunc("R6", localEPPkg, "endpoint.stageFromRoot"); fn != nil {
		var cp *ssa.Call
		for _, call := range eng.CallsNamed(fn, "io.Copy") {
			cp, _ = call.(*ssa.Call)
		}
		for _, r := range eng.Returns(fn) {
			rv := eng.RetResults(r)[0]
			if v, ok := eng.ConstBool(rv); ok {
				c.Check("R6", "constant-result", r.Pos(), !v, "the only constant result is failure")
				continue
			}
			c.Check("R6", "verdict-from-store", r.Pos(), (eng.Render(rv) == "invoke:Contains(p0.stager, p1, p2)#0" || eng.Render(rv) == "(*synchronization/endpoint/local/staging.Stager).Contains(p0.stager, p1, p2)#0"), "success is the store's verdict that (path, digest) is now staged", eng.Render(rv))
			if cp != nil {
				g := eng.Guards(r)
				c.Check("R6", "after-complete-copy", r.Pos(), eng.HasAtom(g, `^\(`+eng.Q(eng.Render(cp))+`#1 == nil\)$`, true), "the verdict is asked only after the copy finished without error", eng.AtomsText(g)[:min(200, len(eng.AtomsText(g)))])
			}
		}
		for _, call := range eng.CallsNamed(fn, "(*synchronization/endpoint/local/staging.Stager).Sink") {
			c.Check("R6", "sink-path", call.Pos(), eng.Render(call.Common().Args[1]) == "p1", "the copy is staged under the requested path")
		}
		c.Floor("R6", 4)
	}

	// R7.
	writers := map[string]bool{"os.OpenFile": true, "os.Create": true, "os.WriteFile": true, "os.CreateTemp": true, "os.Rename": true, "filesystem.Rename": true, "filesystem.WriteFileAtomic": true}
	bad := 0
	var first ssa.CallInstruction
	nf := 0
	for _, fn := range c.P.ModuleFuncs(rsyncPkg) {
		nf++
		for _, call := range eng.Calls(fn) {
			if writers[eng.CalleeName(call)] {
				bad++
				first = call
			}
		}
	}
	pos := c.P.Pkg(rsyncPkg).Func("Transmit").Pos()
	d := ""
	if first != nil {
		pos = first.Pos()
		d = eng.RenderCall(first.Common())
	}
	c.Check("R7", "rsync-writes-only-through-sinks", pos, bad == 0 && nf > 30, "package rsync never creates or opens a file for writing itself", d)
	sinkCalls := 0
	for _, fn := range c.P.ModuleFuncs(rsyncPkg) {
		sinkCalls += len(eng.InvokesOf(fn, "Sink"))
	}
	c.Check("R7", "sink-is-used", pos, sinkCalls >= 1, "received data is written through Sinker.Sink (positive control for the rule above)")
}
