package rules

import (
	"fmt"
	"go/constant"
	"go/token"
	"strings"

	"golang.org/x/tools/go/ssa"

	"verif/sa/eng"
)

const housekeepingPkg = "pkg/housekeeping"

func init() {
	eng.Register(&eng.Property{
		ID:       "C43",
		Title:    "Housekeeping removes only stale artifacts",
		Packages: []string{housekeepingPkg},
		Explanation: "(R1, who may delete what) the only filesystem-mutating calls in package housekeeping are os.Remove/os.RemoveAll, and each one's argument is filepath.Join(D, name) where D is the first result of filesystem.Mutagen(false, <constant subdirectory>) and name is Name() of an element of DirectoryContentsByPath(D) for that same D — a direct child of Mutagen's own data directory, never a resolved link target or any other path; " +
			"(R2, age) every removal is guarded by now.Sub(T) > K on its true edge, with now = time.Now() taken in the same function, K the documented constant (agents 30 days, caches and staging roots 7 days — constants evaluated) and T the access time of the stat'd agent executable, respectively ModTime() of the stat'd artifact; the stat error is checked; " +
			"(R3, stat subject) agents: the file stat'd is Join(D, name, <agent executable name>) — the executable inside the installation that is removed, not the directory; caches/staging: the path stat'd is the very value that is removed; " +
			"(R4) Housekeep runs the three sweeps, the agent sweep unless in a sidecar. " +
			"Not decided: clock behaviour; what os.RemoveAll does with links (it removes the link, not the target).",
		Assumptions: []string{"os.Remove/RemoveAll do not follow a symbolic link given as their argument", "filesystem.Mutagen returns a path inside the Mutagen data directory"},
		Run:         runC43,
	})
}

func runC43(c *eng.Ctx) {
	day := int64(24 * 3600 * 1e9)
	type sweep struct {
		fn, subdirConst, limitConst string
		days                        int64
		timeSel                     string // "AccessTime" field or "ModTime" method
		agent                       bool
	}
	sweeps := []sweep{
		{"housekeepAgents", "MutagenAgentsDirectoryName", "maximumAgentIdlePeriod", 30, "AccessTime", true},
		{"housekeepCaches", "MutagenSynchronizationCachesDirectoryName", "maximumCacheAge", 7, "ModTime", false},
		{"housekeepStaging", "MutagenSynchronizationStagingDirectoryName", "maximumStagingRootAge", 7, "ModTime", false},
	}
	// R1a: mutators in the package
	mutators := map[string]bool{"os.Remove": true, "os.RemoveAll": true}
	forbidden := []string{"os.Rename", "os.WriteFile", "os.Create", "os.OpenFile", "os.Mkdir", "os.MkdirAll", "os.Chmod", "os.Chown", "os.Truncate", "os.Symlink", "os.Link", "os.Chtimes", "syscall.Unlink", "syscall.Rmdir"}
	nMut := 0
	for _, fn := range c.P.ModuleFuncs(housekeepingPkg) {
		for _, ci := range eng.Calls(fn) {
			n := eng.CalleeName(ci)
			if mutators[n] {
				nMut++
				inSweep := false
				for _, s := range sweeps {
					if strings.HasSuffix(eng.FuncName(fn), "."+s.fn) || eng.FuncName(fn) == s.fn || strings.HasSuffix(eng.FuncName(fn), s.fn) {
						inSweep = true
					}
				}
				c.Check("R1", "removal-inside-a-sweep@"+eng.FuncName(fn), ci.Pos(), inSweep, "removals happen only in the three sweeps")
			}
			for _, f := range forbidden {
				if n == f {
					c.Check("R1", "no-other-mutation:"+n+"@"+eng.FuncName(fn), ci.Pos(), false, "housekeeping does not modify the filesystem other than by removing stale artifacts")
				}
			}
		}
	}
	c.Check("R1", "one-removal-per-sweep", token.NoPos, nMut == 3, "each sweep has exactly one removal site (the one whose age guard is decided by R2)", fmt.Sprint(nMut))

	for _, s := range sweeps {
		fn := c.MustFunc("R1", housekeepingPkg, s.fn)
		if fn == nil {
			continue
		}
		subV, _, err := c.P.Const(fsPkg, s.subdirConst)
		if err != nil {
			c.Problem("R1", "%v", err)
			continue
		}
		subdir := constant.StringVal(subV)
		limV, _, err := c.P.Const(housekeepingPkg, s.limitConst)
		if err != nil {
			c.Problem("R2", "%v", err)
			continue
		}
		lim, _ := constant.Int64Val(limV)
		c.Check("R2", s.fn+"/threshold-constant", fn.Pos(), lim == s.days*day, fmt.Sprintf("%s is %d days", s.limitConst, s.days), fmt.Sprint(lim))

		// D
		var mut *ssa.Call
		for _, ci := range eng.CallsNamed(fn, "filesystem.Mutagen") {
			mut, _ = ci.(*ssa.Call)
		}
		if mut == nil {
			c.Problem("R1", "%s does not call filesystem.Mutagen", s.fn)
			continue
		}
		el := eng.VarargElems(mut.Common())
		okD := len(el) == 1 && constBoolIs(mut.Call.Args[0], false)
		if okD {
			v, isS := eng.ConstString(el[0])
			okD = isS && v == subdir
		}
		c.Check("R1", s.fn+"/sweeps-own-subdirectory", mut.Pos(), okD, "the directory swept is Mutagen's own «"+subdir+"» subdirectory (not created if missing)")
		isD := func(v ssa.Value) bool {
			ex, ok := eng.Unwrap(v).(*ssa.Extract)
			return ok && ex.Tuple == ssa.Value(mut) && ex.Index == 0
		}
		var list *ssa.Call
		for _, ci := range eng.CallsNamed(fn, "filesystem.DirectoryContentsByPath") {
			if cl, ok := ci.(*ssa.Call); ok && isD(cl.Call.Args[0]) {
				list = cl
			}
		}
		isName := func(v ssa.Value) bool { // Name() of an element of the listing of D
			call, ok := eng.Unwrap(v).(*ssa.Call)
			if !ok || !call.Call.IsInvoke() || call.Call.Method.Name() != "Name" {
				return false
			}
			u, ok := call.Call.Value.(*ssa.UnOp)
			if !ok {
				return false
			}
			ia, ok := u.X.(*ssa.IndexAddr)
			if !ok {
				return false
			}
			ex, ok := ia.X.(*ssa.Extract)
			return ok && list != nil && ex.Tuple == ssa.Value(list) && ex.Index == 0
		}
		childOfD := func(v ssa.Value, extra int) (bool, []ssa.Value) { // v == Join(D, name, extra...)
			call, ok := eng.Unwrap(v).(*ssa.Call)
			if !ok || eng.CalleeName(call) != "path/filepath.Join" {
				return false, nil
			}
			a := eng.VarargElems(call.Common())
			// Join(Join(D, name), extra...) is the same path as Join(D, name, extra...)
			for len(a) > 0 {
				inner, ok := eng.Unwrap(a[0]).(*ssa.Call)
				if !ok || eng.CalleeName(inner) != "path/filepath.Join" {
					break
				}
				a = append(append([]ssa.Value(nil), eng.VarargElems(inner.Common())...), a[1:]...)
			}
			if len(a) != 2+extra || !isD(a[0]) || !isName(a[1]) {
				return false, a
			}
			return true, a
		}
		// the removal
		var rms []*ssa.Call
		for _, ci := range eng.Calls(fn) {
			if mutators[eng.CalleeName(ci)] {
				if cl, ok := ci.(*ssa.Call); ok {
					rms = append(rms, cl)
				} else {
					c.Check("R1", s.fn+"/removal-is-a-plain-call", ci.Pos(), false, "removals are plain calls (not deferred or spawned)")
				}
			}
		}
		if len(rms) == 0 {
			c.Problem("R1", "%s removes nothing", s.fn)
			continue
		}
		// every removal must satisfy the rules; extra removals are keyed by their ordinal
		for k := len(rms) - 1; k > 0; k-- {
			okC, _ := childOfD(rms[k-1].Call.Args[0], 0)
			c.Check("R1", fmt.Sprintf("%s/additional-removal#%d-direct-child-of-own-directory", s.fn, k), rms[k-1].Pos(), okC, "what is removed is Join(D, entry.Name()) for an entry listed in D", eng.Render(rms[k-1].Call.Args[0]))
		}
		rm := rms[len(rms)-1]
		okChild, rmArgs := childOfD(rm.Call.Args[0], 0)
		c.Check("R1", s.fn+"/removes-direct-child-of-own-directory", rm.Pos(), okChild, "what is removed is Join(D, entry.Name()) for an entry listed in D", eng.Render(rm.Call.Args[0]))

		// R2/R3: the guard
		g := eng.Guards(rm)
		var cmp *ssa.BinOp
		for _, a := range g {
			// «age > limit» — as a taken `>` test or as a failed `<=` test (the
			// early-continue spelling)
			if b, ok := a.V.(*ssa.BinOp); ok && ((b.Op == token.GTR && a.Pos) || (b.Op == token.LEQ && !a.Pos)) {
				if k, isK := eng.ConstInt64(b.Y); isK && k == lim {
					cmp = b
				}
			}
		}
		if cmp == nil {
			c.Check("R2", s.fn+"/removal-only-beyond-threshold", rm.Pos(), false, "a removal happens only when the age exceeds the threshold", atomsShort(g))
			continue
		}
		sub, ok := cmp.X.(*ssa.Call)
		okSub := ok && eng.CalleeName(sub) == "(time.Time).Sub"
		var now, t ssa.Value
		if okSub {
			now, t = sub.Call.Args[0], sub.Call.Args[1]
			nc, isC := eng.Unwrap(now).(*ssa.Call)
			okSub = isC && eng.CalleeName(nc) == "time.Now"
		}
		c.Check("R2", s.fn+"/removal-only-beyond-threshold", rm.Pos(), okSub, "a removal happens only when now − T exceeds the threshold, now being time.Now() of this sweep", eng.Render(cmp))
		if !okSub {
			continue
		}
		// T and the stat
		var stat *ssa.Call
		okT := false
		switch s.timeSel {
		case "AccessTime":
			if u, ok := eng.Unwrap(t).(*ssa.UnOp); ok {
				if fa, ok := u.X.(*ssa.FieldAddr); ok && eng.FieldOf(fa).Name() == "AccessTime" {
					if ex, ok := fa.X.(*ssa.Extract); ok && ex.Index == 0 {
						if st, ok := ex.Tuple.(*ssa.Call); ok && eng.CalleeName(st) == "github.com/mutagen-io/extstat.NewFromFileName" {
							stat, okT = st, true
						}
					}
				}
			}
		case "ModTime":
			if mt, ok := eng.Unwrap(t).(*ssa.Call); ok && mt.Call.IsInvoke() && mt.Call.Method.Name() == "ModTime" {
				if ex, ok := mt.Call.Value.(*ssa.Extract); ok && ex.Index == 0 {
					if st, ok := ex.Tuple.(*ssa.Call); ok && (eng.CalleeName(st) == "os.Stat" || eng.CalleeName(st) == "os.Lstat") {
						stat, okT = st, true
					}
				}
			}
		}
		what := map[string]string{"AccessTime": "last access time", "ModTime": "modification time"}[s.timeSel]
		c.Check("R2", s.fn+"/age-measured-by-"+s.timeSel, rm.Pos(), okT, "the age is measured from the artifact's "+what, eng.Render(t))
		if stat == nil {
			continue
		}
		errOK := false
		for _, a := range g {
			if b, ok := a.V.(*ssa.BinOp); ok && a.Pos && eng.IsNilConst(b.Y) {
				if ex, ok := b.X.(*ssa.Extract); ok && ex.Tuple == ssa.Value(stat) && ex.Index == 1 {
					errOK = true
				}
			}
		}
		c.Check("R2", s.fn+"/stat-error-checked", stat.Pos(), errOK, "an artifact that cannot be examined is left alone")
		if s.agent {
			okS, a := childOfD(stat.Call.Args[0], 1)
			okExe := false
			if okS {
				if ex, ok := eng.Unwrap(a[2]).(*ssa.Call); ok && eng.CalleeName(ex) == "platform.ExecutableName" {
					okExe = true
				}
				// same entry as the one removed
				okExe = okExe && rmArgs != nil && eng.Render(a[1]) == eng.Render(rmArgs[1])
			}
			c.Check("R3", s.fn+"/stats-the-agent-executable", stat.Pos(), okS && okExe, "the access time is that of the agent executable inside the installation being considered (directories' access times change on listing)", eng.Render(stat.Call.Args[0]))
		} else {
			c.Check("R3", s.fn+"/stats-what-it-removes", stat.Pos(), eng.Unwrap(stat.Call.Args[0]) == eng.Unwrap(rm.Call.Args[0]), "the artifact examined is the artifact removed", eng.Render(stat.Call.Args[0]))
		}
	}
	c.Floor("R1", 9)
	c.Floor("R2", 12)
	c.Floor("R3", 3)

	if hk := c.MustFunc("R4", housekeepingPkg, "Housekeep"); hk != nil {
		seen := map[string]bool{}
		for _, ci := range eng.Calls(hk) {
			n := eng.CalleeName(ci)
			if strings.HasPrefix(n, "housekeeping.housekeep") {
				seen[strings.TrimPrefix(n, "housekeeping.")] = true
				g := eng.WithoutImplied(eng.ExpandConjunctions(eng.Guards(ci)))
				if n == "housekeeping.housekeepAgents" {
					c.Check("R4", "agents-unless-sidecar", ci.Pos(), eng.HasAtom(g, `^sidecar\.EnvironmentIsSidecar\(\)$`, false) && len(g) == 1, "the agent sweep runs unless in a sidecar", atomsShort(g))
				} else {
					c.Check("R4", "unconditional:"+n, ci.Pos(), len(g) == 0, "the sweep runs unconditionally", atomsShort(g))
				}
			}
		}
		c.Check("R4", "all-three-sweeps", hk.Pos(), len(seen) == 3, "Housekeep performs the three sweeps", fmt.Sprint(keys(seen)))
	}
}
