package rules

import (
	"fmt"
	"go/types"
	"strings"

	"golang.org/x/tools/go/ssa"

	"verif/sa/eng"
)

// plainLocks strips the "?N" condition suffix from entry assumptions.
func plainLocks(ls []string) []string {
	var out []string
	for _, l := range ls {
		if i := strings.Index(l, "?"); i >= 0 {
			l = l[:i]
		}
		out = append(out, l)
	}
	return out
}

// fieldGuard says: field Type.Field (in package pkg) is accessed only with the
// lock stored in sibling field LockField of the same object held.
type fieldGuard struct {
	pkg, typ, field string
	lockField       string
	writesOnly      bool // only stores (and map updates through the field) are checked
}

// lockExemption exempts all accesses in one function, with a reason.
type lockExemption struct {
	fn, reason string
}

// locksetRule checks the guards over the given packages. entry maps function
// short names to locks (rendered relative to that function, e.g. "p0.lock")
// assumed held on entry; each such assumption is verified at the call sites
// found in the same packages by callerHolds.
func locksetRule(c *eng.Ctx, rule string, pkgs []string, guards []fieldGuard, exempt []lockExemption, entry map[string][]string, ops eng.LockOps) {
	locksetRuleX(c, rule, pkgs, guards, exempt, entry, ops, nil)
}

// locksetRuleX additionally accepts a per-site exemption predicate (e.g. the
// object is provably not yet published).
func locksetRuleX(c *eng.Ctx, rule string, pkgs []string, guards []fieldGuard, exempt []lockExemption, entry map[string][]string, ops eng.LockOps, siteExempt func(fa *ssa.FieldAddr) (bool, string)) {
	exMap := map[string]string{}
	for _, e := range exempt {
		exMap[e.fn] = e.reason
	}
	type key struct {
		f *types.Var
	}
	want := map[*types.Var]fieldGuard{}
	for _, g := range guards {
		f, err := c.P.Field(g.pkg, g.typ, g.field)
		if err != nil {
			c.Problem(rule, "%v", err)
			continue
		}
		want[f] = g
	}
	counts := map[string]int{}
	usedEx := map[string]bool{}
	for _, fn := range c.P.ModuleFuncs(pkgs...) {
		if strings.Contains(c.P.Pos(fn.Pos()), ".pb.go:") {
			continue
		}
		var held map[ssa.Instruction]map[string]bool
		name := eng.FuncName(fn)
		for _, b := range fn.Blocks {
			for _, in := range b.Instrs {
				fa, ok := in.(*ssa.FieldAddr)
				if !ok {
					continue
				}
				g, ok := want[eng.FieldOf(fa)]
				if !ok {
					continue
				}
				// classify use
				isWrite := false
				for _, ref := range *fa.Referrers() {
					switch r := ref.(type) {
					case *ssa.Store:
						if r.Addr == ssa.Value(fa) {
							isWrite = true
						}
					case *ssa.UnOp:
						// load of a map/pointer field followed by a map update or delete counts as a write
						for _, r2 := range *r.Referrers() {
							switch x := r2.(type) {
							case *ssa.MapUpdate:
								if x.Map == ssa.Value(r) {
									isWrite = true
								}
							case *ssa.Call:
								if eng.CalleeName(x) == "builtin:delete" && x.Call.Args[0] == ssa.Value(r) {
									isWrite = true
								}
							}
						}
					}
				}
				if g.writesOnly && !isWrite {
					continue
				}
				// a literal being initialised is not shared yet
				if _, fresh := fa.X.(*ssa.Alloc); fresh {
					continue
				}
				counts[g.typ+"."+g.field]++
				if why, ok := exMap[name]; ok {
					usedEx[name] = true
					c.Check(rule, "exempt:"+g.typ+"."+g.field+"@"+name, fa.Pos(), true, "access exempt from the lock: "+why)
					continue
				}
				if siteExempt != nil {
					if ok, why := siteExempt(fa); ok {
						c.Check(rule, "exempt-site:"+g.typ+"."+g.field+"@"+name, fa.Pos(), true, "access exempt from the lock: "+why)
						continue
					}
				}
				if held == nil {
					held = eng.HeldLocks(fn, ops, plainLocks(entry[name]))
				}
				base := strings.TrimPrefix(eng.Render(fa.X), "&")
				lock := base + "." + g.lockField
				kind := "read"
				if isWrite {
					kind = "write"
				}
				c.Check(rule, fmt.Sprintf("%s.%s@%s", g.typ, g.field, name), fa.Pos(), held[in][lock], fmt.Sprintf("%s of %s.%s happens with %s held", kind, g.typ, g.field, g.lockField), "held: "+eng.LockNames(held[in]))
			}
		}
	}
	for _, g := range guards {
		if counts[g.typ+"."+g.field] == 0 {
			c.Problem(rule, "no access to %s.%s found (vacuous)", g.typ, g.field)
		}
	}
	for _, e := range exempt {
		if !usedEx[e.fn] {
			c.Note("%s: exemption for %s matched nothing", rule, e.fn)
		}
	}
	// entry assumptions hold at call sites
	for callee, locks := range entry {
		var target *ssa.Function
		for _, fn := range c.P.ModuleFuncs(pkgs...) {
			if eng.FuncName(fn) == callee {
				target = fn
			}
		}
		if target == nil {
			c.Problem(rule, "entry assumption names unknown function %s", callee)
			continue
		}
		n := 0
		for _, fn := range c.P.ModuleFuncs(pkgs...) {
			var held map[ssa.Instruction]map[string]bool
			for _, call := range eng.CallsTo(fn, target) {
				if _, isGo := call.(*ssa.Go); isGo {
					c.Check(rule, "caller-holds:"+callee+"<-"+eng.FuncName(fn), call.Pos(), false, "a function that assumes a held lock is not started as a goroutine")
					continue
				}
				n++
				if held == nil {
					held = eng.HeldLocks(fn, ops, plainLocks(entry[eng.FuncName(fn)]))
				}
				recv := strings.TrimPrefix(eng.Render(call.Common().Args[0]), "&")
				for _, l := range locks {
					if i := strings.Index(l, "?"); i >= 0 {
						// conditional assumption "lock?N": the caller holds the lock iff it passes true as argument N
						var idx int
						fmt.Sscanf(l[i+1:], "%d", &idx)
						l = l[:i]
						v, isC := eng.ConstBool(call.Common().Args[idx])
						if !isC {
							c.Check(rule, "caller-holds:"+callee+"<-"+eng.FuncName(fn), call.Pos(), false, "the lock-held flag passed to "+callee+" is a constant", eng.Render(call.Common().Args[idx]))
							continue
						}
						if !v {
							need := strings.Replace(l, "p0", recv, 1)
							c.Check(rule, "caller-does-not-hold:"+callee+"<-"+eng.FuncName(fn), call.Pos(), !held[call.(ssa.Instruction)][need], callee+" is told the lock is not held, and indeed the caller does not hold "+need+" (it would self-deadlock otherwise)")
							continue
						}
					}
					need := strings.Replace(l, "p0", recv, 1)
					c.Check(rule, "caller-holds:"+callee+"<-"+eng.FuncName(fn), call.Pos(), held[call.(ssa.Instruction)][need], callee+" is called with "+need+" held (its accesses rely on that)", "held: "+eng.LockNames(held[call.(ssa.Instruction)]))
				}
			}
		}
		if n == 0 {
			c.Note("%s: no call site of %s in the analysed packages", rule, callee)
		}
	}
}
