package rules

import (
	"fmt"
	"regexp"
	"strings"

	"golang.org/x/tools/go/ssa"

	"verif/sa/eng"
)

const localEPPkg = "pkg/synchronization/endpoint/local"

func init() {
	eng.Register(&eng.Property{
		ID:       "C02",
		Title:    "Directional modes respect their direction and protect the right side",
		Packages: []string{corePkg, syncPkg, localEPPkg, remotePkg, "pkg/synchronization/protocols/local"},
		Explanation: "(R1, who-may-write) reconciler.alphaChanges is appended to only by the bidirectional handler — the one-way handlers cannot plan an alpha change; " +
			"(R2) reconcile dispatches OneWaySafe/OneWayReplica only to their one-way handlers; " +
			"(R3) every path of the one-way-safe handler that plans a beta change carries len(extractNonDeletionChanges(diff(path, ancestor, beta.synchronizable())))==0 (beta only deleted since the ancestor) and installs alpha.synchronizable(); " +
			"(R4) in the bidirectional handler an alpha change is never justified by the mode test — only by alpha being unmodified or deletion-only (so two-way-resolved protects alpha); " +
			"(R5) local.NewEndpoint computes readOnly as exactly alpha ∧ (effective mode ∈ {OneWaySafe, OneWayReplica}) [truth table of the extracted boolean function], the field is written nowhere else, and in endpoint.Stage and endpoint.Transition every call other than constructing the refusal error is dominated by readOnly being false; " +
			"(R6) the alpha flag travels unchanged: every connect() call passes alpha=true exactly with the session's Alpha URL and the merged alpha configuration, the protocol handlers / remote client / ServeEndpoint forward it untouched to local.NewEndpoint. " +
			"Not decided: behaviour over edit histories; the one-way-replica handler deliberately overwrites beta (only blocked by unsynchronizable content, C03).",
		Assumptions: []string{"diff/synchronizable/extractNonDeletionChanges are pure"},
		Run:         runC02,
	})
}

func runC02(c *eng.Ctx) {
	// R1.
	fld, err := c.P.Field(corePkg, "reconciler", "alphaChanges")
	if err != nil {
		c.Problem("R1", "%v", err)
		return
	}
	stores := eng.StoresToField(c.P.ModuleFuncs(), fld)
	for _, st := range stores {
		name := eng.FuncName(st.Fn)
		c.Check("R1", "alpha-writer:"+name, st.Store.Pos(), strings.HasSuffix(name, ".handleDisagreementBidirectional"), "alpha changes are planned only by the bidirectional handler", name)
	}
	c.Floor("R1", 3)

	// R2.
	if rec := c.MustFunc("R2", corePkg, "reconciler.reconcile"); rec != nil {
		c01Dispatch(c, rec, "R2", map[string]string{
			"OneWaySafe":    "handleDisagreementOneWaySafe",
			"OneWayReplica": "handleDisagreementOneWayReplica",
		})
	}

	// R3.
	if ows := c.MustFunc("R3", corePkg, "reconciler.handleDisagreementOneWaySafe"); ows != nil {
		sites := distinctEmitSites(ows)
		n := 0
		for _, hp := range handlerPaths(c, "R3", ows) {
			for _, e := range hp.emits {
				if e.list != "betaChanges" {
					continue
				}
				n++
				key := emitKey(ows, sites[e.store], e)
				c.Check("R3", key, e.store.Pos(), lenZeroAtom(hp.path, rND(sideDiff(rBeta)), true) || lenZeroAtom(hp.path, sideDiff(rBeta), true),
					"one-way-safe overwrites beta only if beta has no non-deletion changes since the ancestor", atomsOf(hp.path))
				nv := "nil"
				if e.fields != nil && e.fields["New"] != nil {
					nv = eng.Render(e.fields["New"])
				}
				c.Check("R3", key+"/new", e.store.Pos(), nv == rSyn(rAlpha), "the beta change installs alpha's synchronizable content", nv)
			}
		}
		if n == 0 {
			c.Problem("R3", "no beta change path in the one-way-safe handler")
		}
	}
	if owr := c.MustFunc("R3", corePkg, "reconciler.handleDisagreementOneWayReplica"); owr != nil {
		sites := distinctEmitSites(owr)
		for _, hp := range handlerPaths(c, "R3", owr) {
			for _, e := range hp.emits {
				if e.list != "betaChanges" {
					continue
				}
				nv := "nil"
				if e.fields != nil && e.fields["New"] != nil {
					nv = eng.Render(e.fields["New"])
				}
				c.Check("R3", emitKey(owr, sites[e.store], e)+"/new", e.store.Pos(), nv == rSyn(rAlpha), "the replica change installs alpha's synchronizable content", nv)
			}
		}
	}
	c.Floor("R3", 3)

	// R4.
	if bidi := c.MustFunc("R4", corePkg, "reconciler.handleDisagreementBidirectional"); bidi != nil {
		sites := distinctEmitSites(bidi)
		for _, hp := range handlerPaths(c, "R4", bidi) {
			for _, e := range hp.emits {
				if e.list != "alphaChanges" {
					continue
				}
				ok := lenZeroAtom(hp.path, sideDiff(rAlpha), true) || lenZeroAtom(hp.path, rND(sideDiff(rAlpha)), true)
				c.Check("R4", emitKey(bidi, sites[e.store], e), e.store.Pos(), ok, "alpha is overwritten only when unmodified or deletion-only, in every bidirectional mode", atomsOf(hp.path))
			}
		}
		c.Floor("R4", 3)
	}

	c02ReadOnly(c)
	c02AlphaFlag(c)
}

func c02ReadOnly(c *eng.Ctx) {
	ne := c.MustFunc("R5", localEPPkg, "NewEndpoint")
	fld, err := c.P.Field(localEPPkg, "endpoint", "readOnly")
	if ne == nil || err != nil {
		if err != nil {
			c.Problem("R5", "%v", err)
		}
		return
	}
	modes, _ := c.P.ConstsOfType(corePkg, "SynchronizationMode")
	safe := modes["SynchronizationMode_SynchronizationModeOneWaySafe"]
	repl := modes["SynchronizationMode_SynchronizationModeOneWayReplica"]
	stores := eng.StoresToField(c.P.ModuleFuncs(localEPPkg), fld)
	for _, st := range stores {
		c.Check("R5", "readOnly-writer:"+eng.FuncName(st.Fn), st.Store.Pos(), st.Fn == ne, "readOnly is set only by the constructor")
		if st.Fn != ne {
			continue
		}
		be, err := eng.BoolExprOf(st.Store.Val)
		if err != nil {
			c.Problem("R5", "cannot extract readOnly's boolean function: %v", err)
			continue
		}
		// Identify atoms.
		var aAlpha, aSafe, aRepl string
		for _, a := range be.AtomNames() {
			switch {
			case a == "p5":
				aAlpha = a
			case strings.HasSuffix(a, fmt.Sprintf(" == %d:SynchronizationMode)", safe)):
				aSafe = a
			case strings.HasSuffix(a, fmt.Sprintf(" == %d:SynchronizationMode)", repl)):
				aRepl = a
			}
		}
		if aAlpha == "" || aSafe == "" || aRepl == "" {
			c.Check("R5", "readOnly-function", st.Store.Pos(), false, "readOnly depends on the alpha flag and the two one-way mode tests", be.String())
			continue
		}
		lhs := func(a string) string { return a[:strings.LastIndex(a, " == ")] }
		sameMode := lhs(aSafe) == lhs(aRepl) && strings.Contains(lhs(aSafe), "p4.SynchronizationMode") && strings.Contains(lhs(aSafe), "DefaultSynchronizationMode(p3)")
		c.Check("R5", "readOnly-mode-source", st.Store.Pos(), sameMode, "the mode tested is the configured mode with the version default substituted", lhs(aSafe))
		eq, cex, err := eng.TruthTableEqual(be, []string{aAlpha, aSafe, aRepl}, func(env map[string]bool) bool {
			return env[aAlpha] && (env[aSafe] || env[aRepl])
		})
		if err != nil {
			c.Problem("R5", "%v", err)
			continue
		}
		c.Check("R5", "readOnly-function", st.Store.Pos(), eq, "readOnly = alpha ∧ (mode=OneWaySafe ∨ mode=OneWayReplica) [full truth table]", fmt.Sprintf("extracted %s; counterexample %v", be.String(), cex))
	}
	if len(stores) == 0 {
		c.Problem("R5", "no store to endpoint.readOnly")
	}
	for _, m := range []string{"endpoint.Stage", "endpoint.Transition"} {
		fn := c.MustFunc("R5", localEPPkg, m)
		if fn == nil {
			continue
		}
		n, bad := 0, 0
		var first ssa.CallInstruction
		for _, f := range eng.WithClosures(fn) {
			for _, call := range eng.Calls(f) {
				name := eng.CalleeName(call)
				if isDiagnosticCall(name) || strings.HasPrefix(name, "builtin:") {
					continue // messages and log lines are not operations on the root
				}
				if callee := call.Common().StaticCallee(); callee != nil && eng.FuncPkgRel(callee) == localEPPkg && eng.PureHelper(callee) {
					continue // a verdict-only helper is part of the guard itself
				}
				n++
				var g []eng.Atom
				if f == fn {
					g = eng.Guards(call)
				} else {
					// closures are created after the guard: use the MakeClosure site
					g = closureSiteGuards(fn, f)
				}
				if !eng.HasAtom(g, `^p0\.readOnly$`, false) {
					bad++
					if first == nil {
						first = call
					}
				}
			}
		}
		pos := fn.Pos()
		detail := fmt.Sprintf("%d calls inspected", n)
		if first != nil {
			pos = first.Pos()
			detail += "; e.g. " + eng.RenderCall(first.Common())
		}
		c.Check("R5", "guarded:"+m, pos, n > 3 && bad == 0, "every operation of "+m+" runs only if the endpoint is not read-only", detail)
		// The refusal returns a non-nil error.
		for _, r := range eng.Returns(fn) {
			if eng.HasAtom(eng.Guards(r), `^p0\.readOnly$`, true) {
				res := eng.RetResults(r)
				c.Check("R5", "refusal:"+m, r.Pos(), !eng.IsNilConst(res[len(res)-1]), "a read-only endpoint refuses with an error")
			}
		}
	}
	c.Floor("R5", 7)
}

// closureSiteGuards returns the guards at the place where closure f is created
// inside fn (or its nested closures).
func closureSiteGuards(fn, f *ssa.Function) []eng.Atom {
	var out []eng.Atom
	for _, g := range eng.WithClosures(fn) {
		eng.EachInstr(g, func(i ssa.Instruction) {
			if mc, ok := i.(*ssa.MakeClosure); ok && mc.Fn == ssa.Value(f) {
				out = eng.Guards(mc)
				if g != fn {
					out = append(out, closureSiteGuards(fn, g)...)
				}
			}
		})
	}
	return out
}

func c02AlphaFlag(c *eng.Ctx) {
	conn := c.MustFunc("R6", syncPkg, "connect")
	if conn == nil {
		return
	}
	n := 0
	for _, fn := range c.P.ModuleFuncs(syncPkg) {
		for _, call := range eng.CallsTo(fn, conn) {
			n++
			args := call.Common().Args
			flag, isC := eng.ConstBool(args[7])
			u, cfg := eng.Render(args[2]), eng.Render(args[6])
			// In newSession the URLs/configurations are still parameters; name
			// them by the Session field they are stored into.
			roles := map[string]string{}
			eng.EachInstr(fn, func(i ssa.Instruction) {
				if st, ok := i.(*ssa.Store); ok {
					if fa, ok := st.Addr.(*ssa.FieldAddr); ok && strings.HasSuffix(eng.TypeShort(fa.X.Type()), "synchronization.Session") {
						if p, ok := st.Val.(*ssa.Parameter); ok {
							roles[eng.Render(p)] = "Session." + eng.FieldOf(fa).Name()
						}
					}
				}
			})
			for p, role := range roles {
				re := regexp.MustCompile(`\b` + p + `\b`)
				u = re.ReplaceAllString(u, role)
				cfg = re.ReplaceAllString(cfg, role)
			}
			want := "Beta"
			if flag {
				want = "Alpha"
			}
			ok := isC && strings.Contains(strings.ToLower(u), strings.ToLower(want)) && strings.Contains(strings.ToLower(cfg), strings.ToLower(want)) &&
				!strings.Contains(strings.ToLower(u), strings.ToLower(other(want))) && !strings.Contains(strings.ToLower(cfg), strings.ToLower(other(want)))
			c.Check("R6", fmt.Sprintf("connect#%d@%s", n, eng.FuncName(fn)), call.Pos(), ok, "connect's alpha flag matches the URL and merged configuration it is given", fmt.Sprintf("alpha=%v url=%s cfg=%s", flag, u, cfg))
		}
	}
	if n < 6 {
		c.Problem("R6", "expected ≥6 connect calls, found %d", n)
	}
	// connect forwards alpha (p7) to handler.Connect.
	for _, call := range eng.InvokesOf(conn, "Connect") {
		args := call.Common().Args
		c.Check("R6", "connect-forwards", call.Pos(), eng.Render(args[len(args)-1]) == "p7", "connect forwards the alpha flag to the protocol handler", eng.Render(args[len(args)-1]))
	}
	// local protocol handler → local.NewEndpoint
	if h := c.MustFunc("R6", "pkg/synchronization/protocols/local", "protocolHandler.Connect"); h != nil {
		for _, call := range eng.Calls(h) {
			if eng.CalleeName(call) == "synchronization/endpoint/local.NewEndpoint" {
				args := call.Common().Args
				c.Check("R6", "local-handler-forwards", call.Pos(), eng.Render(args[5]) == "p8", "the local protocol handler forwards the alpha flag", eng.Render(args[5]))
			}
		}
	}
	// remote client: request literal Alpha = alpha parameter.
	if cl := c.MustFunc("R6", remotePkg, "NewEndpoint"); cl != nil {
		found := false
		eng.EachInstr(cl, func(i ssa.Instruction) {
			if st, ok := i.(*ssa.Store); ok {
				if fa, ok := st.Addr.(*ssa.FieldAddr); ok && eng.FieldOf(fa).Name() == "Alpha" && strings.HasSuffix(eng.TypeShort(fa.X.Type()), "InitializeSynchronizationRequest") {
					found = true
					c.Check("R6", "client-request-alpha", st.Pos(), eng.Render(st.Val) == "p6", "the remote client sends its alpha flag in the initialise request", eng.Render(st.Val))
				}
			}
		})
		if !found {
			c.Problem("R6", "remote client does not set InitializeSynchronizationRequest.Alpha")
		}
	}
	// server: local.NewEndpoint(…, request.Alpha)
	if sv := c.MustFunc("R6", remotePkg, "ServeEndpoint"); sv != nil {
		found := false
		for _, call := range eng.Calls(sv) {
			if eng.CalleeName(call) == "synchronization/endpoint/local.NewEndpoint" {
				found = true
				r := eng.Render(call.Common().Args[5])
				c.Check("R6", "server-forwards", call.Pos(), strings.HasSuffix(r, ".Alpha") && !strings.Contains(r, "!"), "the endpoint server passes the request's alpha flag unchanged", r)
			}
		}
		if !found {
			c.Problem("R6", "ServeEndpoint does not construct a local endpoint")
		}
	}
	c.Floor("R6", 10)
}

func other(s string) string {
	if s == "Alpha" {
		return "Beta"
	}
	return "Alpha"
}
