package rules

import (
	"go/token"
	"strings"

	"golang.org/x/tools/go/ssa"

	"verif/sa/eng"
)

const agentPkg = "pkg/agent"

func init() {
	eng.Register(&eng.Property{
		ID:       "C46",
		Title:    "Agent bundle lookup honours search order and extracts exactly",
		Packages: []string{agentPkg},
		Explanation: "Decides the shape of ExecutableForPlatform on every path: " +
			"(R1, first match wins) the file handle returned by os.Open inside the search loop is merged into the bundle variable only on an edge that leaves the loop — no loop-carried phi receives it, so a later search path can never replace an earlier hit; " +
			"(R2, search order) the executable's directory (filepath.Dir(os.Executable())) is appended to the search list before filesystem.LibexecPath(), and the loop indexes that list; " +
			"(R3, exact extraction) the archive entry is selected by equality of its name with fmt.Sprintf(\"%s_%s\", goos, goarch), io.CopyN copies exactly that header's Size from the same tar reader, a nil header (no match) returns an error, and every failure after the output file was created removes it. " +
			"(R4) an output file the bundle code opens for writing is created and truncated (O_CREATE|O_TRUNC), so a stale longer file cannot keep its tail; " +
			"Not decided: byte equality of the extracted file with the archive entry (runtime data; follows from CopyN's contract under R3).",
		Assumptions: []string{"io.CopyN, archive/tar and gzip behave as documented", "range over a slice visits indices in increasing order"},
		Run:         runC46,
	})
}

func runC46(c *eng.Ctx) {
	c46OutputTruncated(c)
	fn := c.MustFunc("R1", agentPkg, "ExecutableForPlatform")
	if fn == nil {
		return
	}
	// Locate os.Open inside a loop.
	var open *ssa.Call
	for _, call := range eng.CallsNamed(fn, "os.Open") {
		open, _ = call.(*ssa.Call)
	}
	if open == nil {
		c.Problem("R1", "no os.Open call in ExecutableForPlatform")
		return
	}
	var loop *eng.LoopOf
	for _, b := range fn.Blocks {
		if l := eng.FindLoop(b); l != nil && l.Body[open.Block()] {
			if loop == nil || len(l.Body) < len(loop.Body) {
				loop = l
			}
		}
	}
	if loop == nil {
		c.Problem("R1", "os.Open is not inside a search loop")
		return
	}
	var handle ssa.Value
	for _, ref := range *open.Referrers() {
		if ex, ok := ref.(*ssa.Extract); ok && ex.Index == 0 {
			handle = ex
		}
	}
	if handle == nil {
		c.Problem("R1", "os.Open's file result is unused")
		return
	}
	merges := 0
	for _, ref := range *handle.Referrers() {
		phi, ok := ref.(*ssa.Phi)
		if !ok {
			continue
		}
		merges++
		c.Check("R1", "first-match-exit", phi.Pos(), !loop.Body[phi.Block()],
			"the opened bundle is merged into the result only on an edge leaving the search loop (the search stops at the first hit)",
			"phi "+eng.Render(phi)+" in block "+phi.Block().Comment)
	}
	// Also: a store of the handle into a local cell inside the loop (if the
	// variable were captured) must be followed by loop exit.
	for _, ref := range *handle.Referrers() {
		if st, ok := ref.(*ssa.Store); ok && st.Val == handle {
			merges++
			exits := true
			for _, s := range st.Block().Succs {
				if loop.Body[s] {
					exits = false
				}
			}
			c.Check("R1", "first-match-exit", st.Pos(), exits, "after recording the opened bundle the loop is left")
		}
	}
	if merges == 0 {
		c.Problem("R1", "the opened bundle never reaches the bundle variable")
	}
	// The decompressor reads that merged value.
	for _, call := range eng.Calls(fn) {
		if strings.HasSuffix(eng.CalleeName(call), "gzip.NewReader") {
			r := eng.Render(call.Common().Args[0])
			c.Check("R1", "decompress-found", call.Pos(), strings.Contains(r, "os.Open("), "the decompressor reads the bundle found by the search", r)
			g := eng.Guards(call)
			c.Check("R1", "found-nonnil", call.Pos(), eng.HasAtom(g, `^\(`+eng.Q(r)+` == nil\)$`, false), "extraction proceeds only if a bundle was found", eng.AtomsText(g))
		}
	}
	c.Floor("R1", 3)

	// R2: search order.
	var exeAppend, libAppend *ssa.Call
	for _, call := range eng.Calls(fn) {
		cv, ok := call.(*ssa.Call)
		if !ok {
			continue
		}
		for _, e := range eng.AppendElems(cv) {
			r := eng.Render(e)
			if r == "path/filepath.Dir(os.Executable()#0)" {
				exeAppend = cv
			}
			if r == "filesystem.LibexecPath()#0" {
				libAppend = cv
			}
		}
	}
	if c.Check("R2", "exe-dir-searched", fn.Pos(), exeAppend != nil, "the executable's directory is a search path") &&
		c.Check("R2", "libexec-searched", fn.Pos(), libAppend != nil, "the libexec directory is a search path") {
		c.Check("R2", "order", libAppend.Pos(), eng.ReachesThroughPhis(exeAppend, libAppend.Call.Args[0]) && !eng.ReachesThroughPhis(libAppend, exeAppend.Call.Args[0]),
			"libexec is appended to a list that already contains the executable's directory", eng.Render(libAppend.Call.Args[0]))
		// Loop ranges over the list.
		ranged := false
		for b := range loop.Body {
			for _, in := range b.Instrs {
				if ia, ok := in.(*ssa.IndexAddr); ok {
					if eng.ReachesThroughPhis(libAppend, ia.X) && eng.ReachesThroughPhis(exeAppend, ia.X) {
						ranged = true
					}
				}
			}
		}
		c.Check("R2", "loop-over-list", loop.Header.Instrs[0].Pos(), ranged, "the search loop indexes the ordered search list")
	}
	c.Floor("R2", 4)

	// R3: extraction.
	var next *ssa.Call
	for _, call := range eng.CallsNamed(fn, "(*archive/tar.Reader).Next") {
		next, _ = call.(*ssa.Call)
	}
	if next == nil {
		c.Problem("R3", "no tar.Reader.Next call")
		return
	}
	var hdr ssa.Value
	for _, ref := range *next.Referrers() {
		if ex, ok := ref.(*ssa.Extract); ok && ex.Index == 0 {
			hdr = ex
		}
	}
	// Match condition.
	var matchIf *ssa.If
	eng.EachInstr(fn, func(i ssa.Instruction) {
		iff, ok := i.(*ssa.If)
		if !ok {
			return
		}
		b, ok := iff.Cond.(*ssa.BinOp)
		if !ok || b.Op != token.EQL {
			return
		}
		for _, pair := range [][2]ssa.Value{{b.X, b.Y}, {b.Y, b.X}} {
			isName := false
			if u, ok := pair[0].(*ssa.UnOp); ok && u.Op == token.MUL {
				if fa, ok := u.X.(*ssa.FieldAddr); ok && fa.X == hdr && eng.FieldOf(fa).Name() == "Name" {
					isName = true
				}
			}
			if isName {
				if call, ok := pair[1].(*ssa.Call); ok && eng.CalleeName(call) == "fmt.Sprintf" {
					f, _ := eng.ConstString(call.Call.Args[0])
					el := eng.VarargElems(&call.Call)
					if f == "%s_%s" && len(el) == 2 && eng.Render(el[0]) == "p0" && eng.Render(el[1]) == "p1" {
						matchIf = iff
					}
				}
			}
		}
	})
	if !c.Check("R3", "match-by-name", next.Pos(), matchIf != nil, "the entry is selected by header.Name == Sprintf(\"%s_%s\", goos, goarch)") {
		return
	}
	for _, call := range eng.CallsNamed(fn, "io.CopyN") {
		args := call.Common().Args
		// size = <sel>.Size where sel is a phi whose non-nil edge is hdr coming from the match's true successor.
		var sel ssa.Value
		if u, ok := args[2].(*ssa.UnOp); ok {
			if fa, ok := u.X.(*ssa.FieldAddr); ok && eng.FieldOf(fa).Name() == "Size" {
				sel = fa.X
			}
		}
		okSel := false
		if phi, ok := sel.(*ssa.Phi); ok {
			okSel = true
			for i, e := range phi.Edges {
				if eng.IsNilConst(e) {
					continue
				}
				pred := phi.Block().Preds[i]
				if e != hdr || !matchIf.Block().Succs[0].Dominates(pred) {
					okSel = false
				}
			}
		}
		c.Check("R3", "copy-size", call.Pos(), okSel, "CopyN copies exactly the matched header's Size", eng.Render(args[2]))
		c.Check("R3", "copy-source", call.Pos(), eng.Render(args[1]) == eng.Render(next.Call.Args[0]), "CopyN reads from the tar reader positioned at the matched entry", eng.Render(args[1]))
		if sel != nil {
			g := eng.Guards(call)
			c.Check("R3", "no-match-rejected", call.Pos(), eng.HasAtom(g, `^\(`+eng.Q(eng.Render(sel))+` == nil\)$`, false), "extraction happens only if a header matched (unknown platforms are rejected)", eng.AtomsText(g))
		}
		// Output file = arg0; errors after creation remove it.
		for _, ret := range eng.Returns(fn) {
			if len(eng.RetResults(ret)) != 2 || eng.IsNilConst(eng.RetResults(ret)[1]) {
				continue
			}
			// Error returns dominated by the CopyN call's block.
			if !call.Block().Dominates(ret.Block()) || ret.Block() == call.Block() {
				continue
			}
			removed := false
			for _, in := range ret.Block().Instrs {
				if cl, ok := in.(*ssa.Call); ok && eng.CalleeName(cl) == "os.Remove" {
					if nm, ok := cl.Call.Args[0].(*ssa.Call); ok && eng.CalleeName(nm) == "(*os.File).Name" && nm.Call.Args[0] == eng.Unwrap(args[0]) {
						removed = true
					}
				}
			}
			c.Check("R3", "cleanup-on-error", ret.Pos(), removed, "a failure after the output file was created removes the partial file")
		}
	}
	c.Floor("R3", 7)
}
