package rules

import (
	"fmt"
	"go/token"
	"go/types"
	"strings"

	"golang.org/x/tools/go/ssa"

	"verif/sa/eng"
)

const rsyncPkg = "pkg/synchronization/rsync"
const remotePkg = "pkg/synchronization/endpoint/remote"

func init() {
	eng.Register(&eng.Property{
		ID:       "C20",
		Title:    "rsync transfers report every transmission failure",
		Packages: []string{rsyncPkg, remotePkg},
		Explanation: "Decides the error discipline of the delta sender on every control-flow path: " +
			"(R1, contradiction rule) in packages rsync and endpoint/remote no function returns a constant nil error from a point where an error produced by a call is known to be non-nil (guard `err != nil` dominates the return and err is not reassigned: SSA values are immutable) — exceptions are an explicit table with reasons; " +
			"(R2) the error result of every call in the transmit family (the OperationTransmitter callback, Engine.transmitBlock/transmitData/Deltify, the Deltify closures, Receiver.Receive, Encoder.Encode, Decoder.Decode) is used, never discarded; " +
			"(R3) Transmit's callback records Receiver.Receive's error in the captured variable and returns it, and after Deltify every path that continues or returns nil has tested that variable to be nil. " +
			"(R2 addition) the error of a transmit-family call does not flow untested into a loop-carried variable (an `err = f()` in a loop with the test after the loop forgets earlier failures); " +
			"(R4) a deferred function in rsync/remote assigns a named error result only under `result == nil` or by wrapping the old value — an unconditional `err = f()` in a defer would replace a reported failure; " +
			"Not decided: the second clause of the property (receiver obtained exactly the target data) — arithmetic over runtime data.",
		Assumptions: []string{"errors are values of the predeclared type error; an error compared against nil is non-nil on the other edge"},
		Run:         runC20,
	})
}

var errorType = types.Universe.Lookup("error").Type()

func isErrorType(t types.Type) bool { return types.Identical(t, errorType) }

// c20AllowNilUnderErr lists functions where returning nil under a non-nil
// error from the named callee is intended. key: function short name + "<-" +
// callee short name.
var c20AllowNilUnderErr = map[string]string{
	"(*synchronization/rsync.receiver).Receive<-(*filesystem.Opener).OpenFile":           "receiving side: an unreadable base burns this file's stream (r.burning=true, checked); not a transport failure — the file then fails staging verification",
	"(*synchronization/rsync.receiver).Receive<-iface:synchronization/rsync.Sinker.Sink": "receiving side: an unopenable sink burns this file's stream (r.burning=true, checked)",
	"(*synchronization/rsync.receiver).Receive<-(*synchronization/rsync.Engine).Patch":   "receiving side: a failed patch burns this file's stream (r.burning=true, checked)",
}

func runC20(c *eng.Ctx) {
	c20DeferredResult(c)
	fns := c.P.ModuleFuncs(rsyncPkg, remotePkg)
	if len(fns) < 40 {
		c.Problem("R1", "only %d functions found in rsync/remote packages", len(fns))
	}
	nret := 0
	for _, fn := range fns {
		if strings.HasSuffix(c.P.Pos(fn.Pos()), ".pb.go") || strings.Contains(c.P.Pos(fn.Pos()), ".pb.go:") {
			continue
		}
		c.Analysed(fn)
		res := fn.Signature.Results()
		for _, ret := range eng.Returns(fn) {
			for i, rv := range eng.RetResults(ret) {
				if i >= res.Len() || !isErrorType(res.At(i).Type()) {
					continue
				}
				nret++
				if !eng.IsNilConst(rv) {
					continue
				}
				// Guards at the return: any (X == nil) false with X an error from a call?
				for _, a := range eng.Guards(ret) {
					if a.Pos {
						continue
					}
					b, ok := a.V.(*ssa.BinOp)
					if !ok || (b.Op != token.EQL && b.Op != token.NEQ) {
						continue
					}
					var x ssa.Value
					if eng.IsNilConst(b.Y) {
						x = b.X
					} else if eng.IsNilConst(b.X) {
						x = b.Y
					} else {
						continue
					}
					if !isErrorType(x.Type()) {
						continue
					}
					origin := errorOrigin(x)
					if origin == "" {
						continue
					}
					// The same value was identified as one particular sentinel
					// (`case io.EOF:` after `case nil:`): that is a classified outcome
					// (end of input), exactly as when the sentinel test is written
					// before the nil test and no `err != nil` fact exists at all.
					classified := false
					for _, a2 := range eng.Guards(ret) {
						if b2, ok := a2.V.(*ssa.BinOp); ok && a2.Pos && b2.Op == token.EQL && (b2.X == x || b2.Y == x) && !eng.IsNilConst(b2.X) && !eng.IsNilConst(b2.Y) {
							classified = true
						}
					}
					if classified {
						continue
					}
					key := eng.FuncName(fn) + "<-" + origin
					if why, ok := c20AllowNilUnderErr[key]; ok {
						burns := false
						for _, in := range ret.Block().Instrs {
							if st, ok := in.(*ssa.Store); ok {
								if fa, ok := st.Addr.(*ssa.FieldAddr); ok && eng.FieldOf(fa).Name() == "burning" {
									if v, ok := eng.ConstBool(st.Val); ok && v {
										burns = true
									}
								}
							}
						}
						c.Check("R1", key, ret.Pos(), burns, "nil returned under a non-nil error: allowed only with r.burning=true — "+why)
						continue
					}
					c.Check("R1", key, ret.Pos(), false,
						"a nil error is returned although the error from "+origin+" is known to be non-nil here",
						"guard: "+a.String())
				}
			}
		}
	}
	// Record the number of error-returning exits inspected as one obligation per function group.
	c.Check("R1", "returns-inspected", token.NoPos, nret >= 100, fmt.Sprintf("error-returning exits inspected in rsync and remote: %d (floor 100)", nret))

	// R2: family call results are used.
	family := map[string]bool{
		"(*synchronization/rsync.Engine).transmitBlock": true,
		"(*synchronization/rsync.Engine).transmitData":  true,
		"(*synchronization/rsync.Engine).Deltify":       true,
		"(*synchronization/rsync.Engine).Deltify$1":     true,
		"(*synchronization/rsync.Engine).Deltify$2":     true,
		"synchronization/rsync.DecodeToReceiver":        true,
		"synchronization/rsync.Transmit":                true,
	}
	famIface := map[string]bool{"Receive": true, "Encode": true, "Decode": true}
	nfam := 0
	for _, fn := range fns {
		for _, call := range eng.Calls(fn) {
			cc := call.Common()
			name := eng.CalleeName(call)
			isFam := family[name]
			if cc.IsInvoke() && famIface[cc.Method.Name()] && strings.Contains(eng.TypeShort(cc.Value.Type()), "rsync.") {
				isFam = true
			}
			if !isFam && !cc.IsInvoke() && cc.StaticCallee() == nil {
				if n, ok := cc.Value.Type().(*types.Named); ok && n.Obj().Name() == "OperationTransmitter" {
					isFam = true
					name = "OperationTransmitter callback"
				}
			}
			if !isFam {
				continue
			}
			nfam++
			key := eng.FuncName(fn) + "->" + name
			v, isVal := call.(*ssa.Call)
			used := isVal && len(*v.Referrers()) > 0
			c.Check("R2", key, call.Pos(), used, "the error result of a transmit-family call is used (tested or returned), not discarded", eng.RenderCall(cc))
			if used {
				lost, why := c20Overwritable(v)
				c.Check("R2", key+"/not-overwritten", call.Pos(), !lost, "the error result is tested or returned before a later call can overwrite it (no `err = f()` in a loop with the test after the loop)", why)
			}
		}
	}
	c.Floor("R2", 12)

	// R3: Transmit.
	tr := c.MustFunc("R3", rsyncPkg, "Transmit")
	if tr == nil {
		return
	}
	var cb *ssa.Function
	var deltify *ssa.Call
	for _, call := range eng.CallsNamed(tr, "(*synchronization/rsync.Engine).Deltify") {
		deltify, _ = call.(*ssa.Call)
	}
	if deltify == nil {
		c.Problem("R3", "no Deltify call in Transmit")
		return
	}
	if mc, ok := deltify.Call.Args[len(deltify.Call.Args)-1].(*ssa.MakeClosure); ok {
		cb = mc.Fn.(*ssa.Function)
	} else if ct, ok := eng.Unwrap(deltify.Call.Args[len(deltify.Call.Args)-1]).(*ssa.MakeClosure); ok {
		cb = ct.Fn.(*ssa.Function)
	}
	if cb == nil {
		c.Problem("R3", "Deltify's transmitter argument is not a closure literal: %s", eng.Render(deltify.Call.Args[len(deltify.Call.Args)-1]))
		return
	}
	c.Analysed(cb)
	// In the callback: find Receive invoke, the store of its result to a free var, and the return of it.
	var recv *ssa.Call
	for _, call := range eng.InvokesOf(cb, "Receive") {
		recv, _ = call.(*ssa.Call)
	}
	if recv == nil {
		c.Problem("R3", "callback does not invoke Receiver.Receive")
		return
	}
	var cell *ssa.FreeVar
	eng.EachInstr(cb, func(i ssa.Instruction) {
		if st, ok := i.(*ssa.Store); ok && st.Val == ssa.Value(recv) {
			if fv, ok := st.Addr.(*ssa.FreeVar); ok {
				cell = fv
			}
		}
	})
	c.Check("R3", "callback-records", recv.Pos(), cell != nil, "the callback stores Receive's error in a variable captured from Transmit")
	for _, ret := range eng.Returns(cb) {
		rv := eng.RetResults(ret)[0]
		ok := rv == ssa.Value(recv)
		if !ok && cell != nil {
			if u, isU := rv.(*ssa.UnOp); isU && u.X == ssa.Value(cell) {
				ok = true
			}
		}
		c.Check("R3", "callback-returns", ret.Pos(), ok, "the callback returns Receive's error to the engine", eng.Render(rv))
	}
	if cell == nil {
		return
	}
	cellAlloc := eng.FreeVarBinding(cell)
	if cellAlloc == nil {
		c.Problem("R3", "cannot resolve captured variable binding")
		return
	}
	// After Deltify: every path to the loop header / a nil return / the next
	// Receive must have tested the cell == nil.
	isCellLoad := func(v ssa.Value) bool {
		u, ok := v.(*ssa.UnOp)
		return ok && u.Op == token.MUL && u.X == cellAlloc
	}
	start := deltify.Block()
	paths, complete := eng.EnumPaths(start, func(b *ssa.BasicBlock) bool {
		return b != start && b.Dominates(start) // loop header or above
	}, 20000)
	if !complete {
		c.Problem("R3", "too many paths after Deltify")
	}
	for _, p := range paths {
		tested := false
		for _, a := range p.Atoms {
			if b, ok := a.V.(*ssa.BinOp); ok && a.Pos {
				if (isCellLoad(b.X) && eng.IsNilConst(b.Y)) || (isCellLoad(b.Y) && eng.IsNilConst(b.X)) {
					tested = true
				}
			}
		}
		last := p.Last()
		if ret, ok := last.Instrs[len(last.Instrs)-1].(*ssa.Return); ok && len(p.Blocks) > 0 && len(last.Succs) == 0 {
			if !eng.IsNilConst(eng.RetResults(ret)[0]) {
				continue // error return: fine
			}
		}
		c.Check("R3", "after-deltify", deltify.Pos(), tested, "after Deltify, continuing (next file / success return) requires the recorded transmit error to be nil", "path atoms: "+atomsOf(p))
	}
	c.Floor("R3", 3)
}

// errorOrigin names the call that produced an error value ("" if the value is
// not directly a call result).
func errorOrigin(x ssa.Value) string {
	x = eng.Unwrap(x)
	switch v := x.(type) {
	case *ssa.Call:
		return eng.CalleeName(v)
	case *ssa.Extract:
		if cl, ok := v.Tuple.(*ssa.Call); ok {
			return eng.CalleeName(cl)
		}
	}
	return ""
}

// c20Overwritable: the error produced by call flows, untested, into a φ at the
// head of a loop that contains the call — so the next iteration replaces it and
// a failure of an earlier iteration is forgotten.
func c20Overwritable(call *ssa.Call) (bool, string) {
	var errVals []ssa.Value
	if isErrorType(call.Type()) {
		errVals = append(errVals, call)
	} else {
		for _, ref := range *call.Referrers() {
			if ex, ok := ref.(*ssa.Extract); ok && isErrorType(ex.Type()) {
				errVals = append(errVals, ex)
			}
		}
	}
	for _, ev := range errVals {
		refs := ev.(interface{ Referrers() *[]ssa.Instruction }).Referrers()
		tested := false
		var loopPhi *ssa.Phi
		for _, ref := range *refs {
			switch r := ref.(type) {
			case *ssa.BinOp:
				if eng.IsNilConst(r.X) || eng.IsNilConst(r.Y) {
					tested = true
				}
			case *ssa.Phi:
				if r.Block().Dominates(call.Block()) && r.Block() != call.Block() {
					loopPhi = r
				}
				for j, p := range r.Block().Preds {
					if r.Edges[j] == ev && r.Block().Dominates(p) {
						loopPhi = r
					}
				}
			}
		}
		if loopPhi != nil && !tested {
			return true, "flows untested into the loop-carried value " + eng.Render(loopPhi)
		}
	}
	return false, ""
}
