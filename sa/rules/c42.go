package rules

import (
	"fmt"
	"strings"

	"golang.org/x/tools/go/ssa"

	"verif/sa/eng"
)

func init() {
	eng.Register(&eng.Property{
		ID:       "C42",
		Title:    "Poll-based watching never serves a stale snapshot and always notices changes",
		Packages: []string{localEPPkg},
		Explanation: "(R1) endpoint.Transition decides «made changes» by comparing every result with the corresponding transition's Old entry DEEPLY (Equal(…, true)) at the same index, and the flag becomes true on exactly the unequal edge; " +
			"(R2, no stale accelerated snapshot) the store accelerate=false in Transition is conditional on nothing but «accelerate ∧ made changes ∧ watch mode = poll», happens after the scan lock was re-taken following core.Transition, and every access to accelerate in the package happens under the scan lock (lockset; functions documented as called with the lock held are checked at their call sites); " +
			"(R3, reversal noticed) Transition strobes the poll signal under exactly «watch mode = poll ∧ made changes»; " +
			"(R4, polling loop) in watchPoll every iteration that reaches the scan takes the scan lock, clears accelerate before scanning and sets it (to accelerationAllowed) only after the scan succeeded, under the same lock hold; a failed scan releases the lock and strobes the poll signal; the timer case of the select (ticker built from the polling interval in seconds) proceeds to the scan; " +
			"(R5, every modification notified) «modified» is the negated Equal of the fresh snapshot with the previous one, the previous snapshot is replaced by the fresh one on every successful iteration and kept on failure, and the strobe is suppressed only by a flag that can be true in the first iteration only (its true edge is guarded by the loop's «first» φ, which is initially true and false on every back edge); " +
			"(R6) the only event paths the loop ignores are those whose base name starts with the temporary-name prefix. " +
			"(R7) endpoint.Poll takes a poll signal only in its single blocking wait and then returns — it never drains a pending signal without reporting it; " +
			"Not decided: time (that the ticker fires), Snapshot.Equal, the scan itself.",
		Assumptions: []string{"time.Ticker fires every interval", "Snapshot.Equal is exact"},
		Run:         runC42,
	})
}

func scanLockOps() eng.LockOps {
	return eng.LockOps{
		Acquire: func(call ssa.CallInstruction) (string, bool) {
			if eng.CalleeName(call) == "(*synchronization/endpoint/local.endpoint).lockScanLock" {
				return eng.Render(call.Common().Args[0]) + ".scanLock", true
			}
			return "", false
		},
		Release: func(call ssa.CallInstruction) (string, bool) {
			if eng.CalleeName(call) == "(*synchronization/endpoint/local.endpoint).unlockScanLock" {
				return eng.Render(call.Common().Args[0]) + ".scanLock", true
			}
			return "", false
		},
	}
}

func runC42(c *eng.Ctx) {
	c42PollConsumesNothingSilently(c)
	tr := c.MustFunc("R1", localEPPkg, "endpoint.Transition")
	wp := c.MustFunc("R4", localEPPkg, "endpoint.watchPoll")
	if tr == nil || wp == nil {
		return
	}
	modes, _ := c.P.ConstsOfType(localEPPkg, "reifiedWatchMode")
	pollAtom := fmt.Sprintf("(p0.watchMode == %d:reifiedWatchMode)", modes["reifiedWatchModePoll"])

	// ---- R1 ----
	var ct *ssa.Call
	for _, ci := range eng.CallsNamed(tr, "synchronization/core.Transition") {
		ct, _ = ci.(*ssa.Call)
	}
	var eq *ssa.Call
	for _, ci := range eng.CallsNamed(tr, "(*synchronization/core.Entry).Equal") {
		eq, _ = ci.(*ssa.Call)
	}
	if ct == nil || eq == nil {
		c.Problem("R1", "core.Transition / Entry.Equal calls not found in Transition")
		return
	}
	idxOf := func(v ssa.Value) (base ssa.Value, idx string) {
		u, ok := eng.Unwrap(v).(*ssa.UnOp)
		if !ok {
			return nil, ""
		}
		addr := u.X
		if fa, ok := addr.(*ssa.FieldAddr); ok {
			if eng.FieldOf(fa).Name() != "Old" {
				return nil, ""
			}
			u2, ok := fa.X.(*ssa.UnOp)
			if !ok {
				return nil, ""
			}
			addr = u2.X
		}
		ia, ok := addr.(*ssa.IndexAddr)
		if !ok {
			return nil, ""
		}
		return eng.Unwrap(ia.X), eng.Render(ia.Index)
	}
	rb, ri := idxOf(eq.Call.Args[0])
	ob, oi := idxOf(eq.Call.Args[1])
	isResults := false
	if ex, ok := rb.(*ssa.Extract); ok && ex.Tuple == ssa.Value(ct) && ex.Index == 0 {
		isResults = true
	}
	c.Check("R1", "compares-result-with-old-at-same-index", eq.Pos(), isResults && ob != nil && eng.Render(ob) == "p2" && ri == oi && ri != "", "each result is compared with the Old entry of the same transition", fmt.Sprintf("%s vs %s", ri, oi))
	c.Check("R1", "comparison-is-deep", eq.Pos(), constBoolIs(eq.Call.Args[2], true), "the comparison is deep: a change anywhere below the transition root counts as a change")
	// the flag φ
	var made *ssa.Phi
	eng.EachInstr(tr, func(i ssa.Instruction) {
		phi, ok := i.(*ssa.Phi)
		if !ok || eng.TypeShort(phi.Type()) != "bool" || !ct.Block().Dominates(phi.Block()) {
			return
		}
		for j, e := range phi.Edges {
			if constBoolIs(e, true) {
				ga := edgeGuards(phi.Block().Preds[j], phi.Block())
				for _, a := range ga {
					if a.V == ssa.Value(eq) && !a.Pos {
						made = phi
					}
				}
				// the unequal edge may go through an empty block
				p := phi.Block().Preds[j]
				if len(p.Preds) == 1 {
					for _, a := range edgeGuards(p.Preds[0], p) {
						if a.V == ssa.Value(eq) && !a.Pos {
							made = phi
						}
					}
				}
			}
		}
	})
	okFlag := made != nil
	if made != nil {
		for j, e := range made.Edges {
			if constBoolIs(e, false) {
				// false only when the loop ended without finding a difference
				p := made.Block().Preds[j]
				hasNe := false
				for _, a := range edgeGuards(p, made.Block()) {
					if a.V == ssa.Value(eq) && !a.Pos {
						hasNe = true
					}
				}
				if hasNe {
					okFlag = false
				}
			} else if !constBoolIs(e, true) {
				okFlag = false
			}
		}
	}
	c.Check("R1", "flag-true-iff-some-result-differs", eq.Pos(), okFlag, "«made changes» is true exactly on the edge where a result differs from its Old entry")
	if made == nil {
		return
	}

	// ---- R2 / R3 ----
	isAllowed := func(a eng.Atom, allowAccel bool) bool {
		switch {
		case a.V == ssa.Value(made) && a.Pos:
			return true
		case a.Expr == pollAtom && a.Pos:
			return true
		case allowAccel && a.Expr == "p0.accelerate" && a.Pos:
			return true
		}
		return false
	}
	nClr := 0
	eng.EachInstr(tr, func(i ssa.Instruction) {
		s, ok := i.(*ssa.Store)
		if !ok {
			return
		}
		fa, ok := s.Addr.(*ssa.FieldAddr)
		if !ok || eng.FieldOf(fa).Name() != "accelerate" || !constBoolIs(s.Val, false) {
			return
		}
		nClr++
		g := eng.WithoutImplied(eng.ExpandConjunctions(eng.Guards(s)))
		hasMade, hasPoll, extra := false, false, ""
		for _, a := range g {
			if !ct.Block().Dominates(s.Block()) {
				continue
			}
			if a.V == ssa.Value(made) && a.Pos {
				hasMade = true
			}
			if a.Expr == pollAtom && a.Pos {
				hasPoll = true
			}
			if !isAllowed(a, true) && c42AfterTransition(a, ct) {
				extra = a.String()
			}
		}
		c.Check("R2", "acceleration-disabled-after-changing-transition", s.Pos(), hasMade && hasPoll && extra == "", "after a transition that changed the disk, poll-mode acceleration is switched off — under no further condition", extra)
	})
	if nClr != 1 {
		c.Problem("R2", "expected one accelerate=false store in Transition, found %d", nClr)
	}
	nStrobe := 0
	for _, ci := range eng.CallsNamed(tr, "(*state.Coalescer).Strobe") {
		if eng.Render(ci.Common().Args[0]) != "p0.pollSignal" {
			continue
		}
		nStrobe++
		g := eng.WithoutImplied(eng.ExpandConjunctions(eng.Guards(ci)))
		hasMade, hasPoll, extra := false, false, ""
		for _, a := range g {
			if a.V == ssa.Value(made) && a.Pos {
				hasMade = true
			}
			if a.Expr == pollAtom && a.Pos {
				hasPoll = true
			}
			if !isAllowed(a, false) && c42AfterTransition(a, ct) {
				extra = a.String()
			}
		}
		c.Check("R3", "poll-signal-after-changing-transition", ci.Pos(), hasMade && hasPoll && extra == "" && ct.Block().Dominates(ci.Block()), "a transition that changed the disk strobes the poll signal in poll mode — under no further condition (a later reversal is therefore re-examined)", extra)
	}
	if nStrobe != 1 {
		c.Problem("R3", "expected one poll-signal strobe in Transition, found %d", nStrobe)
	}
	// lockset over accelerate
	locksetRuleX(c, "R2", []string{localEPPkg},
		[]fieldGuard{{pkg: localEPPkg, typ: "endpoint", field: "accelerate", lockField: "scanLock"}},
		[]lockExemption{{fn: "synchronization/endpoint/local.NewEndpoint", reason: "the endpoint is not yet published"}},
		map[string][]string{
			"(*synchronization/endpoint/local.endpoint).scan": {"p0.scanLock"},
		}, scanLockOps(), nil)

	// ---- R4 ----
	var scanCall *ssa.Call
	for _, ci := range eng.CallsNamed(wp, "(*synchronization/endpoint/local.endpoint).scan") {
		scanCall, _ = ci.(*ssa.Call)
	}
	if scanCall == nil {
		c.Problem("R4", "scan call not found in watchPoll")
		return
	}
	held := eng.HeldLocks(wp, scanLockOps(), nil)
	c.Check("R4", "scan-under-lock", scanCall.Pos(), held[scanCall]["p0.scanLock"], "the polling scan runs under the scan lock")
	var clr, set *ssa.Store
	eng.EachInstr(wp, func(i ssa.Instruction) {
		s, ok := i.(*ssa.Store)
		if !ok {
			return
		}
		fa, ok := s.Addr.(*ssa.FieldAddr)
		if !ok || eng.FieldOf(fa).Name() != "accelerate" {
			return
		}
		if constBoolIs(s.Val, false) && s.Block() == scanCall.Block() {
			clr = s
		}
		if !constBoolIs(s.Val, false) {
			set = s
		}
	})
	c.Check("R4", "acceleration-cleared-before-scanning", scanCall.Pos(), clr != nil && eng.InstrIndex(clr) < eng.InstrIndex(scanCall), "acceleration is switched off before the scan starts")
	if set != nil {
		g := eng.Guards(set)
		okSucc := false
		for _, a := range g {
			if b, ok := a.V.(*ssa.BinOp); ok && b.X == ssa.Value(scanCall) && eng.IsNilConst(b.Y) && a.Pos {
				okSucc = true
			}
		}
		c.Check("R4", "acceleration-enabled-only-after-successful-scan", set.Pos(), okSucc && eng.Render(set.Val) == "p0.accelerationAllowed" && held[set]["p0.scanLock"], "acceleration is (re-)enabled only after a successful scan, in the same critical section, and only if allowed", atomsShort(g))
	} else {
		c.Check("R4", "acceleration-enabled-only-after-successful-scan", wp.Pos(), false, "acceleration is (re-)enabled only after a successful scan")
	}
	// failure: unlock + strobe
	failBlk := scanCall.Block().Succs[0]
	unl, strobe := false, false
	for _, in := range failBlk.Instrs {
		if ci, ok := in.(ssa.CallInstruction); ok {
			switch eng.CalleeName(ci) {
			case "(*synchronization/endpoint/local.endpoint).unlockScanLock":
				unl = true
			case "(*state.Coalescer).Strobe":
				if eng.Render(ci.Common().Args[0]) == "p0.pollSignal" {
					strobe = true
				}
			}
		}
	}
	c.Check("R4", "failed-scan-releases-and-signals", scanCall.Pos(), unl && strobe, "a failed polling scan releases the lock and strobes the poll signal (the controller rescans)")
	// ticker
	var sel *ssa.Select
	eng.EachInstr(wp, func(i ssa.Instruction) {
		if s, ok := i.(*ssa.Select); ok && s.Blocking {
			sel = s
		}
	})
	okTick := false
	if sel != nil {
		for k, stt := range sel.States {
			r := eng.Render(stt.Chan)
			if strings.HasPrefix(r, "time.NewTicker((conv:time.Duration(p2) * 1000000000:Duration)).C") {
				if body := eng.SelectCaseBlock(sel, k); body != nil {
					// the case body flows straight to the scan
					for _, s := range body.Succs {
						if s == scanCall.Block() {
							okTick = true
						}
					}
					if body == scanCall.Block() {
						okTick = true
					}
				}
			}
		}
	}
	c.Check("R4", "timer-case-leads-to-scan", wp.Pos(), okTick, "a tick of the polling timer (interval in seconds) leads to a scan")

	// ---- R5 ----
	var eqs *ssa.Call
	for _, ci := range eng.CallsNamed(wp, "(*synchronization/core.Snapshot).Equal") {
		eqs, _ = ci.(*ssa.Call)
	}
	if eqs == nil {
		c.Problem("R5", "snapshot comparison not found in watchPoll")
		return
	}
	prev, isPhi := eng.Unwrap(eqs.Call.Args[1]).(*ssa.Phi)
	fresh := eng.Unwrap(eqs.Call.Args[0])
	okFresh := eng.Render(fresh) == "p0.snapshot" && scanCall.Block().Dominates(eqs.Block())
	if u, ok := fresh.(*ssa.UnOp); ok {
		okFresh = okFresh && held[u]["p0.scanLock"]
	}
	c.Check("R5", "compares-fresh-with-previous", eqs.Pos(), isPhi && okFresh, "the snapshot just produced (read under the lock) is compared with the previous one")
	if isPhi {
		okPrev := true
		why := ""
		hdr := prev.Block()
		for j, e := range prev.Edges {
			p := hdr.Preds[j]
			switch {
			case !hdr.Dominates(p):
				// initial value: an empty snapshot
				if _, ok := e.(*ssa.Alloc); !ok {
					okPrev, why = false, "initial previous snapshot is not a fresh empty value"
				}
			case eqs.Block().Dominates(p):
				if eng.Unwrap(e) != fresh {
					okPrev, why = false, "after a successful scan the previous snapshot is not replaced by the fresh one"
				}
			default:
				if e != ssa.Value(prev) {
					okPrev, why = false, "the previous snapshot changes on an iteration without a successful scan"
				}
			}
		}
		c.Check("R5", "previous-updated-every-successful-iteration", prev.Pos(), okPrev, "the baseline for change detection is always the last successfully scanned snapshot", why)
	}
	// the strobe
	var strobeCall ssa.CallInstruction
	for _, ci := range eng.CallsNamed(wp, "(*state.Coalescer).Strobe") {
		if eng.Render(ci.Common().Args[0]) == "p0.pollSignal" && eqs.Block().Dominates(ci.Block()) {
			strobeCall = ci
		}
	}
	if strobeCall == nil {
		c.Check("R5", "modification-strobes", wp.Pos(), false, "a detected modification strobes the poll signal")
		return
	}
	g := eng.WithoutImplied(eng.ExpandConjunctions(eng.Guards(strobeCall)))
	hasMod := false
	var ignore *ssa.Phi
	extra := ""
	for _, a := range g {
		// the scan succeeded
		if b, ok := a.V.(*ssa.BinOp); ok && b.X == ssa.Value(scanCall) && eng.IsNilConst(b.Y) && a.Pos {
			continue
		}
		switch v := a.V.(type) {
		case *ssa.Call:
			if v == eqs && !a.Pos {
				hasMod = true
				continue
			}
		case *ssa.Phi:
			if !a.Pos && eng.TypeShort(v.Type()) == "bool" {
				ignore = v
				continue
			}
		}
		extra = a.String()
	}
	c.Check("R5", "modification-strobes", strobeCall.Pos(), hasMod && extra == "", "a snapshot that differs from the previous one strobes the poll signal, suppressed by nothing but the first-iteration flag", extra)
	if ignore == nil {
		c.Check("R5", "suppression-first-iteration-only", strobeCall.Pos(), true, "no suppression flag exists")
		return
	}
	// ignore φ: true only on an edge guarded by the «first» φ
	okIgn := true
	why := ""
	var first *ssa.Phi
	// the suppression flag may BE the loop's «first» flag (`ignore := first`):
	// a loop-header φ that is true initially and false on every back edge
	isHeaderFlag := false
	for j := range ignore.Edges {
		if ignore.Block().Dominates(ignore.Block().Preds[j]) {
			isHeaderFlag = true
		}
	}
	if isHeaderFlag {
		first = ignore
		for j, e := range ignore.Edges {
			if ignore.Block().Dominates(ignore.Block().Preds[j]) && !c42FalseGiven(e, ignore) {
				okIgn, why = false, "the flag can be true again after the first iteration: "+eng.Render(e)
			}
		}
		c.Check("R5", "suppression-first-iteration-only", ignore.Pos(), okIgn, "the suppression flag can be set in the first iteration only (it is false on every back edge)", why)
		okIgn, first = true, nil
	}
	for j, e := range ignore.Edges {
		if isHeaderFlag {
			break
		}
		if constBoolIs(e, false) {
			continue
		}
		if !constBoolIs(e, true) {
			okIgn, why = false, "suppression flag is not a constant per edge: "+eng.Render(e)
			continue
		}
		found := false
		for _, a := range edgeGuards(ignore.Block().Preds[j], ignore.Block()) {
			if phi, ok := a.V.(*ssa.Phi); ok && a.Pos && eng.TypeShort(phi.Type()) == "bool" {
				first, found = phi, true
			}
		}
		if !found {
			okIgn, why = false, "suppression is switched on outside the first-iteration branch"
		}
	}
	if okIgn && first != nil {
		hdr := first.Block()
		for j, e := range first.Edges {
			p := hdr.Preds[j]
			if !hdr.Dominates(p) {
				continue // initial value (true)
			}
			if !c42FalseGiven(e, first) {
				okIgn, why = false, "«first» can be true again after the first iteration: "+eng.Render(e)
			}
		}
	}
	if !isHeaderFlag {
		c.Check("R5", "suppression-first-iteration-only", ignore.Pos(), okIgn && first != nil, "the suppression flag can be set in the first iteration only («first» is false on every back edge)", why)
	}

	// ---- R6 ----
	nIgn := 0
	for _, b := range wp.Blocks {
		if !strings.HasPrefix(b.Comment, "if.then") && !strings.HasPrefix(b.Comment, "if.else") {
			continue
		}
		for _, in := range b.Instrs {
			if ci, ok := in.(*ssa.Call); ok && eng.CalleeName(ci) == "(*logging.Logger).Tracef" {
				if s, ok := eng.ConstString(ci.Call.Args[1]); ok && strings.HasPrefix(s, "Ignoring event path") {
					nIgn++
					g := eng.Guards(ci)
					okP := false
					for _, a := range g {
						if a.Pos && strings.HasPrefix(a.Expr, "strings.HasPrefix(path/filepath.Base(") && strings.HasSuffix(a.Expr, `, ".mutagen-temporary-")`) {
							okP = true
						}
					}
					c.Check("R6", "ignored-events-are-temporary-files", ci.Pos(), okP, "an event path is ignored only when its base name carries the temporary-file prefix", atomsShort(g))
				}
			}
		}
	}
	if nIgn != 1 {
		c.Problem("R6", "expected one ignored-event branch in watchPoll, found %d", nIgn)
	}
}

// c42AfterTransition: the atom's condition is evaluated after core.Transition
// returned (conditions before it — read-only mode, limits — gate the whole
// operation and are not restrictions of the post-transition bookkeeping).
func c42AfterTransition(a eng.Atom, ct *ssa.Call) bool {
	in, ok := a.V.(ssa.Instruction)
	if !ok {
		return true
	}
	if in.Block() == ct.Block() {
		return eng.InstrIndex(in) > eng.InstrIndex(ct)
	}
	return ct.Block().Dominates(in.Block())
}

// c42FalseGiven: v is false whenever it is evaluated, given that a φ edge equal
// to `first` is only taken where first is false.
func c42FalseGiven(v ssa.Value, first *ssa.Phi) bool {
	if constBoolIs(v, false) {
		return true
	}
	phi, ok := v.(*ssa.Phi)
	if !ok || phi == first {
		return false
	}
	for j, e := range phi.Edges {
		if constBoolIs(e, false) {
			continue
		}
		if e == ssa.Value(first) {
			okEdge := false
			for _, a := range edgeGuards(phi.Block().Preds[j], phi.Block()) {
				if a.V == ssa.Value(first) && !a.Pos {
					okEdge = true
				}
			}
			if okEdge {
				continue
			}
		}
		return false
	}
	return true
}
