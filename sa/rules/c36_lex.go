package rules

import (
	"go/token"
	"strings"

	"golang.org/x/tools/go/ssa"

	"verif/sa/eng"
)

// c36NoLexing (C36.R4): a URL component (host, user, container — and the
// `user` argument of dockerTransport.command, which carries a component) must
// reach the argument vector as ONE element. Inside the transports no value
// computed from such a component may be split into words (strings.Split/
// SplitN/Fields…): splitting turns "root --privileged" into extra options even
// though the component does not begin with '-'.
func c36NoLexing(c *eng.Ctx) {
	type tr struct {
		pkg, typ string
		fields   []string
	}
	splitters := map[string]bool{"strings.Split": true, "strings.SplitN": true, "strings.SplitAfter": true, "strings.SplitAfterN": true, "strings.Fields": true, "strings.FieldsFunc": true}
	n := 0
	for _, t := range []tr{{"pkg/agent/transport/ssh", "sshTransport", []string{"user", "host"}}, {"pkg/agent/transport/docker", "dockerTransport", []string{"container", "user"}}} {
		tainted := map[string]bool{}
		for _, f := range t.fields {
			tainted[f] = true
		}
		for _, fn := range c.P.ModuleFuncs(t.pkg) {
			if !strings.Contains(eng.FuncName(fn), t.typ+").") {
				continue
			}
			isSrc := func(v ssa.Value) bool {
				if u, ok := v.(*ssa.UnOp); ok && u.Op == token.MUL {
					if fa, ok := u.X.(*ssa.FieldAddr); ok && tainted[eng.FieldOf(fa).Name()] && strings.HasSuffix(eng.TypeShort(fa.X.Type()), t.typ) {
						return true
					}
				}
				// dockerTransport.command's `user` parameter is fed with t.user / the probed user
				if p, ok := v.(*ssa.Parameter); ok && p.Name() == "user" {
					return true
				}
				return false
			}
			for _, ci := range eng.Calls(fn) {
				if !splitters[eng.CalleeName(ci)] {
					continue
				}
				n++
				dep := eng.MayDependOn(ci.Common().Args[0], isSrc)
				c.Check("R4", "component-not-lexed@"+eng.FuncName(fn), ci.Pos(), !dep, "no text computed from a URL component is split into words on its way to the argument vector", eng.Render(ci.Common().Args[0]))
			}
		}
	}
	if n < 1 {
		c.Problem("R4", "no word-splitting call found in the transports (the docker transport lexes the in-container command)")
	}
}
