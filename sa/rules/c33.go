package rules

import (
	"fmt"
	"go/token"
	"strings"

	"golang.org/x/tools/go/ssa"

	"verif/sa/eng"
)

func init() {
	eng.Register(&eng.Property{
		ID:       "C33",
		Title:    "Forwarded connections relay both directions exactly",
		Packages: []string{fwdPkg, streamPkg},
		Explanation: "(R1) ForwardAndClose registers, before anything else, a deferred function that closes both connections — so they are closed on every exit; " +
			"(R2, sibling agreement of the two copy goroutines) each goroutine copies from one connection into an audit writer over the OTHER connection with that connection's own auditor, half-closes (CloseWrite) exactly the connection it wrote to and only if the copy ended without error, and reports its result on the shared channel on every path; the two goroutines are mirror images covering both directions; " +
			"(R3) the function waits for as many results as there are copy goroutines (loop from 0 to 2, channel capacity 2) and returns early only on a copy error or cancellation; " +
			"(R4, counters) controller.forward increments OpenConnections and TotalConnections of the state object under stateLock (with notification) for every accepted pair, and the per-connection goroutine decrements OpenConnections of that same captured state object after ForwardAndClose returned; the auditors add to TotalInboundData/TotalOutboundData of that same object under the lock; connections passed are the ones just opened on source and destination; no variable the per-connection goroutine captures is reassigned by a later round of the accept loop (each goroutine owns its pair). " +
			"(R5) the audit writer reports to the auditor, unconditionally, uint64(n) for the count n of every downstream write (a partially successful write that also failed is counted) and returns the downstream result unchanged; " +
			"Not decided: byte exactness (io.Copy), schedules.",
		Assumptions: []string{"io.Copy copies until EOF or error"},
		Run:         runC33,
	})
}

func runC33(c *eng.Ctx) {
	c33AuditWriter(c)
	fn := c.MustFunc("R1", fwdPkg, "ForwardAndClose")
	if fn == nil {
		return
	}
	// R1.
	var def *ssa.Defer
	eng.EachInstr(fn, func(i ssa.Instruction) {
		if d, ok := i.(*ssa.Defer); ok && def == nil {
			def = d
		}
	})
	okDef := false
	if def != nil && def.Block() == fn.Blocks[0] {
		if mc, ok := def.Call.Value.(*ssa.MakeClosure); ok {
			closed := map[string]bool{}
			for _, call := range eng.Calls(mc.Fn.(*ssa.Function)) {
				if call.Common().IsInvoke() && call.Common().Method.Name() == "Close" {
					closed[eng.Render(call.Common().Value)] = true
				}
			}
			okDef = closed["*fv:first"] && closed["*fv:second"] || closed["fv:first"] && closed["fv:second"] || len(closed) == 2
		}
	}
	c.Check("R1", "both-closed-on-every-exit", fn.Pos(), okDef, "a deferred function registered in the entry block closes both connections")

	// R2.
	type dir struct {
		dst, aud, src, cw string
		sends             int
		cwGuarded         bool
	}
	var dirs []dir
	nGo := 0
	eng.EachInstr(fn, func(i ssa.Instruction) {
		g, ok := i.(*ssa.Go)
		if !ok {
			return
		}
		mc, ok := g.Call.Value.(*ssa.MakeClosure)
		if !ok {
			return
		}
		nGo++
		f := mc.Fn.(*ssa.Function)
		c.Analysed(f)
		var d dir
		for _, call := range eng.Calls(f) {
			switch {
			case eng.CalleeName(call) == "io.Copy":
				src := call.Common().Args[1]
				d.src = eng.Render(src)
				if aw, ok := eng.Unwrap(call.Common().Args[0]).(*ssa.Call); ok && eng.CalleeName(aw) == "stream.NewAuditWriter" {
					d.dst = eng.Render(aw.Call.Args[0])
					d.aud = eng.Render(aw.Call.Args[1])
				}
			case call.Common().IsInvoke() && call.Common().Method.Name() == "CloseWrite":
				d.cw = eng.Render(call.Common().Value)
				for _, a := range eng.Guards(call) {
					if a.Pos && strings.HasPrefix(a.Expr, "(io.Copy(") && strings.HasSuffix(a.Expr, "#1 == nil)") {
						d.cwGuarded = true
					}
				}
			}
		}
		// result reported on all paths: every return block is preceded by a send
		sendsOnAllPaths := true
		paths, _ := eng.EnumPaths(f.Blocks[0], nil, 200)
		for _, p := range paths {
			s := 0
			for _, b := range p.Blocks {
				for _, in := range b.Instrs {
					if snd, ok := in.(*ssa.Send); ok && strings.Contains(eng.Render(snd.Chan), "copyErrors") && strings.HasPrefix(eng.Render(snd.X), "io.Copy(") {
						s++
					}
				}
			}
			if s != 1 {
				sendsOnAllPaths = false
			}
		}
		if sendsOnAllPaths {
			d.sends = 1
		}
		dirs = append(dirs, d)
	})
	if len(dirs) != 2 {
		c.Problem("R2", "expected two copy goroutines, found %d", len(dirs))
	} else {
		name := func(s string) string { return strings.TrimPrefix(strings.TrimPrefix(s, "*"), "fv:") }
		for i, d := range dirs {
			o := dirs[1-i]
			key := fmt.Sprintf("goroutine#%d", i+1)
			c.Check("R2", key+"/writes-other-connection", fn.Pos(), name(d.dst) != name(d.src) && name(d.dst) == name(o.src) && name(d.src) == name(o.dst), "each goroutine copies from one connection into the other; together they cover both directions", d.src+" → "+d.dst)
			c.Check("R2", key+"/auditor-matches-destination", fn.Pos(), strings.HasPrefix(name(d.aud), name(d.dst)), "bytes written to a connection are reported to that connection's auditor", d.aud+" for "+d.dst)
			c.Check("R2", key+"/half-close-destination-on-clean-eof", fn.Pos(), d.cwGuarded && strings.HasPrefix(name(d.cw), name(d.dst)), "the destination is half-closed exactly when the copy ended without error", d.cw)
			c.Check("R2", key+"/result-always-reported", fn.Pos(), d.sends == 1, "the goroutine reports io.Copy's error exactly once on every path")
		}
	}

	// R3.
	var mk *ssa.MakeChan
	eng.EachInstr(fn, func(i ssa.Instruction) {
		if m, ok := i.(*ssa.MakeChan); ok {
			mk = m
		}
	})
	capV := int64(-1)
	if mk != nil {
		capV, _ = eng.ConstInt64(mk.Size)
	}
	// loop counter phi: init 0, test < bound
	var bound, init int64 = -1, -1
	eng.EachInstr(fn, func(i ssa.Instruction) {
		iff, ok := i.(*ssa.If)
		if !ok {
			return
		}
		b, ok := iff.Cond.(*ssa.BinOp)
		if !ok || (b.Op != token.LSS && b.Op != token.GTR) {
			return
		}
		phi, ok := b.X.(*ssa.Phi)
		if !ok {
			return
		}
		k, isC := eng.ConstInt64(b.Y)
		if !isC {
			return
		}
		var start, step int64 = -1, 0
		for j, e := range phi.Edges {
			if v, isC := eng.ConstInt64(e); isC && !phi.Block().Dominates(phi.Block().Preds[j]) {
				start = v
			} else if st, isB := e.(*ssa.BinOp); isB && st.X == ssa.Value(phi) && constIs(st.Y, 1) {
				switch st.Op {
				case token.ADD:
					step = 1
				case token.SUB:
					step = -1
				}
			}
		}
		// normalise to «counter from 0, bound = number of iterations»:
		// for i := a; i < b; i++ runs b-a times, for n := a; n > b; n-- runs a-b times
		switch {
		case b.Op == token.LSS && step == 1 && start >= 0:
			init, bound = 0, k-start
		case b.Op == token.GTR && step == -1 && start >= 0:
			init, bound = 0, start-k
		}
	})
	c.Check("R3", "waits-for-all-copies", fn.Pos(), init == 0 && bound == int64(nGo) && capV == bound && nGo == 2, "the function awaits one result per copy goroutine (counter from 0, bound = goroutines = channel capacity)", fmt.Sprintf("init=%d bound=%d goroutines=%d capacity=%d", init, bound, nGo, capV))
	for _, r := range eng.Returns(fn) {
		g := eng.Guards(r)
		inLoop := false
		why := ""
		for _, a := range g {
			if strings.HasPrefix(a.Expr, "(select(") && a.Pos {
				inLoop = true
			}
			if !a.Pos && strings.HasSuffix(a.Expr, "#2 == nil)") {
				why = "copy error"
			}
			if a.Pos && strings.HasPrefix(a.Expr, "(select(") && strings.HasSuffix(a.Expr, "#0 == 1)") {
				why = "cancellation"
			}
		}
		if inLoop {
			c.Check("R3", "early-return-reason", r.Pos(), why != "", "an early return happens only on a copy error or cancellation", atomsShort(g))
		}
	}

	// R4.
	fw := c.MustFunc("R4", fwdPkg, "controller.forward")
	if fw == nil {
		return
	}
	var stateCell *ssa.Alloc
	incDone := map[string]bool{}
	eng.EachInstr(fw, func(i ssa.Instruction) {
		st, ok := i.(*ssa.Store)
		if !ok {
			return
		}
		fa, ok := st.Addr.(*ssa.FieldAddr)
		if !ok {
			return
		}
		f := eng.FieldOf(fa).Name()
		if f != "OpenConnections" && f != "TotalConnections" {
			return
		}
		b, ok := st.Val.(*ssa.BinOp)
		if !ok || b.Op != token.ADD || !constIs(b.Y, 1) {
			return
		}
		incDone[f] = true
		if u, ok := fa.X.(*ssa.UnOp); ok {
			if al, ok := u.X.(*ssa.Alloc); ok {
				stateCell = al
			}
		}
	})
	c.Check("R4", "connection-counted", fw.Pos(), incDone["OpenConnections"] && incDone["TotalConnections"] && stateCell != nil, "each accepted pair increments OpenConnections and TotalConnections of the captured state object")
	held := eng.HeldLocks(fw, eng.DefaultLockOps(), nil)
	eng.EachInstr(fw, func(i ssa.Instruction) {
		if st, ok := i.(*ssa.Store); ok {
			if fa, ok := st.Addr.(*ssa.FieldAddr); ok && eng.FieldOf(fa).Name() == "OpenConnections" {
				c.Check("R4", "increment-under-lock", st.Pos(), held[i]["p0.stateLock"], "the counters change under stateLock")
			}
		}
	})
	// goroutine closure
	nDec := 0
	for _, f := range fw.AnonFuncs {
		var fc ssa.Instruction
		for _, call := range eng.CallsNamed(f, "forwarding.ForwardAndClose") {
			fc = call
			a := call.Common().Args
			// the pair reaches the goroutine as captured variables or as arguments
			// of the `go func(incoming, outgoing net.Conn){…}(incoming, outgoing)`
			// form; in the latter case follow the parameter to the go statement
			nm := func(v ssa.Value) string {
				p, isParam := eng.Unwrap(v).(*ssa.Parameter)
				if !isParam {
					return eng.Render(v)
				}
				for k, q := range f.Params {
					if q != p {
						continue
					}
					var site string
					eng.EachInstr(fw, func(i ssa.Instruction) {
						if g, ok := i.(*ssa.Go); ok {
							if mc, ok := g.Call.Value.(*ssa.MakeClosure); ok && mc.Fn == ssa.Value(f) && k < len(g.Call.Args) {
								site = eng.Render(g.Call.Args[k])
								if al, ok := eng.Unwrap(g.Call.Args[k]).(*ssa.UnOp); ok {
									if cell, ok := al.X.(*ssa.Alloc); ok {
										site = cell.Comment
									}
								}
							}
						}
					})
					// what was passed: the connection just opened on the source
					// (incoming) or on the destination (outgoing)
					switch site {
					case "invoke:Open(p1)#0":
						return "incoming"
					case "invoke:Open(p2)#0":
						return "outgoing"
					}
					return site
				}
				return "?"
			}
			c.Check("R4", "forwards-opened-pair", call.Pos(), strings.Contains(nm(a[1]), "incoming") && strings.Contains(nm(a[2]), "outgoing") && strings.Contains(eng.Render(a[3]), "incomingAuditor") && strings.Contains(eng.Render(a[4]), "outgoingAuditor"), "the goroutine forwards the pair just opened, each with its auditor", eng.RenderCall(call.Common()))
		}
		eng.EachInstr(f, func(i ssa.Instruction) {
			st, ok := i.(*ssa.Store)
			if !ok {
				return
			}
			fa, ok := st.Addr.(*ssa.FieldAddr)
			if !ok {
				return
			}
			name := eng.FieldOf(fa).Name()
			sameObj := false
			if u, ok := fa.X.(*ssa.UnOp); ok {
				if fv, ok := u.X.(*ssa.FreeVar); ok && eng.FreeVarBinding(fv) == ssa.Value(stateCell) {
					sameObj = true
				}
			}
			switch name {
			case "OpenConnections":
				nDec++
				b, isB := st.Val.(*ssa.BinOp)
				after := fc != nil && (fc.Block().Dominates(st.Block()) && (fc.Block() != st.Block() || eng.InstrIndex(fc) < eng.InstrIndex(st)))
				c.Check("R4", "decrement-same-object-after-forwarding", st.Pos(), isB && b.Op == token.SUB && constIs(b.Y, 1) && sameObj && after, "when forwarding of a pair ends, OpenConnections of the SAME state object that was incremented is decremented", eng.Render(st.Addr))
			case "TotalInboundData", "TotalOutboundData":
				c.Check("R4", "auditor-same-object:"+name, st.Pos(), sameObj, "the auditor adds to the same state object", eng.Render(st.Addr))
			}
		})
	}
	c.Check("R4", "one-decrement", fw.Pos(), nDec == 1, "there is exactly one decrement per forwarded pair", fmt.Sprint(nDec))
	// each goroutine owns its pair: a variable it captures is not one that the
	// accept loop overwrites on its next round (a cell declared outside the loop
	// and assigned inside it would be read by the goroutine only when scheduled —
	// possibly after the next pair was accepted)
	nOwn := 0
	eng.EachInstr(fw, func(i ssa.Instruction) {
		g, ok := i.(*ssa.Go)
		if !ok {
			return
		}
		mc, ok := g.Call.Value.(*ssa.MakeClosure)
		if !ok {
			return
		}
		nOwn++
		var loop *eng.LoopOf
		for _, b := range fw.Blocks {
			if l := eng.FindLoop(b); l != nil && l.Body[g.Block()] {
				loop = l
			}
		}
		var shared []string
		if loop != nil {
			for _, bnd := range mc.Bindings {
				al, ok := bnd.(*ssa.Alloc)
				if !ok || loop.Body[al.Block()] {
					continue
				}
				for _, ref := range *al.Referrers() {
					if st, ok := ref.(*ssa.Store); ok && st.Addr == ssa.Value(al) && loop.Body[st.Block()] {
						shared = append(shared, al.Comment)
						break
					}
				}
			}
		}
		c.Check("R4", "goroutine-owns-its-pair", g.Pos(), len(shared) == 0, "no variable captured by the per-connection goroutine is reassigned by a later round of the accept loop", strings.Join(shared, ","))
	})
	if nOwn == 0 {
		c.Problem("R4", "no per-connection goroutine found in forward")
	}
	// arguments of Open
	c.Floor("R4", 6)
}
