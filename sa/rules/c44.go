package rules

import (
	"fmt"
	"go/token"
	"strings"

	"golang.org/x/tools/go/ssa"

	"verif/sa/eng"
)

const (
	loggingPkg  = "pkg/logging"
	terminalPkg = "pkg/platform/terminal"
)

func init() {
	eng.Register(&eng.Property{
		ID:       "C44",
		Title:    "Log output is one neutralized line per record",
		Packages: []string{loggingPkg, terminalPkg, streamPkg},
		Explanation: "(R1, sink discipline) every write to a Logger's underlying writer passes []byte(x) where x is DIRECTLY the result of terminal.NeutralizeControlCharacters — on every path, so a branch that bypasses the neutralizer is a violation; the writer field is otherwise only copied into new Logger values; the sinks live in Logger.write and the Writer callback only; " +
			"(R2, one line) Logger.write: the message is cut at the first carriage return (message[:i]+\"...\\n\"), THEN — unconditionally, on the result — searched for a line feed; none → panic; a line feed before the last byte → cut there and re-terminated; the value formatted is that final φ, it is the last operand, and the constant format strings contain no control characters and end in its verb — hence exactly one '\\n', at the end, and no '\\r'; " +
			"(R3, prefix) the other operands are the constant-layout timestamp, Level.abbreviation() (which returns only bytes of the printable constant table or '?') and the scope, which every Logger literal in the package takes from a name accepted by the anchored nameMatcher pattern whose alphabet has no control characters (or from the parent's scope joined with '.'); " +
			"(R4, relayed lines) the Writer callback either logs the line through Logger.log (not a logger line), warns with a constant (bad level), drops it (level gate), or writes NeutralizeControlCharacters of line+\"\\n\" / Sprintf(\"%s[%s] %s\\n\", prefix, scope, rest) whose format has exactly one trailing newline and whose operands all derive from the line (which the line processor delivers without a newline — C47) or the scope; " +
			"(R5, neutralizer table) the replacer maps at least ESC and CR, no replacement contains a control character, and NeutralizeControlCharacters returns the replacer's result for its argument. " +
			"(R6) every callback invocation of stream.LineProcessor.Write passes the text before the FIRST newline of the remaining data (found by IndexByte, ≠ -1), so a relayed line cannot carry an embedded newline; " +
			"(R7, own scope) Sublogger returns, on every successful path, a freshly built Logger whose scope is the parent's scope + '.' + the validated name (the bare name under an unscoped parent) with the parent's level and writer — never a logger obtained elsewhere, so each line carries the scope of the logger it was written on; " +
			"Not decided: behaviour of fmt and strings.Replacer; C1 controls other than ESC.",
		Assumptions: []string{"strings.Replacer replaces every occurrence", "the line processor delivers lines without '\\n' (C47)"},
		Run:         runC44,
	})
}

func isControlFree(s string) bool {
	for i := 0; i < len(s); i++ {
		if s[i] < 0x20 || s[i] == 0x7f {
			return false
		}
	}
	return true
}

func runC44(c *eng.Ctx) {
	c44LinesHaveNoNewline(c)
	c44Scope(c)
	wfield, err := c.P.Field(loggingPkg, "Logger", "writer")
	if err != nil {
		c.Problem("R1", "%v", err)
		return
	}
	// ---- R1 ----
	sinkFns := map[string]bool{}
	nSink := 0
	for _, fn := range c.P.ModuleFuncs(loggingPkg) {
		eng.EachInstr(fn, func(i ssa.Instruction) {
			fa, ok := i.(*ssa.FieldAddr)
			if !ok || eng.FieldOf(fa) != wfield {
				return
			}
			for _, ref := range *fa.Referrers() {
				switch r := ref.(type) {
				case *ssa.Store:
					// initialising a Logger literal
					if r.Addr == ssa.Value(fa) {
						_, fresh := fa.X.(*ssa.Alloc)
						c.Check("R1", "writer-set-only-in-literals@"+eng.FuncName(fn), r.Pos(), fresh, "the writer field is assigned only when a Logger value is constructed")
					}
				case *ssa.UnOp:
					for _, use := range *r.Referrers() {
						switch u := use.(type) {
						case *ssa.Store:
							// copied into a new Logger's writer field
							dst, ok := u.Addr.(*ssa.FieldAddr)
							c.Check("R1", "writer-copied-only-to-loggers@"+eng.FuncName(fn), u.Pos(), ok && eng.FieldOf(dst) == wfield && u.Val == ssa.Value(r), "the underlying writer is handed only to derived loggers")
						case ssa.CallInstruction:
							cc := u.Common()
							if cc.IsInvoke() && cc.Value == ssa.Value(r) && cc.Method.Name() == "Write" {
								nSink++
								sinkFns[eng.FuncName(fn)] = true
								okS := false
								detail := eng.Render(cc.Args[0])
								if cv, ok := cc.Args[0].(*ssa.Convert); ok {
									if call, ok := cv.X.(*ssa.Call); ok && eng.CalleeName(call) == "platform/terminal.NeutralizeControlCharacters" {
										okS = true
									}
								}
								c.Check("R1", fmt.Sprintf("sink#%d-receives-neutralized-text@%s", nSink, eng.FuncName(fn)), u.Pos(), okS, "what reaches the log writer is, on every path, the direct output of the control-character neutralizer", detail)
							} else {
								c.Check("R1", "writer-used-only-for-write@"+eng.FuncName(fn), u.Pos(), false, "the underlying writer is used for nothing but Write of neutralized text", eng.RenderCall(cc))
							}
						default:
							if _, isDbg := use.(*ssa.DebugRef); !isDbg {
								c.Check("R1", "writer-does-not-escape@"+eng.FuncName(fn), use.Pos(), false, "the underlying writer does not escape the logger", fmt.Sprintf("%T", use))
							}
						}
					}
				}
			}
		})
	}
	c.Check("R1", "sinks-are-write-and-relay-only", token.NoPos, nSink == 2 && sinkFns["(*logging.Logger).write"] && sinkFns["(*logging.Logger).Writer$1"], "the log writer is written from Logger.write and the relay callback only", fmt.Sprint(keys(sinkFns)))

	// ---- R2 ----
	wr := c.MustFunc("R2", loggingPkg, "Logger.write")
	if wr == nil {
		return
	}
	idxCalls := map[int64]*ssa.Call{}
	for _, ci := range eng.CallsNamed(wr, "strings.IndexByte") {
		if k, ok := eng.ConstInt64(ci.Common().Args[1]); ok {
			idxCalls[k], _ = ci.(*ssa.Call)
		}
	}
	cr, lf := idxCalls['\r'], idxCalls['\n']
	if cr == nil || lf == nil {
		c.Check("R2", "searches-cr-and-lf", wr.Pos(), false, "write searches the message for '\\r' and for '\\n'")
		return
	}
	// truncation φ helper: φ(searched[:idx]+suffix | searched); returns the φ
	truncPhi := func(searched ssa.Value, idx *ssa.Call) (*ssa.Phi, string, *ssa.BasicBlock) {
		var found *ssa.Phi
		var suffix string
		var truncPred *ssa.BasicBlock
		eng.EachInstr(wr, func(i ssa.Instruction) {
			phi, ok := i.(*ssa.Phi)
			if !ok || len(phi.Edges) != 2 {
				return
			}
			keep, cut := false, false
			for j, e := range phi.Edges {
				if e == searched {
					keep = true
					continue
				}
				if b, ok := e.(*ssa.BinOp); ok && b.Op == token.ADD {
					if sl, ok := b.X.(*ssa.Slice); ok && sl.X == searched && sl.Low == nil && sl.High == ssa.Value(idx) {
						if s, ok := eng.ConstString(b.Y); ok {
							cut, suffix, truncPred = true, s, phi.Block().Preds[j]
						}
					}
				}
			}
			if keep && cut {
				found = phi
			}
		})
		return found, suffix, truncPred
	}
	okSuffix := func(s string) bool {
		return strings.HasSuffix(s, "\n") && strings.Count(s, "\n") == 1 && !strings.ContainsAny(s, "\r\x1b")
	}
	m1, suf1, pred1 := truncPhi(cr.Call.Args[0], cr)
	okCR := m1 != nil && eng.Render(cr.Call.Args[0]) == "p3" && okSuffix(suf1)
	if okCR {
		// the cut edge is the «found» edge
		okCR = false
		for _, a := range edgeGuards(pred1, m1.Block()) {
			if b, ok := a.V.(*ssa.BinOp); ok && b.X == ssa.Value(cr) {
				if (b.Op == token.GEQ && constIs(b.Y, 0) && a.Pos) || (b.Op == token.LSS && constIs(b.Y, 0) && !a.Pos) || ((b.Op == token.EQL || b.Op == token.NEQ) && constIs(b.Y, -1) && !a.Pos) {
					okCR = true
				}
			}
		}
		// and the keep edge is the «not found» edge
		for j, e := range m1.Edges {
			if e == cr.Call.Args[0] {
				hasNeg := false
				for _, a := range edgeGuards(m1.Block().Preds[j], m1.Block()) {
					if b, ok := a.V.(*ssa.BinOp); ok && b.X == ssa.Value(cr) && b.Op == token.GEQ && constIs(b.Y, 0) && !a.Pos {
						hasNeg = true
					}
				}
				okCR = okCR && hasNeg
			}
		}
	}
	c.Check("R2", "cut-at-first-carriage-return", cr.Pos(), okCR, "a message containing '\\r' is cut at the first one and re-terminated with a single newline; otherwise it is kept")
	if m1 == nil {
		return
	}
	c.Check("R2", "line-feed-search-on-the-result-unconditionally", lf.Pos(), lf.Call.Args[0] == ssa.Value(m1) && lf.Block() == m1.Block(), "the line-feed search runs on the (possibly cut) message on every path — also after a carriage-return cut")
	// panic when none
	okPanic := false
	for _, b := range wr.Blocks {
		if _, isP := b.Instrs[len(b.Instrs)-1].(*ssa.Panic); isP {
			for _, a := range eng.GuardsOfBlock(b) {
				if bo, ok := a.V.(*ssa.BinOp); ok && bo.X == ssa.Value(lf) && bo.Op == token.LSS && constIs(bo.Y, 0) && a.Pos {
					okPanic = true
				}
			}
		}
	}
	c.Check("R2", "no-line-feed-is-a-programming-error", lf.Pos(), okPanic, "a message without a line feed never reaches the writer")
	m2, suf2, pred2 := truncPhi(m1, lf)
	okLF := m2 != nil && okSuffix(suf2)
	if okLF {
		okLF = false
		for _, a := range edgeGuards(pred2, m2.Block()) {
			bo, ok := a.V.(*ssa.BinOp)
			if !ok || bo.X != ssa.Value(lf) || a.Pos {
				continue
			}
			// lf == len(m1) - 1, negated
			if sub, ok := bo.Y.(*ssa.BinOp); ok && sub.Op == token.SUB && constIs(sub.Y, 1) {
				if ln, ok := sub.X.(*ssa.Call); ok && eng.CalleeName(ln) == "builtin:len" && ln.Call.Args[0] == ssa.Value(m1) {
					okLF = true
				}
			}
		}
		for j, e := range m2.Edges {
			if e == ssa.Value(m1) {
				has := false
				for _, a := range edgeGuards(m2.Block().Preds[j], m2.Block()) {
					if bo, ok := a.V.(*ssa.BinOp); ok && bo.X == ssa.Value(lf) && a.Pos && (bo.Op == token.EQL || bo.Op == token.NEQ) {
						has = true
					}
				}
				okLF = okLF && has
			}
		}
	}
	c.Check("R2", "cut-at-first-interior-line-feed", lf.Pos(), okLF, "a line feed that is not the last byte cuts the message there (re-terminated); the message is kept only when its first line feed is its last byte")
	nFmt := 0
	for _, ci := range eng.CallsNamed(wr, "fmt.Sprintf") {
		nFmt++
		f, isS := eng.ConstString(ci.Common().Args[0])
		el := eng.VarargElems(ci.Common())
		okF := isS && isControlFree(f) && strings.HasSuffix(f, "%s") && strings.Count(f, "%") == len(el) && len(el) > 0 && m2 != nil && eng.Unwrap(el[len(el)-1]) == ssa.Value(m2)
		c.Check("R2", fmt.Sprintf("format#%d-message-last-and-final", nFmt), ci.Pos(), okF, "the record is formatted from a control-free constant layout ending in the (cut) message", f)
		// ---- R3 ---- other operands
		for k, e := range el[:max(len(el)-1, 0)] {
			r := eng.Render(e)
			okOp := false
			switch {
			case strings.HasPrefix(r, "(time.Time).Format(p1, "):
				if call, ok := eng.Unwrap(e).(*ssa.Call); ok {
					l, isL := eng.ConstString(call.Call.Args[1])
					okOp = isL && isControlFree(l)
				}
			case r == "(logging.Level).abbreviation(p2)":
				okOp = true
			case r == "p0.scope":
				okOp = true
			}
			c.Check("R3", fmt.Sprintf("format#%d-operand#%d", nFmt, k), ci.Pos(), okOp, "prefix operands are the timestamp (constant layout), the level abbreviation and the scope", r)
		}
	}
	if nFmt != 2 {
		c.Problem("R2", "expected two Sprintf calls in Logger.write, found %d", nFmt)
	}
	// the sink in write takes the φ of the two formats
	// (R1 already requires the neutralizer; here: the neutralizer's argument is one of the formats on every edge)
	for _, ci := range eng.CallsNamed(wr, "platform/terminal.NeutralizeControlCharacters") {
		okA := false
		if phi, ok := ci.Common().Args[0].(*ssa.Phi); ok {
			okA = true
			for _, e := range phi.Edges {
				call, ok := e.(*ssa.Call)
				if !ok || eng.CalleeName(call) != "fmt.Sprintf" {
					okA = false
				}
			}
		} else if call, ok := ci.Common().Args[0].(*ssa.Call); ok && eng.CalleeName(call) == "fmt.Sprintf" {
			okA = true
		}
		c.Check("R2", "neutralizes-the-formatted-record", ci.Pos(), okA, "the text neutralized and written is the formatted record", eng.Render(ci.Common().Args[0]))
	}

	// abbreviation(): constant table or '?'
	if ab := c.MustFunc("R3", loggingPkg, "Level.abbreviation"); ab != nil {
		for _, r := range eng.Returns(ab) {
			v := eng.RetResults(r)[0]
			okV := false
			if k, ok := eng.ConstInt64(v); ok {
				okV = k >= 0x21 && k < 0x7f
			} else if ix, ok := eng.Unwrap(v).(*ssa.Index); ok {
				if s, ok := eng.ConstString(ix.X); ok {
					okV = isControlFree(s)
				}
			} else if u, ok := eng.Unwrap(v).(*ssa.UnOp); ok {
				if ia, ok := u.X.(*ssa.IndexAddr); ok {
					_ = ia
				}
			}
			c.Check("R3", "abbreviation-printable", r.Pos(), okV, "a level abbreviation is a printable constant", eng.Render(v))
		}
	}
	// Logger literals
	pat, okPat := c.P.GlobalRegexPattern(loggingPkg, "nameMatcher")
	alpha, anchored, aerr := eng.RegexAlphabet(pat)
	okAlpha := okPat && aerr == nil && anchored
	if okAlpha {
		for i := 0; i+1 < len(alpha); i += 2 {
			if alpha[i] < 0x20 || (alpha[i] <= 0x7f && alpha[i+1] >= 0x7f) {
				okAlpha = false
			}
		}
	}
	c.Check("R3", "scope-names-control-free", token.NoPos, okAlpha, "sublogger names are validated by an anchored pattern whose alphabet has no control characters", fmt.Sprintf("%q %v", pat, aerr))
	sfield, _ := c.P.Field(loggingPkg, "Logger", "scope")
	nLit := 0
	for _, fn := range c.P.ModuleFuncs(loggingPkg) {
		eng.EachInstr(fn, func(i ssa.Instruction) {
			st, ok := i.(*ssa.Store)
			if !ok {
				return
			}
			fa, ok := st.Addr.(*ssa.FieldAddr)
			if !ok || eng.FieldOf(fa) != sfield {
				return
			}
			nLit++
			g := eng.Guards(st)
			validated := eng.HasAtom(g, `^\(\*regexp\.Regexp\)\.MatchString\(logging\.nameMatcher, p1\)$`, true)
			okV := false
			switch v := st.Val.(type) {
			case *ssa.Phi:
				okV = validated
				for _, e := range v.Edges {
					r := eng.Render(e)
					if r != "p1" && r != `((p0.scope + ".") + p1)` {
						okV = false
					}
				}
			case *ssa.Parameter:
				okV = validated && eng.Render(v) == "p1"
			}
			c.Check("R3", "scope-from-validated-name@"+eng.FuncName(fn), st.Pos(), okV, "a logger's scope is a validated name, or the parent's scope joined to one with '.'", eng.Render(st.Val))
		})
	}
	if nLit < 1 {
		c.Problem("R3", "no Logger scope assignment found")
	}

	// ---- R4 ----
	if cb := c.MustFunc("R4", loggingPkg, "Logger.Writer$1"); cb != nil {
		for _, ci := range eng.CallsNamed(cb, "platform/terminal.NeutralizeControlCharacters") {
			phi, ok := ci.Common().Args[0].(*ssa.Phi)
			okA := ok
			detail := ""
			if ok {
				for _, e := range phi.Edges {
					switch v := e.(type) {
					case *ssa.BinOp:
						s, isS := eng.ConstString(v.Y)
						if !(v.Op == token.ADD && eng.Render(v.X) == "p0" && isS && s == "\n") {
							okA, detail = false, eng.Render(e)
						}
					case *ssa.Call:
						f, isS := eng.ConstString(v.Call.Args[0])
						if !(eng.CalleeName(v) == "fmt.Sprintf" && isS && strings.HasSuffix(f, "\n") && strings.Count(f, "\n") == 1 && isControlFree(strings.TrimSuffix(f, "\n"))) {
							okA, detail = false, f
							break
						}
						for _, op := range eng.VarargElems(v.Common()) {
							r := eng.Render(op)
							fromLine := strings.HasPrefix(r, "(*regexp.Regexp).FindStringSubmatch(logging.linePrefixMatcher, p0)[") || strings.HasPrefix(r, "p0[")
							if !fromLine && r != "*fv:l.scope" && r != "fv:l.scope" {
								okA, detail = false, r
							}
						}
					default:
						okA, detail = false, eng.Render(e)
					}
				}
			}
			c.Check("R4", "relayed-line-single-newline", ci.Pos(), okA, "a relayed logger line is the line (optionally with the scope injected) plus exactly one trailing newline, neutralized as a whole", detail)
		}
		// every exit: gate, log, warn or sink
		for n, r := range eng.Returns(cb) {
			blk := r.Block()
			kind := ""
			for _, in := range blk.Instrs {
				if ci, ok := in.(ssa.CallInstruction); ok {
					switch {
					case eng.CalleeName(ci) == "(*logging.Logger).log":
						kind = "logged as a message"
					case eng.CalleeName(ci) == "(*logging.Logger).Warn":
						if s, ok := eng.ConstString(eng.VarargElems(ci.Common())[0]); ok && isControlFree(s) {
							kind = "constant warning"
						}
					case ci.Common().IsInvoke() && ci.Common().Method.Name() == "Write":
						kind = "written (see R1)"
					}
				}
			}
			if kind == "" {
				g := eng.Guards(r)
				for _, a := range g {
					if strings.Contains(a.Expr, ".level < logging.abbreviationToLevel(") && a.Pos {
						kind = "dropped by the level gate"
					}
				}
			}
			c.Check("R4", fmt.Sprintf("relay-exit#%d", n+1), r.Pos(), kind != "", "every exit of the relay callback logs through the logger, writes neutralized text, or drops the line because of its level", kind)
		}
	}

	// ---- R5 ----
	if nz := c.MustFunc("R5", terminalPkg, "NeutralizeControlCharacters"); nz != nil {
		okN := false
		for _, r := range eng.Returns(nz) {
			if call, ok := eng.Unwrap(eng.RetResults(r)[0]).(*ssa.Call); ok && eng.CalleeName(call) == "(*strings.Replacer).Replace" &&
				eng.Render(call.Call.Args[0]) == "platform/terminal.controlCharacterNeutralizer" && eng.Render(call.Call.Args[1]) == "p0" {
				okN = true
			}
		}
		c.Check("R5", "neutralize-applies-the-table", nz.Pos(), okN, "NeutralizeControlCharacters returns the replacer's result for its argument")
	}
	if initFn := c.P.Pkg(terminalPkg).Func("init"); initFn != nil {
		replaced := map[string]string{}
		found := false
		for _, ci := range eng.CallsNamed(initFn, "strings.NewReplacer") {
			// stored into the global
			for _, ref := range *ci.(*ssa.Call).Referrers() {
				if st, ok := ref.(*ssa.Store); ok {
					if g, ok := st.Addr.(*ssa.Global); ok && g.Name() == "controlCharacterNeutralizer" {
						found = true
					}
				}
			}
			el := eng.VarargElems(ci.Common())
			for i := 0; i+1 < len(el); i += 2 {
				o, ok1 := eng.ConstString(el[i])
				n, ok2 := eng.ConstString(el[i+1])
				if ok1 && ok2 {
					replaced[o] = n
				} else {
					found = false
				}
			}
		}
		_, esc := replaced["\x1b"]
		_, crr := replaced["\r"]
		c.Check("R5", "table-covers-escape-and-carriage-return", initFn.Pos(), found && esc && crr, "the neutralizer replaces at least ESC and CR", fmt.Sprintf("%q", replaced))
		okRep := len(replaced) > 0
		for _, n := range replaced {
			if !isControlFree(n) {
				okRep = false
			}
		}
		c.Check("R5", "replacements-control-free", initFn.Pos(), okRep, "no replacement text contains a control character")
	} else {
		c.Problem("R5", "initializer of package terminal not found")
	}
}
