package rules

import "verif/sa/eng"

// c12LinkPath (C12.R9, shared in spirit with C16.R3): whether a symbolic link
// is reported as a link or as Problematic depends on the depth of the LINK:
// scanner.symbolicLink hands normalizeSymbolicLinkAndEnsurePortable its
// root-relative path parameter, not the base name (whose depth is always 0, so
// every in-root `../x` target in a subdirectory would be reported problematic).
func c12LinkPath(c *eng.Ctx) {
	fn := c.MustFunc("R9", corePkg, "scanner.symbolicLink")
	if fn == nil {
		return
	}
	n := 0
	for _, call := range eng.CallsNamed(fn, "synchronization/core.normalizeSymbolicLinkAndEnsurePortable") {
		n++
		c.Check("R9", "link-depth-from-path", call.Pos(), eng.Render(call.Common().Args[0]) == "p1", "the portability check measures the link's depth from its root-relative path", eng.Render(call.Common().Args[0]))
	}
	if n == 0 {
		c.Problem("R9", "scanner.symbolicLink does not call the portability check")
	}
}
