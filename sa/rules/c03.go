package rules

import (
	"fmt"
	"strings"

	"golang.org/x/tools/go/ssa"

	"verif/sa/eng"
)

func init() {
	eng.Register(&eng.Property{
		ID:       "C03",
		Title:    "Ignored, unsupported and problematic content is never removed or replaced",
		Packages: []string{corePkg},
		Explanation: "(R1) every path of reconcile that reaches an emission, a recursion or a handler has established, for alpha and for beta, `side == nil or side.Kind != Problematic`; " +
			"(R2, residue guard) in every handler, every path that plans a change for side X carries len(diff(path, X.synchronizable(), X)) > 0 = false — X holds nothing unsynchronizable below the path — for both X the planner may overwrite; " +
			"(R3) removeDirectory removes the directory itself only under all its loop flags (unknown content / failed child / cancelled) being false; a directory entry found on disk but not listed in the expected entry sets a flag and reaches no removal call; flags are never cleared; " +
			"(R4) remove*/create* helpers run only under the matching Kind test of the entry they are handed; the fall-through arm only records a problem; " +
			"(R5) Entry.synchronizable returns the receiver itself only for non-directories or empty directories, nil for nil/unsynchronizable kinds, and otherwise a fresh entry whose children are exactly the non-nil synchronizable() images of the children; EntryKind.synchronizable is true only for Directory, File, SymbolicLink. " +
			"(R6) file creation never replaces existing (possibly untracked) content: only swapFile asks findAndMoveStagedFileIntoPlace for a replacing move, and every Rename inside it — including the cross-device fallback — passes the caller's replace flag and targets (parent, name). " +
			"(R7, shared with C14.R5/C15.R3) the scan's ignore decision table: ignored content is recorded as Untracked, and the ignore mask is inherited by the contents of a nominal directory, set below an ignored one and cleared only below an explicitly unignored one — content that is ignored must never be scanned as tracked (it would then be planned for removal). " +
			"Not decided: what happens on disk under concurrent modification (C08), Docker phantom handling (C15).",
		Assumptions: []string{"diff/synchronizable are pure"},
		Run:         runC03,
	})
}

func runC03(c *eng.Ctx) {
	rec := c.MustFunc("R1", corePkg, "reconciler.reconcile")
	if rec == nil {
		return
	}
	scanIgnoreTable(c, "R7")
	kinds, _ := c.P.ConstsOfType(corePkg, "EntryKind")
	problematic := kinds["EntryKind_Problematic"]
	// R1: paths to the first "effect" (emission, recursion or handler call).
	isEffect := func(b *ssa.BasicBlock) bool {
		if len(emissionsIn(b)) > 0 {
			return true
		}
		for _, in := range b.Instrs {
			if call, ok := in.(*ssa.Call); ok {
				n := eng.CalleeName(call)
				if strings.Contains(n, "core.reconciler).") {
					return true
				}
			}
		}
		return false
	}
	paths, complete := eng.EnumPathsOpt(rec.Blocks[0], isEffect, 20000, storesDisjointFromConditions(rec))
	if !complete {
		c.Problem("R1", "too many paths in reconcile")
	}
	n, bad := 0, 0
	var sample string
	for _, p := range paths {
		if !isEffect(p.Last()) {
			continue
		}
		n++
		for _, side := range []string{"p3", "p4"} {
			isNil := pathAtomEq(p, "("+side+" == nil)", true)
			notProb := pathAtomEq(p, fmt.Sprintf("(%s.Kind == %d:EntryKind)", side, problematic), false)
			if !isNil && !notProb {
				bad++
				sample = atomsOf(p)
			}
		}
	}
	c.Check("R1", "problematic-skipped", rec.Pos(), n >= 3 && bad == 0, "nothing is planned at or below a path where either side is problematic", fmt.Sprintf("%d effect paths, %d lacking the test; e.g. %s", n, bad, sample))
	// and the problematic arms exist and return without effects: a path that
	// carries the fact «side is problematic» ends in a return before any effect
	// (paths stop at the first effect, so such a path has none).
	for _, side := range []string{"p3", "p4"} {
		arms, withEffect := 0, 0
		for _, p := range paths {
			if !pathAtomEq(p, fmt.Sprintf("(%s.Kind == %d:EntryKind)", side, problematic), true) {
				continue
			}
			if isEffect(p.Last()) {
				withEffect++
			} else {
				arms++
			}
		}
		c.Check("R1", "problematic-arm:"+side, rec.Pos(), arms > 0 && withEffect == 0, "the problematic arm returns without planning anything", fmt.Sprintf("%d returning paths, %d reaching an effect", arms, withEffect))
	}
	c.Floor("R1", 3)

	// R2.
	nres := 0
	for _, hn := range reconcileHandlers {
		h := c.MustFunc("R2", corePkg, hn)
		if h == nil {
			continue
		}
		sites := distinctEmitSites(h)
		for _, hp := range handlerPaths(c, "R2", h) {
			for _, e := range hp.emits {
				var side string
				switch e.list {
				case "alphaChanges":
					side = rAlpha
				case "betaChanges":
					side = rBeta
				default:
					continue
				}
				nres++
				res := sideResidue(side)
				ok := lenZeroAtom(hp.path, res, true)
				c.Check("R2", emitKey(h, sites[e.store], e), e.store.Pos(), ok, "a change for "+sideName(side)+" is planned only if "+sideName(side)+" holds no unsynchronizable content under the path (otherwise: conflict)", atomsOf(hp.path))
			}
		}
	}
	if nres < 9 {
		c.Problem("R2", "expected ≥9 change-planning paths over the handlers, found %d", nres)
	}

	trRemoveDirectoryFlags(c, "R3")
	trKindDispatch(c, "R4")
	trSwapFile(c, "R6")
	c03Synchronizable(c, "R5", kinds)
}

func c03Synchronizable(c *eng.Ctx, rule string, kinds map[string]int64) {
	fn := c.MustFunc(rule, corePkg, "Entry.synchronizable")
	if fn == nil {
		return
	}
	dir := kinds["EntryKind_Directory"]
	var fresh *ssa.Alloc
	nself := 0
	for _, r := range eng.Returns(fn) {
		rv := eng.RetResults(r)[0]
		g := eng.Guards(r)
		switch {
		case eng.IsNilConst(rv):
			// (decided per way into the return, so that `a || b` forms are understood)
			ok, _ := everyPathTo(r.Block(), 2000, func(p eng.Path) bool {
				return pathHas(p, `^\(p0 == nil\)$`, true) || pathHas(p, `^\(synchronization/core\.EntryKind\)\.synchronizable\(p0\.Kind\)$`, false)
			})
			c.Check(rule, "nil-result", r.Pos(), ok, "nil is returned only for a nil entry or an unsynchronizable kind", eng.AtomsText(g))
		case eng.Render(rv) == "p0":
			nself++
			ok, _ := everyPathTo(r.Block(), 2000, func(p eng.Path) bool {
				return pathHas(p, fmt.Sprintf(`^\(p0\.Kind == %d:EntryKind\)$`, dir), false) || pathHas(p, `^\(len\(p0\.Contents\) == 0\)$`, true)
			})
			c.Check(rule, "self-result", r.Pos(), ok, "the entry itself is returned only if it is not a directory or has no contents (nothing to filter)", eng.AtomsText(g))
		default:
			if a, ok := eng.Unwrap(rv).(*ssa.Alloc); ok {
				fresh = a
				c.Check(rule, "fresh-result", r.Pos(), true, "a filtered directory is a fresh entry")
			} else {
				c.Check(rule, "other-result", r.Pos(), false, "unexpected result form", eng.Render(rv))
			}
		}
	}
	if fresh == nil {
		c.Problem(rule, "synchronizable has no filtered-copy path")
		return
	}
	// Children: every map update into the fresh entry's contents stores child.synchronizable() under non-nil.
	nup := 0
	eng.EachInstr(fn, func(i ssa.Instruction) {
		mu, ok := i.(*ssa.MapUpdate)
		if !ok {
			return
		}
		nup++
		vr := eng.Render(mu.Value)
		isSyn := strings.HasPrefix(vr, "(*synchronization/core.Entry).synchronizable(next(range(p0.Contents))#2)")
		g := eng.Guards(mu)
		nonNil := eng.HasAtom(g, `^\(`+eng.Q(vr)+` == nil\)$`, false)
		keyOK := eng.Render(mu.Key) == "next(range(p0.Contents))#1"
		c.Check(rule, "child-filtered", mu.Pos(), isSyn && nonNil && keyOK, "each kept child is the non-nil synchronizable() image of the same-named child", vr)
	})
	if nup != 1 {
		c.Problem(rule, "expected one map update in synchronizable, found %d", nup)
	}
	// Kind table.
	if ks := c.MustFunc(rule, corePkg, "EntryKind.synchronizable"); ks != nil {
		for _, r := range eng.Returns(ks) {
			be, err := eng.BoolExprOf(eng.RetResults(r)[0])
			if err != nil {
				c.Problem(rule, "%v", err)
				continue
			}
			a := func(k int64) string { return fmt.Sprintf("(p0 == %d:EntryKind)", k) }
			ad, af, al := a(kinds["EntryKind_Directory"]), a(kinds["EntryKind_File"]), a(kinds["EntryKind_SymbolicLink"])
			eq, cex, err := eng.TruthTableEqual(be, []string{ad, af, al}, func(env map[string]bool) bool { return env[ad] || env[af] || env[al] })
			if err != nil {
				c.Problem(rule, "%v", err)
				continue
			}
			c.Check(rule, "kind-table", r.Pos(), eq, "a kind is synchronizable iff it is Directory, File or SymbolicLink", fmt.Sprintf("%s; counterexample %v", be, cex))
		}
	}
	c.Floor(rule, 5)
}
