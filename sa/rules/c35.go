package rules

import (
	"fmt"
	"strings"

	"golang.org/x/tools/go/ssa"

	"verif/sa/eng"
)

const transportPkg = "pkg/agent/transport"

func init() {
	eng.Register(&eng.Property{
		ID:       "C35",
		Title:    "Closing an agent connection always terminates the agent",
		Packages: []string{transportPkg},
		Explanation: "(R1) every value Stream.Close returns was received from the channel fed by process.Wait() — Close never returns before the process was reaped; that channel has capacity 1 and is written exactly once by a goroutine started at the top of Close; " +
			"(R2, escalation order) closing standard input precedes SIGTERM (non-Windows), which precedes Process.Kill, and the final unconditional receive of the wait result is dominated by the Kill call on every platform branch; " +
			"(R3) every wait before the kill is a select that also listens on the timer; the only unbounded receive is the one after Kill; " +
			"(R4) NewStream never assigns the command's Stdout/Stderr/Stdin fields to Go writers/readers: it uses the pipe methods and its own forwarding goroutine, so os/exec's Wait is not held hostage by descendants that keep the pipe open (golang/go#23019). " +
			"Not decided: that the OS delivers the signals; uninterruptible processes.",
		Assumptions:  []string{"Process.Kill terminates the process; exec.Cmd.Wait returns once the process exited when no Cmd-managed copy goroutines exist"},
		ThoroughGOOS: []string{"windows", "darwin"},
		Run:          runC35,
	})
}

func runC35(c *eng.Ctx) {
	cl := c.MustFunc("R1", transportPkg, "Stream.Close")
	if cl == nil {
		return
	}
	var mk *ssa.MakeChan
	eng.EachInstr(cl, func(i ssa.Instruction) {
		if m, ok := i.(*ssa.MakeChan); ok && mk == nil {
			mk = m
		}
	})
	if mk == nil {
		c.Problem("R1", "Close has no wait-result channel")
		return
	}
	capV, _ := eng.ConstInt64(mk.Size)
	c.Check("R1", "wait-channel-capacity", mk.Pos(), capV == 1, "the wait-result channel buffers the single result (the waiting goroutine never blocks)", fmt.Sprint(capV))
	// goroutine: sends process.Wait() once
	nGo := 0
	eng.EachInstr(cl, func(i ssa.Instruction) {
		g, ok := i.(*ssa.Go)
		if !ok {
			return
		}
		nGo++
		mc, ok := g.Call.Value.(*ssa.MakeClosure)
		okW := false
		if ok {
			for _, op := range eng.ChanOps(mc.Fn.(*ssa.Function)) {
				if op.Send && strings.Contains(eng.Render(op.Val), "exec.Cmd).Wait(") {
					okW = true
				}
			}
		}
		c.Check("R1", "waiter-goroutine", g.Pos(), okW && g.Block() == cl.Blocks[0], "a goroutine started at the top of Close delivers process.Wait()'s result")
	})
	if nGo != 1 {
		c.Problem("R1", "expected one goroutine in Close, found %d", nGo)
	}
	isFromWait := func(v ssa.Value) bool {
		r := eng.Render(v)
		if strings.HasPrefix(r, "recv(") && strings.Contains(r, "makechan") {
			return true
		}
		if ex, ok := v.(*ssa.Extract); ok {
			if sel, ok := ex.Tuple.(*ssa.Select); ok {
				for _, st := range sel.States {
					if st.Chan == ssa.Value(mk) || eng.Deref(st.Chan) == ssa.Value(mk) {
						return ex.Index >= 2
					}
				}
			}
		}
		if u, ok := v.(*ssa.UnOp); ok && (u.X == ssa.Value(mk) || eng.Deref(u.X) == ssa.Value(mk)) {
			return true
		}
		return false
	}
	nRet := 0
	for _, r := range eng.Returns(cl) {
		nRet++
		res := eng.RetResults(r)
		c.Check("R1", fmt.Sprintf("returns-wait-result#%d", nRet), r.Pos(), isFromWait(res[0]), "Close returns a value received from the wait channel", eng.Render(res[0]))
	}

	// R2.
	var stdin, term, kill, final ssa.Instruction
	for _, call := range eng.Calls(cl) {
		cc := call.Common()
		n := eng.CalleeName(call)
		switch {
		case cc.IsInvoke() && cc.Method.Name() == "Close" && strings.Contains(eng.Render(cc.Value), "standardInput"):
			stdin = call
		case n == "(*os.Process).Signal":
			term = call
		case n == "(*os.Process).Kill":
			kill = call
		}
	}
	for _, op := range eng.ChanOps(cl) {
		if !op.Send && op.Select == nil {
			final = op.Instr
		}
	}
	dom := func(a, b ssa.Instruction) bool {
		if a == nil || b == nil {
			return false
		}
		return a.Block().Dominates(b.Block()) && (a.Block() != b.Block() || eng.InstrIndex(a) < eng.InstrIndex(b))
	}
	c.Check("R2", "stdin-closed-before-kill", cl.Pos(), dom(stdin, kill), "standard input is closed before the process is killed")
	if c.P.GOOS != "windows" {
		c.Check("R2", "stdin-before-sigterm", cl.Pos(), dom(stdin, term), "standard input is closed before SIGTERM is sent")
		// SIGTERM precedes Kill on the non-Windows branch: the kill's block is reachable from term and term's block does not follow kill
		c.Check("R2", "sigterm-before-kill", cl.Pos(), term != nil && kill != nil && !dom(kill, term) && eng.Reachable(term.Block(), nil)[kill.Block()], "SIGTERM is tried before the kill")
	}
	c.Check("R2", "final-wait-after-kill", cl.Pos(), dom(kill, final), "the final, unconditional wait for the process is dominated by Process.Kill on every branch (it cannot wait forever on a process that was only asked politely)")

	// R3.
	nSel := 0
	eng.EachInstr(cl, func(i ssa.Instruction) {
		s, ok := i.(*ssa.Select)
		if !ok {
			return
		}
		nSel++
		timer := false
		for _, st := range s.States {
			if strings.HasSuffix(eng.Render(st.Chan), ".C") {
				timer = true
			}
		}
		c.Check("R3", fmt.Sprintf("bounded-wait#%d", nSel), s.Pos(), s.Blocking && timer, "a wait before the kill also listens on the timer")
	})
	bare := 0
	for _, op := range eng.ChanOps(cl) {
		if !op.Send && op.Select == nil {
			bare++
		}
	}
	c.Check("R3", "single-unbounded-wait", cl.Pos(), bare == 1 && nSel >= 2, "exactly one receive is unbounded (the one after the kill)", fmt.Sprintf("bare=%d selects=%d", bare, nSel))

	// R4.
	if ns := c.MustFunc("R4", transportPkg, "NewStream"); ns != nil {
		bad := ""
		for _, f := range eng.WithClosures(ns) {
			eng.EachInstr(f, func(i ssa.Instruction) {
				if st, ok := i.(*ssa.Store); ok {
					if fa, ok := st.Addr.(*ssa.FieldAddr); ok && strings.HasSuffix(eng.TypeShort(fa.X.Type()), "exec.Cmd") {
						n := eng.FieldOf(fa).Name()
						if n == "Stderr" || n == "Stdout" || n == "Stdin" {
							bad = n
						}
					}
				}
			})
		}
		c.Check("R4", "no-cmd-managed-copying", ns.Pos(), bad == "", "NewStream does not let os/exec manage copy goroutines for the process's standard streams (Wait would then block on descendants holding the pipe)", bad)
		pipes := 0
		for _, call := range eng.Calls(ns) {
			switch eng.CalleeName(call) {
			case "(*os/exec.Cmd).StdinPipe", "(*os/exec.Cmd).StdoutPipe", "(*os/exec.Cmd).StderrPipe":
				pipes++
			}
		}
		c.Check("R4", "pipes-used", ns.Pos(), pipes >= 2, "the standard streams are obtained through the pipe methods", fmt.Sprint(pipes))
	}
}
