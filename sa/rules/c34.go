package rules

import (
	"fmt"
	"go/token"
	"strings"

	"golang.org/x/tools/go/ssa"

	"verif/sa/eng"
)

const mutagenPkg = "pkg/mutagen"

func init() {
	eng.Register(&eng.Property{
		ID:       "C34",
		Title:    "Version and magic-number handshakes agree on both sides",
		Packages: []string{mutagenPkg, agentPkg, "cmd/mutagen-agent"},
		Explanation: "(R1) ClientVersionHandshake and ServerVersionHandshake return nil only on paths where receiving and sending both succeeded and the received major, minor and patch were each tested equal to the local VersionMajor/Minor/Patch constants — all three, on both siblings; " +
			"(R2, layout agreement) sendVersion writes major/minor/patch big-endian at [0:4), [4:8), [8:12) of a 12-byte array and writes the whole array in one Write; receiveVersion fills the whole array with io.ReadFull (a short read is an error) and decodes the same three ranges into (major, minor, patch) in that order; neither function touches a package-level variable (the message buffer belongs to the call: handshakes run concurrently); " +
			"(R3) receiveAndCompareMagicNumber fills all three bytes with io.ReadFull and compares the whole array with the expected one (==); the client expects the server's number and sends the client's, the server does the reverse, and the two numbers differ; " +
			"(R3 addition) the client, which speaks second, sends its magic number only after the server's was received and matched — a rejected handshake therefore fails on both sides; " +
			"(R4) agent.connect hands out the stream only after ClientHandshake and ClientVersionHandshake both returned nil and closes it otherwise; the agent's server side (synchronizer, forwarder) performs ServerHandshake then ServerVersionHandshake before serving, returning on any error. " +
			"(R5) sendVersion and sendMagicNumber return the error of the Write that carries the message (nil only where that error was nil), so a handshake whose outgoing half failed fails on this side too; " +
			"Not decided: behaviour of the transport under corruption (follows from ReadFull/== by inspection).",
		Assumptions: []string{"io.ReadFull returns an error unless the buffer was filled"},
		Run:         runC34,
	})
}

func runC34(c *eng.Ctx) {
	c34SendReportsWriteError(c)
	consts := map[string]int64{}
	for _, n := range []string{"VersionMajor", "VersionMinor", "VersionPatch"} {
		v, err := c.P.ConstInt(mutagenPkg, n)
		if err != nil {
			c.Problem("R1", "%v", err)
		}
		consts[n] = v
	}
	// R1.
	for _, name := range []string{"ClientVersionHandshake", "ServerVersionHandshake"} {
		fn := c.MustFunc("R1", mutagenPkg, name)
		if fn == nil {
			continue
		}
		paths := pathsToNilReturns(c, "R1", fn, 5000)
		if len(paths) == 0 {
			c.Problem("R1", "%s has no accepting path", name)
			continue
		}
		for i, part := range []string{"VersionMajor", "VersionMinor", "VersionPatch"} {
			re := fmt.Sprintf(`^\(mutagen\.receiveVersion\(p0\)#%d == %d\)$`, i, consts[part])
			bad := 0
			for _, p := range paths {
				if !eng.HasAtom(p.ExpandedAtoms(), re, true) {
					bad++
				}
			}
			c.Check("R1", name+"/"+part, fn.Pos(), bad == 0, "success requires the peer's "+part+" to equal the local constant", fmt.Sprintf("%d of %d accepting paths lack the test", bad, len(paths)))
		}
		for _, need := range []struct{ n, re string }{{"receive-ok", `^\(mutagen\.receiveVersion\(p0\)#3 == nil\)$`}, {"send-ok", `^\(mutagen\.sendVersion\(p0\) == nil\)$`}} {
			bad := 0
			for _, p := range paths {
				if !pathHas(p, need.re, true) {
					bad++
				}
			}
			c.Check("R1", name+"/"+need.n, fn.Pos(), bad == 0, "success requires "+need.n)
		}
	}
	// R2.
	ranges := []string{"[:4]", "[4:8]", "[8:]"}
	if sv := c.MustFunc("R2", mutagenPkg, "sendVersion"); sv != nil {
		got := map[string]int64{}
		for _, call := range eng.Calls(sv) {
			if strings.HasSuffix(eng.CalleeName(call), "bigEndian).PutUint32") {
				a := call.Common().Args
				r := eng.Render(a[len(a)-2])
				v, _ := eng.ConstInt64(a[len(a)-1])
				got[r[strings.Index(r, "["):]] = v
			}
			if call.Common().IsInvoke() && call.Common().Method.Name() == "Write" {
				c.Check("R2", "send-whole-array", call.Pos(), strings.HasSuffix(eng.Render(call.Common().Args[0]), "[:]"), "the whole 12-byte array is written in one Write", eng.Render(call.Common().Args[0]))
			}
		}
		for i, part := range []string{"VersionMajor", "VersionMinor", "VersionPatch"} {
			v, ok := got[ranges[i]]
			c.Check("R2", "send-layout:"+part, sv.Pos(), ok && v == consts[part], part+" is encoded at "+ranges[i], fmt.Sprint(got))
		}
	}
	if rv := c.MustFunc("R2", mutagenPkg, "receiveVersion"); rv != nil {
		full := false
		for _, call := range eng.CallsNamed(rv, "io.ReadFull") {
			if strings.HasSuffix(eng.Render(call.Common().Args[1]), "[:]") && eng.Render(call.Common().Args[0]) == "p0" {
				full = true
			}
		}
		// io.ReadAtLeast(r, buf, len(buf)) is io.ReadFull(r, buf) by definition
		for _, call := range eng.CallsNamed(rv, "io.ReadAtLeast") {
			a := call.Common().Args
			if strings.HasSuffix(eng.Render(a[1]), "[:]") && eng.Render(a[0]) == "p0" && constIs(a[2], 12) {
				full = true
			}
		}
		c.Check("R2", "receive-fills-array", rv.Pos(), full, "the version array is filled completely with io.ReadFull (short reads are errors)")
		for _, r := range eng.Returns(rv) {
			res := eng.RetResults(r)
			if !eng.IsNilConst(res[3]) {
				continue
			}
			for i := range ranges {
				// explicit bounds of the 12-byte array are the same ranges: [0:4] = [:4], [8:12] = [8:]
				rr := strings.Replace(strings.Replace(eng.Render(res[i]), "[0:", "[:", 1), ":12]", ":]", 1)
				c.Check("R2", fmt.Sprintf("receive-layout#%d", i), r.Pos(), strings.HasSuffix(rr, ranges[i]+")") && strings.Contains(rr, "bigEndian).Uint32("), fmt.Sprintf("result %d is decoded from %s", i, ranges[i]), rr)
			}
			c.Check("R2", "receive-success-after-full-read", r.Pos(), eng.HasAtom(eng.Guards(r), `^\(io\.(ReadFull|ReadAtLeast)\(p0, .*\)#1 == nil\)$`, true), "values are returned only after the full read succeeded")
		}
	}
	if n, err := c.P.Named(mutagenPkg, "versionBytes"); err == nil {
		c.Check("R2", "array-is-12-bytes", n.Obj().Pos(), eng.TypeShort(n.Underlying()) == "[12]byte", "the version message is 12 bytes", eng.TypeShort(n.Underlying()))
	}
	// R2 (message buffers are per handshake): neither function touches a
	// package-level variable. Several handshakes run concurrently in one process
	// (one per agent connection); a shared scratch buffer lets one handshake's
	// bytes be overwritten by another's between the read and the comparison.
	for _, name := range []string{"sendVersion", "receiveVersion"} {
		if fn := c.MustFunc("R2", mutagenPkg, name); fn != nil {
			shared := ""
			eng.EachInstr(fn, func(i ssa.Instruction) {
				for _, op := range i.Operands(nil) {
					if op == nil || *op == nil {
						continue
					}
					if g, ok := (*op).(*ssa.Global); ok && g.Pkg == fn.Pkg {
						shared = g.Name()
					}
				}
			})
			c.Check("R2", "buffer-is-local:"+name, fn.Pos(), shared == "", "the version message is encoded/decoded in memory owned by this call (no package-level variable of the package is touched)", shared)
		}
	}
	c.Floor("R2", 10)

	// R3.
	if rc := c.MustFunc("R3", agentPkg, "receiveAndCompareMagicNumber"); rc != nil {
		full := false
		var buffer ssa.Value // the array the magic bytes are read into
		for _, call := range eng.CallsNamed(rc, "io.ReadFull") {
			if sl, ok := call.Common().Args[1].(*ssa.Slice); ok && sl.Low == nil && sl.High == nil {
				full = true
				buffer = sl.X
			}
		}
		c.Check("R3", "magic-read-full", rc.Pos(), full, "all magic bytes are read with io.ReadFull")
		for _, r := range eng.Returns(rc) {
			res := eng.RetResults(r)
			if !eng.IsNilConst(res[1]) {
				continue
			}
			rr := eng.Render(res[0])
			okCmp := false
			if b, ok := res[0].(*ssa.BinOp); ok && b.Op == token.EQL && buffer != nil {
				isBuf := func(v ssa.Value) bool { // a load of the whole array that was read into
					u, ok := v.(*ssa.UnOp)
					return ok && u.Op == token.MUL && u.X == buffer
				}
				isExp := func(v ssa.Value) bool { return eng.Render(v) == "p1" }
				okCmp = (isBuf(b.X) && isExp(b.Y)) || (isBuf(b.Y) && isExp(b.X))
			}
			// bytes.Equal(received[:], expected[:]) compares the same two whole arrays
			if call, ok := eng.Unwrap(res[0]).(*ssa.Call); ok && eng.CalleeName(call) == "bytes.Equal" && buffer != nil && len(call.Call.Args) == 2 {
				whole := func(v ssa.Value) ssa.Value { // X of a full slice X[:]
					if sl, ok := eng.Unwrap(v).(*ssa.Slice); ok && sl.Low == nil && sl.High == nil {
						return sl.X
					}
					return nil
				}
				isParamCell := func(v ssa.Value) bool { // the cell the expected array (p1) was spilled into
					al, ok := v.(*ssa.Alloc)
					if !ok {
						return false
					}
					stores, fromParam := 0, false
					for _, ref := range *al.Referrers() {
						if st, ok := ref.(*ssa.Store); ok && st.Addr == ssa.Value(al) {
							stores++
							fromParam = eng.Render(st.Val) == "p1"
						}
					}
					return stores == 1 && fromParam
				}
				x, y := whole(call.Call.Args[0]), whole(call.Call.Args[1])
				if x != nil && y != nil && ((x == buffer && isParamCell(y)) || (y == buffer && isParamCell(x))) {
					okCmp = true
				}
			}
			c.Check("R3", "magic-whole-array-compared", r.Pos(), okCmp, "the verdict is the comparison of the whole received array with the expected one", rr)
		}
	}
	type side struct{ fn, expect, send string }
	for _, s := range []side{{"ClientHandshake", "serverMagicNumber", "clientMagicNumber"}, {"ServerHandshake", "clientMagicNumber", "serverMagicNumber"}} {
		fn := c.MustFunc("R3", agentPkg, s.fn)
		if fn == nil {
			continue
		}
		for _, call := range eng.Calls(fn) {
			switch eng.CalleeName(call) {
			case "agent.receiveAndCompareMagicNumber":
				c.Check("R3", s.fn+"/expects", call.Pos(), eng.Render(call.Common().Args[1]) == "agent."+s.expect, s.fn+" expects the other side's magic number", eng.Render(call.Common().Args[1]))
			case "agent.sendMagicNumber":
				c.Check("R3", s.fn+"/sends", call.Pos(), eng.Render(call.Common().Args[1]) == "agent."+s.send, s.fn+" sends its own magic number", eng.Render(call.Common().Args[1]))
			}
		}
		// The client, which speaks second, answers only a verified server: its own
		// number goes out only where the server's number was received and matched.
		// (Were it sent first, a server whose number arrived corrupted would see a
		// valid answer and proceed while the client has already given up.)
		if s.fn == "ClientHandshake" {
			for _, call := range eng.CallsNamed(fn, "agent.sendMagicNumber") {
				g := eng.Guards(call)
				ok := eng.HasAtom(g, `^agent\.receiveAndCompareMagicNumber\(p0, agent\.`+s.expect+`\)#0$`, true) &&
					eng.HasAtom(g, `^\(agent\.receiveAndCompareMagicNumber\(p0, agent\.`+s.expect+`\)#1 == nil\)$`, true)
				c.Check("R3", "client-answers-only-verified-server", call.Pos(), ok, "the client sends its magic number only after the server's number was received and found correct — so a rejected handshake fails on both sides", atomsShort(g))
			}
		}
		paths := pathsToNilReturns(c, "R3", fn, 2000)
		bad := 0
		for _, p := range paths {
			ok := pathHas(p, `^agent\.receiveAndCompareMagicNumber\(p0, agent\.`+s.expect+`\)#0$`, true) &&
				pathHas(p, `^\(agent\.receiveAndCompareMagicNumber\(p0, agent\.`+s.expect+`\)#1 == nil\)$`, true) &&
				pathHas(p, `^\(agent\.sendMagicNumber\(p0, agent\.`+s.send+`\) == nil\)$`, true)
			if !ok {
				bad++
			}
		}
		c.Check("R3", s.fn+"/success-conditions", fn.Pos(), len(paths) > 0 && bad == 0, s.fn+" succeeds only if the peer's number matched and both I/O steps succeeded", fmt.Sprintf("%d of %d", bad, len(paths)))
	}
	// the two numbers differ: read the package initializer
	if initFn := c.P.Pkg(agentPkg).Func("init"); initFn != nil {
		vals := map[string][]int64{}
		eng.EachInstr(initFn, func(i ssa.Instruction) {
			if st, ok := i.(*ssa.Store); ok {
				if ia, ok := st.Addr.(*ssa.IndexAddr); ok {
					base := eng.Render(ia.X)
					if strings.HasSuffix(base, "MagicNumber") {
						v, _ := eng.ConstInt64(st.Val)
						vals[base] = append(vals[base], v)
					}
				}
			}
		})
		var keys []string
		for k := range vals {
			keys = append(keys, k)
		}
		differ := len(keys) == 2 && fmt.Sprint(vals[keys[0]]) != fmt.Sprint(vals[keys[1]]) && len(vals[keys[0]]) == 3
		c.Check("R3", "magic-numbers-differ", initFn.Pos(), differ, "client and server magic numbers are different 3-byte values", fmt.Sprint(vals))
	}
	c.Floor("R3", 8)

	// R4.
	if cn := c.MustFunc("R4", agentPkg, "connect"); cn != nil {
		for _, r := range eng.Returns(cn) {
			res := eng.RetResults(r)
			if eng.IsNilConst(res[0]) {
				continue
			}
			g := eng.Guards(r)
			c.Check("R4", "client-stream-after-magic", r.Pos(), eng.HasAtom(g, `^\(agent\.ClientHandshake\(.*\) == nil\)$`, true), "the stream is returned only after the magic-number handshake succeeded")
			c.Check("R4", "client-stream-after-version", r.Pos(), eng.HasAtom(g, `^\(mutagen\.ClientVersionHandshake\(.*\) == nil\)$`, true), "… and after the version handshake succeeded")
		}
		for _, hs := range []string{"agent.ClientHandshake", "mutagen.ClientVersionHandshake"} {
			for _, call := range eng.CallsNamed(cn, hs) {
				cv := call.(*ssa.Call)
				closed := false
				for _, cl := range eng.Calls(cn) {
					if strings.HasSuffix(eng.CalleeName(cl), ".Close") && eng.HasAtom(eng.Guards(cl), `^\(`+eng.Q(eng.Render(cv))+` == nil\)$`, false) {
						closed = true
					}
				}
				c.Check("R4", "client-closes-on-failed:"+hs, call.Pos(), closed, "a failed handshake closes the stream")
			}
		}
	}
	for _, srv := range []string{"synchronizerMain", "forwarderMain"} {
		fn, err := c.P.Func("cmd/mutagen-agent", srv)
		if err != nil {
			c.Problem("R4", "%v", err)
			continue
		}
		c.Analysed(fn)
		var magic, ver *ssa.Call
		for _, call := range eng.Calls(fn) {
			switch eng.CalleeName(call) {
			case "agent.ServerHandshake":
				magic, _ = call.(*ssa.Call)
			case "mutagen.ServerVersionHandshake":
				ver, _ = call.(*ssa.Call)
			}
		}
		ok := magic != nil && ver != nil && eng.HasAtom(eng.Guards(ver), `^\(agent\.ServerHandshake\(.*\) == nil\)$`, true)
		c.Check("R4", "server-order:"+srv, fn.Pos(), ok, "the agent performs the magic-number handshake, then — only if it succeeded — the version handshake")
		if ver != nil {
			// anything that serves (calls into endpoint/forwarding serve functions) is guarded by both
			n := 0
			for _, call := range eng.Calls(fn) {
				nm := eng.CalleeName(call)
				if strings.Contains(nm, "ServeEndpoint") || strings.Contains(nm, "Serve") && !strings.Contains(nm, "Handshake") {
					n++
					g := eng.Guards(call)
					c.Check("R4", "server-serves-after-handshakes:"+srv, call.Pos(), eng.HasAtom(g, `^\(mutagen\.ServerVersionHandshake\(.*\) == nil\)$`, true) && eng.HasAtom(g, `^\(agent\.ServerHandshake\(.*\) == nil\)$`, true), "serving starts only after both handshakes succeeded", nm)
				}
			}
			if n == 0 {
				c.Note("R4: no Serve* call found in %s", srv)
			}
		}
	}
}
